/-
C06 / C01 — the module scheduler: every schedule drains, every module is processed exactly once,
no `assert` of processModule/getProcessedModule can fail, and the final processing state of a
module does not depend on the schedule.  Theorems over `PdModel.Schedule`.
-/
import PdModel.Schedule
import PdModel.PostProcess

namespace Schedule

/-! ## helpers -/

def noAssert (l : List Event) : Prop := ∀ m, Event.assertFail m ∉ l

/-- the state a module ends in: PROCESSED if its file parses, PROCESSING (reported) otherwise -/
def final (mods : List Mod) (k : Nat) : PState :=
  match mods[k]? with
  | some md => if md.parses then .processed else .processing
  | none => .processing

def starts (l : List Event) (m : Nat) : Nat := l.count (Event.start m)

structure Inv (n : Nat) (s : State) : Prop where
  len : s.st.length = n
  nodup : s.unprocessed.Nodup
  iff : ∀ m, (m ∈ s.unprocessed ↔ getSt s m = .unprocessed)
  noassert : noAssert s.log
  once : ∀ m, starts s.log m = if m ∈ s.unprocessed then 0 else (if m < n then 1 else 0)

theorem getSt_lt {n : Nat} {s : State} (h : Inv n s) {m : Nat} (hm : getSt s m = .unprocessed) : m < n := by
  by_cases hlt : m < n
  · exact hlt
  · exfalso
    have : s.st.length ≤ m := by rw [h.len]; omega
    simp [getSt, List.getD_eq_getElem?_getD, List.getElem?_eq_none this] at hm

theorem getD_set (l : List PState) (i j : Nat) (v d : PState) :
    (l.set i v).getD j d = if i = j ∧ i < l.length then v else l.getD j d := by
  simp only [List.getD_eq_getElem?_getD, List.getElem?_set]
  by_cases hij : i = j
  · subst hij
    by_cases hl : i < l.length
    · simp [hl]
    · simp [hl, List.getElem?_eq_none (Nat.le_of_not_lt hl)]
  · simp [hij]

theorem starts_append (l l' : List Event) (m : Nat) : starts (l ++ l') m = starts l m + starts l' m := by
  simp [starts, List.count_append]

theorem noAssert_append {l l' : List Event} (h : noAssert l) (h' : noAssert l') : noAssert (l ++ l') := by
  intro m hm
  rcases List.mem_append.mp hm with h1 | h1
  · exact h m h1
  · exact h' m h1

/-- what one call (of `processModule` or `visitBody`) guarantees about the state it returns -/
structure Step (mods : List Mod) (n : Nat) (s s' : State) : Prop where
  inv : Inv n s'
  sub : s'.unprocessed.Sublist s.unprocessed
  frame : ∀ k, k ∉ s.unprocessed → getSt s' k = getSt s k
  done : ∀ k, k ∈ s.unprocessed → k ∉ s'.unprocessed → getSt s' k = final mods k

theorem Step.refl {mods : List Mod} {n : Nat} {s : State} (h : Inv n s) : Step mods n s s :=
  ⟨h, List.Sublist.refl _, fun _ _ => rfl, fun _ h1 h2 => absurd h1 h2⟩

theorem Step.trans {mods : List Mod} {n : Nat} {s s1 s2 : State}
    (h1 : Step mods n s s1) (h2 : Step mods n s1 s2) : Step mods n s s2 := by
  refine ⟨h2.inv, h2.sub.trans h1.sub, ?_, ?_⟩
  · intro k hk
    have hk1 : k ∉ s1.unprocessed := fun h => hk (h1.sub.subset h)
    rw [h2.frame k hk1, h1.frame k hk]
  · intro k hk hk2
    by_cases hk1 : k ∈ s1.unprocessed
    · exact h2.done k hk1 hk2
    · rw [h2.frame k hk1]; exact h1.done k hk hk1

/-- appending non-`start`, non-`assertFail` events keeps everything -/
theorem Step.log {mods : List Mod} {n : Nat} {s s' : State} (h : Step mods n s s') (evs : List Event)
    (hs : ∀ m, starts evs m = 0) (ha : noAssert evs) :
    Step mods n s { s' with log := s'.log ++ evs } := by
  refine ⟨⟨h.inv.len, h.inv.nodup, h.inv.iff, noAssert_append h.inv.noassert ha, ?_⟩, h.sub, h.frame, h.done⟩
  intro m
  rw [starts_append, hs m, Nat.add_zero]
  exact h.inv.once m

def PMspec (mods : List Mod) (n : Nat) (f : Nat) : Prop :=
  ∀ s m, Inv n s → m ∈ s.unprocessed → s.unprocessed.length ≤ f →
    Step mods n s (processModule mods f s m) ∧ m ∉ (processModule mods f s m).unprocessed

def VBspec (mods : List Mod) (n : Nat) (f : Nat) : Prop :=
  ∀ ts s m, Inv n s → s.unprocessed.length ≤ f → Step mods n s (visitBody mods f s m ts)

/-- the loop over the packages above a requested module -/
def PAspec (mods : List Mod) (n : Nat) (f : Nat) : Prop :=
  ∀ ps s, Inv n s → s.unprocessed.length ≤ f → Step mods n s (processAbove mods f s ps)

theorem pa_of_pm (mods : List Mod) (n f : Nat) (hpm : PMspec mods n f) : PAspec mods n f := by
  intro ps
  induction ps with
  | nil => intro s h _; simp only [processAbove]; exact Step.refl h
  | cons p ps ih =>
    intro s h hf
    simp only [processAbove]
    by_cases hp : getSt s p = .unprocessed
    · have hmem : p ∈ s.unprocessed := (h.iff p).mpr hp
      have hs := (hpm s p h hmem hf).1
      simp only [hp, if_true]
      exact Step.trans hs (ih _ hs.inv (Nat.le_trans hs.sub.length_le hf))
    · simp only [hp, if_false]; exact ih s h hf

/-- the state `getProcessedModule(t)` leaves: the UNPROCESSED packages above `t` first (only when `t` itself is
UNPROCESSED), then `t` if it still is UNPROCESSED -/
def above1 (mods : List Mod) (f : Nat) (s : State) (t : Nat) : State :=
  if getSt s t = .unprocessed then processAbove mods f s (aboveOf mods t) else s

def request (mods : List Mod) (f : Nat) (s : State) (t : Nat) : State :=
  if getSt (above1 mods f s t) t = .unprocessed then processModule mods f (above1 mods f s t) t else above1 mods f s t

theorem visitBody_cons (mods : List Mod) (f : Nat) (s : State) (m t : Nat) (ts : List Nat) :
    visitBody mods f s m (t :: ts) =
      visitBody mods f { (request mods f s t) with
        log := (request mods f s t).log ++ [.sees m t (getSt (request mods f s t) t)] } m ts := by
  rw [visitBody]; rfl

theorem above1_step (mods : List Mod) (n f : Nat) (hpm : PMspec mods n f) (s : State) (t : Nat)
    (h : Inv n s) (hf : s.unprocessed.length ≤ f) : Step mods n s (above1 mods f s t) := by
  unfold above1
  by_cases ht : getSt s t = .unprocessed
  · simp only [ht, if_true]; exact pa_of_pm mods n f hpm _ s h hf
  · simp only [ht, if_false]; exact Step.refl h

/-- `getProcessedModule(t)` is a step, and afterwards `t` is not UNPROCESSED any more
(`assert mod.state in (PROCESSING, PROCESSED)`) -/
theorem request_step (mods : List Mod) (n f : Nat) (hpm : PMspec mods n f) (s : State) (t : Nat)
    (h : Inv n s) (hf : s.unprocessed.length ≤ f) :
    Step mods n s (request mods f s t) ∧ t ∉ (request mods f s t).unprocessed := by
  have h0 := above1_step mods n f hpm s t h hf
  have hf0 : (above1 mods f s t).unprocessed.length ≤ f := Nat.le_trans h0.sub.length_le hf
  unfold request
  by_cases ht : getSt (above1 mods f s t) t = .unprocessed
  · have hmem : t ∈ (above1 mods f s t).unprocessed := (h0.inv.iff t).mpr ht
    have hp := hpm _ t h0.inv hmem hf0
    simp only [ht, if_true]
    exact ⟨Step.trans h0 hp.1, hp.2⟩
  · simp only [ht, if_false]
    exact ⟨h0, fun hh => ht ((h0.inv.iff t).mp hh)⟩

theorem vb_of_pm (mods : List Mod) (n f : Nat) (hpm : PMspec mods n f) : VBspec mods n f := by
  intro ts
  induction ts with
  | nil => intro s m h _; simp only [visitBody]; exact Step.refl h
  | cons t ts ih =>
    intro s m h hf
    rw [visitBody_cons]
    have hp := (request_step mods n f hpm s t h hf).1
    have hlog := Step.log (mods := mods) hp [Event.sees m t (getSt (request mods f s t) t)]
      (by intro k; simp [starts]) (by intro k; simp)
    have hlen : (request mods f s t).unprocessed.length ≤ f :=
      Nat.le_trans hp.sub.length_le hf
    exact Step.trans hlog (ih _ m hlog.inv hlen)

theorem mem_erase_iff_of_nodup {l : List Nat} (hn : l.Nodup) (k m : Nat) :
    k ∈ l.erase m ↔ k ≠ m ∧ k ∈ l := by
  rw [hn.mem_erase_iff]

def enter (s : State) (m : Nat) : State :=
  { st := setSt s.st m .processing, unprocessed := s.unprocessed.erase m, log := s.log ++ [.start m] }

def addLog (s : State) (evs : List Event) : State := { s with log := s.log ++ evs }

def leave (s : State) (m : Nat) : State :=
  { s with st := setSt s.st m .processed, log := s.log ++ [.finish m] }

theorem processModule_eq (mods : List Mod) (f : Nat) (s : State) (m : Nat)
    (h1 : getSt s m = .unprocessed) (h2 : m ∈ s.unprocessed) :
    processModule mods (f+1) s m =
      match mods[m]? with
      | none => enter s m
      | some md =>
        if md.parses then leave (visitBody mods f (addLog (enter s m) [.visit m]) m md.imports) m
        else addLog (enter s m) [.parseError m] := by
  have hc : s.unprocessed.contains m = true := by simpa using h2
  unfold processModule
  simp only [h1, hc, ne_eq, not_true_eq_false, Bool.not_eq_true, Bool.true_eq_false, or_self, if_false]
  cases mods[m]? with
  | none => rfl
  | some md => cases hp : md.parses <;> simp [enter, addLog, leave, hp]

theorem getSt_enter {n : Nat} {s : State} (h : Inv n s) {m : Nat} (hmn : m < n) (k : Nat) :
    getSt (enter s m) k = if k = m then .processing else getSt s k := by
  simp only [getSt, enter, setSt, getD_set]
  by_cases hk : m = k
  · subst hk; simp [h.len, hmn]
  · have : ¬ k = m := fun e => hk e.symm
    simp [hk, this]

theorem getSt_leave {n : Nat} {s : State} (h : Inv n s) {m : Nat} (hmn : m < n) (k : Nat) :
    getSt (leave s m) k = if k = m then .processed else getSt s k := by
  simp only [getSt, leave, setSt, getD_set]
  by_cases hk : m = k
  · subst hk; simp [h.len, hmn]
  · have : ¬ k = m := fun e => hk e.symm
    simp [hk, this]

theorem mem_enter {s : State} (hn : s.unprocessed.Nodup) (k m : Nat) :
    k ∈ (enter s m).unprocessed ↔ k ≠ m ∧ k ∈ s.unprocessed := mem_erase_iff_of_nodup hn k m

theorem inv_enter {n : Nat} {s : State} (h : Inv n s) {m : Nat} (hm : m ∈ s.unprocessed) (hmn : m < n) :
    Inv n (enter s m) := by
  refine ⟨by simp [enter, setSt, h.len], h.nodup.erase m, ?_, ?_, ?_⟩
  · intro k
    rw [getSt_enter h hmn k, mem_enter h.nodup]
    by_cases hk : k = m
    · simp [hk]
    · simp [hk, h.iff k]
  · exact noAssert_append h.noassert (by intro k; simp)
  · intro k
    show starts (s.log ++ [Event.start m]) k = if k ∈ (enter s m).unprocessed then 0 else _
    rw [starts_append, h.once k]
    by_cases hk : k = m
    · subst hk
      have : k ∉ (enter s k).unprocessed := by rw [mem_enter h.nodup]; simp
      simp [hm, hmn, starts, this]
    · have hne : ¬ m = k := fun e => hk e.symm
      have hiff : (k ∈ (enter s m).unprocessed) ↔ k ∈ s.unprocessed := by
        rw [mem_enter h.nodup]; simp [hk]
      by_cases hku : k ∈ s.unprocessed
      · simp [hku, hiff.mpr hku, starts, hne]
      · have : k ∉ (enter s m).unprocessed := fun hh => hku (hiff.mp hh)
        simp [hku, this, starts, hne]

theorem inv_addLog {n : Nat} {s : State} (h : Inv n s) (evs : List Event)
    (hs : ∀ m, starts evs m = 0) (ha : noAssert evs) : Inv n (addLog s evs) := by
  refine ⟨h.len, h.nodup, h.iff, noAssert_append h.noassert ha, ?_⟩
  intro m
  show starts (s.log ++ evs) m = _
  rw [starts_append, hs m, Nat.add_zero]
  exact h.once m

/-- entering a module whose final state is PROCESSING (no file / parse error) is a complete step -/
theorem step_enter_stay (mods : List Mod) {n : Nat} {s : State} (h : Inv n s) {m : Nat}
    (hm : m ∈ s.unprocessed) (hmn : m < n) (evs : List Event)
    (hs : ∀ k, starts evs k = 0) (ha : noAssert evs) (hfin : final mods m = .processing) :
    Step mods n s (addLog (enter s m) evs) := by
  refine ⟨inv_addLog (inv_enter h hm hmn) evs hs ha, List.erase_sublist .., ?_, ?_⟩
  · intro k hk
    show getSt (enter s m) k = _
    rw [getSt_enter h hmn k]
    have : k ≠ m := fun e => hk (e ▸ hm)
    simp [this]
  · intro k hk hk1
    have hkm : k = m := by
      by_cases hne : k = m
      · exact hne
      · exact absurd ((mem_enter h.nodup k m).mpr ⟨hne, hk⟩) hk1
    subst hkm
    show getSt (enter s k) k = _
    rw [getSt_enter h hmn k, hfin]; simp

theorem pm_succ_of_vb (mods : List Mod) (n f : Nat) (hvb : VBspec mods n f) : PMspec mods n (f+1) := by
  intro s m h hm hf
  have hst : getSt s m = .unprocessed := (h.iff m).mp hm
  have hmn : m < n := getSt_lt h hst
  have hm1 : m ∉ (enter s m).unprocessed := by rw [mem_enter h.nodup]; simp
  rw [processModule_eq mods f s m hst hm]
  cases hmd : mods[m]? with
  | none =>
    have hfin : final mods m = .processing := by simp [final, hmd]
    have := step_enter_stay mods h hm hmn [] (by intro k; simp [starts]) (by intro k; simp) hfin
    simp only [addLog, List.append_nil] at this
    exact ⟨this, hm1⟩
  | some md =>
    simp only
    by_cases hp : md.parses = true
    · simp only [hp, if_true]
      have hinv1v : Inv n (addLog (enter s m) [.visit m]) :=
        inv_addLog (inv_enter h hm hmn) _ (by intro k; simp [starts]) (by intro k; simp)
      have hlen1 : (addLog (enter s m) [.visit m]).unprocessed.length ≤ f := by
        show (s.unprocessed.erase m).length ≤ f
        rw [List.length_erase_of_mem hm]; omega
      have hvs := hvb md.imports _ m hinv1v hlen1
      generalize visitBody mods f (addLog (enter s m) [Event.visit m]) m md.imports = s2 at hvs
      have hsub1 : (addLog (enter s m) [Event.visit m]).unprocessed.Sublist s.unprocessed :=
        List.erase_sublist ..
      have hm2 : m ∉ s2.unprocessed := fun hh => hm1 (hvs.sub.subset hh)
      refine ⟨⟨⟨by simp [leave, setSt, hvs.inv.len], hvs.inv.nodup, ?_, ?_, ?_⟩, hvs.sub.trans hsub1, ?_, ?_⟩, hm2⟩
      · intro k
        rw [getSt_leave hvs.inv hmn k]
        by_cases hk : k = m
        · subst hk; simp [leave, hm2]
        · simp only [hk, if_false]; exact hvs.inv.iff k
      · exact noAssert_append hvs.inv.noassert (by intro k; simp)
      · intro k
        show starts (s2.log ++ [Event.finish m]) k = _
        rw [starts_append]
        have : starts [Event.finish m] k = 0 := by simp [starts]
        rw [this, Nat.add_zero]
        exact hvs.inv.once k
      · intro k hk
        rw [getSt_leave hvs.inv hmn k]
        have hkm : k ≠ m := fun e => hk (e ▸ hm)
        have hk1 : k ∉ (addLog (enter s m) [Event.visit m]).unprocessed := fun hh => hk (hsub1.subset hh)
        simp only [hkm, if_false]
        rw [hvs.frame k hk1]
        show getSt (enter s m) k = _
        rw [getSt_enter h hmn k]; simp [hkm]
      · intro k hk hk3
        rw [getSt_leave hvs.inv hmn k]
        by_cases hkm : k = m
        · subst hkm; simp [final, hmd, hp]
        · simp only [hkm, if_false]
          have hk1 : k ∈ (addLog (enter s m) [Event.visit m]).unprocessed :=
            (mem_enter h.nodup k m).mpr ⟨hkm, hk⟩
          exact hvs.done k hk1 hk3
    · have hp' : md.parses = false := by simpa using hp
      simp only [hp', Bool.false_eq_true, if_false]
      have hfin : final mods m = .processing := by simp [final, hmd, hp']
      exact ⟨step_enter_stay mods h hm hmn [Event.parseError m] (by intro k; simp [starts]) (by intro k; simp) hfin, hm1⟩

theorem pm_zero (mods : List Mod) (n : Nat) : PMspec mods n 0 := by
  intro s m _ hm hf
  have : 0 < s.unprocessed.length := List.length_pos_of_mem hm
  omega

theorem pm_all (mods : List Mod) (n : Nat) : ∀ f, PMspec mods n f
  | 0 => pm_zero mods n
  | f+1 => pm_succ_of_vb mods n f (vb_of_pm mods n f (pm_all mods n f))

/-- the top-level loop -/
theorem process_spec (mods : List Mod) (n : Nat) :
    ∀ f s, Inv n s → s.unprocessed.length ≤ f → s.unprocessed.length ≤ mods.length + 1 →
      Step mods n s (process mods f s) ∧ (process mods f s).unprocessed = [] := by
  intro f
  induction f with
  | zero =>
    intro s h hf _
    have : s.unprocessed = [] := List.eq_nil_of_length_eq_zero (by omega)
    simp [process, this, Step.refl h]
  | succ f ih =>
    intro s h hf hb
    unfold process
    cases hu : s.unprocessed with
    | nil => simp [hu, Step.refl h]
    | cons m rest =>
      simp only
      have hm : m ∈ s.unprocessed := by simp [hu]
      have hp := pm_all mods n (mods.length + 1) s m h hm hb
      have hlt : (processModule mods (mods.length + 1) s m).unprocessed.length < s.unprocessed.length := by
        have hsub := hp.1.sub
        have hne : m ∉ (processModule mods (mods.length + 1) s m).unprocessed := hp.2
        rcases Nat.lt_or_ge (processModule mods (mods.length + 1) s m).unprocessed.length s.unprocessed.length with h1 | h1
        · exact h1
        · have := hsub.eq_of_length_le h1
          rw [this] at hne; exact absurd hm hne
      have := ih _ hp.1.inv (by omega) (by omega)
      exact ⟨Step.trans hp.1 this.1, this.2⟩

/-! ## Property theorems -/

theorem inv_init (n : Nat) (order : List Nat) (hperm : order.Perm (List.range n)) :
    Inv n (initState n order) := by
  have hnd : order.Nodup := hperm.nodup_iff.mpr List.nodup_range
  have hmem : ∀ m, m ∈ order ↔ m < n := by
    intro m; rw [hperm.mem_iff]; simp
  refine ⟨by simp [initState], hnd, ?_, by intro m; simp [initState], ?_⟩
  · intro m
    show m ∈ order ↔ _
    rw [hmem m]
    simp only [getSt, initState, List.getD_eq_getElem?_getD]
    by_cases hm : m < n
    · simp [hm, List.getElem?_replicate]
    · simp [hm, List.getElem?_replicate]
  · intro m
    show starts [] m = if m ∈ order then 0 else _
    by_cases hm : m < n
    · simp [starts, (hmem m).mpr hm]
    · have : m ∉ order := fun hh => hm ((hmem m).mp hh)
      simp [starts, this, hm]

/-- **process_terminates_drains** (C01, C06): for every project (any import graph, cycles
included, any set of unparsable files) and every initial order of `unprocessed_modules`,
`process` ends with nothing left to process, no module UNPROCESSED, no failed `assert`, every
module entered exactly once, every parsable module PROCESSED and every unparsable one left
PROCESSING (reported). -/
theorem process_terminates_drains (mods : List Mod) (order : List Nat)
    (hperm : order.Perm (List.range mods.length)) :
    (run mods order).unprocessed = [] ∧ noAssert (run mods order).log ∧
    (∀ m, m < mods.length → starts (run mods order).log m = 1) ∧
    (∀ m, m < mods.length → getSt (run mods order) m = final mods m) := by
  unfold run
  have h0 := inv_init mods.length order hperm
  have hlen : (initState mods.length order).unprocessed.length = mods.length := by
    show order.length = _
    rw [hperm.length_eq]; simp
  have hs := process_spec mods mods.length (mods.length + 1) _ h0 (by omega) (by omega)
  refine ⟨hs.2, hs.1.inv.noassert, ?_, ?_⟩
  · intro m hm
    have := hs.1.inv.once m
    rw [hs.2] at this
    simpa [hm] using this
  · intro m hm
    have hin : m ∈ (initState mods.length order).unprocessed := by
      show m ∈ order
      rw [hperm.mem_iff]; simpa using hm
    have hout : m ∉ (process mods (mods.length + 1) (initState mods.length order)).unprocessed := by
      rw [hs.2]; simp
    exact hs.1.done m hin hout

/-- **state_order_independent** (C06): the processing state every module ends in is the same for
every two schedules. -/
theorem state_order_independent (mods : List Mod) (o1 o2 : List Nat)
    (h1 : o1.Perm (List.range mods.length)) (h2 : o2.Perm (List.range mods.length)) (m : Nat)
    (hm : m < mods.length) : getSt (run mods o1) m = getSt (run mods o2) m := by
  rw [(process_terminates_drains mods o1 h1).2.2.2 m hm, (process_terminates_drains mods o2 h2).2.2.2 m hm]

/-- **one_bad_file** (C01): whether a module ends PROCESSED depends only on whether its own file
parses, never on the other files. -/
theorem one_bad_file (mods : List Mod) (order : List Nat) (hperm : order.Perm (List.range mods.length))
    (m : Nat) (md : Mod) (hm : mods[m]? = some md) :
    getSt (run mods order) m = if md.parses then .processed else .processing := by
  have hlt : m < mods.length := by
    rcases List.getElem?_eq_some_iff.mp hm with ⟨h, _⟩; exact h
  rw [(process_terminates_drains mods order hperm).2.2.2 m hlt]
  simp [final, hm]

/-- exit status of `driver.main` is one of the documented values, decided as documented -/
theorem exit_status_range (w : Bool) (v p : Nat) :
    exitStatus w v p = 0 ∨ exitStatus w v p = 2 ∨ exitStatus w v p = 3 := by
  unfold exitStatus
  split
  · simp
  · split <;> simp

theorem exit_status_three_iff (w : Bool) (v p : Nat) :
    exitStatus w v p = 3 ↔ (w = true ∧ 0 < v) := by
  unfold exitStatus
  by_cases hw : w = true <;> by_cases hv : 0 < v <;> simp [hw, hv] <;> split <;> simp

theorem exit_status_two_iff (v p : Nat) : exitStatus false v p = 2 ↔ 0 < p := by
  unfold exitStatus; simp; omega

/-! non-vacuity: a three-module project with a cycle and an unparsable file -/
def exMods : List Mod := [⟨true, [1], []⟩, ⟨true, [2, 0], []⟩, ⟨false, [], []⟩]
example : [2, 0, 1].Perm (List.range exMods.length) := by decide
example : (run exMods [2, 0, 1]).unprocessed = [] :=
  (process_terminates_drains exMods [2, 0, 1] (by decide)).1

/-! ## acyclic projects: every import observes its target in its final state, in every order

Since 0ba6723 a request for module `t` first processes the UNPROCESSED packages above `t`.  The import graph
therefore has, besides the edges `m → t` for the modules a body asks for, the IMPLICIT edges `m → p` for every
package `p` above such a `t`.  Requests that concern the importer's OWN packages (`from . import util` in
`pkg/core.py` asks for `pkg`; every sibling it asks for has `pkg` above it) are split off: when the body of `m`
runs, the packages above `m` have been entered already (Python's order, and the code's since 0ba6723), they are
returned as they are — PROCESSING when `m` was asked for from inside the package's own `__init__` — and are no
edge of the graph. -/

/-- `t` is `m` itself or one of the packages above `m` -/
def own (mods : List Mod) (m t : Nat) : Prop := t = m ∨ t ∈ aboveOf mods m

instance (mods : List Mod) (m t : Nat) : Decidable (own mods m t) := by unfold own; exact inferInstance

/-- the `above` lists are the parent chains of a tree: the packages above a package are the ones listed before it -/
def TreeOK (mods : List Mod) : Prop :=
  ∀ t l1 p l2, aboveOf mods t = l1 ++ p :: l2 → aboveOf mods p = l1

/-- no module of the list occurs before a package above it (the builder adds a package before everything below
it: the reachable orders) -/
def PF (mods : List Mod) : List Nat → Prop
  | [] => True
  | m :: l => (∀ p ∈ aboveOf mods m, p ∉ m :: l) ∧ PF mods l

theorem PF_sublist (mods : List Mod) {l' l : List Nat} (hs : l'.Sublist l) (h : PF mods l) : PF mods l' := by
  induction hs with
  | slnil => exact h
  | cons a _ ih => exact ih h.2
  | cons_cons a hs' ih =>
    refine ⟨?_, ih h.2⟩
    intro p hp hmem
    refine h.1 p hp ?_
    rcases List.mem_cons.mp hmem with e | e
    · exact e ▸ List.mem_cons_self
    · exact List.mem_cons_of_mem _ (hs'.subset e)

/-- the import graph — with the implicit edges to the packages above every requested module, without the
requests for the importer's own packages — is acyclic (`r` ranks every module above the modules it makes
pydoctor enter) and only names known modules -/
structure Ranked (mods : List Mod) (r : Nat → Nat) : Prop where
  lt : ∀ (m : Nat) (md : Mod) (t : Nat), mods[m]? = some md → t ∈ md.imports → ¬ own mods m t → r t < r m
  ltAbove : ∀ (m : Nat) (md : Mod) (t p : Nat), mods[m]? = some md → t ∈ md.imports → ¬ own mods m t →
    p ∈ aboveOf mods t → ¬ own mods m p → r p < r m
  known : ∀ (m : Nat) (md : Mod) (t : Nat), mods[m]? = some md → t ∈ md.imports → t < mods.length

/-- every `sees` event — requests for the importer's own packages apart — reports the imported module in the
state it ends in -/
def SeesFinal (mods : List Mod) (l : List Event) : Prop :=
  ∀ m t st, Event.sees m t st ∈ l → ¬ own mods m t → st = final mods t

/-- still being analysed: PROCESSING although the file parses (the modules on the call stack) -/
def Busy (mods : List Mod) (s : State) (k : Nat) : Prop :=
  getSt s k = .processing ∧ final mods k = .processed

/-- PROCESSED is only ever the state of a module whose file parses -/
def Settled (mods : List Mod) (n : Nat) (s : State) : Prop :=
  ∀ k, k < n → getSt s k = .processed → final mods k = .processed

theorem final_cases (mods : List Mod) (k : Nat) : final mods k = .processed ∨ final mods k = .processing := by
  unfold final
  cases mods[k]? with
  | none => simp
  | some md => cases md.parses <;> simp

theorem seesFinal_append {mods : List Mod} {l l' : List Event} (h : SeesFinal mods l) (h' : SeesFinal mods l') :
    SeesFinal mods (l ++ l') := by
  intro m t st hm
  rcases List.mem_append.mp hm with h1 | h1
  · exact h m t st h1
  · exact h' m t st h1

theorem busy_of_step {mods : List Mod} {n : Nat} {s s' : State} (h : Step mods n s s') {k : Nat}
    (hb : Busy mods s' k) : Busy mods s k := by
  by_cases hk : k ∈ s.unprocessed
  · exfalso
    by_cases hk' : k ∈ s'.unprocessed
    · have := (h.inv.iff k).mp hk'
      rw [hb.1] at this; cases this
    · have := h.done k hk hk'
      rw [hb.1, hb.2] at this; cases this
  · exact ⟨(h.frame k hk) ▸ hb.1, hb.2⟩

theorem settled_of_step {mods : List Mod} {n : Nat} {s s' : State} (h : Step mods n s s')
    (hs : Settled mods n s) : Settled mods n s' := by
  intro k hkn hk
  by_cases hku : k ∈ s.unprocessed
  · by_cases hk' : k ∈ s'.unprocessed
    · have := (h.inv.iff k).mp hk'
      rw [hk] at this; cases this
    · have := h.done k hku hk'
      rw [hk] at this; exact this.symm
  · rw [h.frame k hku] at hk
    exact hs k hkn hk

/-- a module that has been entered stays entered -/
theorem nonU_of_step {mods : List Mod} {n : Nat} {s s' : State} (hi : Inv n s) (h : Step mods n s s') {k : Nat}
    (hk : getSt s k ≠ .unprocessed) : getSt s' k ≠ .unprocessed := by
  intro hk'
  have h1 : k ∈ s'.unprocessed := (h.inv.iff k).mpr hk'
  exact hk ((hi.iff k).mp (h.sub.subset h1))

/-- after the loop over the packages above a module none of them is UNPROCESSED -/
theorem processAbove_nonU (mods : List Mod) (n f : Nat) (hpm : PMspec mods n f) :
    ∀ ps s, Inv n s → s.unprocessed.length ≤ f → ∀ p ∈ ps, getSt (processAbove mods f s ps) p ≠ .unprocessed := by
  intro ps
  induction ps with
  | nil => intro s _ _ p hp; cases hp
  | cons q ps ih =>
    intro s h hf p hp
    simp only [processAbove]
    by_cases hq : getSt s q = .unprocessed
    · have hmem : q ∈ s.unprocessed := (h.iff q).mpr hq
      have hs := hpm s q h hmem hf
      have hf' := Nat.le_trans hs.1.sub.length_le hf
      simp only [hq, if_true]
      rcases List.mem_cons.mp hp with e | e
      · subst e
        have h1 : getSt (processModule mods f s p) p ≠ .unprocessed :=
          fun hh => hs.2 ((hs.1.inv.iff p).mpr hh)
        exact nonU_of_step hs.1.inv (pa_of_pm mods n f hpm ps _ hs.1.inv hf') h1
      · exact ih _ hs.1.inv hf' p e
    · simp only [hq, if_false]
      rcases List.mem_cons.mp hp with e | e
      · subst e
        exact nonU_of_step h (pa_of_pm mods n f hpm ps s h hf) hq
      · exact ih s h hf p e

def PMsees (mods : List Mod) (r : Nat → Nat) (f : Nat) : Prop :=
  ∀ s m, Inv mods.length s → m ∈ s.unprocessed → s.unprocessed.length ≤ f → Settled mods mods.length s →
    (∀ q ∈ aboveOf mods m, getSt s q ≠ .unprocessed) →
    (∀ k, Busy mods s k → r m < r k) → SeesFinal mods s.log →
    SeesFinal mods (processModule mods f s m).log

/-- what the body of `m` needs of the modules it asks for -/
def Below (mods : List Mod) (r : Nat → Nat) (m : Nat) (ts : List Nat) : Prop :=
  ∀ t ∈ ts, t < mods.length ∧ (¬ own mods m t → r t < r m ∧ ∀ p ∈ aboveOf mods t, ¬ own mods m p → r p < r m)

def VBsees (mods : List Mod) (r : Nat → Nat) (f : Nat) : Prop :=
  ∀ ts s m, Inv mods.length s → s.unprocessed.length ≤ f → Settled mods mods.length s →
    (∀ q, own mods m q → getSt s q ≠ .unprocessed) →
    (∀ k, Busy mods s k → k = m ∨ r m < r k) → Below mods r m ts →
    SeesFinal mods s.log → SeesFinal mods (visitBody mods f s m ts).log

/-- the loop over the packages above a module asked for by `m`: `done` are the ones passed already -/
theorem pasees_of_pmsees (mods : List Mod) (htree : TreeOK mods) (r : Nat → Nat) (f : Nat) (hpm : PMsees mods r f)
    (m t : Nat) :
    ∀ ps done s, aboveOf mods t = done ++ ps → Inv mods.length s → s.unprocessed.length ≤ f →
      Settled mods mods.length s → (∀ q ∈ done, getSt s q ≠ .unprocessed) →
      (∀ q, own mods m q → getSt s q ≠ .unprocessed) →
      (∀ k, Busy mods s k → k = m ∨ r m < r k) → (∀ p ∈ ps, ¬ own mods m p → r p < r m) →
      SeesFinal mods s.log → SeesFinal mods (processAbove mods f s ps).log := by
  intro ps
  induction ps with
  | nil => intro done s _ _ _ _ _ _ _ _ hl; simpa only [processAbove] using hl
  | cons p ps ih =>
    intro done s hab h hf hset hdone hown hbusy hps hl
    simp only [processAbove]
    have hab' : aboveOf mods t = (done ++ [p]) ++ ps := by rw [hab]; simp
    have hps' : ∀ q ∈ ps, ¬ own mods m q → r q < r m := fun q hq => hps q (List.mem_cons_of_mem _ hq)
    by_cases hp : getSt s p = .unprocessed
    · have hmem : p ∈ s.unprocessed := (h.iff p).mpr hp
      have hnown : ¬ own mods m p := fun ho => hown p ho hp
      have hrp : r p < r m := hps p List.mem_cons_self hnown
      have hs := pm_all mods mods.length f s p h hmem hf
      have hl1 := hpm s p h hmem hf hset
        (by rw [htree t done p ps hab]; exact hdone)
        (fun k hk => by
          rcases hbusy k hk with e | e
          · rw [e]; exact hrp
          · exact Nat.lt_trans hrp e) hl
      simp only [hp, if_true]
      refine ih (done ++ [p]) _ hab' hs.1.inv (Nat.le_trans hs.1.sub.length_le hf) (settled_of_step hs.1 hset)
        ?_ (fun q hq => nonU_of_step h hs.1 (hown q hq)) (fun k hk => hbusy k (busy_of_step hs.1 hk)) hps' hl1
      intro q hq
      rcases List.mem_append.mp hq with e | e
      · exact nonU_of_step h hs.1 (hdone q e)
      · have : q = p := by simpa using e
        subst this
        exact fun hh => hs.2 ((hs.1.inv.iff q).mpr hh)
    · simp only [hp, if_false]
      refine ih (done ++ [p]) s hab' h hf hset ?_ hown hbusy hps' hl
      intro q hq
      rcases List.mem_append.mp hq with e | e
      · exact hdone q e
      · have : q = p := by simpa using e
        subst this; exact hp

/-- one `getProcessedModule(t)` from the body of `m` -/
theorem request_sees (mods : List Mod) (htree : TreeOK mods) (r : Nat → Nat) (f : Nat) (hpm : PMsees mods r f)
    (s : State) (m t : Nat) (h : Inv mods.length s) (hf : s.unprocessed.length ≤ f)
    (hset : Settled mods mods.length s) (hown : ∀ q, own mods m q → getSt s q ≠ .unprocessed)
    (hbusy : ∀ k, Busy mods s k → k = m ∨ r m < r k) (ht : Below mods r m [t]) (hl : SeesFinal mods s.log) :
    SeesFinal mods (request mods f s t).log ∧ (¬ own mods m t → getSt (request mods f s t) t = final mods t) := by
  obtain ⟨htn, hlow⟩ := ht t List.mem_cons_self
  by_cases ho : own mods m t
  · have hnu : getSt s t ≠ .unprocessed := hown t ho
    have e1 : above1 mods f s t = s := by simp [above1, hnu]
    have e2 : request mods f s t = s := by simp [request, e1, hnu]
    rw [e2]; exact ⟨hl, fun hh => absurd ho hh⟩
  · obtain ⟨hrt, hrab⟩ := hlow ho
    by_cases hu : getSt s t = .unprocessed
    · have hmem : t ∈ s.unprocessed := (h.iff t).mpr hu
      have e1 : above1 mods f s t = processAbove mods f s (aboveOf mods t) := by simp [above1, hu]
      have h0 : Step mods mods.length s (above1 mods f s t) :=
        above1_step mods mods.length f (pm_all mods mods.length f) s t h hf
      have hl0 : SeesFinal mods (above1 mods f s t).log := by
        rw [e1]
        exact pasees_of_pmsees mods htree r f hpm m t (aboveOf mods t) [] s (by simp) h hf hset
          (by intro q hq; cases hq) hown hbusy hrab hl
      have hf0 : (above1 mods f s t).unprocessed.length ≤ f := Nat.le_trans h0.sub.length_le hf
      by_cases hu0 : getSt (above1 mods f s t) t = .unprocessed
      · have hmem0 : t ∈ (above1 mods f s t).unprocessed := (h0.inv.iff t).mpr hu0
        have hp := pm_all mods mods.length f _ t h0.inv hmem0 hf0
        have e2 : request mods f s t = processModule mods f (above1 mods f s t) t := by simp [request, hu0]
        rw [e2]
        refine ⟨hpm _ t h0.inv hmem0 hf0 (settled_of_step h0 hset) ?_ ?_ hl0, fun _ => hp.1.done t hmem0 hp.2⟩
        · rw [e1]
          exact fun q hq => processAbove_nonU mods mods.length f (pm_all mods mods.length f) _ s h hf q hq
        · intro k hk
          rcases hbusy k (busy_of_step h0 hk) with e | e
          · rw [e]; exact hrt
          · exact Nat.lt_trans hrt e
      · have e2 : request mods f s t = above1 mods f s t := by simp [request, hu0]
        rw [e2]
        refine ⟨hl0, fun _ => h0.done t hmem ?_⟩
        exact fun hh => hu0 ((h0.inv.iff t).mp hh)
    · have e1 : above1 mods f s t = s := by simp [above1, hu]
      have e2 : request mods f s t = s := by simp [request, e1, hu]
      rw [e2]
      refine ⟨hl, fun _ => ?_⟩
      cases hst : getSt s t with
      | unprocessed => exact absurd hst hu
      | processed => exact (hset t htn hst).symm
      | processing =>
        rcases final_cases mods t with hf' | hf'
        · exfalso
          rcases hbusy t ⟨hst, hf'⟩ with e | e
          · exact ho (.inl e)
          · exact Nat.lt_irrefl _ (Nat.lt_trans hrt e)
        · exact hf'.symm

theorem vbsees_of_pmsees (mods : List Mod) (htree : TreeOK mods) (r : Nat → Nat) (f : Nat) (hpm : PMsees mods r f) :
    VBsees mods r f := by
  intro ts
  induction ts with
  | nil => intro s m _ _ _ _ _ _ hl; simpa only [visitBody] using hl
  | cons t ts ih =>
    intro s m h hf hset hown hbusy hts hl
    have hts' : Below mods r m ts := fun u hu => hts u (List.mem_cons_of_mem _ hu)
    have ht1 : Below mods r m [t] := by
      intro u hu
      have : u = t := by simpa using hu
      subst this; exact hts u List.mem_cons_self
    rw [visitBody_cons]
    have hp := (request_step mods mods.length f (pm_all mods mods.length f) s t h hf).1
    obtain ⟨hl1, hfin⟩ := request_sees mods htree r f hpm s m t h hf hset hown hbusy ht1 hl
    have hlog := Step.log (mods := mods) hp [Event.sees m t (getSt (request mods f s t) t)]
      (by intro k; simp [starts]) (by intro k; simp)
    have hlen : (request mods f s t).unprocessed.length ≤ f := Nat.le_trans hp.sub.length_le hf
    refine ih _ m hlog.inv hlen (settled_of_step hlog hset) (fun q hq => nonU_of_step h hlog (hown q hq))
      (fun k hk => hbusy k (busy_of_step hlog hk)) hts' ?_
    refine seesFinal_append hl1 ?_
    intro a b st hm hno
    simp only [List.mem_singleton, Event.sees.injEq] at hm
    obtain ⟨rfl, rfl, rfl⟩ := hm
    exact hfin hno

theorem pmsees_succ_of_vbsees (mods : List Mod) (r : Nat → Nat) (hr : Ranked mods r) (f : Nat)
    (hvb : VBsees mods r f) : PMsees mods r (f+1) := by
  intro s m h hm hf hset habove hbusy hl
  have hst : getSt s m = .unprocessed := (h.iff m).mp hm
  have hmn : m < mods.length := getSt_lt h hst
  rw [processModule_eq mods f s m hst hm]
  have hstart : SeesFinal mods (s.log ++ [Event.start m]) :=
    seesFinal_append hl (by intro a b st hh; simp at hh)
  cases hmd : mods[m]? with
  | none => exact hstart
  | some md =>
    simp only
    by_cases hp : md.parses = true
    · simp only [hp, if_true]
      have hinv1v : Inv mods.length (addLog (enter s m) [.visit m]) :=
        inv_addLog (inv_enter h hm hmn) _ (by intro k; simp [starts]) (by intro k; simp)
      have hlen1 : (addLog (enter s m) [.visit m]).unprocessed.length ≤ f := by
        show (s.unprocessed.erase m).length ≤ f
        rw [List.length_erase_of_mem hm]; omega
      have hget : ∀ k, getSt (addLog (enter s m) [.visit m]) k = if k = m then .processing else getSt s k :=
        fun k => getSt_enter h hmn k
      have hset1 : Settled mods mods.length (addLog (enter s m) [.visit m]) := by
        intro k hkn hk
        rw [hget k] at hk
        by_cases hkm : k = m
        · simp [hkm] at hk
        · simp only [hkm, if_false] at hk; exact hset k hkn hk
      have hown1 : ∀ q, own mods m q → getSt (addLog (enter s m) [.visit m]) q ≠ .unprocessed := by
        intro q hq
        rw [hget q]
        by_cases hqm : q = m
        · simp [hqm]
        · simp only [hqm, if_false]
          rcases hq with e | e
          · exact absurd e hqm
          · exact habove q e
      have hbusy1 : ∀ k, Busy mods (addLog (enter s m) [.visit m]) k → k = m ∨ r m < r k := by
        intro k hk
        by_cases hkm : k = m
        · exact .inl hkm
        · refine .inr (hbusy k ⟨?_, hk.2⟩)
          have := hk.1
          rw [hget k] at this
          simpa [hkm] using this
      have hl1 : SeesFinal mods (addLog (enter s m) [.visit m]).log :=
        seesFinal_append hstart (by intro a b st hh; simp at hh)
      have := hvb md.imports _ m hinv1v hlen1 hset1 hown1 hbusy1
        (fun t ht => ⟨hr.known m md t hmd ht, fun ho =>
          ⟨hr.lt m md t hmd ht ho, fun p hp hop => hr.ltAbove m md t p hmd ht ho hp hop⟩⟩) hl1
      exact seesFinal_append this (by intro a b st hh; simp at hh)
    · have hp' : md.parses = false := by simpa using hp
      simp only [hp', Bool.false_eq_true, if_false]
      exact seesFinal_append hstart (by intro a b st hh; simp at hh)

theorem pmsees_all (mods : List Mod) (htree : TreeOK mods) (r : Nat → Nat) (hr : Ranked mods r) : ∀ f, PMsees mods r f
  | 0 => by
    intro s m _ hm hf
    have : 0 < s.unprocessed.length := List.length_pos_of_mem hm
    omega
  | f+1 => pmsees_succ_of_vbsees mods r hr f (vbsees_of_pmsees mods htree r f (pmsees_all mods htree r hr f))

theorem process_sees (mods : List Mod) (htree : TreeOK mods) (r : Nat → Nat) (hr : Ranked mods r) :
    ∀ f s, Inv mods.length s → s.unprocessed.length ≤ mods.length + 1 → Settled mods mods.length s →
      PF mods s.unprocessed →
      (∀ k, ¬ Busy mods s k) → SeesFinal mods s.log → SeesFinal mods (process mods f s).log := by
  intro f
  induction f with
  | zero => intro s _ _ _ _ _ hl; simpa [process] using hl
  | succ f ih =>
    intro s h hb hset hpf hbusy hl
    unfold process
    cases hu : s.unprocessed with
    | nil => simpa [hu] using hl
    | cons m rest =>
      simp only
      have hm : m ∈ s.unprocessed := by simp [hu]
      have hp := pm_all mods mods.length (mods.length + 1) s m h hm hb
      have habove : ∀ q ∈ aboveOf mods m, getSt s q ≠ .unprocessed := by
        intro q hq hqu
        have hq1 : q ∈ s.unprocessed := (h.iff q).mpr hqu
        rw [hu] at hpf hq1
        exact hpf.1 q hq hq1
      have hl1 := pmsees_all mods htree r hr (mods.length + 1) s m h hm hb hset habove
        (fun k hk => absurd hk (hbusy k)) hl
      exact ih _ hp.1.inv (Nat.le_trans hp.1.sub.length_le hb) (settled_of_step hp.1 hset)
        (PF_sublist mods hp.1.sub hpf)
        (fun k hk => hbusy k (busy_of_step hp.1 hk)) hl1

/-- **acyclic_sees_final** (C06): in a project whose import graph — the implicit requests for the packages above
every requested module included, requests for the importer's own packages apart — is acyclic, whatever the
reachable order (no module before a package above it) in which the modules are taken up, every import statement
obtains its target module in the state that module ENDS in — fully analysed (PROCESSED), or reported as
unparsable. No module body ever looks into a half-analysed module other than its own packages, which is why what
it computes from its imports cannot depend on the order. (With an import cycle this is false:
`cyclic_sees_unfinished` below.) -/
theorem acyclic_sees_final (mods : List Mod) (htree : TreeOK mods) (r : Nat → Nat) (hr : Ranked mods r)
    (order : List Nat) (hperm : order.Perm (List.range mods.length)) (hpf : PF mods order) :
    SeesFinal mods (run mods order).log := by
  unfold run
  have h0 := inv_init mods.length order hperm
  have hlen : (initState mods.length order).unprocessed.length = mods.length := by
    show order.length = _
    rw [hperm.length_eq]; simp
  have hget : ∀ k, k < mods.length → getSt (initState mods.length order) k = .unprocessed := by
    intro k hk
    simp [getSt, initState, List.getD_eq_getElem?_getD, List.getElem?_replicate, hk]
  refine process_sees mods htree r hr _ _ h0 (by omega) ?_ hpf ?_ (by intro a b st hh; simp [initState] at hh)
  · intro k hk hp; rw [hget k hk] at hp; cases hp
  · intro k hb
    by_cases hk : k < mods.length
    · have := hb.1; rw [hget k hk] at this; cases this
    · have := hb.1
      simp [getSt, initState, List.getD_eq_getElem?_getD, List.getElem?_replicate, hk] at this

/-- projects without packages (`above = []` everywhere): the tree and reachability hypotheses hold trivially,
and `own m t` is `t = m` — the scheduler and the theorem as they were before 0ba6723 -/
theorem treeOK_of_flat {mods : List Mod} (h : ∀ t, aboveOf mods t = []) : TreeOK mods := by
  intro t l1 p l2 hh
  rw [h t] at hh
  simp at hh

theorem pf_of_flat {mods : List Mod} (h : ∀ t, aboveOf mods t = []) : ∀ l, PF mods l
  | [] => trivial
  | m :: l => ⟨(by intro p hp; rw [h m] at hp; cases hp), pf_of_flat h l⟩

/-- non-vacuity (no packages): an acyclic three-module project with an unparsable file, two orders -/
def exAcyclic : List Mod := [⟨true, [1, 2], []⟩, ⟨true, [2], []⟩, ⟨false, [], []⟩]
def exRank : Nat → Nat := fun m => 3 - m
theorem exAcyclic_flat : ∀ t, aboveOf exAcyclic t = []
  | 0 => rfl | 1 => rfl | 2 => rfl | _+3 => rfl
theorem exAcyclic_ranked : Ranked exAcyclic exRank := by
  refine ⟨?_, ?_, ?_⟩
  · intro m md t hm ht _
    match m, hm with
    | 0, hm => simp [exAcyclic] at hm; subst hm; simp at ht; rcases ht with rfl | rfl <;> simp [exRank]
    | 1, hm => simp [exAcyclic] at hm; subst hm; simp at ht; subst ht; simp [exRank]
    | 2, hm => simp [exAcyclic] at hm; subst hm; simp at ht
    | n+3, hm => simp [exAcyclic] at hm
  · intro m md t p _ _ _ hp _
    rw [exAcyclic_flat t] at hp; cases hp
  · intro m md t hm ht
    match m, hm with
    | 0, hm => simp [exAcyclic] at hm; subst hm; simp at ht; rcases ht with rfl | rfl <;> simp [exAcyclic]
    | 1, hm => simp [exAcyclic] at hm; subst hm; simp at ht; subst ht; simp [exAcyclic]
    | 2, hm => simp [exAcyclic] at hm; subst hm; simp at ht
    | n+3, hm => simp [exAcyclic] at hm
example : SeesFinal exAcyclic (run exAcyclic [1, 0, 2]).log :=
  acyclic_sees_final exAcyclic (treeOK_of_flat exAcyclic_flat) exRank exAcyclic_ranked [1, 0, 2] (by decide)
    (pf_of_flat exAcyclic_flat _)
example : Event.sees 0 2 .processing ∈ (run exAcyclic [1, 0, 2]).log := by
  simp [run, process, processModule, visitBody, processAbove, aboveOf, initState, getSt, setSt, exAcyclic]

/-- non-vacuity (a package): hunt/C06/3 — 0 = app.py (`from pkg.core import Base`), 1 = pkg/__init__.py
(`from .core import Base`), 2 = pkg/core.py (`from . import util`: asks for `pkg`, one of its own packages, then for
`pkg.util`), 3 = pkg/util.py (does not parse).  `pkg ↔ pkg.core` is no cycle of the graph: the request `2 → 1` is
for an own package, and the implicit request `1 → 1` (pkg is above pkg.core) is for the importer itself. -/
def exPkgA : List Mod := [⟨true, [2], []⟩, ⟨true, [2], []⟩, ⟨true, [1, 3], [1]⟩, ⟨false, [], [1]⟩]
def exPkgRank : Nat → Nat := fun m => 3 - m
theorem exPkgA_above : ∀ t, aboveOf exPkgA t = if t = 2 ∨ t = 3 then [1] else []
  | 0 => rfl | 1 => rfl | 2 => rfl | 3 => rfl | _+4 => rfl
theorem exPkgA_tree : TreeOK exPkgA := by
  intro t l1 p l2 hh
  rw [exPkgA_above t] at hh
  by_cases ht : t = 2 ∨ t = 3
  · simp only [ht, if_true] at hh
    have hl1 : l1 = [] := by
      cases l1 with
      | nil => rfl
      | cons a l1 => simp at hh
    subst hl1
    simp at hh
    rw [← hh.1]; rfl
  · simp [ht] at hh
theorem exPkgA_ranked : Ranked exPkgA exPkgRank := by
  refine ⟨?_, ?_, ?_⟩
  · intro m md t hm ht ho
    match m, hm with
    | 0, hm => simp [exPkgA] at hm; subst hm; simp at ht; subst ht; simp [exPkgRank]
    | 1, hm => simp [exPkgA] at hm; subst hm; simp at ht; subst ht; simp [exPkgRank]
    | 2, hm =>
      simp [exPkgA] at hm; subst hm; simp at ht
      rcases ht with rfl | rfl
      · exact absurd (.inr (by rw [exPkgA_above]; simp)) ho
      · simp [exPkgRank]
    | 3, hm => simp [exPkgA] at hm; subst hm; simp at ht
    | n+4, hm => simp [exPkgA] at hm
  · intro m md t p hm ht _ hp hop
    match m, hm with
    | 0, hm =>
      simp [exPkgA] at hm; subst hm; simp at ht; subst ht
      rw [exPkgA_above] at hp; simp at hp; subst hp; simp [exPkgRank]
    | 1, hm =>
      simp [exPkgA] at hm; subst hm; simp at ht; subst ht
      rw [exPkgA_above] at hp; simp at hp; subst hp
      exact absurd (.inl rfl) hop
    | 2, hm =>
      simp [exPkgA] at hm; subst hm; simp at ht
      rcases ht with rfl | rfl
      · rw [exPkgA_above] at hp; simp at hp
      · rw [exPkgA_above] at hp; simp at hp; subst hp
        exact absurd (.inr (by rw [exPkgA_above]; simp)) hop
    | 3, hm => simp [exPkgA] at hm; subst hm; simp at ht
    | n+4, hm => simp [exPkgA] at hm
  · intro m md t hm ht
    match m, hm with
    | 0, hm => simp [exPkgA] at hm; subst hm; simp at ht; subst ht; simp [exPkgA]
    | 1, hm => simp [exPkgA] at hm; subst hm; simp at ht; subst ht; simp [exPkgA]
    | 2, hm => simp [exPkgA] at hm; subst hm; simp at ht; rcases ht with rfl | rfl <;> simp [exPkgA]
    | 3, hm => simp [exPkgA] at hm; subst hm; simp at ht
    | n+4, hm => simp [exPkgA] at hm
theorem exPkgA_pf_root_first : PF exPkgA [0, 1, 2, 3] := by
  simp [PF, exPkgA_above]
theorem exPkgA_pf_package_first : PF exPkgA [1, 2, 3, 0] := by
  simp [PF, exPkgA_above]
example : SeesFinal exPkgA (run exPkgA [0, 1, 2, 3]).log :=
  acyclic_sees_final exPkgA exPkgA_tree exPkgRank exPkgA_ranked [0, 1, 2, 3] (by decide) exPkgA_pf_root_first
example : SeesFinal exPkgA (run exPkgA [1, 2, 3, 0]).log :=
  acyclic_sees_final exPkgA exPkgA_tree exPkgRank exPkgA_ranked [1, 2, 3, 0] (by decide) exPkgA_pf_package_first

/-- with an import cycle a body does look into a half-analysed module, and which one does depends on
the order: in `exMods` (0 → 1 → {2, 0}) module 1 sees module 0 PROCESSING when 0 is taken up first,
while module 0 sees module 1 PROCESSING when 1 is taken up first -/
theorem cyclic_sees_unfinished :
    Event.sees 1 0 .processing ∈ (run exMods [0, 1, 2]).log ∧ final exMods 0 = .processed ∧
    Event.sees 0 1 .processing ∈ (run exMods [1, 0, 2]).log ∧ final exMods 1 = .processed := by
  refine ⟨?_, by decide, ?_, by decide⟩ <;>
    simp [run, process, processModule, visitBody, processAbove, aboveOf, initState, getSt, setSt, exMods]

/-! ## what a module body observes is the same in every order -/

/-- the `sees` events of importer `m`, in log order — requests for `m`'s own packages apart (what those return,
the package PROCESSING or PROCESSED, is not claimed to be the same in every order) -/
def seesOf (mods : List Mod) (m : Nat) (l : List Event) : List Event :=
  l.filter fun e => match e with | .sees a t _ => a == m && !decide (own mods m t) | _ => false

/-- what the body of `m` observes in an acyclic project: each import (own packages apart), in source order, in
its final state -/
def view (mods : List Mod) (m : Nat) : List Event :=
  match mods[m]? with
  | some md =>
    if md.parses then (md.imports.filter fun t => !decide (own mods m t)).map (fun t => Event.sees m t (final mods t))
    else []
  | none => []

theorem seesOf_append (mods : List Mod) (m : Nat) (l l' : List Event) :
    seesOf mods m (l ++ l') = seesOf mods m l ++ seesOf mods m l' := by
  simp [seesOf]

/-- contribution of one call to the `sees` events of `m`: its whole view if the call analysed `m` -/
def contrib (mods : List Mod) (m : Nat) (s s' : State) : List Event :=
  if m ∈ s.unprocessed ∧ m ∉ s'.unprocessed then view mods m else []

theorem contrib_refl (mods : List Mod) (m : Nat) (s : State) : contrib mods m s s = [] := by
  simp [contrib]

theorem contrib_trans (mods : List Mod) (m : Nat) {s s1 s2 : State}
    (h1 : s1.unprocessed.Sublist s.unprocessed) (h2 : s2.unprocessed.Sublist s1.unprocessed) :
    contrib mods m s s1 ++ contrib mods m s1 s2 = contrib mods m s s2 := by
  simp only [contrib]
  by_cases a : m ∈ s.unprocessed
  · by_cases b : m ∈ s1.unprocessed
    · by_cases c : m ∈ s2.unprocessed
      · simp [a, b, c]
      · simp [a, b, c]
    · have c : m ∉ s2.unprocessed := fun hh => b (h2.subset hh)
      simp [a, b, c]
  · have b : m ∉ s1.unprocessed := fun hh => a (h1.subset hh)
    have c : m ∉ s2.unprocessed := fun hh => b (h2.subset hh)
    simp [a, b, c]

def PMview (mods : List Mod) (r : Nat → Nat) (f : Nat) : Prop :=
  ∀ s k, Inv mods.length s → k ∈ s.unprocessed → s.unprocessed.length ≤ f → Settled mods mods.length s →
    (∀ q ∈ aboveOf mods k, getSt s q ≠ .unprocessed) →
    (∀ j, Busy mods s j → r k < r j) →
    ∀ m, seesOf mods m (processModule mods f s k).log = seesOf mods m s.log ++ contrib mods m s (processModule mods f s k)

def VBview (mods : List Mod) (r : Nat → Nat) (f : Nat) : Prop :=
  ∀ ts s m0, Inv mods.length s → s.unprocessed.length ≤ f → Settled mods mods.length s →
    m0 ∉ s.unprocessed → (∀ q, own mods m0 q → getSt s q ≠ .unprocessed) →
    (∀ j, Busy mods s j → j = m0 ∨ r m0 < r j) → Below mods r m0 ts →
    ∀ m, seesOf mods m (visitBody mods f s m0 ts).log = seesOf mods m s.log ++
      (if m = m0 then (ts.filter fun t => !decide (own mods m0 t)).map (fun t => Event.sees m0 t (final mods t))
       else contrib mods m s (visitBody mods f s m0 ts))

theorem seesOf_single (mods : List Mod) (m a t : Nat) (st : PState) :
    seesOf mods m [Event.sees a t st] = if m = a ∧ ¬ own mods m t then [Event.sees a t st] else [] := by
  by_cases h : a = m
  · subst h
    by_cases ho : own mods a t
    · simp [seesOf, ho]
    · simp [seesOf, ho]
  · have h' : ¬ m = a := fun e => h e.symm
    simp [seesOf, h, h']

/-- the loop over the packages above a module asked for by `m0` -/
theorem paview_of_pmview (mods : List Mod) (htree : TreeOK mods) (r : Nat → Nat) (f : Nat) (hpm : PMview mods r f)
    (m0 t : Nat) :
    ∀ ps done s, aboveOf mods t = done ++ ps → Inv mods.length s → s.unprocessed.length ≤ f →
      Settled mods mods.length s → (∀ q ∈ done, getSt s q ≠ .unprocessed) →
      (∀ q, own mods m0 q → getSt s q ≠ .unprocessed) →
      (∀ k, Busy mods s k → k = m0 ∨ r m0 < r k) → (∀ p ∈ ps, ¬ own mods m0 p → r p < r m0) →
      ∀ m, seesOf mods m (processAbove mods f s ps).log = seesOf mods m s.log ++ contrib mods m s (processAbove mods f s ps) := by
  intro ps
  induction ps with
  | nil => intro done s _ _ _ _ _ _ _ _ m; simp only [processAbove, contrib_refl, List.append_nil]
  | cons p ps ih =>
    intro done s hab h hf hset hdone hown hbusy hps m
    simp only [processAbove]
    have hab' : aboveOf mods t = (done ++ [p]) ++ ps := by rw [hab]; simp
    have hps' : ∀ q ∈ ps, ¬ own mods m0 q → r q < r m0 := fun q hq => hps q (List.mem_cons_of_mem _ hq)
    by_cases hp : getSt s p = .unprocessed
    · have hmem : p ∈ s.unprocessed := (h.iff p).mpr hp
      have hnown : ¬ own mods m0 p := fun ho => hown p ho hp
      have hrp : r p < r m0 := hps p List.mem_cons_self hnown
      have hs := pm_all mods mods.length f s p h hmem hf
      have hv1 := hpm s p h hmem hf hset
        (by rw [htree t done p ps hab]; exact hdone)
        (fun k hk => by
          rcases hbusy k hk with e | e
          · rw [e]; exact hrp
          · exact Nat.lt_trans hrp e) m
      simp only [hp, if_true]
      have hf' := Nat.le_trans hs.1.sub.length_le hf
      have hrest := ih (done ++ [p]) _ hab' hs.1.inv hf' (settled_of_step hs.1 hset)
        (by
          intro q hq
          rcases List.mem_append.mp hq with e | e
          · exact nonU_of_step h hs.1 (hdone q e)
          · have : q = p := by simpa using e
            subst this
            exact fun hh => hs.2 ((hs.1.inv.iff q).mpr hh))
        (fun q hq => nonU_of_step h hs.1 (hown q hq)) (fun k hk => hbusy k (busy_of_step hs.1 hk)) hps' m
      rw [hrest, hv1, List.append_assoc]
      congr 1
      exact contrib_trans mods m hs.1.sub (pa_of_pm mods mods.length f (pm_all mods mods.length f) ps _ hs.1.inv hf').sub
    · simp only [hp, if_false]
      refine ih (done ++ [p]) s hab' h hf hset ?_ hown hbusy hps' m
      intro q hq
      rcases List.mem_append.mp hq with e | e
      · exact hdone q e
      · have : q = p := by simpa using e
        subst this; exact hp

/-- one `getProcessedModule(t)` from the body of `m0`: what it adds to every module's observations, and the state
in which `t` is returned -/
theorem request_view (mods : List Mod) (htree : TreeOK mods) (r : Nat → Nat) (f : Nat) (hpm : PMview mods r f)
    (s : State) (m0 t : Nat) (h : Inv mods.length s) (hf : s.unprocessed.length ≤ f)
    (hset : Settled mods mods.length s) (hown : ∀ q, own mods m0 q → getSt s q ≠ .unprocessed)
    (hbusy : ∀ k, Busy mods s k → k = m0 ∨ r m0 < r k) (ht : Below mods r m0 [t]) :
    (∀ m, seesOf mods m (request mods f s t).log = seesOf mods m s.log ++ contrib mods m s (request mods f s t)) ∧
    (¬ own mods m0 t → getSt (request mods f s t) t = final mods t) := by
  obtain ⟨htn, hlow⟩ := ht t List.mem_cons_self
  by_cases ho : own mods m0 t
  · have hnu : getSt s t ≠ .unprocessed := hown t ho
    have e1 : above1 mods f s t = s := by simp [above1, hnu]
    have e2 : request mods f s t = s := by simp [request, e1, hnu]
    rw [e2]; exact ⟨fun m => by simp [contrib_refl], fun hh => absurd ho hh⟩
  · obtain ⟨hrt, hrab⟩ := hlow ho
    by_cases hu : getSt s t = .unprocessed
    · have hmem : t ∈ s.unprocessed := (h.iff t).mpr hu
      have e1 : above1 mods f s t = processAbove mods f s (aboveOf mods t) := by simp [above1, hu]
      have h0 : Step mods mods.length s (above1 mods f s t) :=
        above1_step mods mods.length f (pm_all mods mods.length f) s t h hf
      have hv0 : ∀ m, seesOf mods m (above1 mods f s t).log = seesOf mods m s.log ++ contrib mods m s (above1 mods f s t) := by
        intro m
        rw [e1]
        exact paview_of_pmview mods htree r f hpm m0 t (aboveOf mods t) [] s (by simp) h hf hset
          (by intro q hq; cases hq) hown hbusy hrab m
      have hf0 : (above1 mods f s t).unprocessed.length ≤ f := Nat.le_trans h0.sub.length_le hf
      by_cases hu0 : getSt (above1 mods f s t) t = .unprocessed
      · have hmem0 : t ∈ (above1 mods f s t).unprocessed := (h0.inv.iff t).mpr hu0
        have hp := pm_all mods mods.length f _ t h0.inv hmem0 hf0
        have e2 : request mods f s t = processModule mods f (above1 mods f s t) t := by simp [request, hu0]
        rw [e2]
        refine ⟨fun m => ?_, fun _ => hp.1.done t hmem0 hp.2⟩
        have hv1 := hpm _ t h0.inv hmem0 hf0 (settled_of_step h0 hset)
          (by
            rw [e1]
            exact fun q hq => processAbove_nonU mods mods.length f (pm_all mods mods.length f) _ s h hf q hq)
          (by
            intro k hk
            rcases hbusy k (busy_of_step h0 hk) with e | e
            · rw [e]; exact hrt
            · exact Nat.lt_trans hrt e) m
        rw [hv1, hv0 m, List.append_assoc]
        congr 1
        exact contrib_trans mods m h0.sub hp.1.sub
      · have e2 : request mods f s t = above1 mods f s t := by simp [request, hu0]
        rw [e2]
        refine ⟨hv0, fun _ => h0.done t hmem ?_⟩
        exact fun hh => hu0 ((h0.inv.iff t).mp hh)
    · have e1 : above1 mods f s t = s := by simp [above1, hu]
      have e2 : request mods f s t = s := by simp [request, e1, hu]
      rw [e2]
      refine ⟨fun m => by simp [contrib_refl], fun _ => ?_⟩
      cases hst : getSt s t with
      | unprocessed => exact absurd hst hu
      | processed => exact (hset t htn hst).symm
      | processing =>
        rcases final_cases mods t with hf' | hf'
        · exfalso
          rcases hbusy t ⟨hst, hf'⟩ with e | e
          · exact ho (.inl e)
          · exact Nat.lt_irrefl _ (Nat.lt_trans hrt e)
        · exact hf'.symm

theorem vbview_of_pmview (mods : List Mod) (htree : TreeOK mods) (r : Nat → Nat) (f : Nat) (hpm : PMview mods r f) :
    VBview mods r f := by
  intro ts
  induction ts with
  | nil =>
    intro s m0 _ _ _ _ _ _ _ m
    simp only [visitBody, List.filter_nil, List.map_nil]
    by_cases hm : m = m0
    · simp [hm]
    · simp [hm, contrib]
  | cons t ts ih =>
    intro s m0 h hf hset hm0 hown hbusy hts m
    have hts' : Below mods r m0 ts := fun u hu => hts u (List.mem_cons_of_mem _ hu)
    have ht1 : Below mods r m0 [t] := by
      intro u hu
      have : u = t := by simpa using hu
      subst this; exact hts u List.mem_cons_self
    rw [visitBody_cons]
    have hp := (request_step mods mods.length f (pm_all mods mods.length f) s t h hf).1
    obtain ⟨hv1, hfin⟩ := request_view mods htree r f hpm s m0 t h hf hset hown hbusy ht1
    have hlog := Step.log (mods := mods) hp [Event.sees m0 t (getSt (request mods f s t) t)]
      (by intro k; simp [starts]) (by intro k; simp)
    have hlen : (request mods f s t).unprocessed.length ≤ f := Nat.le_trans hp.sub.length_le hf
    have hm0' : m0 ∉ (request mods f s t).unprocessed := fun hh => hm0 (hp.sub.subset hh)
    have hrest := ih _ m0 hlog.inv hlen (settled_of_step hlog hset) hm0'
      (fun q hq => nonU_of_step h hlog (hown q hq))
      (fun j hj => hbusy j (busy_of_step hlog hj)) hts' m
    rw [hrest]
    show seesOf mods m ((request mods f s t).log ++ [Event.sees m0 t (getSt (request mods f s t) t)]) ++ _ = _
    rw [seesOf_append, hv1 m, seesOf_single]
    generalize hS' : visitBody mods f
      { (request mods f s t) with
        log := (request mods f s t).log ++ [Event.sees m0 t (getSt (request mods f s t) t)] } m0 ts = S'
    have hsub' : S'.unprocessed.Sublist (request mods f s t).unprocessed := by
      have := (vb_of_pm mods mods.length f (pm_all mods mods.length f) ts _ m0 hlog.inv hlen).sub
      rw [← hS']; exact this
    by_cases hm : m = m0
    · subst hm
      have hc : contrib mods m s (request mods f s t) = [] := by simp [contrib, hm0]
      by_cases ho : own mods m t
      · simp [hc, ho]
      · simp [hc, ho, hfin ho]
    · simp only [hm, false_and, if_false, List.append_nil, List.append_assoc]
      congr 1
      have := contrib_trans mods m (s := s) (s1 := request mods f s t) (s2 := S') hp.sub hsub'
      simpa [contrib] using this

theorem pmview_succ_of_vbview (mods : List Mod) (r : Nat → Nat) (hr : Ranked mods r) (f : Nat)
    (hvb : VBview mods r f) : PMview mods r (f+1) := by
  intro s k h hk hf hset habove hbusy m
  have hst : getSt s k = .unprocessed := (h.iff k).mp hk
  have hkn : k < mods.length := getSt_lt h hst
  have hk1 : k ∉ (enter s k).unprocessed := by rw [mem_enter h.nodup]; simp
  rw [processModule_eq mods f s k hst hk]
  have hnostart : seesOf mods m (s.log ++ [Event.start k]) = seesOf mods m s.log := by
    rw [seesOf_append]; simp [seesOf]
  cases hmd : mods[k]? with
  | none =>
    show seesOf mods m (s.log ++ [Event.start k]) = _
    rw [hnostart]
    simp only [contrib]
    by_cases hmk : m = k
    · subst hmk; simp [view, hmd]
    · have : ¬ (m ∈ s.unprocessed ∧ m ∉ (enter s k).unprocessed) := by
        rw [mem_enter h.nodup]; simp [hmk]
      simp [this]
  | some md =>
    simp only
    by_cases hp : md.parses = true
    · simp only [hp, if_true]
      have hinv1v : Inv mods.length (addLog (enter s k) [.visit k]) :=
        inv_addLog (inv_enter h hk hkn) _ (by intro j; simp [starts]) (by intro j; simp)
      have hlen1 : (addLog (enter s k) [.visit k]).unprocessed.length ≤ f := by
        show (s.unprocessed.erase k).length ≤ f
        rw [List.length_erase_of_mem hk]; omega
      have hget : ∀ j, getSt (addLog (enter s k) [.visit k]) j = if j = k then .processing else getSt s j :=
        fun j => getSt_enter h hkn j
      have hset1 : Settled mods mods.length (addLog (enter s k) [.visit k]) := by
        intro j hjn hj
        rw [hget j] at hj
        by_cases hjk : j = k
        · simp [hjk] at hj
        · simp only [hjk, if_false] at hj; exact hset j hjn hj
      have hown1 : ∀ q, own mods k q → getSt (addLog (enter s k) [.visit k]) q ≠ .unprocessed := by
        intro q hq
        rw [hget q]
        by_cases hqk : q = k
        · simp [hqk]
        · simp only [hqk, if_false]
          rcases hq with e | e
          · exact absurd e hqk
          · exact habove q e
      have hbusy1 : ∀ j, Busy mods (addLog (enter s k) [.visit k]) j → j = k ∨ r k < r j := by
        intro j hj
        by_cases hjk : j = k
        · exact .inl hjk
        · refine .inr (hbusy j ⟨?_, hj.2⟩)
          have := hj.1
          rw [hget j] at this
          simpa [hjk] using this
      have hv := hvb md.imports _ k hinv1v hlen1 hset1 hk1 hown1 hbusy1
        (fun t ht => ⟨hr.known k md t hmd ht, fun ho =>
          ⟨hr.lt k md t hmd ht ho, fun p hp hop => hr.ltAbove k md t p hmd ht ho hp hop⟩⟩) m
      show seesOf mods m ((visitBody mods f (addLog (enter s k) [.visit k]) k md.imports).log ++ [Event.finish k]) = _
      rw [seesOf_append, hv]
      have h0 : seesOf mods m (addLog (enter s k) [.visit k]).log = seesOf mods m s.log := by
        show seesOf mods m ((s.log ++ [Event.start k]) ++ [Event.visit k]) = _
        rw [seesOf_append, hnostart]; simp [seesOf]
      rw [h0]
      have hfinish : seesOf mods m [Event.finish k] = [] := by simp [seesOf]
      rw [hfinish, List.append_nil]
      congr 1
      generalize hS2 : visitBody mods f (addLog (enter s k) [.visit k]) k md.imports = s2
      have hsub2 : s2.unprocessed.Sublist (enter s k).unprocessed := by
        have := (vb_of_pm mods mods.length f (pm_all mods mods.length f) md.imports _ k hinv1v hlen1).sub
        rw [← hS2]; exact this
      by_cases hmk : m = k
      · subst hmk
        have hk2 : m ∉ s2.unprocessed := fun hh => hk1 (hsub2.subset hh)
        simp [contrib, leave, hk, hk2, view, hmd, hp]
      · simp only [hmk, if_false, contrib]
        have hiff : m ∈ (addLog (enter s k) [.visit k]).unprocessed ↔ m ∈ s.unprocessed := by
          show m ∈ (enter s k).unprocessed ↔ _
          rw [mem_enter h.nodup]; simp [hmk]
        by_cases hc : m ∈ s.unprocessed ∧ m ∉ s2.unprocessed
        · have hc'' : m ∈ (addLog (enter s k) [.visit k]).unprocessed ∧ m ∉ s2.unprocessed := ⟨hiff.mpr hc.1, hc.2⟩
          rw [if_pos hc'', if_pos (show m ∈ s.unprocessed ∧ m ∉ (leave s2 k).unprocessed from hc)]
        · have hc'' : ¬ (m ∈ (addLog (enter s k) [.visit k]).unprocessed ∧ m ∉ s2.unprocessed) :=
            fun hh => hc ⟨hiff.mp hh.1, hh.2⟩
          rw [if_neg hc'', if_neg (show ¬ (m ∈ s.unprocessed ∧ m ∉ (leave s2 k).unprocessed) from hc)]
    · have hp' : md.parses = false := by simpa using hp
      simp only [hp', Bool.false_eq_true, if_false]
      show seesOf mods m ((s.log ++ [Event.start k]) ++ [Event.parseError k]) = _
      rw [seesOf_append, hnostart]
      have : seesOf mods m [Event.parseError k] = [] := by simp [seesOf]
      rw [this, List.append_nil]
      simp only [contrib]
      by_cases hmk : m = k
      · subst hmk; simp [view, hmd, hp']
      · have : ¬ (m ∈ s.unprocessed ∧ m ∉ (addLog (enter s k) [Event.parseError k]).unprocessed) := by
          show ¬ (m ∈ s.unprocessed ∧ m ∉ (enter s k).unprocessed)
          rw [mem_enter h.nodup]; simp [hmk]
        simp [this]

theorem pmview_all (mods : List Mod) (htree : TreeOK mods) (r : Nat → Nat) (hr : Ranked mods r) : ∀ f, PMview mods r f
  | 0 => by
    intro s k _ hk hf
    have : 0 < s.unprocessed.length := List.length_pos_of_mem hk
    omega
  | f+1 => pmview_succ_of_vbview mods r hr f (vbview_of_pmview mods htree r f (pmview_all mods htree r hr f))

theorem process_view (mods : List Mod) (htree : TreeOK mods) (r : Nat → Nat) (hr : Ranked mods r) :
    ∀ f s, Inv mods.length s → s.unprocessed.length ≤ f → s.unprocessed.length ≤ mods.length + 1 →
      Settled mods mods.length s → PF mods s.unprocessed → (∀ k, ¬ Busy mods s k) →
      ∀ m, seesOf mods m (process mods f s).log = seesOf mods m s.log ++ (if m ∈ s.unprocessed then view mods m else []) := by
  intro f
  induction f with
  | zero =>
    intro s _ hf _ _ _ _ m
    have : s.unprocessed = [] := List.eq_nil_of_length_eq_zero (by omega)
    simp [process, this]
  | succ f ih =>
    intro s h hf hb hset hpf hbusy m
    unfold process
    cases hu : s.unprocessed with
    | nil => simp
    | cons k rest =>
      simp only
      have hk : k ∈ s.unprocessed := by simp [hu]
      have hp := pm_all mods mods.length (mods.length + 1) s k h hk hb
      have habove : ∀ q ∈ aboveOf mods k, getSt s q ≠ .unprocessed := by
        intro q hq hqu
        have hq1 : q ∈ s.unprocessed := (h.iff q).mpr hqu
        rw [hu] at hpf hq1
        exact hpf.1 q hq hq1
      have hv := pmview_all mods htree r hr (mods.length + 1) s k h hk hb hset habove
        (fun j hj => absurd hj (hbusy j)) m
      have hlt : (processModule mods (mods.length + 1) s k).unprocessed.length < s.unprocessed.length := by
        rcases Nat.lt_or_ge (processModule mods (mods.length + 1) s k).unprocessed.length s.unprocessed.length with h1 | h1
        · exact h1
        · have := hp.1.sub.eq_of_length_le h1
          have hne := hp.2
          rw [this] at hne; exact absurd hk hne
      have hrest := ih _ hp.1.inv (by omega) (by omega) (settled_of_step hp.1 hset)
        (PF_sublist mods hp.1.sub hpf)
        (fun j hj => hbusy j (busy_of_step hp.1 hj)) m
      rw [hrest, hv, List.append_assoc]
      congr 1
      have hmem : (m ∈ k :: rest) ↔ m ∈ s.unprocessed := by rw [hu]
      simp only [contrib]
      by_cases h1 : m ∈ s.unprocessed
      · by_cases h2 : m ∈ (processModule mods (mods.length + 1) s k).unprocessed
        · simp [h1, h2, hmem.mpr h1]
        · simp [h1, h2, hmem.mpr h1]
      · have h2 : m ∉ (processModule mods (mods.length + 1) s k).unprocessed := fun hh => h1 (hp.1.sub.subset hh)
        have h3 : ¬ (m ∈ k :: rest) := fun hh => h1 (hmem.mp hh)
        simp [h1, h2, h3]

/-- **body_view_acyclic** (C06): in an acyclic project (see `Ranked`), under every reachable order, the sequence
of things the body of module `m` obtains from its import statements — requests for its own packages apart — is
exactly: each imported module, in source order, in its final state -/
theorem body_view_acyclic (mods : List Mod) (htree : TreeOK mods) (r : Nat → Nat) (hr : Ranked mods r)
    (order : List Nat) (hperm : order.Perm (List.range mods.length)) (hpf : PF mods order)
    (m : Nat) (hm : m < mods.length) :
    seesOf mods m (run mods order).log = view mods m := by
  unfold run
  have h0 := inv_init mods.length order hperm
  have hlen : (initState mods.length order).unprocessed.length = mods.length := by
    show order.length = _
    rw [hperm.length_eq]; simp
  have hget : ∀ k, k < mods.length → getSt (initState mods.length order) k = .unprocessed := by
    intro k hk
    simp [getSt, initState, List.getD_eq_getElem?_getD, List.getElem?_replicate, hk]
  have hin : m ∈ (initState mods.length order).unprocessed := by
    show m ∈ order
    rw [hperm.mem_iff]; simpa using hm
  have := process_view mods htree r hr (mods.length + 1) _ h0 (by omega) (by omega)
    (by intro k hk hp; rw [hget k hk] at hp; cases hp) hpf
    (by
      intro k hb
      by_cases hk : k < mods.length
      · have := hb.1; rw [hget k hk] at this; cases this
      · have := hb.1
        simp [getSt, initState, List.getD_eq_getElem?_getD, List.getElem?_replicate, hk] at this) m
  rw [this]
  have hin' : m ∈ order := hin
  simp [hin', initState, seesOf]

/-- **body_view_order_independent** (C06): what each module body observes through its imports (requests for its
own packages apart) does not depend on the reachable order in which the modules of an acyclic project are taken up -/
theorem body_view_order_independent (mods : List Mod) (htree : TreeOK mods) (r : Nat → Nat) (hr : Ranked mods r)
    (o1 o2 : List Nat) (h1 : o1.Perm (List.range mods.length)) (h2 : o2.Perm (List.range mods.length))
    (hp1 : PF mods o1) (hp2 : PF mods o2) (m : Nat) (hm : m < mods.length) :
    seesOf mods m (run mods o1).log = seesOf mods m (run mods o2).log := by
  rw [body_view_acyclic mods htree r hr o1 h1 hp1 m hm, body_view_acyclic mods htree r hr o2 h2 hp2 m hm]

example : seesOf exAcyclic 0 (run exAcyclic [1, 0, 2]).log = [Event.sees 0 1 .processed, Event.sees 0 2 .processing] := by
  rw [body_view_acyclic exAcyclic (treeOK_of_flat exAcyclic_flat) exRank exAcyclic_ranked [1, 0, 2] (by decide)
    (pf_of_flat exAcyclic_flat _) 0 (by decide)]
  decide

/-- the package example: `pkg.core` (2) observes `pkg.util` (3) in its final state whether the root or the package is
taken up first; its request for `pkg` itself is split off -/
example : seesOf exPkgA 2 (run exPkgA [0, 1, 2, 3]).log = seesOf exPkgA 2 (run exPkgA [1, 2, 3, 0]).log :=
  body_view_order_independent exPkgA exPkgA_tree exPkgRank exPkgA_ranked _ _ (by decide) (by decide)
    exPkgA_pf_root_first exPkgA_pf_package_first 2 (by decide)

/-! ## a package is entered before its sub-modules (hunter finding 3, repaired by /repo 0ba6723)

Before 0ba6723 `getProcessedModule(t)` processed `t` itself, not the packages above it — the model with `above = []`
everywhere.  Python always runs `pkg/__init__.py` before `pkg/core.py`; there a root that is taken up first and asks
for `pkg.core` entered `pkg.core` first, and the package's `__init__` — pulled in by `from . import util` inside
`pkg.core` — then found its own sub-module half analysed (a re-export that finds nothing: the finding
`order-dependent:submodule-analysed-before-its-package`, fixed).  With the packages above listed the same project
enters the package first under both orders, and the package's body obtains its sub-module in its final state. -/

/-- position of `start m` in a log (its length when `m` is never entered) -/
def startPos (l : List Event) (m : Nat) : Nat := l.idxOf (Event.start m)

/-- hunt/C06/3 as the scheduler saw it BEFORE 0ba6723 (no packages above): 0 = app.py (`from pkg.core import Base`),
1 = pkg/__init__.py (`from .core import Base`), 2 = pkg/core.py (`from . import util`: asks for `pkg`, then for
`pkg.util`), 3 = pkg/util.py -/
def exPkg : List Mod := [⟨true, [2], []⟩, ⟨true, [2], []⟩, ⟨true, [1, 3], []⟩, ⟨true, [], []⟩]

theorem exPkg_log_root_first : (run exPkg [0, 1, 2, 3]).log =
    [.start 0, .visit 0, .start 2, .visit 2, .start 1, .visit 1, .sees 1 2 .processing, .finish 1, .sees 2 1 .processed,
     .start 3, .visit 3, .finish 3, .sees 2 3 .processed, .finish 2, .sees 0 2 .processed, .finish 0] := by
  simp [run, process, processModule, visitBody, processAbove, aboveOf, initState, getSt, setSt, exPkg]

theorem exPkg_log_package_first : (run exPkg [1, 2, 3, 0]).log =
    [.start 1, .visit 1, .start 2, .visit 2, .sees 2 1 .processing, .start 3, .visit 3, .finish 3, .sees 2 3 .processed,
     .finish 2, .sees 1 2 .processed, .finish 1, .start 0, .visit 0, .sees 0 2 .processed, .finish 0] := by
  simp [run, process, processModule, visitBody, processAbove, aboveOf, initState, getSt, setSt, exPkg]

/-- **submodule_before_package_counterexample** (C06, HISTORICAL: the scheduler before 0ba6723): both orders are
reachable (package 1 before its modules 2, 3; the root 0 before or after the package).  With the package first it is
entered before its sub-module and obtains it in its final state; with the root first the sub-module was entered
BEFORE its package, and the package's body obtained its own sub-module while that was still being analysed. -/
theorem submodule_before_package_counterexample :
    startPos (run exPkg [1, 2, 3, 0]).log 1 < startPos (run exPkg [1, 2, 3, 0]).log 2 ∧
    Event.sees 1 2 .processed ∈ (run exPkg [1, 2, 3, 0]).log ∧
    startPos (run exPkg [0, 1, 2, 3]).log 2 < startPos (run exPkg [0, 1, 2, 3]).log 1 ∧
    Event.sees 1 2 .processing ∈ (run exPkg [0, 1, 2, 3]).log := by
  rw [exPkg_log_root_first, exPkg_log_package_first]; decide

/-- the same files with the packages above listed (the scheduler as it is): 2 and 3 have `pkg` (1) above them -/
def exPkgNow : List Mod := [⟨true, [2], []⟩, ⟨true, [2], []⟩, ⟨true, [1, 3], [1]⟩, ⟨true, [], [1]⟩]

theorem exPkgNow_log_root_first : (run exPkgNow [0, 1, 2, 3]).log =
    [.start 0, .visit 0, .start 1, .visit 1, .start 2, .visit 2, .sees 2 1 .processing, .start 3, .visit 3, .finish 3,
     .sees 2 3 .processed, .finish 2, .sees 1 2 .processed, .finish 1, .sees 0 2 .processed, .finish 0] := by
  simp [run, process, processModule, visitBody, processAbove, aboveOf, initState, getSt, setSt, exPkgNow]

/-- **package_before_submodule_example** (C06): with the root taken up first, its request for `pkg.core` now enters
`pkg` first (the silent step: no `sees 0 1` event), `pkg.core` inside the package's own body, and the package's body
obtains `pkg.core` in its final state — what the order "package first" always gave. -/
theorem package_before_submodule_example :
    startPos (run exPkgNow [0, 1, 2, 3]).log 1 < startPos (run exPkgNow [0, 1, 2, 3]).log 2 ∧
    Event.sees 1 2 .processed ∈ (run exPkgNow [0, 1, 2, 3]).log ∧
    ((run exPkgNow [0, 1, 2, 3]).log.filter fun e => match e with | .sees 0 1 _ => true | _ => false) = [] := by
  rw [exPkgNow_log_root_first]; decide

end Schedule

/-! ## `_inherits_instance_variable_kind`: the kinds computed by the post-processing pass do not depend
on the order in which the attributes are visited -/
namespace PostProcess

/-- well-formedness of the member table and the linearisations (what pydoctor's registry and a
consistent hierarchy give): a class has one member per name; a linearisation starts with its class,
which does not occur again; the linearisation of every class in it is contained in it -/
structure WF (w : World) : Prop where
  uniq : ∀ i j, i < w.n → j < w.n → w.cls i = w.cls j → w.name i = w.name j → i = j
  head : ∀ c, ∃ t, w.mro c = c :: t ∧ c ∉ t
  mono : ∀ c b, b ∈ w.mro c → ∀ x, x ∈ w.mro b → x ∈ w.mro c

theorem mem_inherited {w : World} (h : WF w) {i j : Nat} :
    j ∈ inherited w i ↔ j < w.n ∧ w.cls j ∈ (w.mro (w.cls i)).tail ∧ w.name j = w.name i := by
  unfold inherited
  rw [List.mem_filterMap]
  constructor
  · rintro ⟨b, hb, hf⟩
    have := List.find?_some hf
    simp only [Bool.and_eq_true, beq_iff_eq] at this
    have hm := List.mem_of_find?_eq_some hf
    exact ⟨by simpa using hm, this.1 ▸ hb, this.2⟩
  · rintro ⟨hj, hc, hn⟩
    refine ⟨w.cls j, hc, ?_⟩
    have hex : ∃ x ∈ List.range w.n, (w.cls x == w.cls j && w.name x == w.name i) = true :=
      ⟨j, by simpa using hj, by simp [hn]⟩
    cases hf : (List.range w.n).find? (fun x => w.cls x == w.cls j && w.name x == w.name i) with
    | none =>
      rw [List.find?_eq_none] at hf
      obtain ⟨x, hx, hp⟩ := hex
      exact absurd hp (hf x hx)
    | some x =>
      have hp := List.find?_some hf
      simp only [Bool.and_eq_true, beq_iff_eq] at hp
      have hx : x < w.n := by simpa using List.mem_of_find?_eq_some hf
      rw [h.uniq x j hx hj hp.1 (hp.2.trans hn.symm)]

/-- the invariant of the pass: a kind only ever changes from class variable to instance variable, and
only where the specification says so -/
def Ok (w : World) (k : Nat → Kind) : Prop :=
  ∀ i, k i = w.orig i ∨ (w.orig i = .classVar ∧ k i = .instVar ∧ spec w i = .instVar)

theorem spec_inst_of_witness {w : World} {i j : Nat} (hi : w.orig i = .classVar) (hj : j ∈ inherited w i)
    (hk : w.orig j = .instVar) : spec w i = .instVar := by
  unfold spec
  have : (inherited w i).any (fun j => w.orig j == .instVar) = true := by
    rw [List.any_eq_true]; exact ⟨j, hj, by simp [hk]⟩
  simp [hi, this]

/-- a member inherited by an inherited member is inherited -/
theorem inherited_trans {w : World} (h : WF w) {i j l : Nat} (hin : i < w.n) (hj : j ∈ inherited w i)
    (hl : l ∈ inherited w j) (hne : w.orig i ≠ w.orig l) : l ∈ inherited w i := by
  rw [mem_inherited h] at hj hl ⊢
  obtain ⟨hjn, hjc, hjname⟩ := hj
  obtain ⟨hln, hlc, hlname⟩ := hl
  refine ⟨hln, ?_, hlname.trans hjname⟩
  obtain ⟨t, ht, hnt⟩ := h.head (w.cls i)
  have hjm : w.cls j ∈ w.mro (w.cls i) := List.mem_of_mem_tail hjc
  have hlm : w.cls l ∈ w.mro (w.cls i) := h.mono _ _ hjm _ (List.mem_of_mem_tail hlc)
  rw [ht] at hlm ⊢
  simp only [List.tail_cons]
  rcases List.mem_cons.mp hlm with e | e
  · exfalso
    have : l = i := h.uniq l i hln hin e (hlname.trans hjname)
    exact hne (this ▸ rfl)
  · exact e

theorem ok_step {w : World} (h : WF w) {k : Nat → Kind} (hk : Ok w k) {i : Nat} (hin : i < w.n) :
    Ok w (step w k i) := by
  unfold step
  split
  · rename_i hc
    obtain ⟨hci, hany⟩ := hc
    intro x
    by_cases hx : x = i
    · subst hx
      simp only [if_true]
      have hoi : w.orig x = .classVar := by
        rcases hk x with e | ⟨_, e, _⟩
        · rw [← e]; exact hci
        · rw [hci] at e; cases e
      refine .inr ⟨hoi, by simp, ?_⟩
      rw [List.any_eq_true] at hany
      obtain ⟨j, hj, hkj⟩ := hany
      have hkj' : k j = .instVar := by simpa using hkj
      rcases hk j with e | ⟨hoj, _, hsj⟩
      · exact spec_inst_of_witness hoi hj (e ▸ hkj')
      · -- j was converted: it has a witness of its own, which x inherits too
        unfold spec at hsj
        split at hsj
        · rename_i hcj
          have hanyj := hcj.2
          rw [List.any_eq_true] at hanyj
          obtain ⟨l, hl, hol⟩ := hanyj
          have hol' : w.orig l = .instVar := by simpa using hol
          exact spec_inst_of_witness hoi (inherited_trans h hin hj hl (by rw [hoi, hol']; decide)) hol'
        · rw [hoj] at hsj; cases hsj
    · simp only [hx, if_false]; exact hk x
  · exact hk

theorem ok_pass {w : World} (h : WF w) : ∀ (order : List Nat) (k : Nat → Kind), Ok w k →
    (∀ i ∈ order, i < w.n) → Ok w (order.foldl (step w) k)
  | [], k, hk, _ => hk
  | i :: rest, k, hk, hlt =>
    ok_pass h rest _ (ok_step h hk (hlt i List.mem_cons_self)) (fun j hj => hlt j (List.mem_cons_of_mem _ hj))

/-- an instance variable stays one; a step only touches the member it is applied to -/
theorem step_inst {w : World} {k : Nat → Kind} {i x : Nat} (hx : k x = .instVar) : step w k i x = .instVar := by
  unfold step; split
  · by_cases e : x = i <;> simp [e, hx]
  · exact hx

theorem pass_inst {w : World} : ∀ (order : List Nat) (k : Nat → Kind) (x : Nat), k x = .instVar →
    order.foldl (step w) k x = .instVar
  | [], _, _, hx => hx
  | _ :: rest, _, x, hx => pass_inst rest _ x (step_inst hx)

/-- once member `i` has been visited, it carries the kind the specification gives it, whatever is
visited afterwards -/
theorem pass_complete {w : World} (h : WF w) : ∀ (order : List Nat) (k : Nat → Kind), Ok w k →
    (∀ i ∈ order, i < w.n) → ∀ i ∈ order, spec w i = .instVar → order.foldl (step w) k i = .instVar
  | [], _, _, _, _, hi, _ => by cases hi
  | a :: rest, k, hk, hlt, i, hi, hs => by
    simp only [List.foldl_cons]
    have hlt' : ∀ j ∈ rest, j < w.n := fun j hj => hlt j (List.mem_cons_of_mem _ hj)
    have hok' := ok_step h hk (hlt a List.mem_cons_self)
    by_cases hia : i = a
    · subst hia
      -- the step at i converts it (or it is an instance variable already)
      have : step w k i i = .instVar := by
        unfold spec at hs
        split at hs
        · rename_i hc
          obtain ⟨hoi, hany⟩ := hc
          rw [List.any_eq_true] at hany
          obtain ⟨j, hj, hoj⟩ := hany
          have hoj' : w.orig j = .instVar := by simpa using hoj
          have hkj : k j = .instVar := by
            rcases hk j with e | ⟨e, _, _⟩
            · rw [e]; exact hoj'
            · rw [hoj'] at e; cases e
          rcases hk i with e | ⟨_, e, _⟩
          · unfold step
            have hany' : (inherited w i).any (fun j => k j == .instVar) = true := by
              rw [List.any_eq_true]; exact ⟨j, hj, by simp [hkj]⟩
            simp [e, hoi, hany']
          · exact step_inst e
        · rcases hk i with e | ⟨_, e, _⟩
          · exact step_inst (e.trans hs)
          · exact step_inst e
      exact pass_inst rest _ i this
    · rcases List.mem_cons.mp hi with e | e
      · exact absurd e hia
      · exact pass_complete h rest _ hok' hlt' i e hs

/-- **kind_pass_spec** (C06, C02): whatever the order in which the attributes are visited — as long as
every one of them is — the pass leaves member `i` with the kind the specification names: an instance
variable iff it was one, or was a class variable with an instance variable of its name up the
linearisation of its class. -/
theorem kind_pass_spec (w : World) (h : WF w) (order : List Nat) (hlt : ∀ i ∈ order, i < w.n)
    (i : Nat) (hi : i ∈ order) : kindPass w order i = spec w i := by
  unfold kindPass
  have hok : Ok w w.orig := fun _ => .inl rfl
  by_cases hs : spec w i = .instVar
  · rw [hs]; exact pass_complete h order _ hok hlt i hi hs
  · rcases ok_pass h order _ hok hlt i with e | ⟨_, _, e⟩
    · rw [e]
      unfold spec at hs ⊢
      split
      · rename_i hc; simp [hc] at hs
      · rfl
    · exact absurd e hs

/-- **kind_pass_order_independent** (C06): two visiting orders of the same attributes give the same kinds -/
theorem kind_pass_order_independent (w : World) (h : WF w) (o1 o2 : List Nat)
    (h1 : ∀ i ∈ o1, i < w.n) (h2 : ∀ i ∈ o2, i < w.n) (i : Nat) (hi1 : i ∈ o1) (hi2 : i ∈ o2) :
    kindPass w o1 i = kindPass w o2 i := by
  rw [kind_pass_spec w h o1 h1 i hi1, kind_pass_spec w h o2 h2 i hi2]

/-- a three-class chain top ← mid ← bot with the attribute an instance variable at the top and a class
variable in both subclasses -/
def exW : World where
  n := 3
  cls := fun i => i
  name := fun _ => 0
  mro := fun c => if c = 1 then [1, 0] else if c = 2 then [2, 1, 0] else [c]
  orig := fun i => if i = 0 then .instVar else .classVar

theorem exW_wf : WF exW := by
  refine ⟨?_, ?_, ?_⟩
  · intro i j _ _ hc _; exact hc
  · intro c
    by_cases h1 : c = 1
    · subst h1; exact ⟨[0], by simp [exW], by simp⟩
    · by_cases h2 : c = 2
      · subst h2; exact ⟨[1, 0], by simp [exW], by simp⟩
      · exact ⟨[], by simp [exW, h1, h2], by simp⟩
  · intro c b hb x hx
    by_cases h1 : c = 1
    · subst h1
      simp [exW] at hb
      rcases hb with rfl | rfl
      · exact hx
      · simp [exW] at hx; subst hx; simp [exW]
    · by_cases h2 : c = 2
      · subst h2
        simp [exW] at hb
        rcases hb with rfl | rfl | rfl
        · exact hx
        · simp [exW] at hx; rcases hx with rfl | rfl <;> simp [exW]
        · simp [exW] at hx; subst hx; simp [exW]
      · simp [exW, h1, h2] at hb; subst hb; exact hx

/-- non-vacuity: bottom first or middle first, both end as instance variables -/
example : kindPass exW [2, 1, 0] 2 = .instVar ∧ kindPass exW [1, 2, 0] 2 = .instVar ∧ kindPass exW [2, 1, 0] 1 = .instVar := by
  refine ⟨?_, ?_, ?_⟩ <;> (rw [kind_pass_spec exW exW_wf _ (by decide) _ (by decide)]; decide)

/-- the early-stop variant (a seeded change) IS order dependent on the same chain: visiting the bottom
attribute before the middle one leaves it a class variable -/
theorem early_stop_order_dependent :
    [2, 1, 0].foldl (stepEarlyStop exW) exW.orig 2 = .classVar ∧
    [1, 2, 0].foldl (stepEarlyStop exW) exW.orig 2 = .instVar := by decide

end PostProcess
