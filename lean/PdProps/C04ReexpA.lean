/-
C04, re-exports (item 3), layer A — static: the facts of `reexportShape`, the relocation `relocSite`,
the alias relation `JpdR` (= `Jpd` + the alias `reparent` leaves behind + star imports of moved-in
objects) and that its targets denote what Python binds.
-/
import PdProps.C04Inh

namespace Imports
open Registry

/-- a re-export request: (definer module, name, re-exporting module, new name) -/
abbrev Req := Nat × Name × Nat × Name

/-! ## the requests -/

theorem lastAll_none : ∀ (b : List Stmt), (b.filter isAllStmt).isEmpty = true → lastAll b = none
  | [], _ => rfl
  | st :: rest, h => by
    have hr : (rest.filter isAllStmt).isEmpty = true := by
      cases hst : isAllStmt st <;> simp_all [List.filter]
    have ih := lastAll_none rest hr
    cases st with
    | allAssign l => simp [List.filter, isAllStmt] at h
    | _ => simp [lastAll, ih]

theorem reqs_of_mem {proj : Project} {r : Req} (h : r ∈ reexportReqs proj) :
    r.2.2.1 < proj.length ∧ ∃ ex lvl M asn, lastAll (bodyOf proj r.2.2.1) = some ex ∧
      Stmt.importFrom lvl M r.2.1 asn ∈ bodyOf proj r.2.2.1 ∧ r.2.2.2 = asn.getD r.2.1 ∧
      ex.contains r.2.2.2 = true ∧ target proj r.2.2.1 lvl M = some r.1 := by
  unfold reexportReqs at h
  rw [List.mem_flatMap] at h
  obtain ⟨x, hx, h⟩ := h
  cases hl : lastAll (bodyOf proj x) with
  | none => simp [hl] at h
  | some ex =>
    simp only [hl, List.mem_filterMap] at h
    obtain ⟨st, hst, h⟩ := h
    cases st with
    | importFrom lvl M n a =>
      simp only at h
      by_cases hc : ex.contains (a.getD n) = true
      · simp only [hc, if_true] at h
        cases ht : target proj x lvl M with
        | none => simp [ht] at h
        | some d =>
          simp only [ht, Option.some.injEq] at h
          subst h
          exact ⟨List.mem_range.1 hx, ex, lvl, M, a, hl, hst, rfl, hc, ht⟩
      · simp only [List.contains_iff_mem] at hc; simp [hc] at h
    | _ => simp at h

theorem mem_reqs {proj : Project} {x : Nat} (hx : x < proj.length) {ex : List Name} {lvl : Nat} {M : Path} {n : Name}
    {a : Option Name} {d : Nat} (hl : lastAll (bodyOf proj x) = some ex)
    (hst : Stmt.importFrom lvl M n a ∈ bodyOf proj x) (hc : ex.contains (a.getD n) = true)
    (ht : target proj x lvl M = some d) : ((d, n, x, a.getD n) : Req) ∈ reexportReqs proj := by
  unfold reexportReqs
  rw [List.mem_flatMap]
  refine ⟨x, List.mem_range.2 hx, ?_⟩
  simp only [hl, List.mem_filterMap]
  exact ⟨_, hst, by simp [List.contains_iff_mem.1 hc, ht]⟩

/-- what `reexportShape` says -/
structure RxFacts (proj : Project) : Prop where
  noStarAll : ∀ {m b lvl M}, siteBody proj (m, []) = some b → Stmt.importStar lvl M ∈ b → lastAll (bodyOf proj m) = none
  noClsImp : ∀ {S b st}, siteBody proj S = some b → st ∈ b → S.2 ≠ [] → isImportStmt st = false
  one : ((reexportReqs proj).map fun r => (r.1, r.2.1)).Nodup
  reqOk : ∀ r ∈ reexportReqs proj, r.1 ≠ r.2.2.1 ∧ isPkg proj r.1 = false ∧ definesTop proj r.1 r.2.1 = true ∧
    ((lastAll (bodyOf proj r.1)).getD []).contains r.2.1 = false ∧ isSupersededName r.2.2.2 = false

theorem RxFacts.of {proj : Project} (h : reexportShape proj = true) : RxFacts proj := by
  simp only [reexportShape, Bool.and_eq_true] at h
  obtain ⟨⟨⟨h1, h2⟩, h3⟩, h4⟩ := h
  refine ⟨?_, ?_, (nodupB_iff _).1 h3, ?_⟩
  · intro m b lvl M hb hst
    have hbm := siteBody_mod hb
    subst hbm
    have := List.all_eq_true.1 h1 m (List.mem_range.2 (siteBody_lt hb))
    simp only [Bool.and_eq_true, Bool.or_eq_true, Bool.not_eq_true'] at this
    rcases this.2 with he | hn
    · exact lastAll_none _ he
    · have : (bodyOf proj m).any isStarStmt = true := List.any_eq_true.2 ⟨_, hst, rfl⟩
      rw [this] at hn; cases hn
  · intro S b st hb hst hS
    have := allProj_spec h4 hb hst
    simp only [Bool.or_eq_true, Bool.not_eq_true'] at this
    rcases this with h0 | h0
    · exact absurd (by simpa using h0) hS
    · exact h0
  · intro r hr
    have := List.all_eq_true.1 h2 r hr
    simp only [Bool.and_eq_true, bne_iff_ne, ne_eq, Bool.not_eq_true'] at this
    exact ⟨this.1.1.1.1, this.1.1.1.2, this.1.1.2, this.1.2, this.2⟩

theorem WFr.facts {proj : Project} {rank : List Nat} (h : WFr proj rank = true) : WFacts proj rank ∧ RxFacts proj := by
  simp only [WFr, Bool.and_eq_true] at h
  obtain ⟨⟨⟨⟨⟨⟨⟨⟨⟨⟨⟨⟨hmod, hpaths⟩, himp⟩, honce⟩, huniq⟩, hbne⟩, hns⟩, hroots⟩, hnames⟩, hshape⟩, _⟩, _⟩, _⟩ := h
  exact ⟨wfacts_of hmod hpaths himp honce huniq hbne hns hroots hnames, RxFacts.of hshape⟩

theorem WFr.pkgFrom {proj : Project} {rank : List Nat} (h : WFr proj rank = true) : pkgFromOk proj rank = true := by
  simp only [WFr, Bool.and_eq_true] at h
  exact h.1.1.2

theorem WFr.above {proj : Project} {rank : List Nat} (h : WFr proj rank = true) : aboveOk proj rank = true := by
  simp only [WFr, Bool.and_eq_true] at h
  exact h.2

theorem WFr.modNames {proj : Project} {rank : List Nat} (h : WFr proj rank = true) :
    ∀ m, m < proj.length → ∀ n ∈ pathOf proj m, isSupersededName n = false := by
  simp only [WFr, Bool.and_eq_true] at h
  have h2 := h.1.2
  intro m hm n hn
  unfold modNamesOk at h2
  have h3 := List.all_eq_true.1 h2 proj[m] (List.getElem_mem hm)
  have hp : pathOf proj m = proj[m].path := by simp [pathOf, List.getElem?_eq_getElem hm]
  rw [hp] at hn
  have := List.all_eq_true.1 h3 n hn
  simpa using this

/-- two requests for the same object are the same request -/
theorem RxFacts.same {proj : Project} (rx : RxFacts proj) {r r' : Req} (h : r ∈ reexportReqs proj)
    (h' : r' ∈ reexportReqs proj) (e1 : r.1 = r'.1) (e2 : r.2.1 = r'.2.1) : r = r' :=
  nodup_map_inj rx.one h h' (by simp [e1, e2])

theorem definesTop_spec {proj : Project} {d : Nat} {n : Name} (h : definesTop proj d n = true) :
    ∃ st ∈ bodyOf proj d, st.defName = some n ∧ ∃ c, stKind st = some (n, c) ∧ c ≠ .attribute := by
  unfold definesTop at h
  obtain ⟨st, hst, hp⟩ := List.any_eq_true.1 h
  cases st with
  | classDef n' bs body => simp only [beq_iff_eq] at hp; subst hp; exact ⟨_, hst, rfl, .cls, rfl, by simp⟩
  | funcDef n' => simp only [beq_iff_eq] at hp; subst hp; exact ⟨_, hst, rfl, .function, rfl, by simp⟩
  | _ => simp at hp

/-- the importing statement of a request, in the re-exporter's body -/
theorem req_stmt {proj : Project} {r : Req} (h : r ∈ reexportReqs proj) :
    r.2.2.1 < proj.length ∧ siteBody proj (r.2.2.1, []) = some (bodyOf proj r.2.2.1) ∧
    ∃ lvl M asn, Stmt.importFrom lvl M r.2.1 asn ∈ bodyOf proj r.2.2.1 ∧ r.2.2.2 = asn.getD r.2.1 ∧
      target proj r.2.2.1 lvl M = some r.1 := by
  obtain ⟨hx, ex, lvl, M, asn, _, hst, ha, _, ht⟩ := reqs_of_mem h
  exact ⟨hx, siteBody_zero hx, lvl, M, asn, hst, ha, ht⟩

theorem req_definer_lt {proj : Project} {r : Req} (h : r ∈ reexportReqs proj) : r.1 < proj.length := by
  obtain ⟨_, _, lvl, M, asn, _, _, ht⟩ := req_stmt h
  obtain ⟨T, _, hm⟩ := target_spec ht
  exact (modIdx_spec hm).1

/-- the moved object, seen from the re-exporter -/
theorem req_jpy {proj : Project} {r : Req} (h : r ∈ reexportReqs proj) {w : SVal}
    (hw : Jpy proj (r.1, []) [r.2.1] w) : Jpy proj (r.2.2.1, []) [r.2.2.2] w := by
  obtain ⟨_, hb, lvl, M, asn, hst, ha, ht⟩ := req_stmt h
  rw [ha]
  exact Jpy.from hb hst ht hw

theorem req_jpy_def {proj : Project} (rx : RxFacts proj) {r : Req} (h : r ∈ reexportReqs proj) :
    Jpy proj (r.1, []) [r.2.1] (.dfn r.1 [r.2.1]) := by
  obtain ⟨st, hst, hd, _⟩ := definesTop_spec (rx.reqOk r h).2.2.1
  have := Jpy.dfn (S := (r.1, [])) (siteBody_zero (req_definer_lt h)) hst hd
  simpa using this

/-! ## the alias relation with moves -/

/-- **pydoctor with re-exports**: `JpdR S x tgt` — the alias map of scope `S` can map `x` to `tgt`:
as `Jpd`, or the alias `reparent` leaves in the definer, or a star import of such an alias / of an
object that was moved into the module the star import names -/
inductive JpdR (proj : Project) : Site → Name → Path → Prop
  | base {S : Site} {x : Name} {tgt : Path} : Jpd proj S x tgt → JpdR proj S x tgt
  | marker {r : Req} : r ∈ reexportReqs proj → JpdR proj (r.1, []) r.2.1 (pathOf proj r.2.2.1 ++ [r.2.2.2])
  | starAlias {S : Site} {b : List Stmt} {lvl : Nat} {M : Path} {T : Path} {t : Nat} {x : Name} {tgt : Path} :
      siteBody proj S = some b → Stmt.importStar lvl M ∈ b → pdAbsName proj S.1 lvl M = some T →
      (∀ t', modIdx proj T = some t' → t = t') → starOk proj t x → JpdR proj (t, []) x tgt →
      JpdR proj S x tgt
  | starMoved {S : Site} {b : List Stmt} {lvl : Nat} {M : Path} {T : Path} {t : Nat} {x : Name} {r : Req} :
      siteBody proj S = some b → Stmt.importStar lvl M ∈ b → pdAbsName proj S.1 lvl M = some T →
      (∀ t', modIdx proj T = some t' → t = t') → starOk proj t x → r ∈ reexportReqs proj → r.2.2.1 = t → r.2.2.2 = x →
      JpdR proj S x (pathOf proj t ++ [x])

theorem star_target_lt {proj : Project} {rank : List Nat} (wf : WFacts proj rank) {S : Site} {b : List Stmt}
    {lvl : Nat} {M T : Path} {t : Nat} (hb : siteBody proj S = some b) (hst : Stmt.importStar lvl M ∈ b)
    (hT : pdAbsName proj S.1 lvl M = some T) (hu : ∀ t', modIdx proj T = some t' → t = t') : t < proj.length := by
  obtain ⟨t', ht', _⟩ := wf.targets hb hst (target proj S.1 lvl M) (by simp [stmtTargets])
  have := star_target hT hu ht'; subst this
  obtain ⟨T', _, hm'⟩ := target_spec ht'
  exact (modIdx_spec hm').1

theorem req_in_modNames {proj : Project} {rank : List Nat} {r : Req} (h : r ∈ reexportReqs proj) :
    r.2.2.2 ∈ modNames proj (rankOf rank r.2.2.1 + 1) r.2.2.1 := by
  obtain ⟨_, _, lvl, M, asn, hst, ha, _⟩ := req_stmt h
  rw [modNames_succ]
  exact List.mem_append_right _ (List.mem_flatMap.2 ⟨_, hst, stmtNames_of_explicit (by simp [explicitNames, ha])⟩)

theorem jpdR_names {proj : Project} {rank : List Nat} (wf : WFacts proj rank) (rx : RxFacts proj) :
    ∀ {S : Site} {x : Name} {tgt : Path}, JpdR proj S x tgt → ∀ b, siteBody proj S = some b →
      ∃ st ∈ b, x ∈ stmtNamesR proj rank S st := by
  intro S x tgt h
  induction h with
  | base h => exact jpd_names wf h
  | @marker r hr =>
    intro b hb
    have := siteBody_mod hb; subst this
    obtain ⟨st, hst, hd, _⟩ := definesTop_spec (rx.reqOk r hr).2.2.1
    exact ⟨st, hst, stmtNames_of_explicit (defName_explicit hd)⟩
  | @starAlias S b lvl M T t x tgt hb hst hT hu hok hj ih =>
    intro b' hb'; rw [hb] at hb'; injection hb' with hb'; subst hb'
    have hlt := star_target_lt wf hb hst hT hu
    obtain ⟨st', hst', hx'⟩ := ih _ (siteBody_zero hlt)
    refine ⟨_, hst, (star_mem wf hb hst hT hu (Or.inr ⟨hok, ?_⟩)).2.2⟩
    rw [modNames_succ]
    exact List.mem_append_right _ (List.mem_flatMap.2 ⟨st', hst', hx'⟩)
  | @starMoved S b lvl M T t x r hb hst hT hu hok hr ht hx =>
    intro b' hb'; rw [hb] at hb'; injection hb' with hb'; subst hb'
    subst ht; subst hx
    exact ⟨_, hst, (star_mem wf hb hst hT hu (Or.inr ⟨hok, req_in_modNames hr⟩)).2.2⟩

/-- **the alias map agrees with Python**, moves included -/
theorem jpdR_jpy {proj : Project} {rank : List Nat} (wf : WFacts proj rank) (rx : RxFacts proj) :
    ∀ {S : Site} {x : Name} {tgt : Path}, JpdR proj S x tgt → ∀ {w : SVal}, Jpy proj S [x] w → AbsDenW proj tgt w := by
  intro S x tgt h
  induction h with
  | base h => exact fun hw => jpd_jpy wf h hw
  | @marker r hr =>
    intro w hw
    have hj := req_jpy hr hw
    have hx := (req_stmt hr).1
    exact (AbsDen.ext (canon_mod wf _ hx) (show Jpy proj (scopeOf (.mod r.2.2.1)) [r.2.2.2] w from hj)).weak
  | @starAlias S b lvl M T t x tgt hb hst hT hu hok hj ih =>
    intro w hw
    have hlt0 := star_target_lt wf hb hst hT hu
    have hm : x ∈ modNames proj (rankOf rank t + 1) t := by
      obtain ⟨st', hst', hx'⟩ := jpdR_names wf rx hj _ (siteBody_zero hlt0)
      rw [modNames_succ]
      exact List.mem_append_right _ (List.mem_flatMap.2 ⟨st', hst', hx'⟩)
    obtain ⟨ht', hlt, hxs⟩ := star_mem wf hb hst hT hu (Or.inr ⟨hok, hm⟩)
    rcases jpy_inv wf hw with ⟨hS, c, hc, _⟩ | ⟨b', st', hb', hst', hx', hj'⟩
    · exfalso
      obtain ⟨m, cp⟩ := S; simp only at hS; subst hS
      exact child_not_stmt wf hb (child_mem hc) hst hxs
    · rw [hb] at hb'; injection hb' with hb'; subst hb'
      have := same_stmt wf hb hst hst' hxs hx'
      subst this
      obtain ⟨_, t2, ht2, _, hj2⟩ := hj'
      rw [ht'] at ht2; injection ht2 with ht2; subst ht2
      exact ih hj2
  | @starMoved S b lvl M T t x r hb hst hT hu hok hr ht hx =>
    intro w hw
    subst ht; subst hx
    obtain ⟨ht', hlt, hxs⟩ := star_mem wf hb hst hT hu (Or.inr ⟨hok, req_in_modNames hr⟩)
    rcases jpy_inv wf hw with ⟨hS, c, hc, _⟩ | ⟨b', st', hb', hst', hx', hj'⟩
    · exfalso
      obtain ⟨m, cp⟩ := S; simp only at hS; subst hS
      exact child_not_stmt wf hb (child_mem hc) hst hxs
    · rw [hb] at hb'; injection hb' with hb'; subst hb'
      have := same_stmt wf hb hst hst' hxs hx'
      subst this
      obtain ⟨_, t2, ht2, _, hj⟩ := hj'
      rw [ht'] at ht2; injection ht2 with ht2; subst ht2
      exact (AbsDen.ext (canon_mod wf _ hlt) (show Jpy proj (scopeOf (.mod r.2.2.1)) [r.2.2.2] w from hj)).weak

theorem jpdR_ne_nil {proj : Project} {rank : List Nat} (wf : WFacts proj rank) :
    ∀ {S : Site} {x : Name} {tgt : Path}, JpdR proj S x tgt → tgt ≠ [] := by
  intro S x tgt h
  induction h with
  | base h => exact jpd_ne_nil wf h
  | marker _ => simp
  | starAlias _ _ _ _ _ _ ih => exact ih
  | starMoved _ _ _ _ _ _ _ _ => simp

/-- inversion: an alias entry comes from a binding statement of the scope that is not a definition, or
it is the alias a move left behind -/
theorem jpdR_inv {proj : Project} {rank : List Nat} (wf : WFacts proj rank) (rx : RxFacts proj) {S : Site} {x : Name}
    {tgt : Path} (h : JpdR proj S x tgt) :
    (∃ b st, siteBody proj S = some b ∧ st ∈ b ∧ x ∈ stmtNamesR proj rank S st ∧ StmtD proj S st x tgt) ∨
    (∃ r ∈ reexportReqs proj, S = (r.1, []) ∧ x = r.2.1 ∧ tgt = pathOf proj r.2.2.1 ++ [r.2.2.2]) := by
  induction h with
  | base h => exact Or.inl (jpd_inv wf h)
  | marker hr => exact Or.inr ⟨_, hr, rfl, rfl, rfl⟩
  | @starAlias S b lvl M T t x tgt hb hst hT hu hok hj _ =>
    left
    have hlt0 := star_target_lt wf hb hst hT hu
    obtain ⟨st', hst', hx'⟩ := jpdR_names wf rx hj _ (siteBody_zero hlt0)
    refine ⟨b, _, hb, hst, (star_mem wf hb hst hT hu (Or.inr ⟨hok, ?_⟩)).2.2, trivial⟩
    rw [modNames_succ]
    exact List.mem_append_right _ (List.mem_flatMap.2 ⟨st', hst', hx'⟩)
  | @starMoved S b lvl M T t x r hb hst hT hu hok hr ht hx =>
    left
    subst ht; subst hx
    exact ⟨b, _, hb, hst, (star_mem wf hb hst hT hu (Or.inr ⟨hok, req_in_modNames hr⟩)).2.2, trivial⟩

/-! ## the relocation -/

theorem relocSite_cases (proj : Project) (mv : Req → Bool) (S : Site) :
    relocSite proj mv S = sitePath proj S ∨
    ∃ r ∈ reexportReqs proj, ∃ rest, S = (r.1, r.2.1 :: rest) ∧ mv r = true ∧
      relocSite proj mv S = pathOf proj r.2.2.1 ++ [r.2.2.2] ++ rest := by
  obtain ⟨m, cp⟩ := S
  cases cp with
  | nil => exact Or.inl rfl
  | cons n rest =>
    unfold relocSite
    simp only
    cases hf : (reexportReqs proj).find? (fun r => r.1 == m && r.2.1 == n && mv r) with
    | none => exact Or.inl rfl
    | some r =>
      right
      have hp := List.find?_some hf
      simp only [Bool.and_eq_true, beq_iff_eq] at hp
      obtain ⟨⟨h1, h2⟩, h3⟩ := hp
      refine ⟨r, List.mem_of_find?_eq_some hf, rest, ?_, h3, rfl⟩
      rw [← h1, ← h2]

theorem relocSite_moved {proj : Project} (rx : RxFacts proj) {mv : Req → Bool} {r : Req} (hr : r ∈ reexportReqs proj)
    (hmv : mv r = true) (rest : List Name) :
    relocSite proj mv (r.1, r.2.1 :: rest) = pathOf proj r.2.2.1 ++ [r.2.2.2] ++ rest := by
  unfold relocSite
  simp only
  cases hf : (reexportReqs proj).find? (fun r' => r'.1 == r.1 && r'.2.1 == r.2.1 && mv r') with
  | none =>
    have := List.find?_eq_none.1 hf r hr
    simp [hmv] at this
  | some r' =>
    have hp := List.find?_some hf
    simp only [Bool.and_eq_true, beq_iff_eq] at hp
    have := rx.same (List.mem_of_find?_eq_some hf) hr hp.1.1 hp.1.2
    subst this; rfl

theorem relocSite_unmoved {proj : Project} {mv : Req → Bool} {S : Site}
    (h : ∀ r ∈ reexportReqs proj, r.1 = S.1 → S.2.head? = some r.2.1 → mv r = false) :
    relocSite proj mv S = sitePath proj S := by
  rcases relocSite_cases proj mv S with h0 | ⟨r, hr, rest, hS, hmv, _⟩
  · exact h0
  · subst hS
    have := h r hr rfl rfl
    rw [this] at hmv; cases hmv

theorem relocSite_snoc (proj : Project) (mv : Req → Bool) {S : Site} (hS : S.2 ≠ []) (n : Name) :
    relocSite proj mv (S.1, S.2 ++ [n]) = relocSite proj mv S ++ [n] := by
  obtain ⟨m, cp⟩ := S
  cases cp with
  | nil => exact absurd rfl hS
  | cons a rest =>
    unfold relocSite
    simp only [List.cons_append]
    cases (reexportReqs proj).find? (fun r => r.1 == m && r.2.1 == a && mv r) with
    | none => simp [sitePath]
    | some r => simp

/-- the relocated name of a module or definition denotes it -/
theorem canon_reloc {proj : Project} {rank : List Nat} (wf : WFacts proj rank) (rx : RxFacts proj) (mv : Req → Bool)
    {S : Site} (hS : StaticSite proj S) : AbsDen proj (relocSite proj mv S) (svalOf S) := by
  rcases relocSite_cases proj mv S with h | ⟨r, hr, rest, hSe, hmv, h⟩
  · rw [h]; exact canon_site wf hS
  · rw [h]; subst hSe
    have hx := (req_stmt hr).1
    have hd := req_definer_lt hr
    have h1 : Jpy proj (r.2.2.1, []) [r.2.2.2] (.dfn r.1 [r.2.1]) := req_jpy hr (req_jpy_def rx hr)
    cases rest with
    | nil =>
      have := AbsDen.ext (canon_mod wf _ hx) (show Jpy proj (scopeOf (.mod r.2.2.1)) [r.2.2.2] _ from h1)
      simpa [svalOf] using this
    | cons y ys =>
      have hchain : Jpy proj (r.1, [r.2.1]) (y :: ys) (.dfn r.1 (r.2.1 :: y :: ys)) := by
        obtain ⟨_, hcp⟩ := hS
        simp only at hcp
        rcases hcp with hcp | ⟨cp', n', b', st, hcp, hb', hst, hdn⟩
        · cases hcp
        · -- `cp' = r.2.1 :: cs` and `cs ++ [n'] = y :: ys`
          cases cp' with
          | nil => simp at hcp
          | cons c cs =>
            simp only [List.cons_append, List.cons.injEq] at hcp
            obtain ⟨hc, hrest⟩ := hcp
            subst hc
            have hat := siteBody_bodyAt hb'
            simp only [bodyAt] at hat
            cases hf : findClass (bodyOf proj r.1) r.2.1 with
            | none => simp [hf] at hat
            | some b1 =>
              simp only [hf] at hat
              have hb1 : siteBody proj (r.1, [] ++ [r.2.1]) = some b1 := siteBody_snoc (siteBody_zero hd) hf
              have := canon_chain cs [r.2.1] b1 b' st n' (by simpa using hb1) hat hst hdn
              rw [← hrest] at this
              simpa [hrest] using this
      have := AbsDen.ext (canon_mod wf _ hx)
        (show Jpy proj (scopeOf (.mod r.2.2.1)) (r.2.2.2 :: y :: ys) _ from Jpy.cons h1 (by simpa [scopeOf] using hchain))
      simpa [svalOf] using this

/-- distinct sites have distinct relocated names -/
theorem relocSite_inj {proj : Project} {rank : List Nat} (wf : WFacts proj rank) (rx : RxFacts proj) (mv : Req → Bool)
    {S S' : Site} (hS : StaticSite proj S) (hS' : StaticSite proj S')
    (h : relocSite proj mv S = relocSite proj mv S') : S = S' := by
  have h1 := canon_reloc wf rx mv hS
  have h2 := canon_reloc wf rx mv hS'
  rw [h] at h1
  have := AbsDen.fun wf h1 h2.weak
  have h3 := congrArg scopeOf this
  rwa [scopeOf_svalOf, scopeOf_svalOf] at h3

theorem relocSite_ne_nil {proj : Project} {rank : List Nat} (wf : WFacts proj rank) (rx : RxFacts proj) (mv : Req → Bool)
    {S : Site} (hS : StaticSite proj S) : relocSite proj mv S ≠ [] := by
  obtain ⟨r, rest, root, hpp, _⟩ := canon_reloc wf rx mv hS
  rw [hpp]; simp

end Imports
