/-
C04, re-exports (item 3), layer B — the invariant of the pydoctor machine with RELOCATED paths:
`PdInv` (here `Rx.PdInv`) says `path i = loc s S` where `loc` relocates the sites below a moved top-level
definition; which moves have happened is read off the state (`movedB`: the alias `reparent` left in
the definer).  `Ext` (what persists from state to state), and the primitive steps `setAlias`, `addObj`.
-/
import PdProps.C04ReexpA
import PdProps.C04Clean

namespace Imports.Rx
open Registry Imports

/-! ## which moves have happened; the location of a site -/

/-- the re-export `r` has been carried out: the definer holds the alias `reparent` leaves behind -/
def movedB (proj : Project) (s : St) (r : Req) : Bool :=
  match s.reg.objs[r.1]? with
  | some o => dget o.aliases r.2.1 == some (pathOf proj r.2.2.1 ++ [r.2.2.2])
  | none => false

/-- the qualified name of the object of site `S` in state `s` -/
def loc (proj : Project) (s : St) (S : Site) : Path := relocSite proj (movedB proj s) S

theorem loc_mod (proj : Project) (s : St) (m : Nat) : loc proj s (m, []) = pathOf proj m := by
  simp [loc, relocSite, sitePath]

theorem loc_snoc (proj : Project) (s : St) {S : Site} (hS : S.2 ≠ []) (n : Name) :
    loc proj s (S.1, S.2 ++ [n]) = loc proj s S ++ [n] := relocSite_snoc proj _ hS n

theorem loc_inj {proj : Project} {rank : List Nat} (wf : WFacts proj rank) (rx : RxFacts proj) (s : St) {S S' : Site}
    (hS : StaticSite proj S) (hS' : StaticSite proj S') (h : loc proj s S = loc proj s S') : S = S' :=
  relocSite_inj wf rx _ hS hS' h

theorem loc_congr {proj : Project} {s s' : St} (h : ∀ r ∈ reexportReqs proj, movedB proj s' r = movedB proj s r)
    (S : Site) : loc proj s' S = loc proj s S := by
  obtain ⟨m, cp⟩ := S
  cases cp with
  | nil => rfl
  | cons n rest =>
    unfold loc relocSite
    simp only
    have : (reexportReqs proj).find? (fun r => r.1 == m && r.2.1 == n && movedB proj s' r) =
        (reexportReqs proj).find? (fun r => r.1 == m && r.2.1 == n && movedB proj s r) := by
      apply List.find?_congr
      intro r hr
      rw [h r hr]
    rw [this]

/-! ## what a visited statement leaves behind -/

mutual
/-- every binding statement of a visited body left an entry in the scope's object; a class statement a
class object (found at the location of its site) whose own body is complete; a re-exporting import its move -/
def CompleteStmt (proj : Project) (s : St) (S : Site) (ctx : Nat) : Stmt → Prop
  | .classDef n _ body => HasEntry s ctx n ∧ ∃ c o, path s.reg c = some (loc proj s (S.1, S.2 ++ [n])) ∧
      s.reg.objs[c]? = some o ∧ o.cls = .cls ∧ CompleteStmts proj s (S.1, S.2 ++ [n]) c body
  | .importMod t a => ∀ x ∈ explicitNames (.importMod t a), HasEntry s ctx x
  | .importFrom lvl M n a => HasEntry s ctx (a.getD n) ∧
      ∀ d, S.2 = [] → target proj S.1 lvl M = some d → ((d, n, S.1, a.getD n) : Req) ∈ reexportReqs proj →
        movedB proj s (d, n, S.1, a.getD n) = true
  | .importStar _ _ => True
  | .funcDef n => HasEntry s ctx n
  | .assign n _ => HasEntry s ctx n
  | .allAssign _ => True
def CompleteStmts (proj : Project) (s : St) (S : Site) (ctx : Nat) : List Stmt → Prop
  | [] => True
  | st :: rest => CompleteStmt proj s S ctx st ∧ CompleteStmts proj s S ctx rest
end

/-- the later state extends the earlier one: objects and their classes persist, entries persist (as
an entry of `contents` or of the alias map), every object stays the object of its site, moves are not undone -/
structure Ext (proj : Project) (s s' : St) : Prop where
  objs : ∀ (i : Nat) (o : Obj), s.reg.objs[i]? = some o → ∃ o' : Obj, s'.reg.objs[i]? = some o' ∧ o'.cls = o.cls ∧
    (∀ k, (dget o.contents k ≠ none ∨ dget o.aliases k ≠ none) → (dget o'.contents k ≠ none ∨ dget o'.aliases k ≠ none))
  sites : ∀ i S, path s.reg i = some (loc proj s S) → StaticSite proj S → path s'.reg i = some (loc proj s' S)
  ps : PsRel s s'
  moved : ∀ r ∈ reexportReqs proj, movedB proj s r = true → movedB proj s' r = true

theorem Ext.refl (proj : Project) (s : St) : Ext proj s s :=
  ⟨fun i o h => ⟨o, h, rfl, fun _ h => h⟩, fun _ _ h _ => h, PsRel.refl s, fun _ _ h => h⟩

theorem Ext.trans {proj : Project} {a b c : St} (h1 : Ext proj a b) (h2 : Ext proj b c) : Ext proj a c := by
  refine ⟨fun i o ho => ?_, fun i S hp hS => h2.sites i S (h1.sites i S hp hS) hS, h1.ps.trans h2.ps,
    fun r hr h => h2.moved r hr (h1.moved r hr h)⟩
  obtain ⟨o1, ho1, c1, e1⟩ := h1.objs i o ho
  obtain ⟨o2, ho2, c2, e2⟩ := h2.objs i o1 ho1
  exact ⟨o2, ho2, c2.trans c1, fun k h => e2 k (e1 k h)⟩

theorem HasEntry.extR {proj : Project} {s s' : St} (h : Ext proj s s') {ctx : Nat} {x : Name} (he : HasEntry s ctx x) :
    HasEntry s' ctx x := by
  obtain ⟨o, ho, hx⟩ := he
  obtain ⟨o', ho', _, hc⟩ := h.objs ctx o ho
  exact ⟨o', ho', hc x hx⟩

mutual
theorem CompleteStmt.ext {proj : Project} {s s' : St} (h : Ext proj s s') :
    ∀ {S : Site} {ctx : Nat} (st : Stmt), StaticSite proj S → CompleteStmt proj s S ctx st → CompleteStmt proj s' S ctx st
  | S, ctx, .classDef n bs body, hS, hc => by
    simp only [CompleteStmt] at hc ⊢
    obtain ⟨he, c, o, hp, ho, hcl, hb⟩ := hc
    obtain ⟨o', ho', hcl', _⟩ := h.objs c o ho
    -- the class site is static as soon as its body is complete … we only need it for `sites`
    sorry
  | S, ctx, .importMod t a, _, hc => by
    simp only [CompleteStmt] at hc ⊢
    exact fun x hx => (hc x hx).extR h
  | S, ctx, .importFrom lvl M n a, _, hc => by
    simp only [CompleteStmt] at hc ⊢
    exact ⟨hc.1.extR h, fun d h0 ht hr => h.moved _ hr (hc.2 d h0 ht hr)⟩
  | S, ctx, .importStar _ _, _, _ => by simp [CompleteStmt]
  | S, ctx, .funcDef n, _, hc => by simp only [CompleteStmt] at hc ⊢; exact hc.extR h
  | S, ctx, .assign n _, _, hc => by simp only [CompleteStmt] at hc ⊢; exact hc.extR h
  | S, ctx, .allAssign _, _, _ => by simp [CompleteStmt]
theorem CompleteStmts.ext {proj : Project} {s s' : St} (h : Ext proj s s') :
    ∀ {S : Site} {ctx : Nat} (sts : List Stmt), StaticSite proj S → CompleteStmts proj s S ctx sts → CompleteStmts proj s' S ctx sts
  | _, _, [], _, _ => by simp [CompleteStmts]
  | S, ctx, st :: rest, hS, hc => by
    simp only [CompleteStmts] at hc ⊢
    exact ⟨CompleteStmt.ext h st hS hc.1, CompleteStmts.ext h rest hS hc.2⟩
end

end Imports.Rx
