/-
C04, re-exports (item 3), layer B — the invariant of the pydoctor machine with RELOCATED paths:
`PdInv` (here `Rx.PdInv`) says `path i = loc s S` where `loc` relocates the sites below a moved top-level
definition; which moves have happened is read off the state (`movedB`: the alias `reparent` left in
the definer).  `Ext` (what persists from state to state), and the primitive steps `setAlias`, `addObj`.
-/
import PdProps.C04ReexpA
import PdProps.C04Clean

namespace Imports.Rx
open Registry Imports

/-! ## which moves have happened; the location of a site -/

/-- the re-export `r` has been carried out: the definer holds the alias `reparent` leaves behind -/
def movedB (proj : Project) (s : St) (r : Req) : Bool :=
  match s.reg.objs[r.1]? with
  | some o => dget o.aliases r.2.1 == some (pathOf proj r.2.2.1 ++ [r.2.2.2])
  | none => false

/-- the qualified name of the object of site `S` in state `s` -/
def loc (proj : Project) (s : St) (S : Site) : Path := relocSite proj (movedB proj s) S

theorem loc_mod (proj : Project) (s : St) (m : Nat) : loc proj s (m, []) = pathOf proj m := by
  simp [loc, relocSite, sitePath]

theorem loc_snoc (proj : Project) (s : St) {S : Site} (hS : S.2 ≠ []) (n : Name) :
    loc proj s (S.1, S.2 ++ [n]) = loc proj s S ++ [n] := relocSite_snoc proj _ hS n

theorem loc_inj {proj : Project} {rank : List Nat} (wf : WFacts proj rank) (rx : RxFacts proj) (s : St) {S S' : Site}
    (hS : StaticSite proj S) (hS' : StaticSite proj S') (h : loc proj s S = loc proj s S') : S = S' :=
  relocSite_inj wf rx _ hS hS' h

theorem find?_congr' {α : Type} {p q : α → Bool} : ∀ {l : List α}, (∀ x ∈ l, p x = q x) → l.find? p = l.find? q
  | [], _ => rfl
  | x :: xs, h => by
    simp only [List.find?_cons, h x (List.mem_cons_self ..)]
    rw [find?_congr' (fun y hy => h y (List.mem_cons_of_mem _ hy))]

theorem loc_congr {proj : Project} {s s' : St} (h : ∀ r ∈ reexportReqs proj, movedB proj s' r = movedB proj s r)
    (S : Site) : loc proj s' S = loc proj s S := by
  obtain ⟨m, cp⟩ := S
  cases cp with
  | nil => rfl
  | cons n rest =>
    unfold loc relocSite
    simp only
    have : (reexportReqs proj).find? (fun r => r.1 == m && r.2.1 == n && movedB proj s' r) =
        (reexportReqs proj).find? (fun r => r.1 == m && r.2.1 == n && movedB proj s r) := by
      apply find?_congr'
      intro r hr
      rw [h r hr]
    rw [this]

/-! ## what a visited statement leaves behind -/

mutual
/-- every binding statement of a visited body left an entry in the scope's object; a class statement a
class object (found at the location of its site) whose own body is complete; a re-exporting import its move -/
def CompleteStmt (proj : Project) (s : St) (S : Site) (ctx : Nat) : Stmt → Prop
  | .classDef n _ body => HasEntry s ctx n ∧ StaticSite proj (S.1, S.2 ++ [n]) ∧
      ∃ c o, path s.reg c = some (loc proj s (S.1, S.2 ++ [n])) ∧
      s.reg.objs[c]? = some o ∧ o.cls = .cls ∧ CompleteStmts proj s (S.1, S.2 ++ [n]) c body
  | .importMod t a => ∀ x ∈ explicitNames (.importMod t a), HasEntry s ctx x
  | .importFrom lvl M n a => HasEntry s ctx (a.getD n) ∧
      ∀ d, S.2 = [] → target proj S.1 lvl M = some d → ((d, n, S.1, a.getD n) : Req) ∈ reexportReqs proj →
        movedB proj s (d, n, S.1, a.getD n) = true
  | .importStar _ _ => True
  | .funcDef n => HasEntry s ctx n
  | .assign n _ => HasEntry s ctx n
  | .allAssign _ => True
def CompleteStmts (proj : Project) (s : St) (S : Site) (ctx : Nat) : List Stmt → Prop
  | [] => True
  | st :: rest => CompleteStmt proj s S ctx st ∧ CompleteStmts proj s S ctx rest
end

/-- the later state extends the earlier one: objects and their classes persist, entries persist (as
an entry of `contents` or of the alias map), every object stays the object of its site, moves are not undone -/
structure Ext (proj : Project) (s s' : St) : Prop where
  objs : ∀ (i : Nat) (o : Obj), s.reg.objs[i]? = some o → ∃ o' : Obj, s'.reg.objs[i]? = some o' ∧ o'.cls = o.cls ∧
    (∀ k, (dget o.contents k ≠ none ∨ dget o.aliases k ≠ none) → (dget o'.contents k ≠ none ∨ dget o'.aliases k ≠ none))
  sites : ∀ i S, path s.reg i = some (loc proj s S) → StaticSite proj S → path s'.reg i = some (loc proj s' S)
  ps : PsRel s s'
  moved : ∀ r ∈ reexportReqs proj, movedB proj s r = true → movedB proj s' r = true

theorem Ext.refl (proj : Project) (s : St) : Ext proj s s :=
  ⟨fun i o h => ⟨o, h, rfl, fun _ h => h⟩, fun _ _ h _ => h, PsRel.refl s, fun _ _ h => h⟩

theorem Ext.trans {proj : Project} {a b c : St} (h1 : Ext proj a b) (h2 : Ext proj b c) : Ext proj a c := by
  refine ⟨fun i o ho => ?_, fun i S hp hS => h2.sites i S (h1.sites i S hp hS) hS, h1.ps.trans h2.ps,
    fun r hr h => h2.moved r hr (h1.moved r hr h)⟩
  obtain ⟨o1, ho1, c1, e1⟩ := h1.objs i o ho
  obtain ⟨o2, ho2, c2, e2⟩ := h2.objs i o1 ho1
  exact ⟨o2, ho2, c2.trans c1, fun k h => e2 k (e1 k h)⟩

theorem hasEntry_ext {proj : Project} {s s' : St} (h : Ext proj s s') {ctx : Nat} {x : Name} (he : HasEntry s ctx x) :
    HasEntry s' ctx x := by
  obtain ⟨o, ho, hx⟩ := he
  obtain ⟨o', ho', _, hc⟩ := h.objs ctx o ho
  exact ⟨o', ho', hc x hx⟩

mutual
theorem CompleteStmt.ext {proj : Project} {s s' : St} (h : Ext proj s s') :
    ∀ {S : Site} {ctx : Nat} (st : Stmt), CompleteStmt proj s S ctx st → CompleteStmt proj s' S ctx st
  | S, ctx, .classDef n bs body, hc => by
    simp only [CompleteStmt] at hc ⊢
    obtain ⟨he, hst, c, o, hp, ho, hcl, hb⟩ := hc
    obtain ⟨o', ho', hcl', _⟩ := h.objs c o ho
    exact ⟨hasEntry_ext h he, hst, c, o', h.sites c _ hp hst, ho', hcl'.trans hcl, CompleteStmts.ext h body hb⟩
  | S, ctx, .importMod t a, hc => by
    simp only [CompleteStmt] at hc ⊢
    exact fun x hx => hasEntry_ext h (hc x hx)
  | S, ctx, .importFrom lvl M n a, hc => by
    simp only [CompleteStmt] at hc ⊢
    exact ⟨hasEntry_ext h hc.1, fun d h0 ht hr => h.moved _ hr (hc.2 d h0 ht hr)⟩
  | S, ctx, .importStar _ _, _ => by simp [CompleteStmt]
  | S, ctx, .funcDef n, hc => by simp only [CompleteStmt] at hc ⊢; exact hasEntry_ext h hc
  | S, ctx, .assign n _, hc => by simp only [CompleteStmt] at hc ⊢; exact hasEntry_ext h hc
  | S, ctx, .allAssign _, _ => by simp [CompleteStmt]
theorem CompleteStmts.ext {proj : Project} {s s' : St} (h : Ext proj s s') :
    ∀ {S : Site} {ctx : Nat} (sts : List Stmt), CompleteStmts proj s S ctx sts → CompleteStmts proj s' S ctx sts
  | _, _, [], _ => by simp [CompleteStmts]
  | S, ctx, st :: rest, hc => by
    simp only [CompleteStmts] at hc ⊢
    exact ⟨CompleteStmt.ext h st hc.1, CompleteStmts.ext h rest hc.2⟩
end

theorem cbase_ext {proj : Project} {s s' : St} (h : CBase s) (he : Ext proj s s') (hc : s'.cinfo = s.cinfo) : CBase s' := by
  intro e hm b hb
  rw [hc] at hm
  obtain ⟨o, ho, hcl⟩ := h e hm b hb
  obtain ⟨o', ho', hc', _⟩ := he.objs b o ho
  exact ⟨o', ho', hc'.trans hcl⟩

/-! ## the invariant -/

/-- **the invariant of reachable, well-behaved states**, with re-export moves -/
structure PdInv (proj : Project) (s : St) : Prop where
  reg : Inv s.reg
  cbase : CBase s
  lens : s.ps.length = proj.length ∧ s.alls.length = proj.length
  mods : ∀ m, m < proj.length → ∃ o, s.reg.objs[m]? = some o ∧ path s.reg m = some (pathOf proj m) ∧ o.cls = modCls proj m
  site : ∀ i o, s.reg.objs[i]? = some o → ∃ S, ObjKind proj S o.cls ∧ path s.reg i = some (loc proj s S)
  alias : ∀ i o S, s.reg.objs[i]? = some o → path s.reg i = some (loc proj s S) → StaticSite proj S →
    ∀ x tgt, dget o.aliases x = some tgt → JpdR proj S x tgt
  cont : ∀ m o, m < proj.length → s.reg.objs[m]? = some o → ∀ x c, dget o.contents x = some c →
    x ∈ childNames proj m ∨ (∃ st ∈ bodyOf proj m, st.defName = some x) ∨
    (∃ r ∈ reexportReqs proj, r.2.2.1 = m ∧ r.2.2.2 = x ∧ movedB proj s r = true)
  alls : ∀ m, m < proj.length → getAll s m = if getPs s m = .unprocessed then none else lastAll (bodyOf proj m)
  started : ∀ i S, path s.reg i = some (loc proj s S) → StaticSite proj S → S.2 ≠ [] → getPs s S.1 ≠ .unprocessed
  complete : ∀ m md, proj[m]? = some md → getPs s m = .processed → CompleteStmts proj s (m, []) m md.body
  movedPs : ∀ r ∈ reexportReqs proj, movedB proj s r = true → getPs s r.1 = .processed ∧ getPs s r.2.2.1 ≠ .unprocessed
  movedIn : ∀ r ∈ reexportReqs proj, movedB proj s r = true → HasContent s r.2.2.1 r.2.2.2

/-- below a module that is not processed yet nothing has moved -/
theorem PdInv.loc_eq {proj : Project} {s : St} (hI : PdInv proj s) {S : Site} (h : getPs s S.1 ≠ .processed) :
    loc proj s S = sitePath proj S :=
  relocSite_unmoved (fun r hr h1 _ => by
    cases hm : movedB proj s r with
    | false => rfl
    | true => exact absurd (h1 ▸ (hI.movedPs r hr hm).1) h)

/-- `movedB` only looks at one alias entry of the definer -/
theorem movedB_of_alias {proj : Project} {s s' : St} {r : Req}
    (h : (s'.reg.objs[r.1]?).map (fun o => dget o.aliases r.2.1) = (s.reg.objs[r.1]?).map (fun o => dget o.aliases r.2.1)) :
    movedB proj s' r = movedB proj s r := by
  unfold movedB
  cases h1 : s'.reg.objs[r.1]? <;> cases h2 : s.reg.objs[r.1]? <;> simp_all

/-- a name that an import statement of the scope binds is not a re-exported definition of that module -/
theorem import_name_not_req {proj : Project} {rank : List Nat} (wf : WFacts proj rank) (rx : RxFacts proj) {S : Site}
    {b : List Stmt} {st : Stmt} {k : Name} (hb : siteBody proj S = some b) (hst : st ∈ b)
    (hk : k ∈ stmtNamesR proj rank S st) (hd : st.defName = none) :
    ∀ r ∈ reexportReqs proj, r.1 = S.1 → S.2 = [] → r.2.1 ≠ k := by
  intro r hr h1 h2 hne
  obtain ⟨m, cp⟩ := S
  simp only at h1 h2; subst h1; subst h2
  obtain ⟨st', hst', hd', _⟩ := definesTop_spec (rx.reqOk r hr).2.2.1
  have hbm := siteBody_mod hb; subst hbm
  have := same_stmt wf hb hst hst' hk (by rw [← hne]; exact stmtNames_of_explicit (defName_explicit hd'))
  subst this
  rw [hd] at hd'; cases hd'

/-! ## the visiting context -/

/-- `ctx` is the object of scope `S` (of module `mod`, which is being processed), whose body is `full`;
every module that is being processed has at least the rank of `mod` (the call stack descends in rank) -/
structure Ctx (proj : Project) (rank : List Nat) (s : St) (mod ctx : Nat) (S : Site) (full : List Stmt) : Prop where
  hmod : mod < proj.length
  hS1 : S.1 = mod
  body : siteBody proj S = some full
  stat : StaticSite proj S
  pathc : path s.reg ctx = some (sitePath proj S)
  clsc : ∃ o, s.reg.objs[ctx]? = some o ∧ ((S.2 = [] ∧ isModuleCls o.cls = true) ∨ (S.2 ≠ [] ∧ o.cls = .cls))
  ctxmod : S.2 = [] → ctx = mod
  ps : getPs s mod = .processing
  low : ∀ u, getPs s u = .processing → rankOf rank mod ≤ rankOf rank u

theorem Ctx.locc {proj : Project} {rank : List Nat} {s : St} {mod ctx : Nat} {S : Site} {full : List Stmt}
    (hI : PdInv proj s) (h : Ctx proj rank s mod ctx S full) : loc proj s S = sitePath proj S :=
  hI.loc_eq (by rw [h.hS1, h.ps]; simp)

theorem Ctx.ext {proj : Project} {rank : List Nat} {s s' : St} {mod ctx : Nat} {S : Site} {full : List Stmt}
    (h : Ctx proj rank s mod ctx S full) (hI : PdInv proj s) (hI' : PdInv proj s') (he : Ext proj s s') :
    Ctx proj rank s' mod ctx S full := by
  obtain ⟨o, ho, hc⟩ := h.clsc
  obtain ⟨o', ho', hc', _⟩ := he.objs ctx o ho
  have hps' : getPs s' mod = .processing := (he.ps mod).1 h.ps
  refine ⟨h.hmod, h.hS1, h.body, h.stat, ?_, ⟨o', ho', by rw [hc']; exact hc⟩, h.ctxmod, hps', ?_⟩
  · have := he.sites ctx S (by rw [h.locc hI]; exact h.pathc) h.stat
    rw [hI'.loc_eq (by rw [h.hS1, hps']; simp)] at this
    exact this
  · intro u hu
    cases hpu : getPs s u with
    | unprocessed => exact absurd hu ((he.ps u).2.2 hpu)
    | processing => exact h.low u hpu
    | processed => rw [(he.ps u).2.1 hpu] at hu; cases hu

/-! ## frames (for the clean-run part): which `contents` keys a step can add -/

/-- started objects gain no key of `contents`, except that `ctx` may gain the keys `names` -/
def FrameX (proj : Project) (ctx : Option Nat) (names : List Name) (s s' : St) : Prop :=
  ∀ (i : Nat) (o : Obj), s.reg.objs[i]? = some o → Prot proj s i → ∃ o' : Obj, s'.reg.objs[i]? = some o' ∧
    ∀ k, (some i = ctx → k ∉ names) → dget o.contents k = none → dget o'.contents k = none

theorem FrameX.refl (proj : Project) (ctx : Option Nat) (names : List Name) (s : St) : FrameX proj ctx names s s :=
  fun _ o ho _ => ⟨o, ho, fun _ _ h => h⟩

theorem FrameX.trans {proj : Project} {ctx : Option Nat} {l1 l2 : List Name} {a b c : St}
    (h1 : FrameX proj ctx l1 a b) (hp : PsRel a b) (h2 : FrameX proj ctx l2 b c) : FrameX proj ctx (l1 ++ l2) a c := by
  intro i o ho hpr
  obtain ⟨o1, ho1, k1⟩ := h1 i o ho hpr
  obtain ⟨o2, ho2, k2⟩ := h2 i o1 ho1 (hpr.ext hp)
  refine ⟨o2, ho2, fun k hk hd => ?_⟩
  have hk1 : some i = ctx → k ∉ l1 := fun h hin => hk h (List.mem_append_left _ hin)
  have hk2 : some i = ctx → k ∉ l2 := fun h hin => hk h (List.mem_append_right _ hin)
  exact k2 k hk2 (k1 k hk1 hd)

theorem FrameX.weaken {proj : Project} {ctx : Option Nat} {l : List Name} {a b : St}
    (h : FrameX proj none [] a b) : FrameX proj ctx l a b := by
  intro i o ho hpr
  obtain ⟨o1, ho1, k1⟩ := h i o ho hpr
  exact ⟨o1, ho1, fun k _ hd => k1 k (fun h => by cases h) hd⟩

theorem FrameX.mono {proj : Project} {ctx : Option Nat} {l l' : List Name} {a b : St}
    (h : FrameX proj ctx l a b) (hs : ∀ x ∈ l, x ∈ l') : FrameX proj ctx l' a b := by
  intro i o ho hpr
  obtain ⟨o1, ho1, k1⟩ := h i o ho hpr
  exact ⟨o1, ho1, fun k hk hd => k1 k (fun he hx => hk he (hs k hx)) hd⟩

/-- the statements still to come have left no entry in `contents` of the scope's object yet -/
def Pending (s : St) (ctx : Nat) (sts : List Stmt) : Prop :=
  ∀ o, s.reg.objs[ctx]? = some o → ∀ st ∈ sts, ∀ n ∈ explicitNames st, dget o.contents n = none

/-! ## `setAlias` -/

theorem setAlias_ok {proj : Project} {rank : List Nat} (wf : WFacts proj rank) (rx : RxFacts proj) {s : St}
    (hI : PdInv proj s) {ctx : Nat} {k : Name} {v : Path} {S : Site}
    (hp : path s.reg ctx = some (loc proj s S)) (hS : StaticSite proj S) (hj : JpdR proj S k v)
    (hk : ∀ r ∈ reexportReqs proj, r.1 = S.1 → S.2 = [] → r.2.1 ≠ k) :
    PdInv proj (setAlias s ctx k v) ∧ Ext proj s (setAlias s ctx k v) := by
  -- no move is forged or undone
  have hmv : ∀ r ∈ reexportReqs proj, movedB proj (setAlias s ctx k v) r = movedB proj s r := by
    intro r hr
    apply movedB_of_alias
    by_cases h : r.1 = ctx
    · rw [h, setAlias_get_eq]
      cases ho : s.reg.objs[ctx]? with
      | none => rfl
      | some o =>
        simp only [Option.map_some, Option.some.injEq]
        by_cases hkn : r.2.1 = k
        · exfalso
          have hd := req_definer_lt hr
          obtain ⟨om, hom, hpm, _⟩ := hI.mods r.1 hd
          have hSe : S = (r.1, []) := by
            refine loc_inj wf rx s hS ⟨hd, Or.inl rfl⟩ ?_
            rw [loc_mod]
            rw [h, hp] at hpm; injection hpm with hpm; rw [hpm, h]
          exact hk r hr (by rw [hSe]) (by rw [hSe]) hkn
        · rw [dset_get_other _ _ _ _ hkn]
    · rw [setAlias_get_ne h]
  have hloc : ∀ S', loc proj (setAlias s ctx k v) S' = loc proj s S' := loc_congr hmv
  have hext : Ext proj s (setAlias s ctx k v) := by
    refine ⟨fun i o ho => ?_, fun i S' hp' _ => by rw [setAlias_path, hloc]; exact hp', PsRel.refl _,
      fun r hr h => by rw [hmv r hr]; exact h⟩
    by_cases h : i = ctx
    · subst h
      refine ⟨{ o with aliases := dset o.aliases k v }, by rw [setAlias_get_eq, ho]; rfl, rfl, ?_⟩
      intro k' hk'
      rcases hk' with hk' | hk'
      · exact Or.inl hk'
      · right
        by_cases hkk : k' = k
        · subst hkk; rw [dset_get_same]; simp
        · rw [dset_get_other _ _ _ _ hkk]; exact hk'
    · exact ⟨o, by rw [setAlias_get_ne h]; exact ho, rfl, fun _ h => h⟩
  refine ⟨?_, hext⟩
  refine
    { reg := inv_congr hI.reg (modify_aliases_agree _ _ _), cbase := cbase_ext hI.cbase hext rfl, lens := hI.lens,
      mods := ?_, site := ?_, alias := ?_, cont := ?_, alls := hI.alls, started := ?_, complete := ?_, movedPs := ?_,
      movedIn := ?_ }
  rotate_right
  · intro r hr hm
    rw [hmv r hr] at hm
    obtain ⟨o, c, ho, hd⟩ := hI.movedIn r hr hm
    by_cases h : r.2.2.1 = ctx
    · exact ⟨{ o with aliases := dset o.aliases k v }, c, by rw [h, setAlias_get_eq, ← h, ho]; rfl, hd⟩
    · exact ⟨o, c, by rw [setAlias_get_ne h]; exact ho, hd⟩
  · intro m hm
    obtain ⟨o, ho, hpm, hc⟩ := hI.mods m hm
    obtain ⟨o', ho', hc', _⟩ := hext.objs m o ho
    exact ⟨o', ho', by rw [setAlias_path]; exact hpm, hc'.trans hc⟩
  · intro i o' ho'
    obtain ⟨o, ho, hcl⟩ : ∃ o, s.reg.objs[i]? = some o ∧ o'.cls = o.cls := by
      by_cases h : i = ctx
      · subst h
        rw [setAlias_get_eq] at ho'
        cases ho : s.reg.objs[i]? with
        | none => rw [ho] at ho'; simp at ho'
        | some o => rw [ho] at ho'; simp only [Option.map_some, Option.some.injEq] at ho'; subst ho'; exact ⟨o, rfl, rfl⟩
      · rw [setAlias_get_ne h] at ho'; exact ⟨o', ho', rfl⟩
    obtain ⟨S', hk', hp'⟩ := hI.site i o ho
    exact ⟨S', hcl ▸ hk', by rw [setAlias_path, hloc]; exact hp'⟩
  · intro i o' S' ho' hp' hS' x tgt hx
    rw [setAlias_path, hloc] at hp'
    by_cases h : i = ctx
    · subst h
      rw [setAlias_get_eq] at ho'
      cases ho : s.reg.objs[i]? with
      | none => rw [ho] at ho'; simp at ho'
      | some o =>
        rw [ho] at ho'; simp only [Option.map_some, Option.some.injEq] at ho'; subst ho'
        simp only at hx
        by_cases hkx : x = k
        · subst hkx
          rw [dset_get_same] at hx; injection hx with hx; subst hx
          have : S' = S := loc_inj wf rx s hS' hS (by rw [hp] at hp'; injection hp' with hp'; exact hp'.symm)
          subst this; exact hj
        · rw [dset_get_other _ _ _ _ hkx] at hx
          exact hI.alias i o S' ho hp' hS' x tgt hx
    · rw [setAlias_get_ne h] at ho'
      exact hI.alias i o' S' ho' hp' hS' x tgt hx
  · intro m o' hm ho' x c hx
    have : ∃ o, s.reg.objs[m]? = some o ∧ dget o.contents x = some c := by
      by_cases h : m = ctx
      · subst h
        rw [setAlias_get_eq] at ho'
        cases ho : s.reg.objs[m]? with
        | none => rw [ho] at ho'; simp at ho'
        | some o => rw [ho] at ho'; simp only [Option.map_some, Option.some.injEq] at ho'; subst ho'; exact ⟨o, rfl, hx⟩
      · rw [setAlias_get_ne h] at ho'; exact ⟨o', ho', hx⟩
    obtain ⟨o, ho, hx'⟩ := this
    rcases hI.cont m o hm ho x c hx' with h | h | ⟨r, hr, h1, h2, h3⟩
    · exact Or.inl h
    · exact Or.inr (Or.inl h)
    · exact Or.inr (Or.inr ⟨r, hr, h1, h2, by rw [hmv r hr]; exact h3⟩)
  · intro i S' hp' hS' hne
    rw [setAlias_path, hloc] at hp'
    exact hI.started i S' hp' hS' hne
  · intro m md hm hps
    exact CompleteStmts.ext hext _ (hI.complete m md hm hps)
  · intro r hr hm
    rw [hmv r hr] at hm
    exact hI.movedPs r hr hm

theorem setAlias_frame (proj : Project) (c : Option Nat) (l : List Name) (s : St) (ctx : Nat) (k : Name) (v : Path) :
    FrameX proj c l s (setAlias s ctx k v) := by
  intro i o ho _
  by_cases h : i = ctx
  · subst h
    exact ⟨{ o with aliases := dset o.aliases k v }, by rw [setAlias_get_eq, ho]; rfl, fun _ _ h => h⟩
  · exact ⟨o, by rw [setAlias_get_ne h]; exact ho, fun _ _ h => h⟩

/-! ## `addObj` -/

theorem addObj_ok {proj : Project} {rank : List Nat} (wf : WFacts proj rank) (rx : RxFacts proj) {s : St}
    (hI : PdInv proj s) (hbad : s.bad = false)
    {c : Cls} {name : Name} {ctx : Nat} {S : Site} {full : List Stmt} {st : Stmt}
    (hp : path s.reg ctx = some (sitePath proj S)) (hS : siteBody proj S = some full) (hst : st ∈ full)
    (hk : stKind st = some (name, c)) (hps : getPs s S.1 = .processing) (hSt : StaticSite proj S)
    {o0 : Obj} (ho0 : s.reg.objs[ctx]? = some o0) (hno : dget o0.contents name = none) :
    (addObj s c name ctx).bad = false ∧
    PdInv proj (addObj s c name ctx) ∧ Ext proj s (addObj s c name ctx) ∧
    (addObj s c name ctx).reg.objs.length = s.reg.objs.length + 1 ∧
    (addObj s c name ctx).reg.objs[s.reg.objs.length]? = some (⟨name, some ctx, c, [], []⟩ : Obj) ∧
    path (addObj s c name ctx).reg s.reg.objs.length = some (sitePath proj (S.1, S.2 ++ [name])) ∧
    (∃ po, (addObj s c name ctx).reg.objs[ctx]? = some po ∧ dget po.contents name = some s.reg.objs.length) ∧
    (addObj s c name ctx).ps = s.ps ∧ (addObj s c name ctx).alls = s.alls ∧ (addObj s c name ctx).cinfo = s.cinfo ∧
    FrameX proj (some ctx) [name] s (addObj s c name ctx) := by
  have hf := fresh_of_not_content hI.reg ho0 hp (sitePath_ne_nil wf hSt) (wf.namesOk hS hst (stKind_defName hk)) hno
  have hb : (addObj s c name ctx).bad = false := addObj_clean (c := c) hbad hp hf
  have hframe : FrameX proj (some ctx) [name] s (addObj s c name ctx) := by
    obtain ⟨he, _⟩ := addObj_spec hp hb
    rw [he]
    intro i o ho _
    refine ⟨_, objsAfterAdd_get_old (path_lt hp) ho, fun k hk hd => ?_⟩
    split
    · rename_i hic
      simp only
      have : k ≠ name := by
        intro h; exact hk (by rw [hic]) (by simp [h])
      rw [dset_get_other _ _ _ _ this]; exact hd
    · exact hd
  refine ⟨hb, ?_⟩
  obtain ⟨he, hok⟩ := addObj_spec hp hb
  have hlt := path_lt hp
  have hinv : Inv (addObj s c name ctx).reg := by rw [he]; exact addObject_inv hI.reg hok
  have hframe' := hframe
  rw [he] at hframe' ⊢
  generalize hs' : ({ s with reg := ⟨objsAfterAdd s.reg c name ctx, s.reg.all ++ [(sitePath proj S ++ [name], s.reg.objs.length)],
      s.reg.roots⟩ } : St) = s' at hframe' ⊢
  have hreg' : s'.reg = ⟨objsAfterAdd s.reg c name ctx, s.reg.all ++ [(sitePath proj S ++ [name], s.reg.objs.length)],
      s.reg.roots⟩ := by rw [← hs']
  have hps' : ∀ t, getPs s' t = getPs s t := fun t => by rw [← hs']; rfl
  have hall' : ∀ t, getAll s' t = getAll s t := fun t => by rw [← hs']; rfl
  have hnewpath : path s'.reg s.reg.objs.length = some (sitePath proj (S.1, S.2 ++ [name])) := by
    rw [hreg', path_afterAdd_new hp]; simp [sitePath]
  have hold : ∀ i o, s.reg.objs[i]? = some o → s'.reg.objs[i]? =
      some (if i = ctx then { o with contents := dset o.contents name s.reg.objs.length } else o) :=
    fun i o ho => by rw [hreg']; exact objsAfterAdd_get_old hlt ho
  have hnew : s'.reg.objs[s.reg.objs.length]? = some (⟨name, some ctx, c, [], []⟩ : Obj) := by
    rw [hreg']; exact objsAfterAdd_get_new hlt
  have hlen : s'.reg.objs.length = s.reg.objs.length + 1 := by rw [hreg']; simp [objsAfterAdd_length]
  have hcases : ∀ i o', s'.reg.objs[i]? = some o' →
      (i = s.reg.objs.length ∧ o' = ⟨name, some ctx, c, [], []⟩) ∨
      (∃ o, s.reg.objs[i]? = some o ∧ o' = (if i = ctx then { o with contents := dset o.contents name s.reg.objs.length } else o)) := by
    intro i o' ho'
    have hil := (List.getElem?_eq_some_iff.1 ho').1
    rw [hlen] at hil
    by_cases hi : i = s.reg.objs.length
    · subst hi; rw [hnew] at ho'; injection ho' with ho'; exact Or.inl ⟨rfl, ho'.symm⟩
    · have hi' : i < s.reg.objs.length := by omega
      have ho : s.reg.objs[i]? = some s.reg.objs[i] := by simp [hi']
      rw [hold i _ ho] at ho'; injection ho' with ho'
      exact Or.inr ⟨_, ho, ho'.symm⟩
  have hpold : ∀ i k, path s.reg i = some k → path s'.reg i = some k :=
    fun i k hk => by rw [hreg']; exact path_afterAdd_old hk
  have hpback : ∀ i k, i < s.reg.objs.length → path s'.reg i = some k → path s.reg i = some k := by
    intro i k hi hk
    obtain ⟨k0, hk0⟩ := hI.reg.full i hi
    have h1 := hI.reg.reg.keys k0 i hk0
    rw [hpold i k0 h1] at hk; injection hk with hk; subst hk; exact h1
  -- no move is forged or undone
  have hmv : ∀ r ∈ reexportReqs proj, movedB proj s' r = movedB proj s r := by
    intro r hr
    apply movedB_of_alias
    obtain ⟨om, hom, _, _⟩ := hI.mods r.1 (req_definer_lt hr)
    rw [hold _ _ hom, hom]
    simp only [Option.map_some, Option.some.injEq]
    split <;> rfl
  have hloc : ∀ S', loc proj s' S' = loc proj s S' := loc_congr hmv
  have hSproc : getPs s S.1 ≠ .processed := by rw [hps]; simp
  have hlocnew : loc proj s' (S.1, S.2 ++ [name]) = sitePath proj (S.1, S.2 ++ [name]) := by
    rw [hloc]; exact hI.loc_eq (S := (S.1, S.2 ++ [name])) hSproc
  have hext : Ext proj s s' := by
    refine ⟨fun i o ho => ⟨_, hold i o ho, ?_, ?_⟩, fun i S' hp' _ => by rw [hloc]; exact hpold i _ hp',
      fun t => by rw [hps' t]; exact PsRel.refl s t, fun r hr h => by rw [hmv r hr]; exact h⟩
    · split <;> rfl
    · intro k' hk'
      split
      · simp only
        rcases hk' with hk' | hk'
        · left
          by_cases hkn : k' = name
          · subst hkn; rw [dset_get_same]; simp
          · rw [dset_get_other _ _ _ _ hkn]; exact hk'
        · exact Or.inr hk'
      · exact hk'
  refine ⟨?_, hext, hlen, hnew, hnewpath, ?_, by rw [← hs'], by rw [← hs'], by rw [← hs'], hframe'⟩
  · refine
      { reg := by rw [he] at hinv; rw [hreg']; exact hinv, cbase := cbase_ext hI.cbase hext (by rw [← hs']),
        lens := by rw [← hs']; exact hI.lens, mods := ?_, site := ?_,
        alias := ?_, cont := ?_, alls := ?_, started := ?_, complete := ?_, movedPs := ?_, movedIn := ?_ }
    rotate_right
    · intro r hr hm
      rw [hmv r hr] at hm
      obtain ⟨o, c', ho, hd⟩ := hI.movedIn r hr hm
      have : ∃ c'', dget (if r.2.2.1 = ctx then { o with contents := dset o.contents name s.reg.objs.length } else o).contents
          r.2.2.2 = some c'' := by
        split
        · simp only
          by_cases hkn : r.2.2.2 = name
          · exact ⟨_, by rw [hkn, dset_get_same]⟩
          · exact ⟨c', by rw [dset_get_other _ _ _ _ hkn]; exact hd⟩
        · exact ⟨c', hd⟩
      obtain ⟨c'', hc''⟩ := this
      exact ⟨_, c'', hold _ o ho, hc''⟩
    · intro m hm
      obtain ⟨o, ho, hpm, hc⟩ := hI.mods m hm
      obtain ⟨o', ho', hc', _⟩ := hext.objs m o ho
      exact ⟨o', ho', hpold m _ hpm, hc'.trans hc⟩
    · intro i o' ho'
      rcases hcases i o' ho' with ⟨rfl, rfl⟩ | ⟨o, ho, rfl⟩
      · exact ⟨(S.1, S.2 ++ [name]), ObjKind.dfn hS hst hk, by rw [hlocnew]; exact hnewpath⟩
      · obtain ⟨S', hk', hp'⟩ := hI.site i o ho
        refine ⟨S', ?_, by rw [hloc]; exact hpold i _ hp'⟩
        split <;> exact hk'
    · intro i o' S' ho' hp' hS' x tgt hx
      rw [hloc] at hp'
      rcases hcases i o' ho' with ⟨rfl, rfl⟩ | ⟨o, ho, rfl⟩
      · simp [dget] at hx
      · have hx' : dget o.aliases x = some tgt := by split at hx <;> exact hx
        exact hI.alias i o S' ho (hpback i _ (List.getElem?_eq_some_iff.1 ho).1 hp') hS' x tgt hx'
    · intro m o' hm ho' x c' hx
      have hback : ∀ o, s.reg.objs[m]? = some o → dget o.contents x = some c' →
          x ∈ childNames proj m ∨ (∃ st ∈ bodyOf proj m, st.defName = some x) ∨
          (∃ r ∈ reexportReqs proj, r.2.2.1 = m ∧ r.2.2.2 = x ∧ movedB proj s' r = true) := by
        intro o ho hx'
        rcases hI.cont m o hm ho x c' hx' with h | h | ⟨r, hr, h1, h2, h3⟩
        · exact Or.inl h
        · exact Or.inr (Or.inl h)
        · exact Or.inr (Or.inr ⟨r, hr, h1, h2, by rw [hmv r hr]; exact h3⟩)
      rcases hcases m o' ho' with ⟨rfl, rfl⟩ | ⟨o, ho, rfl⟩
      · simp [dget] at hx
      · split at hx
        · rename_i hmc; subst hmc
          simp only at hx
          by_cases hxn : x = name
          · subst hxn
            right; left
            obtain ⟨om, _, hpm, _⟩ := hI.mods m hm
            have : S = (m, []) := site_unique wf hSt ⟨hm, Or.inl rfl⟩ (by
              rw [hpm] at hp; injection hp with hp; simpa [sitePath] using hp.symm)
            subst this
            rw [← siteBody_mod hS]
            exact ⟨st, hst, stKind_defName hk⟩
          · rw [dset_get_other _ _ _ _ hxn] at hx
            exact hback o ho hx
        · exact hback o ho hx
    · intro m hm
      rw [hall', hps']; exact hI.alls m hm
    · intro i S' hp' hS' hne
      rw [hps']
      rw [hloc] at hp'
      by_cases hi : i < s.reg.objs.length
      · exact hI.started i S' (hpback i _ hi hp') hS' hne
      · have hil : i < s'.reg.objs.length := path_lt hp'
        rw [hlen] at hil
        have : i = s.reg.objs.length := by omega
        subst this
        rw [hnewpath] at hp'; injection hp' with hp'
        have : S' = (S.1, S.2 ++ [name]) := by
          refine loc_inj wf rx s hS' (ObjKind.dfn hS hst hk).static ?_
          rw [← hp']; exact (hI.loc_eq (S := (S.1, S.2 ++ [name])) hSproc).symm
        subst this; simp only; rw [hps]; simp
    · intro m md hm hps''
      rw [hps'] at hps''
      exact CompleteStmts.ext hext _ (hI.complete m md hm hps'')
    · intro r hr hm
      rw [hmv r hr] at hm
      rw [hps', hps']
      exact hI.movedPs r hr hm
  · refine ⟨_, hold ctx o0 ho0, ?_⟩
    simp [dset_get_same]

end Imports.Rx
