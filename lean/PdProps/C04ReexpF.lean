/-
C04, re-exports (item 3), layer F — registry level: `Documentable.reparent` of a child of a container onto a
free name of an object that is not below it raises nothing (`Rx.ReparentOk`).
-/
import PdProps.C04ReexpE

namespace Imports.Rx
open Registry Imports

/-! ## fuel: a qualified name is never longer than the number of objects -/

theorem pathAux_fuel {objs : List Obj} : ∀ {i : Nat} {p : Path}, HasPath objs i p → ∀ f, p.length ≤ f →
    pathAux objs f i = some p := by
  intro i p h
  induction h with
  | @root i o ho hp =>
    intro f hf
    cases f with
    | zero => simp at hf
    | succ f => exact pathAux_root ho hp
  | @child i o q p ho hp _ ih =>
    intro f hf
    cases f with
    | zero => simp at hf
    | succ f =>
      rw [pathAux_child ho hp, ih f (by simp at hf; omega)]; rfl

theorem hasPath_chain {objs : List Obj} : ∀ {i : Nat} {p : Path}, HasPath objs i p →
    ∃ l : List Nat, l.length = p.length ∧ l.Nodup ∧ (∀ z ∈ l, z < objs.length) ∧
      (∀ z ∈ l, ∃ pz, HasPath objs z pz ∧ pz.length ≤ p.length) := by
  intro i p h
  induction h with
  | @root i o ho hp =>
    exact ⟨[i], by simp, by simp, fun z hz => by
      simp only [List.mem_singleton] at hz; subst hz; exact (List.getElem?_eq_some_iff.1 ho).1,
      fun z hz => by
        simp only [List.mem_singleton] at hz; subst hz; exact ⟨_, .root ho hp, Nat.le_refl _⟩⟩
  | @child i o q p ho hp hq ih =>
    obtain ⟨l, hl, hn, hlt, hpz⟩ := ih
    have hself : HasPath objs i (p ++ [o.name]) := .child ho hp hq
    refine ⟨i :: l, by simp [hl], ?_, ?_, ?_⟩
    · rw [List.nodup_cons]
      refine ⟨fun hin => ?_, hn⟩
      obtain ⟨pz, hz, hle⟩ := hpz i hin
      have := hz.func hself
      rw [this] at hle
      simp only [List.length_append, List.length_singleton] at hle
      omega
    · intro z hz
      rcases List.mem_cons.1 hz with rfl | hz
      · exact (List.getElem?_eq_some_iff.1 ho).1
      · exact hlt z hz
    · intro z hz
      rcases List.mem_cons.1 hz with rfl | hz
      · exact ⟨_, hself, Nat.le_refl _⟩
      · obtain ⟨pz, h1, h2⟩ := hpz z hz
        exact ⟨pz, h1, by simp only [List.length_append, List.length_singleton]; omega⟩

theorem hasPath_length_le {objs : List Obj} {i : Nat} {p : Path} (h : HasPath objs i p) : p.length ≤ objs.length := by
  obtain ⟨l, hl, hn, hlt, _⟩ := hasPath_chain h
  have := nodup_subset_length l (List.range objs.length) hn (fun z hz => List.mem_range.2 (hlt z hz))
  rw [List.length_range, hl] at this
  exact this

theorem path_of_hasPath {s : State} {i : Nat} {p : Path} (h : HasPath s.objs i p) : path s i = some p :=
  pathAux_fuel h _ (by have := hasPath_length_le h; omega)

/-! ## the two registry loops do not raise -/

theorem delAll_ok : ∀ (l : List Nat) (s : State), Uniq s.all → l.Nodup →
    (∀ o ∈ l, ∃ p, path s o = some p ∧ (p, o) ∈ s.all) → ∃ s1, delAll s l = .ok s1
  | [], s, _, _, _ => ⟨s, rfl⟩
  | o :: os, s, hu, hn, h => by
    obtain ⟨p, hp, hm⟩ := h o (List.mem_cons_self ..)
    obtain ⟨a, ha⟩ := ddel_some_of_mem hm
    unfold delAll
    simp only [hp, ha]
    obtain ⟨hu', hm'⟩ := ddel_spec hu ha
    rw [List.nodup_cons] at hn
    refine delAll_ok os { s with all := a } hu' hn.2 (fun o' ho' => ?_)
    obtain ⟨p', hp', hm2⟩ := h o' (List.mem_cons_of_mem _ ho')
    refine ⟨p', hp', (hm' p' o').2 ⟨fun he => ?_, hm2⟩⟩
    subst he
    exact hn.1 (uniq_val hu hm2 hm ▸ ho')

theorem addAll_ok : ∀ (l : List Nat) (s : State), (∀ o ∈ l, ∃ p, path s o = some p) → ∃ s', addAll s l = .ok s'
  | [], s, _ => ⟨s, rfl⟩
  | o :: os, s, h => by
    obtain ⟨p, hp⟩ := h o (List.mem_cons_self ..)
    unfold addAll
    simp only [hp]
    exact addAll_ok os _ (fun o' ho' => by simpa using h o' (List.mem_cons_of_mem _ ho'))

/-! ## `reparent` does not raise -/

theorem reparent_ok : ReparentOk := by
  intro st ob np nn op opo k pnp hI hopo hcc hcont hpnp hfree hnb
  -- the moved object
  obtain ⟨o, ho, hpar, hname⟩ := hI.tree.coh op opo k ob hopo (mem_of_dget hcont)
  have hgo : getObj st ob = some o := ho
  have hnpl := path_lt hpnp
  obtain ⟨npo, hnpo⟩ : ∃ npo, st.objs[np]? = some npo := ⟨st.objs[np], by simp [hnpl]⟩
  have hgn : getObj st np = some npo := hnpo
  -- the subtree is unregistered
  have hsnd : (st.all.map Prod.snd).Nodup :=
    nodup_map_of_dep Prod.fst Prod.snd st.all hI.reg.uniq (fun a ha b hb hab => by
      have h1 := hI.reg.keys a.1 a.2 ha
      have h2 := hI.reg.keys b.1 b.2 hb
      rw [hab, h2] at h1
      injection h1 with h1; exact h1.symm)
  have hbn : (objectsBelow st ob).Nodup := by
    unfold objectsBelow; exact hsnd.filter _
  obtain ⟨s1, hdel⟩ := delAll_ok (objectsBelow st ob) st hI.reg.uniq hbn (fun x hx => by
    obtain ⟨⟨kx, hkx⟩, _⟩ := (mem_objectsBelow hI.reg).1 hx
    exact ⟨kx, hI.reg.keys kx x hkx, hkx⟩)
  obtain ⟨h1o, h1r, h1u, h1m⟩ := delAll_below hI.reg hdel
  have hgop : getObj s1 op = some opo := by unfold getObj; rw [h1o]; exact hopo
  obtain ⟨oc, hdd⟩ := ddel_some_of_mem (mem_of_dget (hname ▸ hcont) : (o.name, ob) ∈ opo.contents)
  -- the new name of the moved object
  have hA : ∃ A, HasPath st.objs ob A := by
    obtain ⟨kA, hkA⟩ := hI.full ob (List.getElem?_eq_some_iff.1 ho).1
    exact ⟨kA, hI.reg.hasPath hkA⟩
  obtain ⟨A, hA⟩ := hA
  have hne_np : np ≠ ob := fun h => hnb (h ▸ Below.refl)
  have hpnpP : HasPath st.objs np pnp := path_sound hpnp
  have h2o : (modifyObj s1 ob (fun x => { x with parent := some np, name := nn })).objs =
      st.objs.modify ob (fun x => { x with parent := some np, name := nn }) := by
    rw [modifyObj, h1o]
  have hnp2 : HasPath (st.objs.modify ob (fun x => { x with parent := some np, name := nn })) np pnp := by
    refine hpnpP.congr_off (fun i => Below st.objs ob i) (fun i hi => ?_) (Below.up_closed st.objs ob) hnb
    have : i ≠ ob := fun h => hi (h ▸ Below.refl)
    rw [getElem?_modify_ne _ this]
  have hob2 : HasPath (st.objs.modify ob (fun x => { x with parent := some np, name := nn })) ob (pnp ++ [nn]) := by
    have hget : (st.objs.modify ob (fun x => { x with parent := some np, name := nn }))[ob]? =
        some { o with parent := some np, name := nn } := by
      rw [getElem?_modify_eq, ho]; rfl
    exact HasPath.child hget rfl hnp2
  have hpath2 : path (modifyObj s1 ob (fun x => { x with parent := some np, name := nn })) ob = some (pnp ++ [nn]) :=
    path_of_hasPath (by rw [h2o]; exact hob2)
  -- the final object list and the re-registration
  generalize hs4 : modifyObj (modifyObj (modifyObj s1 ob (fun x => { x with parent := some np, name := nn })) op
      (fun x => { x with contents := oc, aliases := dset x.aliases o.name (pnp ++ [nn]) })) np
      (fun x => { x with contents := dset x.contents nn ob }) = s4
  have h4o : s4.objs = moveObjs st.objs ob op np nn oc o.name (pnp ++ [nn]) := by
    rw [← hs4, moveObjs, ← h2o]; rfl
  have h4a : s4.all = s1.all := by rw [← hs4]; rfl
  have hokey4 : ∀ i : Nat, i ≠ ob → (s4.objs[i]?).map okey = (st.objs[i]?).map okey := by
    intro i hi
    obtain ⟨F, hF1, hF2⟩ := modify3_get st.objs ob op np nn oc o.name (pnp ++ [nn]) i
    rw [h4o, hF1]
    cases st.objs[i]? with
    | none => rfl
    | some os => simp [okey, (hF2 os).1, (hF2 os).2.1, hi]
  have hob4 : HasPath s4.objs ob (pnp ++ [nn]) := by
    refine hob2.congr (fun i => ?_)
    obtain ⟨F, hF1, hF2⟩ := modify3_get st.objs ob op np nn oc o.name (pnp ++ [nn]) i
    rw [h4o, hF1]
    by_cases hi : i = ob
    · subst hi
      rw [getElem?_modify_eq, ho]
      simp [okey, (hF2 o).1, (hF2 o).2.1]
    · rw [getElem?_modify_ne _ hi]
      cases st.objs[i]? with
      | none => rfl
      | some os => simp [okey, (hF2 os).1, (hF2 os).2.1, hi]
  have hfree4 : dhas s4.all (pnp ++ [nn]) = false := by
    unfold dhas
    cases hd : dget s4.all (pnp ++ [nn]) with
    | none => rfl
    | some v =>
      exfalso
      have hm := mem_of_dget hd
      rw [h4a] at hm
      have := ((h1m _ _).1 hm).1
      exact (dget_none_iff.1 hfree) v this
  obtain ⟨s', hadd⟩ := addAll_ok (objectsBelow st ob) s4 (fun x hx => by
    obtain ⟨⟨kx, hkx⟩, hxb⟩ := (mem_objectsBelow hI.reg).1 hx
    obtain ⟨rest, _, hx'⟩ := reroot (fun i _ hi => hokey4 i hi) hA hob4 hxb (hI.reg.hasPath hkx)
    exact ⟨_, path_of_hasPath hx'⟩)
  refine ⟨s', ?_⟩
  unfold reparent
  simp only [hgo, hgn, hdel, hpar, hgop, hcc, Bool.not_true, Bool.false_eq_true, if_false, hdd, hpath2, hs4, hfree4, hadd]

end Imports.Rx
