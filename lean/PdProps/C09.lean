/-
C09 — rendering a docstring keeps its text.

Theorems over `PdModel.Epytext` (model of pydoctor/epydoc/markup/epytext.py `_colorize`,
`_colorize_link`, `_tokenize_literal`, `_tokenize_doctest`; pydoctor/epydoc/doctest.py splice loops;
plaintext `to_stan`; the `FieldHandler` dispatch table of epydoc2stan.py), with pydoctor's own data
tables (`Generated.Tables`, re-extracted from the repository under test on every run).

1. `Epytext.colorize_conserves` — when `_colorize` emits no error, the text `_to_node` makes visible
   is `strip text`, where `strip` (PdModel/Epytext.lean) is a one-pass, character-by-character
   recogniser without tree or indices: tag letters and their braces removed, `E{}`/`S{}` decoded,
   link targets dropped; nothing else changed, in order.
2. `Epytext.literal_block_exact`, `Epytext.doctest_block_exact` — block slicing.
3. `Doctest.splice_conserves`, `Doctest.doctest_body_text`, `Doctest.doctest_body_conserves` (full, since
   pydoctor a0449ac), `Doctest.doctest_body_old_counterexample` (the code before that fix).
4. `Epytext.plaintext_exact`.
5. `Docstring.kept_iff_in_scope`, `every_tag_rendered_or_reported_partial` / `_counterexample` (only `type`
   fields naming no known variable remain excluded, since pydoctor 513af36) over the generated handler table.
-/
import PdModel.Epytext
import PdModel.EpytextIO

namespace Epytext

/-! ## 0. tables -/

/-- every symbol `_colorize` accepts (`SYMBOLS`) has a code point in `SYMBOL_TO_CODEPOINT`: `_to_node`
never raises `KeyError` -/
def Cfg.Total (T : Cfg) : Prop := ∀ s, T.symbols.contains s = true → (T.codepoints.lookup s).isSome = true

theorem symbols_total :
    Generated.Epytext.symbols.all (fun s => (Generated.Epytext.codepoints.lookup s).isSome) = true := by
  decide +kernel

theorem liveCfg_total (extra : List Char) : (liveCfg extra).Total := by
  intro s hs
  have h := symbols_total
  rw [List.all_eq_true] at h
  exact h s (by simpa [liveCfg] using hs)

/-- the literal tables of the model are today's tables of pydoctor -/
theorem tables_current :
    Generated.Epytext.colorizingTags.map (fun p => (colorizingTag p.1).map Tag.show) =
      Generated.Epytext.colorizingTags.map (fun p => some p.2) ∧
    Generated.Epytext.colorizingTags.map (·.1) = ['C', 'M', 'I', 'B', 'U', 'L', 'E', 'S'] ∧
    Generated.Epytext.escapes = escapes.map (fun p => (p.1, [p.2])) ∧
    Generated.Epytext.linkTags = [Tag.link.show, Tag.uri.show] := by
  refine ⟨?_, ?_, ?_, ?_⟩ <;> decide

/-! ## 1. `visible` -/

theorem visibleList_append {T : Cfg} {a b : List Inl} {x y : List Char}
    (ha : visibleList T a = some x) (hb : visibleList T b = some y) :
    visibleList T (a ++ b) = some (x ++ y) := by
  induction a generalizing x with
  | nil => simp [visibleList] at ha; subst ha; simpa using hb
  | cons c cs ih =>
    simp only [visibleList] at ha
    cases hc : visible T c with
    | none => simp [hc] at ha
    | some vc =>
      cases hcs : visibleList T cs with
      | none => simp [hc, hcs] at ha
      | some vcs =>
        simp [hc, hcs] at ha
        subst ha
        simp [visibleList, hc, ih hcs, List.append_assoc]

theorem visibleList_single_text {T : Cfg} (s : List Char) : visibleList T [.text s] = some s := by
  simp [visibleList, visible]

theorem visibleList_single {T : Cfg} {x : Inl} {v : List Char} (h : visible T x = some v) :
    visibleList T [x] = some v := by
  simp [visibleList, h]

/-! ## 2. the abstraction from `_colorize`'s stack to the text buffers of `strip` -/

/-- the last child when it is a string -/
def lastText (cs : List Inl) : Option (List Char) :=
  match cs.getLast? with
  | some (.text s) => some s
  | _ => none

/-- the children before that string -/
def butLastText (cs : List Inl) : List Inl :=
  match cs.getLast? with
  | some (.text _) => cs.dropLast
  | _ => cs

theorem lastText_snoc_text (cs : List Inl) (s : List Char) : lastText (cs ++ [.text s]) = some s := by
  simp [lastText]

theorem butLastText_snoc_text (cs : List Inl) (s : List Char) : butLastText (cs ++ [.text s]) = cs := by
  simp [butLastText]

theorem lastText_snoc_elem (cs : List Inl) (t : Tag) (k : List Inl) : lastText (cs ++ [.elem t k]) = none := by
  simp [lastText]

theorem butLastText_snoc_elem (cs : List Inl) (t : Tag) (k : List Inl) :
    butLastText (cs ++ [.elem t k]) = cs ++ [.elem t k] := by
  simp [butLastText]

theorem lastText_nil : lastText [] = none := rfl
theorem butLastText_nil : butLastText [] = [] := rfl

theorem last_cases (cs : List Inl) :
    (∃ cs' s, cs = cs' ++ [.text s]) ∨ (lastText cs = none ∧ butLastText cs = cs) := by
  cases h : cs.getLast? with
  | none => right; simp [lastText, butLastText, h]
  | some x =>
    cases x with
    | text s =>
      left
      obtain ⟨cs', rfl⟩ := List.getLast?_eq_some_iff.mp h
      exact ⟨cs', s, rfl⟩
    | elem t k => right; simp [lastText, butLastText, h]

def okTag : Tag → Bool
  | .unknown | .name | .target => false
  | _ => true

def kindOfTag : Tag → Kind
  | .litbrace => .lit | .escape => .esc | .symbol => .sym | .uri => .lnk | .link => .lnk
  | _ => .plain

structure FrameRel (T : Cfg) (f : Frame) (sf : SFrame) : Prop where
  kind : sf.kind = kindOfTag f.tag
  ok : okTag f.tag = true
  last : sf.last = lastText f.children
  pre : visibleList T (butLastText f.children) = some sf.pre

theorem FrameRel.all {T : Cfg} {f : Frame} {sf : SFrame} (h : FrameRel T f sf) :
    visibleList T f.children = some sf.all := by
  rcases last_cases f.children with ⟨cs', s, hc⟩ | ⟨hl, hb⟩
  · have hp := h.pre
    have hl := h.last
    rw [hc, butLastText_snoc_text] at hp
    rw [hc, lastText_snoc_text] at hl
    rw [hc, visibleList_append hp (visibleList_single_text s)]
    simp [SFrame.all, hl]
  · have hp := h.pre
    rw [hb] at hp
    simp [SFrame.all, h.last, hl, hp]

theorem rel_push_text {T : Cfg} {f : Frame} {sf : SFrame} (h : FrameRel T f sf) (s : List Char) :
    FrameRel T (f.push (.text s)) (sf.addText s) where
  kind := by simpa [Frame.push, SFrame.addText] using h.kind
  ok := by simpa [Frame.push] using h.ok
  last := by simp [Frame.push, SFrame.addText, lastText_snoc_text]
  pre := by simpa [Frame.push, SFrame.addText, butLastText_snoc_text] using h.all

theorem rel_push_elem {T : Cfg} {f : Frame} {sf : SFrame} (h : FrameRel T f sf) (t : Tag) (k : List Inl)
    {v : List Char} (hv : visible T (.elem t k) = some v) :
    FrameRel T (f.push (.elem t k)) (sf.addVis v) where
  kind := by simpa [Frame.push, SFrame.addVis] using h.kind
  ok := by simpa [Frame.push] using h.ok
  last := by simp [Frame.push, SFrame.addVis, lastText_snoc_elem]
  pre := by
    simp only [Frame.push, SFrame.addVis, butLastText_snoc_elem]
    exact visibleList_append h.all (visibleList_single hv)

/-- recording a run of ordinary characters -/
theorem rel_flush {T : Cfg} {f : Frame} {sf : SFrame} (h : FrameRel T f sf) (cur : List Char) :
    FrameRel T (if cur ≠ [] then f.push (.text cur) else f) (sf.flush cur) := by
  by_cases hc : cur = []
  · simp [hc, SFrame.flush, h]
  · have : cur.isEmpty = false := by cases cur <;> simp_all
    simp [hc, SFrame.flush, this, rel_push_text h cur]

theorem rel_new {T : Cfg} (t : Tag) (e : Nat) (k : Kind) (hk : k = kindOfTag t) (ho : okTag t = true) :
    FrameRel T ⟨t, [], e⟩ ⟨k, [], none⟩ where
  kind := hk
  ok := ho
  last := rfl
  pre := by simp [butLastText_nil, visibleList]

/-! ## 3. `_colorize` with the slices replaced by the run of characters since the last brace -/

def litOpen (e : Nat) (cur : List Char) (st : St) : St :=
  ⟨⟨.litbrace, [], e⟩, (if cur ≠ [] then st.top.push (.text cur) else st.top) :: st.rest, st.errs⟩

def open2 (e : Nat) (cur : List Char) (st : St) : St :=
  match cur.getLast? with
  | none => litOpen e cur st
  | some c =>
    if isCapital c then
      let top := if cur.dropLast ≠ [] then st.top.push (.text cur.dropLast) else st.top
      match colorizingTag c with
      | none => ⟨⟨.unknown, [], e⟩, top :: st.rest, st.errs ++ [⟨.unknownTag, e - 1⟩]⟩
      | some t => ⟨⟨t, [], e⟩, top :: st.rest, st.errs⟩
    else litOpen e cur st

def close2 (T : Cfg) (e : Nat) (cur : List Char) (st : St) : St :=
  match st.rest with
  | [] => { st with errs := st.errs ++ [⟨.unbalancedClose, e⟩] }
  | parent :: rest =>
    let top := if cur ≠ [] then st.top.push (.text cur) else st.top
    let r := closeElem T top e
    { top := { parent with children := parent.children ++ r.1 }, rest := rest, errs := st.errs ++ r.2 }

def finish2 (cur : List Char) (st : St) : Result :=
  let top := if cur ≠ [] then st.top.push (.text cur) else st.top
  let errs := if st.rest.isEmpty then st.errs else st.errs ++ [⟨.unbalancedOpen, top.openAt⟩]
  let root := st.rest.foldl (fun child parent => parent.push (.elem child.tag child.children)) top
  ⟨.elem .para root.children, errs⟩

def scan2 (T : Cfg) : List Char → Nat → List Char → St → Result
  | [], _, cur, st => finish2 cur st
  | c :: cs, i, cur, st =>
    if c = '{' then scan2 T cs (i + 1) [] (open2 i cur st)
    else if c = '}' then scan2 T cs (i + 1) [] (close2 T i cur st)
    else scan2 T cs (i + 1) (cur ++ [c]) st


/-! ## 4. one step of `_colorize` against one step of `strip` -/

inductive RestRel (T : Cfg) : List Frame → List SFrame → Prop
  | nil : RestRel T [] []
  | cons {f sf fs sfs} : FrameRel T f sf → RestRel T fs sfs → RestRel T (f :: fs) (sf :: sfs)

theorem RestRel.cons_inv {T : Cfg} {f : Frame} {fs : List Frame} {l : List SFrame} (h : RestRel T (f :: fs) l) :
    ∃ sf sfs, l = sf :: sfs ∧ FrameRel T f sf ∧ RestRel T fs sfs := by
  cases h with
  | cons a b => exact ⟨_, _, rfl, a, b⟩

theorem RestRel.nil_inv {T : Cfg} {l : List SFrame} (h : RestRel T [] l) : l = [] := by
  cases h; rfl

def StRel (T : Cfg) (st : St) (ss : SSt) : Prop :=
  FrameRel T st.top ss.top ∧ RestRel T st.rest ss.rest

theorem tag_kind {c : Char} {t : Tag} (h : colorizingTag c = some t) :
    kindOfLetter c = kindOfTag t ∧ okTag t = true := by
  unfold colorizingTag at h
  split at h <;> simp at h <;> subst h <;> exact ⟨by decide, by decide⟩

theorem append_singleton_ne_nil {α} (l : List α) (a : α) : l ++ [a] ≠ [] := by simp

theorem stepS_open_cur (T : Cfg) (ss : SSt) : (stepS T ss '{').cur = [] := by
  unfold stepS
  simp only [if_true]
  split
  · split <;> rfl
  · rfl

theorem stepS_close_cur (T : Cfg) (ss : SSt) : (stepS T ss '}').cur = [] := by
  have hne : ('}' = '{') = False := by decide
  unfold stepS
  simp only [hne, if_false, if_true]
  split <;> rfl

theorem open2_errs {i : Nat} {cur : List Char} {st : St} (h : (open2 i cur st).errs = []) : st.errs = [] := by
  unfold open2 litOpen at h
  cases hcur : cur.getLast? with
  | none => simpa [hcur] using h
  | some l =>
    simp only [hcur] at h
    by_cases hcap : isCapital l = true
    · simp only [hcap, if_true] at h
      cases htag : colorizingTag l with
      | none => simp [htag] at h
      | some t => simpa [htag] using h
    · simpa [hcap] using h

theorem close2_errs {T : Cfg} {i : Nat} {cur : List Char} {st : St} (h : (close2 T i cur st).errs = []) :
    st.errs = [] := by
  unfold close2 at h
  cases hrest : st.rest with
  | nil => simp [hrest] at h
  | cons p r =>
    simp only [hrest] at h
    exact (List.append_eq_nil_iff.mp h).1

theorem sim_open {T : Cfg} {st : St} {ss : SSt} (h : st.errs = [] → StRel T st ss) (i : Nat)
    (he : (open2 i ss.cur st).errs = []) : StRel T (open2 i ss.cur st) (stepS T ss '{') := by
  obtain ⟨h1, h2⟩ := h (open2_errs he)
  unfold open2 litOpen at he ⊢
  unfold stepS
  simp only [if_true]
  cases hcur : ss.cur.getLast? with
  | none =>
    have hc : ss.cur = [] := List.getLast?_eq_none_iff.mp hcur
    refine ⟨rel_new _ _ _ rfl rfl, ?_⟩
    simpa [hc] using RestRel.cons h1 h2
  | some l =>
    simp only [hcur] at he
    by_cases hcap : isCapital l = true
    · simp only [hcap, if_true] at he ⊢
      cases htag : colorizingTag l with
      | none => simp [htag] at he
      | some t =>
        obtain ⟨hk, ho⟩ := tag_kind htag
        exact ⟨rel_new _ _ _ hk ho, RestRel.cons (rel_flush h1 _) h2⟩
    · simp only [hcap, Bool.false_eq_true, if_false]
      exact ⟨rel_new _ _ _ rfl rfl, RestRel.cons (rel_flush h1 _) h2⟩

theorem escapes_lookup (x : List Char) :
    escapes.lookup x = if x = ['l', 'b'] then some '{' else if x = ['r', 'b'] then some '}' else none := by
  by_cases h1 : x = ['l', 'b']
  · subst h1; rfl
  · by_cases h2 : x = ['r', 'b']
    · subst h2; rfl
    · have e1 : (x == ['l', 'b']) = false := by simpa using h1
      have e2 : (x == ['r', 'b']) = false := by simpa using h2
      simp [escapes, List.lookup, e1, e2, h1, h2]

/-- what a successful `_colorize_link` leaves: `[name, target]`, the name being the children with the
`<target>` cut off the last string (explicit target) or the children themselves (implicit target) -/
theorem colorizeLink_ok {T : Cfg} {tag : Tag} {cs : List Inl} {e : Nat}
    (h : (colorizeLink T tag cs e).2 = []) :
    ∃ vars t, (colorizeLink T tag cs e).1 = .elem tag [.elem .name vars, .elem .target [.text t]] ∧
      ((∃ cs' last txt tgt, cs = cs' ++ [.text last] ∧ splitTarget last = some (txt, tgt) ∧
          vars = cs' ++ [.text txt]) ∨
       (∃ last, cs = [.text last] ∧ splitTarget last = none ∧ vars = cs)) := by
  unfold colorizeLink at h ⊢
  cases hl : cs.getLast? with
  | none => simp [hl] at h
  | some x =>
    obtain ⟨cs', rfl⟩ := List.getLast?_eq_some_iff.mp hl
    cases x with
    | elem t k => simp at h
    | text last =>
      simp only [List.getLast?_concat, List.dropLast_concat] at h ⊢
      cases hs : splitTarget last with
      | some p =>
        obtain ⟨txt, tgt⟩ := p
        simp only [hs] at h ⊢
        by_cases hu : tag = .uri
        · simp only [hu, if_true] at h ⊢
          exact ⟨_, _, rfl, Or.inl ⟨cs', last, txt, tgt, rfl, hs, rfl⟩⟩
        · simp only [hu, if_false] at h ⊢
          split at h
          · simp at h
          · rename_i hv
            simp only [hv]
            exact ⟨_, _, rfl, Or.inl ⟨cs', last, txt, tgt, rfl, hs, rfl⟩⟩
      | none =>
        simp only [hs] at h ⊢
        cases cs' with
        | cons a as => simp at h
        | nil =>
          simp only [List.nil_append] at h ⊢
          by_cases hu : tag = .uri
          · simp only [hu, if_true] at h ⊢
            exact ⟨_, _, rfl, Or.inr ⟨last, rfl, hs, rfl⟩⟩
          · simp only [hu, if_false] at h ⊢
            split at h
            · simp at h
            · rename_i hv
              simp only [hv]
              exact ⟨_, _, rfl, Or.inr ⟨last, rfl, hs, rfl⟩⟩

theorem link_rel {T : Cfg} {tag : Tag} (htag : tag = .uri ∨ tag = .link) {f : Frame} {sf : SFrame}
    {parent : Frame} {sp : SFrame} (hf : FrameRel T f sf) (hp : FrameRel T parent sp) (e : Nat)
    (hr : (colorizeLink T tag f.children e).2 = []) :
    FrameRel T (parent.push (colorizeLink T tag f.children e).1) (sp.addVis (linkText sf)) := by
  obtain ⟨vars, t, h1, h2⟩ := colorizeLink_ok hr
  rw [h1]
  apply rel_push_elem hp
  have hvis : visible T (.elem tag [.elem .name vars, .elem .target [.text t]]) = visibleList T vars := by
    rcases htag with rfl | rfl <;> simp [visible]
  rw [hvis]
  rcases h2 with ⟨cs', last, txt, tgt, hc, hs, hv⟩ | ⟨last, hc, hs, hv⟩
  · have hl := hf.last
    have hpre := hf.pre
    rw [hc, lastText_snoc_text] at hl
    rw [hc, butLastText_snoc_text] at hpre
    rw [hv, visibleList_append hpre (visibleList_single_text txt)]
    simp [linkText, hl, hs]
  · have hl := hf.last
    have hpre := hf.pre
    rw [hc] at hl hpre
    have hl' : sf.last = some last := by simpa [lastText] using hl
    have hp' : sf.pre = [] := by simpa [butLastText, visibleList] using hpre.symm
    rw [hv, hc, visibleList_single_text]
    simp [linkText, hl', hs, SFrame.all, hp']

theorem closeElem_rel {T : Cfg} (hT : T.Total) {f : Frame} {sf : SFrame} {parent : Frame} {sp : SFrame}
    (hf : FrameRel T f sf) (hp : FrameRel T parent sp) (e : Nat) (hr : (closeElem T f e).2 = []) :
    FrameRel T { parent with children := parent.children ++ (closeElem T f e).1 } (closeS T sf sp) := by
  have hk := hf.kind
  have hok := hf.ok
  have hall := hf.all
  unfold closeElem at hr ⊢
  unfold closeS
  cases htag : f.tag <;> simp only [htag, kindOfTag, okTag] at hk hok hr ⊢ <;> simp only [hk]
  case para => exact rel_push_elem hp _ _ (by simpa [visible] using hall)
  case code => exact rel_push_elem hp _ _ (by simpa [visible] using hall)
  case math => exact rel_push_elem hp _ _ (by simpa [visible] using hall)
  case italic => exact rel_push_elem hp _ _ (by simpa [visible] using hall)
  case bold => exact rel_push_elem hp _ _ (by simpa [visible] using hall)
  case unknown => simp at hok
  case name => simp at hok
  case target => simp at hok
  case uri => exact link_rel (Or.inl rfl) hf hp e hr
  case link => exact link_rel (Or.inr rfl) hf hp e hr
  case litbrace =>
    have hpa := hp.all
    refine ⟨hp.kind, hp.ok, ?_, ?_⟩
    · show some ['}'] = lastText (parent.children ++ ([Inl.text ['{']] ++ f.children ++ [Inl.text ['}']]))
      rw [← List.append_assoc, lastText_snoc_text]
    · show visibleList T (butLastText (parent.children ++ ([Inl.text ['{']] ++ f.children ++ [Inl.text ['}']]))) = _
      rw [← List.append_assoc, butLastText_snoc_text, ← List.append_assoc]
      rw [visibleList_append (visibleList_append hpa (visibleList_single_text _)) hall]
      simp
  case escape =>
    split at hr
    · rename_i escp hch
      have hl : sf.last = some escp := by simpa [hch, lastText] using hf.last
      have hp0 : sf.pre = [] := by simpa [hch, butLastText, visibleList] using hf.pre.symm
      have hal : sf.all = escp := by simp [SFrame.all, hl, hp0]
      simp only [hch, hal]
      rw [escapes_lookup] at hr ⊢
      by_cases h1 : escp = ['l', 'b']
      · simp only [h1, if_true]
        exact rel_push_text hp _
      · by_cases h2 : escp = ['r', 'b']
        · subst h2
          simp only [decodeEscape]
          exact rel_push_text hp _
        · simp only [h1, h2, if_false] at hr ⊢
          split at hr
          · rename_i hlen
            simp only [decodeEscape, h1, h2, hlen, if_false, if_true]
            exact rel_push_text hp _
          · simp at hr
    · simp at hr
  case symbol =>
    split at hr
    · rename_i symb hch
      have hl : sf.last = some symb := by simpa [hch, lastText] using hf.last
      have hp0 : sf.pre = [] := by simpa [hch, butLastText, visibleList] using hf.pre.symm
      have hal : sf.all = symb := by simp [SFrame.all, hl, hp0]
      simp only [hch, hal]
      split at hr
      · rename_i hmem
        simp only [hmem, if_true]
        have hsome := hT symb hmem
        cases hcp : T.codepoints.lookup symb with
        | none => simp [hcp] at hsome
        | some cp =>
          apply rel_push_elem hp
          simp [visible, symbolChar, hcp]
      · simp at hr
    · simp at hr

theorem sim_close {T : Cfg} (hT : T.Total) {st : St} {ss : SSt} (h : st.errs = [] → StRel T st ss) (i : Nat)
    (he : (close2 T i ss.cur st).errs = []) : StRel T (close2 T i ss.cur st) (stepS T ss '}') := by
  have hne : ('}' = '{') = False := by decide
  obtain ⟨h1, h2⟩ := h (close2_errs he)
  unfold close2 at he ⊢
  unfold stepS
  simp only [hne, if_false, if_true]
  cases hrest : st.rest with
  | nil => simp [hrest] at he
  | cons parent rest =>
    simp only [hrest] at he
    have he2 := (List.append_eq_nil_iff.mp he).2
    rw [hrest] at h2
    obtain ⟨sp, sr, hss, hp, hr⟩ := h2.cons_inv
    simp only [hss]
    exact ⟨closeElem_rel hT (rel_flush h1 _) hp i he2, hr⟩

/-! ## 5. the whole run -/

theorem scan2_errs (T : Cfg) : ∀ (cs : List Char) (i : Nat) (cur : List Char) (st : St),
    (scan2 T cs i cur st).errs = [] → st.errs = [] := by
  intro cs
  induction cs with
  | nil =>
    intro i cur st h
    simp only [scan2, finish2] at h
    split at h
    · exact h
    · exact (List.append_eq_nil_iff.mp h).1
  | cons c cs ih =>
    intro i cur st h
    simp only [scan2] at h
    split at h
    · exact open2_errs (ih _ _ _ h)
    · split at h
      · exact close2_errs (ih _ _ _ h)
      · exact ih _ _ _ h

/-- the text `strip` returns from a state -/
def finalS (s : SSt) : List Char :=
  (s.rest.foldl (fun child parent => parent.addVis child.all) (s.top.flush s.cur)).all

theorem sim (T : Cfg) (hT : T.Total) : ∀ (cs : List Char) (i : Nat) (st : St) (ss : SSt),
    (st.errs = [] → StRel T st ss) →
    (scan2 T cs i ss.cur st).errs = [] →
    visible T (scan2 T cs i ss.cur st).tree = some (finalS (cs.foldl (stepS T) ss)) := by
  intro cs
  induction cs with
  | nil =>
    intro i st ss h he
    simp only [scan2, finish2] at he ⊢
    have hrest : st.rest = [] := by
      cases hr : st.rest with
      | nil => rfl
      | cons a b => simp [hr] at he
    have he' : st.errs = [] := by simpa [hrest] using he
    obtain ⟨h1, h2⟩ := h he'
    rw [hrest] at h2
    have hss := h2.nil_inv
    simp only [hrest, List.foldl_nil, finalS, hss]
    have := (rel_flush h1 ss.cur).all
    simpa [visible] using this
  | cons c cs ih =>
    intro i st ss h he
    simp only [scan2, List.foldl_cons] at he ⊢
    by_cases h1 : c = '{'
    · subst h1
      simp only [if_true] at he ⊢
      have hcur := stepS_open_cur T ss
      have := ih (i + 1) (open2 i ss.cur st) (stepS T ss '{') (fun e => sim_open h i e) (by rw [hcur]; exact he)
      rw [hcur] at this
      exact this
    · simp only [h1, if_false] at he ⊢
      by_cases h2 : c = '}'
      · subst h2
        simp only [if_true] at he ⊢
        have hcur := stepS_close_cur T ss
        have := ih (i + 1) (close2 T i ss.cur st) (stepS T ss '}') (fun e => sim_close hT h i e) (by rw [hcur]; exact he)
        rw [hcur] at this
        exact this
      · simp only [h2, if_false] at he ⊢
        have hstep : stepS T ss c = { ss with cur := ss.cur ++ [c] } := by simp [stepS, h1, h2]
        have := ih (i + 1) st { ss with cur := ss.cur ++ [c] } h he
        rw [hstep]
        exact this


/-! ## 6. the slices of `_colorize` are the runs of characters between braces -/

theorem slice_self {α} (t : List α) (a : Nat) : slice t a a = [] := by
  simp [slice]

theorem slice_length {α} (t : List α) (a b : Nat) : (slice t a b).length = min b t.length - a := by
  simp [slice]

theorem slice_succ {α} {t : List α} {i a : Nat} {c : α} (h : t[i]? = some c) (ha : a ≤ i) :
    slice t a (i + 1) = slice t a i ++ [c] := by
  have hi : i < t.length := (List.getElem?_eq_some_iff.mp h).1
  unfold slice
  rw [List.take_add_one, h]
  simp only [Option.toList_some]
  rw [List.drop_append_of_le_length (by simp; omega)]

theorem slice_ne_nil {α} (t : List α) {a b : Nat} (hb : b ≤ t.length) : slice t a b ≠ [] ↔ b > a := by
  rw [← List.length_pos_iff, slice_length]
  omega

theorem openBrace_eq {text : List Char} {start e : Nat} (st : St) (hs : start ≤ e) (he : e < text.length)
    (hprev : start = 0 ∨ ∃ b, text[start - 1]? = some b ∧ isCapital b = false) :
    openBrace text start e st = open2 e (slice text start e) st := by
  by_cases hlt : start < e
  · -- the run is not empty; its last character is text[e-1]
    have hc : ∃ c, text[e - 1]? = some c := ⟨text[e - 1]'(by omega), by simp [show e - 1 < text.length by omega]⟩
    obtain ⟨c, hc⟩ := hc
    have hsl : slice text start e = slice text start (e - 1) ++ [c] := by
      have := slice_succ hc (show start ≤ e - 1 by omega)
      rwa [show e - 1 + 1 = e by omega] at this
    have hne : slice text start (e - 1) ≠ [] ↔ e - 1 > start := slice_ne_nil text (by omega)
    unfold openBrace open2 litOpen
    have he0 : e > 0 := by omega
    simp only [he0, if_true, hc, hsl, List.getLast?_concat, List.dropLast_concat]
    by_cases hcap : isCapital c = true
    · simp only [hcap, if_true]
      by_cases h1 : e - 1 > start
      · simp only [h1, hne.mpr h1, if_true, ne_eq, not_false_eq_true]
        cases colorizingTag c <;> rfl
      · have : slice text start (e - 1) = [] := by
          by_cases h : slice text start (e - 1) = []
          · exact h
          · exact absurd (hne.mp h) h1
        simp only [h1, this, if_false, ne_eq, not_true_eq_false]
        cases colorizingTag c <;> rfl
    · simp only [hcap, Bool.false_eq_true, if_false]
      simp [hlt]
  · have heq : start = e := by omega
    subst heq
    unfold openBrace open2 litOpen
    simp only [slice_self, List.getLast?_nil, Nat.lt_irrefl, if_false]
    rcases hprev with h0 | ⟨b, hb, hcap⟩
    · subst h0; simp
    · by_cases h0 : start > 0
      · simp [h0, hb, hcap]
      · simp [h0]

theorem closeBrace_eq {T : Cfg} {text : List Char} {start e : Nat} (st : St) (he : e ≤ text.length) :
    closeBrace T text start e st = close2 T e (slice text start e) st := by
  unfold closeBrace close2
  have hne := slice_ne_nil text (a := start) he
  by_cases h : e > start
  · simp only [h, hne.mpr h, if_true, ne_eq, not_false_eq_true]
    cases st.rest <;> rfl
  · have : slice text start e = [] := by
      by_cases h' : slice text start e = []
      · exact h'
      · exact absurd (hne.mp h') h
    simp only [h, this, if_false, ne_eq, not_true_eq_false]
    cases st.rest <;> rfl

theorem finish_eq {text : List Char} {start i : Nat} (st : St) (hi : text.length ≤ i) :
    finish text start st = finish2 (slice text start i) st := by
  have hsl : slice text start i = text.drop start := by simp [slice, List.take_of_length_le hi]
  unfold finish finish2
  rw [hsl]
  by_cases h : start < text.length
  · have : text.drop start ≠ [] := by simp [List.drop_eq_nil_iff]; omega
    simp [h, this]
  · have : text.drop start = [] := by simp [List.drop_eq_nil_iff]; omega
    simp [h, this]

theorem scan_eq_scan2 (T : Cfg) (text : List Char) : ∀ (cs : List Char) (i start : Nat) (st : St),
    text.drop i = cs → start ≤ i →
    (start = 0 ∨ ∃ b, text[start - 1]? = some b ∧ isCapital b = false) →
    scan T text cs i start st = scan2 T cs i (slice text start i) st := by
  intro cs
  induction cs with
  | nil =>
    intro i start st hcs _ _
    simp only [scan, scan2]
    exact finish_eq st (List.drop_eq_nil_iff.mp hcs)
  | cons c cs ih =>
    intro i start st hcs hs hprev
    have hci : text[i]? = some c := by
      have := List.getElem?_drop (xs := text) (i := i) (j := 0)
      rw [hcs] at this
      simpa using this.symm
    have hi : i < text.length := (List.getElem?_eq_some_iff.mp hci).1
    have hnext : text.drop (i + 1) = cs := by
      have : text.drop (i + 1) = (text.drop i).drop 1 := by rw [List.drop_drop]
      rw [this, hcs]; rfl
    simp only [scan, scan2]
    by_cases h1 : c = '{'
    · subst h1
      simp only [if_true]
      rw [ih (i + 1) (i + 1) _ hnext (Nat.le_refl _) (Or.inr ⟨'{', by simpa using hci, by decide⟩)]
      rw [slice_self, openBrace_eq st hs hi hprev]
    · simp only [h1, if_false]
      by_cases h2 : c = '}'
      · subst h2
        simp only [if_true]
        rw [ih (i + 1) (i + 1) _ hnext (Nat.le_refl _) (Or.inr ⟨'}', by simpa using hci, by decide⟩)]
        rw [slice_self, closeBrace_eq st (Nat.le_of_lt hi)]
      · simp only [h2, if_false]
        rw [ih (i + 1) start st hnext (Nat.le_succ_of_le hs) hprev, slice_succ hci hs]

/-! ## 7. the theorem -/

theorem strip_eq_finalS (T : Cfg) (text : List Char) :
    strip T text = finalS (text.foldl (stepS T) ⟨[], ⟨.plain, [], none⟩, []⟩) := rfl

/-- **C09, inline markup.** If `_colorize` reports no error for the paragraph `text`, then converting
its result with `_to_node` does not raise and the visible text is exactly `strip text`: the input
with tag letters and their braces removed, escapes and symbols decoded, link targets dropped —
nothing else changed, nothing lost, in order.  (`T`: any symbol tables in which every accepted
symbol has a code point — `liveCfg_total` for pydoctor's.) -/
theorem colorize_conserves (T : Cfg) (hT : T.Total) (text : List Char)
    (h : (colorize T text).errs = []) :
    visible T (colorize T text).tree = some (strip T text) := by
  have hbridge : colorize T text = scan2 T text 0 [] ⟨⟨.para, [], 0⟩, [], []⟩ := by
    unfold colorize
    rw [scan_eq_scan2 T text text 0 0 _ rfl (Nat.le_refl _) (Or.inl rfl), slice_self]
  rw [hbridge] at h ⊢
  rw [strip_eq_finalS]
  exact sim T hT text 0 ⟨⟨.para, [], 0⟩, [], []⟩ ⟨[], ⟨.plain, [], none⟩, []⟩
    (fun _ => ⟨rel_new _ _ _ rfl rfl, RestRel.nil⟩) h

/-- the theorem for pydoctor's own tables -/
theorem colorize_conserves_live (extra : List Char) (text : List Char)
    (h : (colorize (liveCfg extra) text).errs = []) :
    visible (liveCfg extra) (colorize (liveCfg extra) text).tree = some (strip (liveCfg extra) text) :=
  colorize_conserves _ (liveCfg_total extra) text h

def noWord : Cfg := ⟨[['l', 'e']], [(['l', 'e'], 8804)], fun _ => false⟩

/-- non-vacuity: a paragraph with nested markup, a link with target, an escape, a symbol and literal
braces is accepted, and its visible text is what `strip` says -/
example :
    let text := "xI{a B{b}} L{t u <m.f>}E{lb}S{le}{q}".toList
    (colorize noWord text).errs = [] ∧ strip noWord text = "xa b t u{≤{q}".toList := by
  decide

/-- `strip` on text without braces is the identity -/
theorem strip_plain (T : Cfg) (text : List Char) (h : ∀ c ∈ text, c ≠ '{' ∧ c ≠ '}') : strip T text = text := by
  have key : ∀ (s : List Char) (cur : List Char) (top : SFrame) (rest : List SFrame),
      (∀ c ∈ s, c ≠ '{' ∧ c ≠ '}') → s.foldl (stepS T) ⟨cur, top, rest⟩ = ⟨cur ++ s, top, rest⟩ := by
    intro s
    induction s with
    | nil => intro cur top rest _; simp
    | cons c cs ih =>
      intro cur top rest hc
      have h1 := (hc c (by simp)).1
      have h2 := (hc c (by simp)).2
      simp only [List.foldl_cons]
      have : stepS T ⟨cur, top, rest⟩ c = ⟨cur ++ [c], top, rest⟩ := by simp [stepS, h1, h2]
      rw [this, ih _ _ _ (fun x hx => hc x (by simp [hx]))]
      simp
  rw [strip_eq_finalS, key text [] _ [] h]
  cases text with
  | nil => rfl
  | cons a as => simp [finalS, SFrame.flush, SFrame.addText, SFrame.all]

end Epytext

/-! ## 8. `doctest.py`: the yielded pieces concatenate to the input -/
namespace Doctest
open Epytext (slice joinNL rstrip Line slice_self)

theorem textOf_nil : textOf [] = [] := rfl
theorem textOf_cons (p : Piece) (ps : List Piece) : textOf (p :: ps) = p.text ++ textOf ps := by
  simp [textOf]
theorem textOf_append (a b : List Piece) : textOf (a ++ b) = textOf a ++ textOf b := by
  simp [textOf]

theorem emitLine_text (P : Params) (line : List Char) : textOf (emitLine P line) = line := by
  unfold emitLine
  cases P.promptEnd line with
  | none =>
    cases line with
    | nil => rfl
    | cons a as => simp [textOf, Piece.text]
  | some pe =>
    by_cases h : (line.drop pe).isEmpty = true
    · have h' : line.drop pe = [] := List.isEmpty_iff.mp h
      have : line.take pe = line := by
        have := List.take_append_drop pe line
        rwa [h', List.append_nil] at this
      simp [h, textOf, Piece.text, this]
    · simp [h, textOf, Piece.text]

theorem stringLoop_text (P : Params) : ∀ (rest line : List Char), textOf (stringLoop P line rest) = line ++ rest := by
  intro rest
  induction rest with
  | nil => intro line; simp [stringLoop, emitLine_text]
  | cons c cs ih =>
    intro line
    simp only [stringLoop]
    by_cases h : c = '\n'
    · subst h
      simp [textOf_append, textOf_cons, emitLine_text, ih, Piece.text]
    · simp [h, ih]

/-- the regex contracts `subfunc` relies on, for the text of one match -/
def SubOk (P : Params) (kind : MKind) (text : List Char) : Prop :=
  (kind = .eos → text = []) ∧
  (kind = .define → ∀ d sp n, P.defineGroups text = some (d, sp, n) → d ++ sp ++ n = text)

theorem subfunc_conserves (P : Params) (kind : MKind) (text : List Char) (ps : List Piece)
    (hok : SubOk P kind text) (h : subfunc P kind text = .ok ps) : textOf ps = text := by
  unfold subfunc at h
  cases kind <;> simp only at h
  case prompt1 => cases h; simp [textOf, Piece.text]
  case prompt2 => cases h; simp [textOf, Piece.text]
  case keyword => cases h; simp [textOf, Piece.text]
  case builtin => cases h; simp [textOf, Piece.text]
  case comment => cases h; simp [textOf, Piece.text]
  case string => cases h; simpa using stringLoop_text P text []
  case define =>
    cases hg : P.defineGroups text with
    | none => simp [hg] at h
    | some g =>
      obtain ⟨d, sp, n⟩ := g
      simp only [hg] at h
      cases h
      have := hok.2 rfl d sp n hg
      simp [textOf, Piece.text, ← this]
  case eos => cases h; simp [textOf, hok.1 rfl]

theorem slice_append_drop {α} (s : List α) {a b : Nat} (h : a ≤ b) : slice s a b ++ s.drop b = s.drop a := by
  unfold slice
  by_cases hb : b ≤ s.length
  · have : a ≤ (s.take b).length := by simp; omega
    rw [← List.drop_append_of_le_length this, List.take_append_drop]
  · have hb' : s.length ≤ b := by omega
    simp [List.take_of_length_le hb', List.drop_eq_nil_iff.mpr hb']

/-- the spans of `finditer`: non-overlapping and increasing, starting at or after `idx` -/
def Spans : List Match → Nat → Prop
  | [], _ => True
  | m :: ms, idx => idx ≤ m.start ∧ m.start ≤ m.stop ∧ Spans ms m.stop

/-- **C09, code highlighting.** For any non-overlapping increasing match spans, the pieces
`colorize_codeblock_body` yields concatenate to the input (from `idx` on) -/
theorem splice_conserves (P : Params) (s : List Char) : ∀ (ms : List Match) (idx : Nat) (ps : List Piece),
    Spans ms idx → (∀ m ∈ ms, SubOk P m.kind (slice s m.start m.stop)) →
    codeblockBody P s ms idx = .ok ps → textOf ps = s.drop idx := by
  intro ms
  induction ms with
  | nil =>
    intro idx ps _ _ h
    simp only [codeblockBody] at h
    split at h
    · cases h; rename_i hi; simp [textOf, hi]
    · cases h
  | cons m ms ih =>
    intro idx ps hsp hok h
    obtain ⟨h1, h2, h3⟩ := hsp
    simp only [codeblockBody] at h
    cases hsub : subfunc P m.kind (slice s m.start m.stop) with
    | error e => simp [hsub] at h
    | ok mid =>
      cases hrest : codeblockBody P s ms m.stop with
      | error e => simp [hsub, hrest] at h
      | ok rest =>
        simp only [hsub, hrest] at h
        cases h
        have hmid := subfunc_conserves P m.kind _ mid (hok m (by simp)) hsub
        have hr := ih m.stop rest h3 (fun x hx => hok x (by simp [hx])) hrest
        rw [textOf_append, textOf_append, hmid, hr]
        by_cases hlt : idx < m.start
        · simp only [hlt, if_true, textOf_cons, textOf_nil, Piece.text, List.append_nil]
          rw [List.append_assoc, slice_append_drop s h2, slice_append_drop s h1]
        · have : idx = m.start := by omega
          simp only [hlt, if_false, textOf_nil, List.nil_append]
          rw [slice_append_drop s h2, this]

/-- whole input: `colorize_codeblock_body(s)` -/
theorem splice_conserves_whole (P : Params) (s : List Char) (ms : List Match) (ps : List Piece)
    (hsp : Spans ms 0) (hok : ∀ m ∈ ms, SubOk P m.kind (slice s m.start m.stop))
    (h : codeblockBody P s ms 0 = .ok ps) : textOf ps = s := by
  simpa using splice_conserves P s ms 0 ps hsp hok h

/-- what is displayed for an expected-output group: the group without its final newline, line by line,
each line followed by a newline -/
def wantText (want : List Char) : List Char := if want.isEmpty then [] else dropFinalNewline want ++ ['\n']

theorem splitNL_lines (x : List Char) :
    ((splitNL x).map (fun l => l ++ ['\n'])).flatten = x ++ ['\n'] := by
  induction x with
  | nil => rfl
  | cons c cs ih =>
    simp only [splitNL]
    cases hs : splitNL cs with
    | nil => simp [hs] at ih
    | cons p ps =>
      simp only [hs] at ih ⊢
      by_cases hc : c = '\n'
      · subst hc
        simp only [if_true, List.map_cons, List.flatten_cons, List.nil_append]
        simp only [List.map_cons, List.flatten_cons] at ih
        rw [ih]; rfl
      · simp only [hc, if_false, List.map_cons, List.flatten_cons]
        simp only [List.map_cons, List.flatten_cons] at ih
        rw [List.cons_append, List.cons_append, ih]
        rfl

theorem flatMap_lines_text (cls : Cls) (ls : List Line) :
    textOf (ls.flatMap fun line => [Piece.span cls line, Piece.raw ['\n']]) =
      (ls.map (fun l => l ++ ['\n'])).flatten := by
  induction ls with
  | nil => rfl
  | cons l ls ih =>
    simp only [List.flatMap_cons, textOf_append, ih, List.map_cons, List.flatten_cons]
    simp [textOf, Piece.text]

theorem wantPieces_text (exc : Bool) (want : List Char) : textOf (wantPieces exc want) = wantText want := by
  unfold wantPieces wantText
  by_cases h : want.isEmpty = true
  · simp [h, textOf]
  · simp only [h, Bool.false_eq_true, if_false]
    rw [flatMap_lines_text, splitNL_lines]

/-- spans of `DOCTEST_EXAMPLE_RE.finditer`: increasing, `source` then `want` inside each match; the
inner `DOCTEST_RE` matches satisfy `Spans` and the regex contracts -/
def Examples (P : Params) (s : List Char) : List Example → Nat → Prop
  | [], _ => True
  | ex :: exs, idx =>
    idx ≤ ex.start ∧ ex.start ≤ ex.srcEnd ∧ ex.srcEnd ≤ ex.stop ∧
    Spans ex.inner 0 ∧
    (∀ m ∈ ex.inner, SubOk P m.kind (slice (slice s ex.start ex.srcEnd) m.start m.stop)) ∧
    Examples P s exs ex.stop

/-- the text `colorize_doctest_body` displays -/
def shownText (s : List Char) : List Example → Nat → List Char
  | [], idx => s.drop idx
  | ex :: exs, idx =>
    slice s idx ex.start ++ slice s ex.start ex.srcEnd ++ wantText (slice s ex.srcEnd ex.stop) ++ shownText s exs ex.stop

/-- exact description of the displayed text: the input, with every non-empty expected-output group
written as (group without final newline) + newline -/
theorem doctest_body_text (P : Params) (s : List Char) : ∀ (exs : List Example) (idx : Nat) (ps : List Piece),
    Examples P s exs idx → doctestBody P s exs idx = .ok ps → textOf ps = shownText s exs idx := by
  intro exs
  induction exs with
  | nil =>
    intro idx ps _ h
    simp only [doctestBody] at h
    cases h
    simp [textOf, Piece.text, shownText]
  | cons ex exs ih =>
    intro idx ps hex h
    obtain ⟨_, _, _, hsp, hok, hrest⟩ := hex
    simp only [doctestBody] at h
    cases hsrc : codeblockBody P (slice s ex.start ex.srcEnd) ex.inner 0 with
    | error e => simp [hsrc] at h
    | ok src =>
      cases hr : doctestBody P s exs ex.stop with
      | error e => simp [hsrc, hr] at h
      | ok rest =>
        simp only [hsrc, hr] at h
        cases h
        have h1 := splice_conserves_whole P _ ex.inner src hsp hok hsrc
        have h2 := ih ex.stop rest hrest hr
        simp only [textOf_cons, textOf_append, Piece.text, h1, h2, wantPieces_text, shownText, List.append_assoc]

/-- an expected-output group that ends with its newline (or is empty) -/
def NLTerminated (want : List Char) : Prop := want = [] ∨ want.getLast? = some '\n'

theorem wantText_terminated {want : List Char} (h : NLTerminated want) : wantText want = want := by
  unfold wantText
  rcases h with h | h
  · subst h; rfl
  · obtain ⟨w, rfl⟩ := List.getLast?_eq_some_iff.mp h
    simp [dropFinalNewline]

theorem wantText_cases (want : List Char) : wantText want = want ∨ wantText want = want ++ ['\n'] := by
  by_cases h : NLTerminated want
  · exact Or.inl (wantText_terminated h)
  · right
    unfold wantText
    have h1 : want ≠ [] := fun e => h (Or.inl e)
    have h2 : want.getLast? ≠ some '\n' := fun e => h (Or.inr e)
    have : want.isEmpty = false := by cases want <;> simp_all
    simp [this, dropFinalNewline, h2]

theorem shownText_exact (P : Params) (s : List Char) : ∀ (exs : List Example) (idx : Nat),
    Examples P s exs idx → (∀ ex ∈ exs, NLTerminated (slice s ex.srcEnd ex.stop)) → shownText s exs idx = s.drop idx := by
  intro exs
  induction exs with
  | nil => intro idx _ _; rfl
  | cons ex exs ih =>
    intro idx hex hw
    obtain ⟨h1, h2, h3, _, _, hrest⟩ := hex
    simp only [shownText]
    rw [wantText_terminated (hw ex (by simp)), ih ex.stop hrest (fun x hx => hw x (by simp [hx]))]
    rw [List.append_assoc, List.append_assoc, slice_append_drop s h3, slice_append_drop s h2, slice_append_drop s h1]

/-- the contract of `DOCTEST_EXAMPLE_RE` (`.*$\n?` per line): an expected-output group lacks its final
newline only when it is the last one and reaches the end of the string -/
def Terminated (s : List Char) : List Example → Prop
  | [] => True
  | ex :: exs =>
    (NLTerminated (slice s ex.srcEnd ex.stop) ∧ Terminated s exs) ∨ (exs = [] ∧ s.length ≤ ex.stop)

theorem shownText_eof (P : Params) (s : List Char) : ∀ (exs : List Example) (idx : Nat),
    Examples P s exs idx → Terminated s exs →
    shownText s exs idx = s.drop idx ∨ shownText s exs idx = s.drop idx ++ ['\n'] := by
  intro exs
  induction exs with
  | nil => intro idx _ _; exact Or.inl rfl
  | cons ex exs ih =>
    intro idx hex ht
    obtain ⟨h1, h2, h3, _, _, hrest⟩ := hex
    simp only [shownText]
    have hpre : ∀ tail : List Char, slice s idx ex.start ++ slice s ex.start ex.srcEnd ++ slice s ex.srcEnd ex.stop ++
        (s.drop ex.stop ++ tail) = s.drop idx ++ tail := by
      intro tail
      rw [← List.append_assoc _ (s.drop ex.stop) tail]
      congr 1
      rw [List.append_assoc, List.append_assoc, slice_append_drop s h3, slice_append_drop s h2, slice_append_drop s h1]
    rcases ht with ⟨hnl, ht'⟩ | ⟨hnil, hlen⟩
    · rw [wantText_terminated hnl]
      rcases ih ex.stop hrest ht' with h | h
      · left; rw [h]; simpa using hpre []
      · right; rw [h]; exact hpre ['\n']
    · subst hnil
      have hdrop : s.drop ex.stop = [] := List.drop_eq_nil_iff.mpr hlen
      simp only [shownText, hdrop, List.append_nil]
      have hbase := hpre []
      simp only [hdrop, List.append_nil] at hbase
      rcases wantText_cases (slice s ex.srcEnd ex.stop) with h | h
      · left; rw [h, hbase]
      · right; rw [h, ← List.append_assoc, hbase]

/-- **C09, doctest blocks** (pydoctor a0449ac and later; no hypothesis about white space): for the spans
the regexes produce, the displayed doctest block is the input character for character — every
blank that ends a line of expected output included — or the input followed by one newline when the
input ends inside an expected output. -/
theorem doctest_body_conserves (P : Params) (s : List Char) (exs : List Example) (ps : List Piece)
    (hex : Examples P s exs 0) (ht : Terminated s exs)
    (h : doctestBody P s exs 0 = .ok ps) : textOf ps = s ∨ textOf ps = s ++ ['\n'] := by
  rw [doctest_body_text P s exs 0 ps hex h]
  simpa using shownText_eof P s exs 0 hex ht

/-- … and exactly the input when every expected-output group ends with its newline -/
theorem doctest_body_conserves_exact (P : Params) (s : List Char) (exs : List Example) (ps : List Piece)
    (hex : Examples P s exs 0) (hw : ∀ ex ∈ exs, NLTerminated (slice s ex.srcEnd ex.stop))
    (h : doctestBody P s exs 0 = .ok ps) : textOf ps = s := by
  rw [doctest_body_text P s exs 0 ps hex h, shownText_exact P s exs 0 hex hw]
  rfl

def cexText : List Char := ">>> 1\n1  \n".toList
def cexExamples : List Example := [⟨0, 6, 10, [⟨0, 4, .prompt1⟩, ⟨6, 6, .eos⟩], false⟩]

/-- non-vacuity, and the fix: `>>> 1` with expected output `1␣␣` is reproduced with its two blanks -/
example :
    (match doctestBody reParams cexText cexExamples 0 with
     | .ok ps => textOf ps == cexText
     | .error _ => false) = true := by
  decide

/-- the one remaining deviation: input that ends inside an expected output gains a final newline -/
example :
    (match doctestBody reParams ">>> 1\n1  ".toList [⟨0, 6, 9, [⟨0, 4, .prompt1⟩, ⟨6, 6, .eos⟩], false⟩] 0 with
     | .ok ps => textOf ps == ">>> 1\n1  \n".toList
     | .error _ => false) = true := by
  decide

/-- **historical counterexample** (the code before a0449ac, `want.rstrip()`, transcribed as
`doctestBodyOld`): on the same input the two blanks were dropped -/
theorem doctest_body_old_counterexample :
    (match doctestBodyOld reParams cexText cexExamples 0 with
     | .ok ps => textOf ps == ">>> 1\n1\n".toList && textOf ps != cexText
     | .error _ => false) = true := by
  decide

/-- non-vacuity of `splice_conserves`: `def f(x): # c` with a DEFINE, a COMMENT and the EOS match -/
example :
    (match codeblockBody reParams "def f(x): # c".toList [⟨0, 5, .define⟩, ⟨10, 13, .comment⟩, ⟨13, 13, .eos⟩] 0 with
     | .ok ps => textOf ps == "def f(x): # c".toList && ps.length == 5
     | .error _ => false) = true := by
  decide

end Doctest

/-! ## 9. plaintext -/
namespace Epytext

/-- **C09, plaintext.** `to_stan` of a plaintext docstring is one `<p class="pre">` whose only child is
the docstring itself: reproduced exactly (what the flattener does with a string is C10's `Escape`) -/
theorem plaintext_exact (text : List Char) : (plaintextToStan text).flatten = text := by
  simp [plaintextToStan]

end Epytext

/-! ## 10. every field is rendered, handed to a displayed attribute, or reported — over the live table -/
namespace Docstring
open Fields

/-- `FieldHandler.handle`: every `handle_<tag>` attribute of the class under test, and the fallback for
any other tag (`customfield` stands for all of them) -/
def allHandlers : List (String × String) :=
  Generated.Fields.handlers ++ [("customfield", Generated.Fields.fallback)]

def kinds : List ObjKind := [.module, .cls, .function, .attr]
def shapes : List Shape :=
  [⟨false, false, false⟩, ⟨false, false, true⟩, ⟨false, true, false⟩, ⟨false, true, true⟩,
   ⟨true, false, false⟩, ⟨true, false, true⟩, ⟨true, true, false⟩, ⟨true, true, true⟩]

theorem kinds_complete (k : ObjKind) : k ∈ kinds := by cases k <;> decide
theorem shapes_complete (s : Shape) : s ∈ shapes := by
  obtain ⟨a, b, c⟩ := s
  cases a <;> cases b <;> cases c <;> decide

/-- the inputs on which today's code keeps the field: a `type` field with a name in a module or class
docstring must name a variable that is assigned in the body or documented by `ivar`/`cvar`/`var`
(otherwise `extract_fields` creates an `Attribute` without kind, which is not displayed — e.g. the
type of a constructor parameter documented on the class).  Since 513af36 nothing else is excluded:
`ivar`/`cvar`/`var` outside a module or class docstring are reported. -/
def inScope (tag : String) (k : ObjKind) (s : Shape) : Bool :=
  !(tag == "type" && (k == .module || k == .cls) && s.hasArg) || s.attrKnown

theorem table_check :
    allHandlers.all (fun p => kinds.all fun k => shapes.all fun s =>
      (outcome p.1 p.2 k s).kept == inScope p.1 k s) = true := by
  decide +kernel

/-- exactly the fields outside `inScope` are lost -/
theorem kept_iff_in_scope (tag fn : String) (h : (tag, fn) ∈ allHandlers) (k : ObjKind) (s : Shape) :
    (outcome tag fn k s).kept = inScope tag k s := by
  have := table_check
  rw [List.all_eq_true] at this
  have := this (tag, fn) h
  rw [List.all_eq_true] at this
  have := this k (kinds_complete k)
  rw [List.all_eq_true] at this
  simpa using this s (shapes_complete s)

/-
Full statement — FALSE of the current code:

  theorem every_tag_rendered_or_reported (h : (tag, fn) ∈ allHandlers) (k : ObjKind) (s : Shape) :
      (outcome tag fn k s).kept = true
-/

/-- **partial**: every field tag of the live table, in every kind of docstring and every shape of field,
is displayed under a heading, handed to a displayed attribute, or reported — under `inScope` -/
theorem every_tag_rendered_or_reported_partial (tag fn : String) (h : (tag, fn) ∈ allHandlers)
    (k : ObjKind) (s : Shape) (hs : inScope tag k s = true) : (outcome tag fn k s).kept = true := by
  rw [kept_iff_in_scope tag fn h k s, hs]

/-- every tag but `type` is kept unconditionally -/
theorem every_tag_but_type_rendered_or_reported (tag fn : String) (h : (tag, fn) ∈ allHandlers) (ht : tag ≠ "type")
    (k : ObjKind) (s : Shape) : (outcome tag fn k s).kept = true := by
  apply every_tag_rendered_or_reported_partial tag fn h k s
  simp [inScope, ht]

/-- **counterexample**: `@type a: …` in a class docstring for a name that is not a documented variable is in
the table and is dropped: no heading, no displayed attribute, no report -/
theorem every_tag_rendered_or_reported_counterexample :
    ("type", "handle_type") ∈ allHandlers ∧
      (outcome "type" "handle_type" .cls ⟨true, true, false⟩).kept = false := by
  decide +kernel

/-- non-vacuity: the same field where it is in scope; `@ivar` in a function docstring is reported (513af36) -/
example :
    (outcome "type" "handle_type" .cls ⟨true, false, true⟩).kept = true ∧
    (outcome "type" "handle_type" .function ⟨true, true, false⟩).heading = some "Parameters" ∧
    (outcome "ivar" "handled_elsewhere" .function ⟨true, false, false⟩).reported = true ∧
    (outcome "ivar" "handled_elsewhere" .cls ⟨true, false, false⟩).attrShown = true := by
  decide +kernel

/-- every handler function of the live table is one the model knows -/
theorem handlers_modelled :
    allHandlers.all (fun p => (handler p.2 .function ⟨false, false, false⟩).modelled) = true := by
  decide +kernel

end Docstring

/-! ## 11. block slicing: literal and doctest blocks -/
namespace Epytext

def SpacesOnly (l : Line) : Prop := ∀ c ∈ l, c = ' '

theorem isSpNl_space : isSpNl ' ' = true := by decide

theorem tw_dw_length (l : Line) : (l.takeWhile pyIsSpace).length + (l.dropWhile pyIsSpace).length = l.length := by
  have := congrArg List.length (List.takeWhile_append_dropWhile (p := pyIsSpace) (l := l))
  rwa [List.length_append] at this

theorem indentOf_eq (l : Line) : indentOf l = (l.takeWhile pyIsSpace).length := by
  unfold indentOf
  have := tw_dw_length l
  omega

theorem mem_takeWhile_true {α} (p : α → Bool) : ∀ (l : List α) (x : α), x ∈ l.takeWhile p → p x = true := by
  intro l
  induction l with
  | nil => intro x hx; simp at hx
  | cons a as ih =>
    intro x hx
    by_cases ha : p a = true
    · simp only [List.takeWhile, ha] at hx
      rcases List.mem_cons.mp hx with h | h
      · exact h ▸ ha
      · exact ih x h
    · simp [List.takeWhile, ha] at hx

theorem dropWhile_spaces {l : Line} (h : SpacesOnly l) : l.dropWhile pyIsSpace = [] := by
  induction l with
  | nil => rfl
  | cons c cs ih =>
    have hc : c = ' ' := h c (by simp)
    subst hc
    have : pyIsSpace ' ' = true := by decide
    simp [List.dropWhile, this, ih (fun x hx => h x (by simp [hx]))]

theorem blank_of_spaces {l : Line} (h : SpacesOnly l) : l.length = indentOf l := by
  simp [indentOf, dropWhile_spaces h]

theorem spaces_drop {l : Line} (h : SpacesOnly l) (n : Nat) : SpacesOnly (l.drop n) :=
  fun c hc => h c (List.mem_of_mem_drop hc)

/-- the lines the `_tokenize_literal` loop walks over: blank, or indented deeper than the paragraph -/
def Continues (bi : Nat) (l : Line) : Prop := l.length = indentOf l ∨ bi < indentOf l

theorem litLoop_run (bi : Nat) (after : List Line)
    (ha : after = [] ∨ ∃ a as, after = a :: as ∧ a.length ≠ indentOf a ∧ indentOf a ≤ bi) :
    ∀ (xs : List Line) (n : Nat), (∀ l ∈ xs, Continues bi l) → litLoop bi (xs ++ after) n = n + xs.length := by
  intro xs
  induction xs with
  | nil =>
    intro n _
    rcases ha with rfl | ⟨a, as, rfl, h1, h2⟩
    · simp [litLoop]
    · simp [litLoop, h1, h2]
  | cons x xs ih =>
    intro n hx
    have hc := hx x (by simp)
    have : ¬(x.length ≠ indentOf x ∧ indentOf x ≤ bi) := by
      rcases hc with h | h
      · simp [h]
      · intro ⟨_, h2⟩; omega
    simp only [List.cons_append, litLoop, this, if_false]
    rw [ih (n + 1) (fun l hl => hx l (by simp [hl]))]
    simp; omega

theorem slice_mid {α} (before mid after : List α) :
    slice (before ++ mid ++ after) before.length (before.length + mid.length) = mid := by
  unfold slice
  have h1 : (before ++ mid ++ after).take (before.length + mid.length) = before ++ mid := by
    rw [← List.length_append]
    exact List.take_left' rfl
  rw [h1]
  exact List.drop_left' rfl

/-- the loop and the slice of `_tokenize_literal`: the token holds the lines from `start` to the first
non-blank line indented no deeper than the paragraph, each without its first `block_indent` characters -/
theorem tokenizeLiteral_slice (before : List Line) (x : Line) (xs after : List Line) (bi : Nat)
    (hxs : ∀ l ∈ xs, Continues bi l)
    (ha : after = [] ∨ ∃ a as, after = a :: as ∧ a.length ≠ indentOf a ∧ indentOf a ≤ bi) :
    tokenizeLiteral (before ++ (x :: xs) ++ after) before.length bi =
      (stripBlankEnds (joinNL ((x :: xs).map (·.drop bi))), before.length + 1 + xs.length) := by
  unfold tokenizeLiteral
  have hdrop : (before ++ (x :: xs) ++ after).drop (before.length + 1) = xs ++ after := by
    rw [List.append_assoc, ← List.drop_drop, List.drop_left]
    rfl
  rw [hdrop, litLoop_run bi after ha xs _ hxs]
  have : before.length + 1 + xs.length = before.length + (x :: xs).length := by simp; omega
  dsimp only
  rw [this, slice_mid]

/-! ### `re.sub(r'(\A[ \n]*\n)|(\n[ \n]*\Z)', '', contents)` removes the blank lines around the block and nothing else -/

theorem takeWhile_all {α} (p : α → Bool) (l r : List α) (h : ∀ x ∈ l, p x = true) :
    (l ++ r).takeWhile p = l ++ r.takeWhile p := by
  induction l with
  | nil => rfl
  | cons a as ih =>
    simp [h a (by simp), ih (fun x hx => h x (by simp [hx]))]

theorem takeWhile_stop {α} (p : α → Bool) (l : List α) (c : α) (r : List α) (h : ∀ x ∈ l, p x = true)
    (hc : p c = false) : (l ++ c :: r).takeWhile p = l := by
  rw [takeWhile_all p l _ h]
  simp [List.takeWhile, hc]

theorem spaces_no_nl {R : List Char} (h : ∀ x ∈ R, x = ' ') : R.contains '\n' = false := by
  induction R with
  | nil => rfl
  | cons a as ih =>
    have : a = ' ' := h a (by simp)
    subst this
    have hne : (' ' == '\n') = false := by decide
    simp only [List.contains_cons, ih (fun x hx => h x (by simp [hx]))]
    simp

theorem spaces_spnl {R : List Char} (h : ∀ x ∈ R, x = ' ') : ∀ x ∈ R, isSpNl x = true :=
  fun x hx => by rw [h x hx]; decide

theorem spaces_ne_nl {R : List Char} (h : ∀ x ∈ R, x = ' ') : ∀ x ∈ R, (decide (x ≠ '\n')) = true :=
  fun x hx => by rw [h x hx]; decide

/-- a run of blank lines in front: empty, or blanks and newlines ending with a newline -/
def LeadBlank (pre : List Char) : Prop := pre = [] ∨ ((∀ x ∈ pre, isSpNl x = true) ∧ ∃ p, pre = p ++ ['\n'])

theorem cutLead_blank_prefix (pre R : List Char) (c : Char) (rest : List Char) (hpre : LeadBlank pre)
    (hR : ∀ x ∈ R, x = ' ') (hc : isSpNl c = false) :
    cutLead (pre ++ (R ++ c :: rest)) = R ++ c :: rest := by
  unfold cutLead
  rcases hpre with rfl | ⟨hall, p, rfl⟩
  · simp only [List.nil_append]
    rw [takeWhile_stop isSpNl R c rest (spaces_spnl hR) hc]
    simp only [spaces_no_nl hR, Bool.false_eq_true, if_false]
  · have hrun : ((p ++ ['\n']) ++ (R ++ c :: rest)).takeWhile isSpNl = (p ++ ['\n']) ++ R := by
      rw [← List.append_assoc, takeWhile_stop isSpNl ((p ++ ['\n']) ++ R) c rest _ hc]
      intro x hx
      rcases List.mem_append.mp hx with h | h
      · exact hall x h
      · exact spaces_spnl hR x h
    rw [hrun]
    have hcont : ((p ++ ['\n']) ++ R).contains '\n' = true := by simp
    simp only [hcont, if_true]
    have hrev : ((p ++ ['\n']) ++ R).reverse = R.reverse ++ '\n' :: p.reverse := by simp
    rw [hrev, takeWhile_stop (fun x => decide (x ≠ '\n')) R.reverse '\n' p.reverse
      (fun x hx => spaces_ne_nl hR x (List.mem_reverse.mp hx)) (by decide)]
    rw [List.reverse_reverse]
    have hlen : ((p ++ ['\n']) ++ R).length = (p ++ ['\n'] ++ R).length := rfl
    rw [← List.append_assoc, List.drop_left]

/-- a run of blank lines behind: empty, or a newline followed by blanks and newlines -/
def TrailBlank (post : List Char) : Prop := post = [] ∨ ((∀ x ∈ post, isSpNl x = true) ∧ ∃ p, post = '\n' :: p)

theorem cutTrail_blank_suffix (body : List Char) (c : Char) (R post : List Char) (hpost : TrailBlank post)
    (hR : ∀ x ∈ R, x = ' ') (hc : isSpNl c = false) :
    cutTrail ((body ++ c :: R) ++ post) = body ++ c :: R := by
  unfold cutTrail
  have hrev : ((body ++ c :: R) ++ post).reverse = (post.reverse ++ R.reverse) ++ c :: body.reverse := by simp
  have hall : ∀ x ∈ post.reverse ++ R.reverse, isSpNl x = true := by
    intro x hx
    rcases List.mem_append.mp hx with h | h
    · rcases hpost with rfl | ⟨hp, _⟩
      · simp at h
      · exact hp x (List.mem_reverse.mp h)
    · exact spaces_spnl hR x (List.mem_reverse.mp h)
  rw [hrev, takeWhile_stop isSpNl _ c _ hall hc]
  have hrun : (post.reverse ++ R.reverse).reverse = R ++ post := by simp
  rw [hrun]
  rcases hpost with rfl | ⟨_, p, rfl⟩
  · simp only [List.append_nil, spaces_no_nl hR, Bool.false_eq_true, if_false]
  · have hcont : (R ++ '\n' :: p).contains '\n' = true := by simp
    simp only [hcont, if_true]
    rw [takeWhile_stop (fun x => decide (x ≠ '\n')) R '\n' p (spaces_ne_nl hR) (by decide)]
    have : ((body ++ c :: R) ++ '\n' :: p).length - (R ++ '\n' :: p).length = (body ++ [c]).length := by
      simp; omega
    rw [this]
    have : (body ++ c :: R) ++ '\n' :: p = (body ++ [c]) ++ (R ++ '\n' :: p) := by simp
    rw [this, List.take_left]
    simp

theorem joinNL_cons (l : Line) (ls : List Line) (h : ls ≠ []) : joinNL (l :: ls) = l ++ '\n' :: joinNL ls := by
  cases ls with
  | nil => exact absurd rfl h
  | cons a as => rfl

/-- blank lines before the block -/
def leadChars (A : List Line) : List Char := (A.map (· ++ ['\n'])).flatten
/-- blank lines after the block -/
def trailChars (C : List Line) : List Char := (C.map ('\n' :: ·)).flatten

theorem joinNL_lead (A B : List Line) (hB : B ≠ []) : joinNL (A ++ B) = leadChars A ++ joinNL B := by
  induction A with
  | nil => rfl
  | cons a as ih =>
    have : as ++ B ≠ [] := by simp [hB]
    rw [List.cons_append, joinNL_cons a _ this, ih]
    simp [leadChars]

theorem joinNL_trail (B C : List Line) (hB : B ≠ []) : joinNL (B ++ C) = joinNL B ++ trailChars C := by
  induction B with
  | nil => exact absurd rfl hB
  | cons b bs ih =>
    cases bs with
    | nil =>
      cases C with
      | nil => simp [trailChars, joinNL]
      | cons c cs =>
        have h1 : joinNL ([b] ++ c :: cs) = b ++ '\n' :: joinNL (c :: cs) := joinNL_cons b _ (by simp)
        have h2 := joinNL_lead [] (c :: cs) (by simp)
        rw [h1]
        -- joinNL (c :: cs) = c ++ trailChars cs, by the same induction on cs
        have key : ∀ (c : Line) (cs : List Line), joinNL (c :: cs) = c ++ trailChars cs := by
          intro c cs
          induction cs generalizing c with
          | nil => simp [joinNL, trailChars]
          | cons d ds ihd =>
            rw [joinNL_cons c _ (by simp), ihd d]
            simp [trailChars]
        rw [key c cs]
        simp [joinNL, trailChars]
    | cons b' bs' =>
      have hne : b' :: bs' ≠ [] := by simp
      have hne2 : (b' :: bs') ++ C ≠ [] := by simp
      rw [List.cons_append, joinNL_cons b _ hne2, ih hne, joinNL_cons b _ hne]
      simp

theorem leadChars_blank {A : List Line} (hA : ∀ l ∈ A, SpacesOnly l) : LeadBlank (leadChars A) := by
  cases hA' : A.getLast? with
  | none =>
    left
    have : A = [] := List.getLast?_eq_none_iff.mp hA'
    subst this; rfl
  | some z =>
    right
    obtain ⟨A', rfl⟩ := List.getLast?_eq_some_iff.mp hA'
    constructor
    · intro x hx
      simp only [leadChars, List.mem_flatten, List.mem_map] at hx
      obtain ⟨l, ⟨a, ha, rfl⟩, hxl⟩ := hx
      rcases List.mem_append.mp hxl with h | h
      · rw [hA a ha x h]; decide
      · simp at h; subst h; decide
    · exact ⟨leadChars A' ++ z, by simp [leadChars]⟩

theorem trailChars_blank {C : List Line} (hC : ∀ l ∈ C, SpacesOnly l) : TrailBlank (trailChars C) := by
  cases C with
  | nil => left; rfl
  | cons c cs =>
    right
    constructor
    · intro x hx
      simp only [trailChars, List.mem_flatten, List.mem_map] at hx
      obtain ⟨l, ⟨a, ha, rfl⟩, hxl⟩ := hx
      rcases List.mem_cons.mp hxl with h | h
      · subst h; decide
      · rw [hC a ha x h]; decide
    · exact ⟨c ++ trailChars cs, by simp [trailChars]⟩

/-- a line with something to see on it: no newline inside, and a character that is not a blank -/
def HasInk (l : Line) : Prop := (∀ c ∈ l, c ≠ '\n') ∧ ∃ c ∈ l, c ≠ ' '

theorem ink_first {l : Line} (h : HasInk l) :
    ∃ R c rest, l = R ++ c :: rest ∧ (∀ x ∈ R, x = ' ') ∧ isSpNl c = false := by
  obtain ⟨hnl, c0, hc0, hne⟩ := h
  induction l with
  | nil => simp at hc0
  | cons a as ih =>
    by_cases ha : a = ' '
    · have hmem : c0 ∈ as := by
        rcases List.mem_cons.mp hc0 with h | h
        · exact absurd (h ▸ ha) hne
        · exact h
      obtain ⟨R, c, rest, hl, hR, hc⟩ := ih (fun x hx => hnl x (by simp [hx])) hmem
      exact ⟨a :: R, c, rest, by simp [hl], fun x hx => by
        rcases List.mem_cons.mp hx with h | h
        · exact h ▸ ha
        · exact hR x h, hc⟩
    · refine ⟨[], a, as, rfl, by simp, ?_⟩
      have hn := hnl a (by simp)
      simp [isSpNl, ha, hn]

theorem hasInk_reverse {l : Line} (h : HasInk l) : HasInk l.reverse :=
  ⟨fun c hc => h.1 c (List.mem_reverse.mp hc), by
    obtain ⟨c, hc, hne⟩ := h.2
    exact ⟨c, List.mem_reverse.mpr hc, hne⟩⟩

theorem ink_last {l : Line} (h : HasInk l) :
    ∃ body c R, l = body ++ c :: R ∧ (∀ x ∈ R, x = ' ') ∧ isSpNl c = false := by
  obtain ⟨R, c, rest, hl, hR, hc⟩ := ink_first (hasInk_reverse h)
  refine ⟨rest.reverse, c, R.reverse, ?_, fun x hx => hR x (List.mem_reverse.mp hx), hc⟩
  have := congrArg List.reverse hl
  simpa using this

/-- the regex of `_tokenize_literal` removes exactly the blank lines before and after the block:
the first and the last line of `B` keep every character, including their own leading and trailing blanks -/
theorem stripBlankEnds_joinNL (A B C : List Line) (hA : ∀ l ∈ A, SpacesOnly l) (hC : ∀ l ∈ C, SpacesOnly l)
    (hf : ∃ f Bt, B = f :: Bt ∧ HasInk f) (hz : ∃ Bi z, B = Bi ++ [z] ∧ HasInk z) :
    stripBlankEnds (joinNL (A ++ B ++ C)) = joinNL B := by
  obtain ⟨f, Bt, hB, hfi⟩ := hf
  obtain ⟨Bi, z, hB2, hzi⟩ := hz
  have hne : B ≠ [] := by simp [hB]
  have hne2 : A ++ B ≠ [] := by simp [hne]
  rw [joinNL_trail (A ++ B) C hne2, joinNL_lead A B hne]
  unfold stripBlankEnds
  -- the front
  obtain ⟨R, c, rest, hfl, hR, hc⟩ := ink_first hfi
  have hX : ∃ tail, joinNL B = R ++ c :: tail := by
    rw [hB]
    cases Bt with
    | nil => exact ⟨rest, by simp [joinNL, hfl]⟩
    | cons b bs => exact ⟨rest ++ '\n' :: joinNL (b :: bs), by rw [joinNL_cons f _ (by simp), hfl]; simp⟩
  obtain ⟨tail, hX⟩ := hX
  have h1 : cutLead (leadChars A ++ joinNL B ++ trailChars C) = joinNL B ++ trailChars C := by
    rw [hX, List.append_assoc]
    have : (R ++ c :: tail) ++ trailChars C = R ++ c :: (tail ++ trailChars C) := by simp
    rw [this]
    exact cutLead_blank_prefix _ R c _ (leadChars_blank hA) hR hc
  rw [h1]
  -- the back
  obtain ⟨body, c', R', hzl, hR', hc'⟩ := ink_last hzi
  have hY : ∃ front, joinNL B = front ++ c' :: R' := by
    rw [hB2, joinNL_lead Bi [z] (by simp)]
    exact ⟨leadChars Bi ++ body, by simp [joinNL, hzl]⟩
  obtain ⟨front, hY⟩ := hY
  rw [hY]
  exact cutTrail_blank_suffix front c' R' _ (trailChars_blank hC) hR' hc'

/-- after removing the first `bi` characters a line that is indented deeper than `bi` and not blank still
has something to see -/
theorem hasInk_drop {l : Line} {bi : Nat} (hnl : ∀ c ∈ l, c ≠ '\n') (hd : bi ≤ indentOf l) (hb : indentOf l < l.length) :
    HasInk (l.drop bi) := by
  refine ⟨fun c hc => hnl c (List.mem_of_mem_drop hc), ?_⟩
  have hsplit := List.takeWhile_append_dropWhile (p := pyIsSpace) (l := l)
  have hlen := indentOf_eq l
  cases hdw : l.dropWhile pyIsSpace with
  | nil =>
    have := congrArg List.length hsplit
    simp [hdw] at this
    omega
  | cons c cs =>
    have hcns : pyIsSpace c = false := by
      have := List.head_dropWhile_not (p := pyIsSpace) (l := l) (by simp [hdw])
      simpa [hdw] using this
    refine ⟨c, ?_, ?_⟩
    · rw [← hsplit, hdw, List.drop_append_of_le_length (by omega)]
      simp
    · intro h; subst h; revert hcns; decide

/-- the first `bi` characters that are removed from a line indented at least `bi` are white space -/
theorem removed_prefix_is_space {l : Line} {bi : Nat} (hd : bi ≤ indentOf l) : (l.take bi).all pyIsSpace = true := by
  have hsplit := List.takeWhile_append_dropWhile (p := pyIsSpace) (l := l)
  rw [indentOf_eq] at hd
  rw [← hsplit, List.take_append_of_le_length hd, List.all_eq_true]
  intro x hx
  exact mem_takeWhile_true pyIsSpace l x (List.mem_of_mem_take hx)

/-- **C09, literal blocks.**  `lines = before ++ lead ++ src ++ trail ++ after`, the paragraph ending in
`::` has indentation `bi` and ends on the line before `lead`:
* `lead`, `trail`: blank lines (spaces only) around the block;
* `src`: the block — every line blank or indented deeper than `bi`, first and last line not blank, no
  newline characters inside lines;
* `after`: nothing, or a non-blank line indented no deeper than `bi`.
Then the literal-block token holds exactly the lines of `src`, each without its first `bi` characters
(white space, `removed_prefix_is_space`): every other character is kept — relative indentation, blank
lines inside the block, trailing blanks of every line — the blank lines around the block are dropped,
and tokenizing resumes at the first line of `after`. -/
theorem literal_block_exact (before lead src trail after : List Line) (bi : Nat)
    (hlead : ∀ l ∈ lead, SpacesOnly l) (htrail : ∀ l ∈ trail, SpacesOnly l)
    (hsrc : ∀ l ∈ src, (SpacesOnly l ∨ bi < indentOf l) ∧ ∀ c ∈ l, c ≠ '\n')
    (hf : ∃ f t, src = f :: t ∧ bi < indentOf f ∧ indentOf f < f.length)
    (hz : ∃ i z, src = i ++ [z] ∧ bi < indentOf z ∧ indentOf z < z.length)
    (ha : after = [] ∨ ∃ a as, after = a :: as ∧ a.length ≠ indentOf a ∧ indentOf a ≤ bi) :
    tokenizeLiteral (before ++ lead ++ src ++ trail ++ after) before.length bi =
      (joinNL (src.map (·.drop bi)), before.length + lead.length + src.length + trail.length) := by
  obtain ⟨f, t, hsf, hf1, hf2⟩ := hf
  obtain ⟨i, z, hsz, hz1, hz2⟩ := hz
  have hcont : ∀ l ∈ lead ++ src ++ trail, Continues bi l := by
    intro l hl
    rcases List.mem_append.mp hl with h | h
    · rcases List.mem_append.mp h with h | h
      · exact Or.inl (blank_of_spaces (hlead l h))
      · rcases (hsrc l h).1 with h' | h'
        · exact Or.inl (blank_of_spaces h')
        · exact Or.inr h'
    · exact Or.inl (blank_of_spaces (htrail l h))
  have hblock : ∃ x xs, lead ++ src ++ trail = x :: xs := by
    cases hl : lead ++ src ++ trail with
    | nil => simp [hsf] at hl
    | cons x xs => exact ⟨x, xs, rfl⟩
  obtain ⟨x, xs, hx⟩ := hblock
  have hlines : before ++ lead ++ src ++ trail ++ after = before ++ (x :: xs) ++ after := by
    rw [← hx]; simp
  rw [hlines, tokenizeLiteral_slice before x xs after bi
    (fun l hl => hcont l (by rw [hx]; simp [hl])) ha, ← hx]
  have hlen : before.length + 1 + xs.length = before.length + lead.length + src.length + trail.length := by
    have := congrArg List.length hx
    simp at this
    omega
  rw [hlen, List.map_append, List.map_append]
  congr 1
  apply stripBlankEnds_joinNL
  · intro l hl
    obtain ⟨a, ha', rfl⟩ := List.mem_map.mp hl
    exact spaces_drop (hlead a ha') bi
  · intro l hl
    obtain ⟨a, ha', rfl⟩ := List.mem_map.mp hl
    exact spaces_drop (htrail a ha') bi
  · exact ⟨f.drop bi, t.map (·.drop bi), by simp [hsf],
      hasInk_drop (hsrc f (by simp [hsf])).2 (Nat.le_of_lt hf1) hf2⟩
  · exact ⟨i.map (·.drop bi), z.drop bi, by simp [hsz],
      hasInk_drop (hsrc z (by simp [hsz])).2 (Nat.le_of_lt hz1) hz2⟩

/-- non-vacuity: paragraph at indentation 2, a blank line, three block lines at indentation 6/8 with a
blank line inside and trailing blanks, a blank line, then a dedented line -/
example :
    tokenizeLiteral ["  p::".toList, "".toList, "      a = 1  ".toList, "".toList, "        b".toList, "  ".toList, "  next".toList] 1 2
      = ("    a = 1  \n\n      b".toList, 6) := by
  decide

/-! ### doctest blocks -/

theorem dropWhile_pad (k : Nat) (l : Line) : (List.replicate k ' ' ++ l).dropWhile pyIsSpace = l.dropWhile pyIsSpace := by
  induction k with
  | zero => rfl
  | succ k ih =>
    have : pyIsSpace ' ' = true := by decide
    simp [List.replicate_succ, this, ih]

theorem indentOf_pad (k : Nat) (l : Line) : indentOf (List.replicate k ' ' ++ l) = k + indentOf l := by
  have hle := tw_dw_length l
  unfold indentOf
  rw [dropWhile_pad]
  simp
  omega

theorem dtLoop_run (bi : Nat) (after : List Line)
    (ha : after = [] ∨ ∃ a as, after = a :: as ∧ indentOf a = a.length) (m : Nat) (es : List Nat) :
    ∀ (xs : List Line) (n : Nat), (∀ l ∈ xs, indentOf l ≠ l.length ∧ bi ≤ indentOf l) →
      dtLoop bi (xs ++ after) n m es = (n + xs.length, m, es) := by
  intro xs
  induction xs with
  | nil =>
    intro n _
    rcases ha with rfl | ⟨a, as, rfl, h1⟩
    · simp [dtLoop]
    · simp [dtLoop, h1]
  | cons x xs ih =>
    intro n hx
    obtain ⟨h1, h2⟩ := hx x (by simp)
    have h3 : ¬ indentOf x < bi := by omega
    simp only [List.cons_append, dtLoop, h1, h3, if_false]
    rw [ih (n + 1) (fun l hl => hx l (by simp [hl]))]
    simp; omega

/-- **C09, doctest blocks.**  `lines = before ++ (body indented by bi) ++ after`; `body` starts with the
`>>> ` line, its other lines are not blank (any relative indentation, any trailing blanks); `after` is
nothing or starts with a blank line.  Then the doctest token holds exactly `body` joined by newlines —
every character of every line — no error is recorded and tokenizing resumes at the blank line. -/
theorem doctest_block_exact (before : List Line) (first : Line) (more after : List Line) (bi : Nat)
    (hmore : ∀ l ∈ more, indentOf l < l.length)
    (ha : after = [] ∨ ∃ a as, after = a :: as ∧ indentOf a = a.length) :
    tokenizeDoctest (before ++ (first :: more).map (List.replicate bi ' ' ++ ·) ++ after) before.length bi =
      (joinNL (first :: more), before.length + 1 + more.length, []) := by
  unfold tokenizeDoctest
  have hdrop : (before ++ (first :: more).map (List.replicate bi ' ' ++ ·) ++ after).drop (before.length + 1) =
      more.map (List.replicate bi ' ' ++ ·) ++ after := by
    rw [List.append_assoc, ← List.drop_drop, List.drop_left]
    rfl
  have hrun := dtLoop_run bi after ha bi [] (more.map (List.replicate bi ' ' ++ ·)) (before.length + 1)
    (by
      intro l hl
      obtain ⟨a, ha', rfl⟩ := List.mem_map.mp hl
      have := hmore a ha'
      rw [indentOf_pad]
      simp
      omega)
  rw [hdrop, hrun]
  simp only [List.length_map]
  have hsl : slice (before ++ (first :: more).map (List.replicate bi ' ' ++ ·) ++ after) before.length
      (before.length + 1 + more.length) = (first :: more).map (List.replicate bi ' ' ++ ·) := by
    have : before.length + 1 + more.length = before.length + ((first :: more).map (List.replicate bi ' ' ++ ·)).length := by
      simp; omega
    rw [this, slice_mid]
  rw [hsl, List.map_map]
  have : ((fun x => List.drop bi x) ∘ fun x => List.replicate bi ' ' ++ x) = id := by
    funext x
    simp [List.drop_left']
  rw [this, List.map_id]

/-- non-vacuity, and what happens to a line dedented below the prompt (an error is recorded and the
common indentation shrinks — outside the hypothesis) -/
example :
    tokenizeDoctest ["  >>> f()".toList, "  1  ".toList, "".toList, "  x".toList] 0 2 = (">>> f()\n1  ".toList, 2, []) ∧
    tokenizeDoctest ["  >>> f()".toList, " 1".toList] 0 2 = (" >>> f()\n1".toList, 2, [1]) := by
  decide

end Epytext

/-! ## 12. `_tokenize_para`: what is taken for a heading underline -/
namespace Epytext

theorem allSame_iff (c : Char) (l : List Char) : allSame c l = true ↔ ∀ x ∈ l, x = c := by
  induction l with
  | nil => simp [allSame]
  | cons a as ih =>
    by_cases h : a = c
    · simp [allSame, h, ih]
    · simp [allSame, h]

/-- **only a run of one repeated heading character is an underline**: if the second line of a paragraph
contains any character other than a single repeated `=`, `-` or `~`, the paragraph is an ordinary
paragraph — no heading, and not even the "possible heading typo" warning; both lines stay text -/
theorem not_underline_of_other_char (c0 c1 : List Char) (hne : c1 ≠ [])
    (h : ¬ ∃ hc, hc ∈ headingChars ∧ ∀ x ∈ c1, x = hc) : headingOf c0 (some c1) = .para := by
  cases c1 with
  | nil => exact absurd rfl hne
  | cons a t =>
    simp only [headingOf]
    by_cases h1 : headingChars.contains a = true
    · have hmem : a ∈ headingChars := by simpa using h1
      have hns : allSame a (a :: t) = false := by
        cases hs : allSame a (a :: t) with
        | false => rfl
        | true => exact absurd ⟨a, hmem, (allSame_iff a (a :: t)).mp hs⟩ h
      simp only [h1, hns]
      split <;> simp
    · have hnm : a ∉ headingChars := by simpa using h1
      simp [hnm]

/-- a paragraph becomes a heading only when its second line is a run of one heading character exactly as
long as the first line; the level is the position of that character in `=-~` -/
theorem heading_underline (c0 c1 : List Char) (l : Nat) (h : headingOf c0 (some c1) = .heading l) :
    ∃ hc, headingChars[l]? = some hc ∧ (∀ x ∈ c1, x = hc) ∧ c1.length = c0.length ∧ c1 ≠ [] := by
  cases c1 with
  | nil => simp [headingOf] at h
  | cons a t =>
    simp only [headingOf] at h
    split at h
    · cases h
    · rename_i h1
      split at h
      · cases h
      · rename_i h2
        split at h
        · cases h
        · rename_i h3
          have hl : headingChars.idxOf a = l := by injection h
          have hmem : a ∈ headingChars := by
            by_cases hm : a ∈ headingChars
            · exact hm
            · exact absurd (by simp [hm]) h1
          have hsame : allSame a (a :: t) = true := by
            cases hs : allSame a (a :: t) <;> simp [hs] at h2 ⊢
          refine ⟨a, ?_, (allSame_iff a (a :: t)).mp hsame, ?_, by simp⟩
          · rw [← hl]
            simp only [headingChars, List.mem_cons, List.not_mem_nil, or_false] at hmem
            rcases hmem with rfl | rfl | rfl <;> decide
          · simp only [ne_eq, Decidable.not_not] at h3
            exact h3.symm

/-- non-vacuity, and the line pair of the seeded change: a text line that merely starts with `-` and is as
long as the line above is not an underline -/
example :
    headingOf "Return value".toList (some "============".toList) = .heading 0 ∧
    headingOf "Title".toList (some "-----".toList) = .heading 1 ∧
    headingOf "Title".toList (some "~~~~".toList) = .typo ∧
    headingOf "Returns the index of the item or".toList (some "-1 when the item cannot be found".toList) = .para := by
  decide

end Epytext

/-! ## 13. paired fields (`@return`/`@rtype`, `@yield`/`@ytype`): both texts are kept in either order -/
namespace Docstring
open Fields

/-- description then type, or type then description — from any state of `return_desc` / `yields_desc` the
entry ends up with both texts -/
theorem pair_both_orders_kept (init : Option PairDesc) (a b : Nat) :
    runPair init [.desc a, .type b] = runPair init [.type b, .desc a] ∧
    (∃ d, runPair init [.desc a, .type b] = some d ∧ d.body = some a ∧ d.type = some b) := by
  cases init with
  | none => exact ⟨rfl, _, rfl, rfl, rfl⟩
  | some d => exact ⟨rfl, _, rfl, rfl, rfl⟩

theorem runPair_exists (init : Option PairDesc) (e : PairEvent) (es : List PairEvent) :
    ∃ d, runPair init (e :: es) = some d := by
  have key : ∀ (es : List PairEvent) (d : PairDesc), ∃ d', es.foldl pairStep (some d) = some d' := by
    intro es
    induction es with
    | nil => intro d; exact ⟨d, rfl⟩
    | cons x xs ih => intro d; cases x <;> exact ih _
  cases e <;> exact key es _

/-- in any sequence of fields of the pair, the entry shows the text of the last description field and of
the last type field: with one of each, in any order and with anything before, both are shown -/
theorem runPair_last_desc (init : Option PairDesc) (es : List PairEvent) (a : Nat) (rest : List PairEvent)
    (hrest : ∀ e ∈ rest, ∀ t, e ≠ .desc t) :
    ∃ d, runPair init (es ++ .desc a :: rest) = some d ∧ d.body = some a := by
  unfold runPair
  rw [List.foldl_append, List.foldl_cons]
  generalize List.foldl pairStep init es = st
  have key : ∀ (rest : List PairEvent) (d : PairDesc), (∀ e ∈ rest, ∀ t, e ≠ .desc t) → d.body = some a →
      ∃ d', rest.foldl pairStep (some d) = some d' ∧ d'.body = some a := by
    intro rest
    induction rest with
    | nil => intro d _ hb; exact ⟨d, rfl, hb⟩
    | cons x xs ih =>
      intro d hx hb
      cases x with
      | desc t => exact absurd rfl (hx _ (by simp) t)
      | type t => exact ih _ (fun e he => hx e (by simp [he])) (by simpa [pairStep] using hb)
  exact key rest _ hrest rfl

theorem runPair_last_type (init : Option PairDesc) (es : List PairEvent) (b : Nat) (rest : List PairEvent)
    (hrest : ∀ e ∈ rest, ∀ t, e ≠ .type t) :
    ∃ d, runPair init (es ++ .type b :: rest) = some d ∧ d.type = some b := by
  unfold runPair
  rw [List.foldl_append, List.foldl_cons]
  generalize List.foldl pairStep init es = st
  have key : ∀ (rest : List PairEvent) (d : PairDesc), (∀ e ∈ rest, ∀ t, e ≠ .type t) → d.type = some b →
      ∃ d', rest.foldl pairStep (some d) = some d' ∧ d'.type = some b := by
    intro rest
    induction rest with
    | nil => intro d _ hb; exact ⟨d, rfl, hb⟩
    | cons x xs ih =>
      intro d hx hb
      cases x with
      | type t => exact absurd rfl (hx _ (by simp) t)
      | desc t => exact ih _ (fun e he => hx e (by simp [he])) (by simpa [pairStep] using hb)
  exact key rest _ hrest rfl

end Docstring

/-! ## 14. the literal block after the first paragraph of a list item or field -/
namespace Epytext

/-- once the indentation of the item's paragraph is known it never changes -/
theorem listartLoop_some (b c : Nat) : ∀ (ls : List (Line × Bool)) (n : Nat) (dc : Bool),
    (listartLoop b ls n (some c) dc).2 = some c := by
  intro ls
  induction ls with
  | nil => intro n dc; rfl
  | cons x xs ih =>
    intro n dc
    obtain ⟨l, isB⟩ := x
    simp only [listartLoop]
    split
    · rfl
    · split
      · rfl
      · split
        · rfl
        · split
          · rfl
          · split
            · rfl
            · exact ih _ _

/-- **a first paragraph that wraps fixes the indentation of the literal block**: when the line after the
bullet line continues the paragraph (not blank, indented at least like the bullet, no bullet of its own, the
bullet line does not end with `::`), the paragraph's indentation — from which the literal block after
`::` is measured — is the indentation of that continuation line, whatever follows -/
theorem wrapped_item_para_indent (b : Nat) (l : Line) (rest : List (Line × Bool)) (n : Nat)
    (hblank : indentOf l ≠ l.length) (hdeep : ¬ indentOf l < b) :
    (listartLoop b ((l, false) :: rest) n none false).2 = some (indentOf l) := by
  simp only [listartLoop, hblank, hdeep, if_false, Bool.false_eq_true]
  exact listartLoop_some b (indentOf l) rest (n + 1) _

/-- non-vacuity: a two-line first paragraph ending with `::`, a literal block, then a second paragraph of the
same item; the block is measured from the continuation line (indentation 4), so its lines lose exactly 4 blanks
and the paragraph that follows (indentation 4) ends it -/
example :
    itemLiteral ["  - first line".toList, "    goes on::".toList, "".toList, "        x = 1".toList, "".toList, "    after".toList]
      [true, false, false, false, false, false] 0 2 4 = some ("    x = 1".toList, 4) := by
  decide

end Epytext

/-! ## 15. reST consolidated entries: only the separator is removed -/
namespace Rst
open Epytext (pyIsSpace)

theorem lstrip_of_head {d : List Char} (h : ∀ c, d.head? = some c → pyIsSpace c = false) : lstrip d = d := by
  cases d with
  | nil => rfl
  | cons c cs => simp [lstrip, List.dropWhile, h c rfl]

theorem lstrip_append (ws d : List Char) (hws : ∀ c ∈ ws, pyIsSpace c = true)
    (hd : ∀ c, d.head? = some c → pyIsSpace c = false) : lstrip (ws ++ d) = d := by
  induction ws with
  | nil => exact lstrip_of_head hd
  | cons a as ih =>
    have ha := hws a (by simp)
    have := ih (fun c hc => hws c (by simp [hc]))
    simpa [lstrip, List.dropWhile, ha] using this

/-- **the description of a consolidated-field entry keeps its own beginning**: after one separator
(`:`, `-`, ` :`, ` -`) and any blanks, the text is kept from its first non-blank character on — also when
that character is itself `-` or `:` (`-1 disables…`, `--verbose`, `:-)`) -/
theorem stripSeparator_keeps_description (sep ws d : List Char)
    (hsep : sep = [':'] ∨ sep = ['-'] ∨ sep = [' ', '-'] ∨ sep = [' ', ':'])
    (hws : ∀ c ∈ ws, pyIsSpace c = true) (hd : ∀ c, d.head? = some c → pyIsSpace c = false) :
    stripSeparator (sep ++ ws ++ d) = d := by
  rcases hsep with rfl | rfl | rfl | rfl
  · simp [stripSeparator, lstrip_append ws d hws hd]
  · simp [stripSeparator, lstrip_append ws d hws hd]
  · have h1 : ¬ ((' ' : Char) = ':') := by decide
    have h2 : ¬ ((' ' : Char) = '-') := by decide
    simp [stripSeparator, h1, h2, lstrip_append ws d hws hd]
  · have h1 : ¬ ((' ' : Char) = ':') := by decide
    have h2 : ¬ ((' ' : Char) = '-') := by decide
    simp [stripSeparator, h1, h2, lstrip_append ws d hws hd]

/-- text that does not start with a separator is not touched -/
theorem stripSeparator_no_separator (c : Char) (t : List Char) (h1 : c ≠ ':') (h2 : c ≠ '-')
    (h3 : ¬ (c = ' ' ∧ (t.head? = some '-' ∨ t.head? = some ':'))) : stripSeparator (c :: t) = c :: t := by
  unfold stripSeparator
  have hA : ¬ ([c] = [] ∨ [c] = [':'] ∨ [c] = ['-']) := by simp [h1, h2]
  simp only [List.take, hA, if_false]
  cases t with
  | nil => simp
  | cons b bs =>
    have hB : ¬ ([c, b] = [' ', '-'] ∨ [c, b] = [' ', ':']) := by
      intro h
      rcases h with h | h
      · simp at h; exact h3 ⟨h.1, Or.inl (by simp [h.2])⟩
      · simp at h; exact h3 ⟨h.1, Or.inr (by simp [h.2])⟩
    simp only [List.take, hB, if_false]

example : stripSeparator ": -1 disables the limit".toList = "-1 disables the limit".toList ∧
    stripSeparator " - --verbose".toList = "--verbose".toList ∧ stripSeparator ": :-) x".toList = ":-) x".toList := by
  decide

end Rst

/-! ## 16. `_handlePropertyDef`: no field of a property docstring is lost -/
namespace Property

/-- where a text can end up -/
def PState.holds (st : PState) (t : Nat) : Prop :=
  st.description = some t ∨ st.parsedType = some t ∨ ∃ f ∈ st.otherFields, f.text = t

theorem pstep_keeps_other (st : PState) (f g : PField) (h : g ∈ st.otherFields) : g ∈ (pstep st f).otherFields := by
  unfold pstep
  cases f.tag <;> simp only
  · split <;> simp [h]
  · exact h
  · simp [h]

theorem foldl_keeps_other (fs : List PField) : ∀ (st : PState) (g : PField), g ∈ st.otherFields →
    g ∈ (fs.foldl pstep st).otherFields := by
  induction fs with
  | nil => intro st g h; exact h
  | cons f fs ih => intro st g h; exact ih _ g (pstep_keeps_other st f g h)

/-- **every field but a repeated `@rtype` / a `@return` that becomes the description is kept as a field**;
in particular, when the docstring has its own description every `@return` stays a field (c0ae38c) -/
theorem return_kept_when_body (pre post : List PField) (f : PField) (hf : f.tag = .ret) (st : PState)
    (hb : (pre.foldl pstep st).hasBody = true) :
    f ∈ ((pre ++ f :: post).foldl pstep st).otherFields := by
  rw [List.foldl_append, List.foldl_cons]
  apply foldl_keeps_other
  simp [pstep, hf, hb]

theorem hasBody_mono (fs : List PField) : ∀ st : PState, st.hasBody = true → (fs.foldl pstep st).hasBody = true := by
  induction fs with
  | nil => intro st h; exact h
  | cons f fs ih =>
    intro st h
    apply ih
    unfold pstep
    cases f.tag <;> simp [h]

/-- a docstring with a description: every `@return` and every other field stays a field, the last `@rtype`
is the property's type -/
theorem fields_kept_with_body (fields : List PField) (f : PField) (hf : f ∈ fields) (ht : f.tag ≠ .rtype) :
    f ∈ (handle true fields).otherFields := by
  obtain ⟨pre, post, rfl⟩ := List.append_of_mem hf
  unfold handle
  rw [List.foldl_append, List.foldl_cons]
  apply foldl_keeps_other
  have hb := hasBody_mono pre ⟨true, none, none, []⟩ rfl
  cases htag : f.tag with
  | ret => simp [pstep, htag, hb]
  | rtype => exact absurd htag ht
  | other => simp [pstep, htag]

example : (handle true [⟨.ret, 1, true⟩, ⟨.rtype, 2, true⟩, ⟨.other, 3, true⟩]) =
      ⟨true, none, some 2, [⟨.ret, 1, true⟩, ⟨.other, 3, true⟩]⟩ ∧
    (handle false [⟨.ret, 1, true⟩, ⟨.ret, 4, true⟩]) = ⟨true, some 1, none, [⟨.ret, 4, true⟩]⟩ := by
  decide

end Property

/-! ## 17. the Parameters table: a described or typed parameter has its row -/
namespace Params

theorem lookup_map_set {β} (k k' : Nat) (v : β) : ∀ (l : List (Nat × β)),
    (l.map (fun p => if p.1 == k then (k, v) else p)).lookup k' =
      if k' = k then (if l.any (·.1 == k) then some v else none) else l.lookup k'
  | [] => by simp [List.lookup]
  | (a, b) :: ps => by
    have ih := lookup_map_set k k' v ps
    by_cases hak : a = k
    · subst hak
      by_cases hk : k' = a
      · subst hk; simp [List.lookup]
      · have h1 : (k' == a) = false := by simpa using hk
        simp only [List.map_cons, beq_self_eq_true, if_true, List.lookup, h1, hk, if_false] at ih ⊢
        exact ih
    · have h1 : (a == k) = false := by simpa using hak
      by_cases hka : k' = a
      · subst hka
        simp [List.lookup, h1, hak]
      · have h2 : (k' == a) = false := by simpa using hka
        simp only [List.map_cons, h1, Bool.false_eq_true, if_false, List.lookup, h2, List.any_cons, Bool.false_or] at ih ⊢
        exact ih

theorem lookup_append_single {β} (k k' : Nat) (v : β) : ∀ (l : List (Nat × β)),
    (l ++ [(k, v)]).lookup k' = match l.lookup k' with
      | some x => some x
      | none => if k' = k then some v else none
  | [] => by
    by_cases h : k' = k
    · subst h; simp [List.lookup]
    · have : (k' == k) = false := by simpa using h
      simp [List.lookup, this, h]
  | (a, b) :: ps => by
    have ih := lookup_append_single k k' v ps
    by_cases hka : k' = a
    · subst hka; simp [List.lookup]
    · have h2 : (k' == a) = false := by simpa using hka
      simp only [List.cons_append, List.lookup, h2]
      exact ih

theorem lookup_none_of_not_any {β} (k : Nat) : ∀ (l : List (Nat × β)), l.any (·.1 == k) = false → l.lookup k = none
  | [], _ => rfl
  | (a, b) :: ps, h => by
    simp only [List.any_cons, Bool.or_eq_false_iff] at h
    have hka : (k == a) = false := by
      have : a ≠ k := by simpa using h.1
      simpa using fun e => this e.symm
    simp only [List.lookup, hka]
    exact lookup_none_of_not_any k ps h.2

theorem lookup_dictSet {β} (d : List (Nat × β)) (k k' : Nat) (v : β) :
    (dictSet d k v).lookup k' = if k' = k then some v else d.lookup k' := by
  unfold dictSet
  by_cases hany : d.any (·.1 == k) = true
  · simp only [hany, if_true]
    rw [lookup_map_set, hany]
    simp
  · have hany' : d.any (·.1 == k) = false := by
      cases h : d.any (·.1 == k) with
      | false => rfl
      | true => exact absurd h hany
    simp only [hany', Bool.false_eq_true, if_false]
    rw [lookup_append_single]
    by_cases hk : k' = k
    · subst hk
      simp [lookup_none_of_not_any _ d hany']
    · simp only [hk, if_false]
      cases d.lookup k' <;> rfl

/-- the last field that describes `n` -/
def lastDesc (descs : List Desc) (n : Nat) : Option Desc := (descs.filter (·.name == n)).getLast?

theorem lastDesc_cons (d : Desc) (ds : List Desc) (n : Nat) :
    lastDesc (d :: ds) n = match lastDesc ds n with
      | some x => some x
      | none => if d.name = n then some d else none := by
  unfold lastDesc
  by_cases h : d.name = n
  · have hb : (d.name == n) = true := by simpa using h
    rw [List.filter_cons, if_pos hb]
    simp only [h, if_true]
    cases hf : List.filter (fun x => x.name == n) ds with
    | nil => simp
    | cons a as =>
      rw [List.getLast?_cons_cons]
      cases hg : (a :: as).getLast? with
      | none => simp at hg
      | some x => rfl
  · have hb : (d.name == n) = false := by simpa using h
    simp only [List.filter_cons, hb, Bool.false_eq_true, if_false, h]
    cases (List.filter (fun x => x.name == n) ds).getLast? <;> rfl

theorem foldl_dict_lookup (ds : List Desc) : ∀ (acc : List (Nat × Desc)) (n : Nat),
    (ds.foldl (fun d p => dictSet d p.name p) acc).lookup n =
      match lastDesc ds n with
      | some x => some x
      | none => acc.lookup n := by
  induction ds with
  | nil => intro acc n; simp [lastDesc]
  | cons d ds ih =>
    intro acc n
    rw [List.foldl_cons, ih, lastDesc_cons]
    cases lastDesc ds n with
    | some x => rfl
    | none =>
      simp only [lookup_dictSet]
      by_cases h : d.name = n
      · simp [h]
      · have : ¬ n = d.name := fun e => h e.symm
        simp [h, this]

theorem paramsDict_lookup (descs : List Desc) (n : Nat) : (paramsDict descs).lookup n = lastDesc descs n := by
  unfold paramsDict
  rw [foldl_dict_lookup]
  cases lastDesc descs n <;> simp [List.lookup]

theorem lastDesc_name {descs : List Desc} {n : Nat} {d : Desc} (h : lastDesc descs n = some d) : d.name = n := by
  unfold lastDesc at h
  have := List.mem_of_getLast? h
  simpa using (List.mem_filter.mp this).2

theorem lookup_filter_ne {β} (l : List (Nat × β)) (k n : Nat) (h : n ≠ k) :
    (l.filter (·.1 != k)).lookup n = l.lookup n := by
  induction l with
  | nil => rfl
  | cons p ps ih =>
    obtain ⟨a, b⟩ := p
    by_cases hak : a = k
    · subst hak
      have h1 : (n == a) = false := by simpa using h
      simp [List.filter_cons, List.lookup, h1, ih]
    · have h2 : (a != k) = true := by simpa using hak
      simp only [List.filter_cons, h2, if_true, List.lookup]
      cases (n == a) <;> simp [ih]

theorem lookup_mem {β} (l : List (Nat × β)) (n : Nat) (v : β) (h : l.lookup n = some v) : (n, v) ∈ l := by
  induction l with
  | nil => simp [List.lookup] at h
  | cons p ps ih =>
    obtain ⟨a, b⟩ := p
    by_cases hna : n = a
    · subst hna; simp [List.lookup] at h; simp [h]
    · have : (n == a) = false := by simpa using hna
      simp only [List.lookup, this] at h
      simp [ih h]

/-- the loop keeps every documented parameter: it is turned into a row (with its body) or stays in `params` -/
theorem resolveLoop_keeps (s : Sig) : ∀ (ts : List (Nat × Option PType)) (idx : Nat) (params : List (Nat × Desc))
    (n : Nat) (d : Desc), params.lookup n = some d → d.name = n →
    (∃ x ∈ (resolveLoop s ts idx params).1, x.name = n ∧ x.body = d.body) ∨
    (resolveLoop s ts idx params).2.1.lookup n = some d := by
  intro ts
  induction ts with
  | nil => intro idx params n d h _; right; simpa [resolveLoop] using h
  | cons t ts ih =>
    intro idx params n d h hn
    obtain ⟨name, pt⟩ := t
    simp only [resolveLoop]
    cases hl : params.lookup name with
    | some d' =>
      simp only
      by_cases hnn : n = name
      · subst hnn
        rw [h] at hl
        cases hl
        left
        exact ⟨_, List.mem_cons_self, hn, rfl⟩
      · have := ih (idx + 1) (params.filter (·.1 != name)) n d (by rw [lookup_filter_ne _ _ _ hnn]; exact h) hn
        rcases this with ⟨x, hx, hx1, hx2⟩ | h'
        · left; exact ⟨x, by simp [hx], hx1, hx2⟩
        · right; exact h'
    | none =>
      simp only
      split
      · exact ih (idx + 1) params n d h hn
      · rcases ih (idx + 1) params n d h hn with ⟨x, hx, hx1, hx2⟩ | h'
        · left; exact ⟨x, by simp [hx], hx1, hx2⟩
        · right; exact h'

/-- **a parameter or keyword that has a description has its row**: whatever the signature, whatever other
fields the docstring contains and in whatever order, the Parameters table is shown and contains a row with
the name and the text of the last `param` / `keyword` field written for that name -/
theorem described_parameter_row (s : Sig) (fh : FH) (n : Nat) (d : Desc)
    (hd : lastDesc fh.descs n = some d) (hb : d.body.isSome = true) :
    ∃ r ∈ rows s fh, r.name = n ∧ r.body = d.body := by
  have hname := lastDesc_name hd
  have hlk : (paramsDict fh.descs).lookup n = some d := by rw [paramsDict_lookup]; exact hd
  have hne : (paramsDict fh.descs).isEmpty = false := by
    cases hp : paramsDict fh.descs with
    | nil => simp [hp, List.lookup] at hlk
    | cons a as => rfl
  -- a row x with the name and the body exists after the loop
  have hx : ∃ x ∈ (resolveLoop s fh.types 0 (paramsDict fh.descs)).1 ++
      (resolveLoop s fh.types 0 (paramsDict fh.descs)).2.1.map (·.2), x.name = n ∧ x.body = d.body := by
    rcases resolveLoop_keeps s fh.types 0 _ n d hlk hname with ⟨x, hx, h1, h2⟩ | h'
    · exact ⟨x, by simp [hx], h1, h2⟩
    · exact ⟨d, by
        simp only [List.mem_append, List.mem_map]
        right
        exact ⟨(n, d), lookup_mem _ _ _ h', rfl⟩, hname, rfl⟩
  obtain ⟨x, hxm, hx1, hx2⟩ := hx
  have hxdoc : x.isDocumented = true := by simp [Desc.isDocumented, hx2, hb]
  -- the **kwargs step keeps it
  have hres : ∃ y ∈ resolveTypes s fh, y.name = n ∧ y.body = d.body := by
    unfold resolveTypes
    simp only [hne, Bool.not_false, Bool.true_or, if_true]
    split
    · exact ⟨x, hxm, hx1, hx2⟩
    · rename_i k hk
      by_cases hxk : x = k
      · subst hxk
        simp only [hxdoc, Bool.or_true, if_true]
        exact ⟨x, by simp, hx1, hx2⟩
      · split
        · exact ⟨x, by simp [List.mem_erase_of_ne hxk, hxm], hx1, hx2⟩
        · exact ⟨x, by simp [List.mem_erase_of_ne hxk, hxm], hx1, hx2⟩
  obtain ⟨y, hym, hy1, hy2⟩ := hres
  have hany : (resolveTypes s fh).any Desc.isDocumented = true := by
    rw [List.any_eq_true]
    exact ⟨y, hym, by simp [Desc.isDocumented, hy2, hb]⟩
  unfold rows
  simp only [hany, if_true]
  exact ⟨y, hym, hy1, hy2⟩

theorem lookup_filter_some {β} (l : List (Nat × β)) (k n : Nat) (v : β)
    (h : (l.filter (·.1 != k)).lookup n = some v) : l.lookup n = some v := by
  by_cases hn : n = k
  · subst hn
    exfalso
    have := lookup_mem _ _ _ h
    simp at this
  · rwa [lookup_filter_ne _ _ _ hn] at h

/-- the loop makes a row for every name that has a type from the docstring (the leading `self` / `cls` included, 19b8897) -/
theorem resolveLoop_typed (s : Sig) (n t : Nat) :
    ∀ (ts : List (Nat × Option PType)) (idx : Nat) (params : List (Nat × Desc)),
    ts.lookup n = some (some ⟨t, .doc⟩) → (∀ k v, params.lookup k = some v → v.name = k) →
    (∃ x ∈ (resolveLoop s ts idx params).1, x.name = n ∧ x.type = some t ∧ x.origin = some .doc) ∧
    (params.isEmpty = false ∨ (resolveLoop s ts idx params).2.2 = true) := by
  intro ts
  induction ts with
  | nil => intro idx params h; simp [List.lookup] at h
  | cons hd ts ih =>
    intro idx params h hinv
    obtain ⟨name, pt⟩ := hd
    simp only [resolveLoop]
    by_cases hnn : n = name
    · subst hnn
      have hpt : pt = some ⟨t, .doc⟩ := by simpa [List.lookup] using h
      subst hpt
      cases hl : params.lookup n with
      | some d' =>
        have hname := hinv n d' hl
        refine ⟨⟨_, List.mem_cons_self, hname, rfl, rfl⟩, Or.inl ?_⟩
        cases params with
        | nil => simp [List.lookup] at hl
        | cons a as => rfl
      | none =>
        have hs : (idx == 0 && ((some (⟨t, .doc⟩ : PType)).isNone || (some (⟨t, .doc⟩ : PType)).map (·.origin) != some .doc) &&
            s.selfName == some n) = false := by simp
        simp only [hs, Bool.false_eq_true, if_false]
        exact ⟨⟨_, List.mem_cons_self, rfl, rfl, rfl⟩, Or.inr (by simp)⟩
    · have hne : (n == name) = false := by simpa using hnn
      have h' : ts.lookup n = some (some ⟨t, .doc⟩) := by simpa [List.lookup, hne] using h
      cases hl : params.lookup name with
      | some d' =>
        simp only
        have hinv' : ∀ k v, (params.filter (·.1 != name)).lookup k = some v → v.name = k :=
          fun k v hk => hinv k v (lookup_filter_some _ _ _ _ hk)
        obtain ⟨⟨x, hx, h1, h2, h3⟩, hflag⟩ := ih (idx + 1) _ h' hinv'
        refine ⟨⟨x, List.mem_cons_of_mem _ hx, h1, h2, h3⟩, ?_⟩
        rcases hflag with hf | hf
        · left
          cases params with
          | nil => simp [List.lookup] at hl
          | cons a as => rfl
        · right; exact hf
      | none =>
        simp only
        split
        · exact ih (idx + 1) params h' hinv
        · obtain ⟨⟨x, hx, h1, h2, h3⟩, hflag⟩ := ih (idx + 1) params h' hinv
          refine ⟨⟨x, List.mem_cons_of_mem _ hx, h1, h2, h3⟩, ?_⟩
          rcases hflag with hf | hf
          · left; exact hf
          · right; simp [hf]

theorem paramsDict_inv (descs : List Desc) : ∀ k v, (paramsDict descs).lookup k = some v → v.name = k := by
  intro k v h
  rw [paramsDict_lookup] at h
  exact lastDesc_name h

/-- **a parameter or keyword whose type is given in the docstring has its row with that type** — also when it
has no description at all (the table is still shown), and also for the leading `self` / `cls` of a method
(19b8897; before: `type_of_self_old_counterexample`) -/
theorem typed_parameter_row (s : Sig) (fh : FH) (n t : Nat)
    (ht : fh.types.lookup n = some (some ⟨t, .doc⟩)) :
    ∃ r ∈ rows s fh, r.name = n ∧ r.type = some t := by
  obtain ⟨⟨x, hx, hx1, hx2, hx3⟩, hflag⟩ :=
    resolveLoop_typed s n t fh.types 0 (paramsDict fh.descs) ht (paramsDict_inv fh.descs)
  have hxdoc : x.isDocumented = true := by simp [Desc.isDocumented, hx3]
  have hany : (!(paramsDict fh.descs).isEmpty || (resolveLoop s fh.types 0 (paramsDict fh.descs)).2.2) = true := by
    rcases hflag with h | h <;> simp [h]
  have hres : ∃ y ∈ resolveTypes s fh, y.name = n ∧ y.type = some t ∧ y.isDocumented = true := by
    unfold resolveTypes
    simp only [hany, if_true]
    have hxm : x ∈ (resolveLoop s fh.types 0 (paramsDict fh.descs)).1 ++
        (resolveLoop s fh.types 0 (paramsDict fh.descs)).2.1.map (·.2) := by simp [hx]
    split
    · exact ⟨x, hxm, hx1, hx2, hxdoc⟩
    · rename_i k hk
      by_cases hxk : x = k
      · subst hxk
        simp only [hxdoc, Bool.or_true, if_true]
        exact ⟨x, by simp, hx1, hx2, hxdoc⟩
      · split
        · exact ⟨x, by simp [List.mem_erase_of_ne hxk, hxm], hx1, hx2, hxdoc⟩
        · exact ⟨x, by simp [List.mem_erase_of_ne hxk, hxm], hx1, hx2, hxdoc⟩
  obtain ⟨y, hym, hy1, hy2, hy3⟩ := hres
  have hany2 : (resolveTypes s fh).any Desc.isDocumented = true := by
    rw [List.any_eq_true]; exact ⟨y, hym, hy3⟩
  unfold rows
  simp only [hany2, if_true]
  exact ⟨y, hym, hy1, hy2⟩

/-- after `@type n: t` the dict holds that type (later `@type n` fields replace it) -/
theorem types_after_type (fh : FH) (n t : Nat) :
    (step fh (.type n t)).types.lookup n = some (some ⟨t, .doc⟩) := by
  simp [step, lookup_dictSet]

/-- the same from the fields: after any sequence of fields, the last `@param n` / `@keyword n` is `lastDesc` -/
theorem lastDesc_after_param (fh : FH) (n t : Nat) :
    lastDesc (step fh (.param n t)).descs n = some ⟨n, some t, false, none, none⟩ ∧
    lastDesc (step fh (.keyword n t)).descs n = some ⟨n, some t, true, none, none⟩ := by
  constructor <;> simp [step, lastDesc, List.filter_append]

/-- non-vacuity, and the shape of C09-r2-3: `**kw` only, two keywords with a type and an empty description —
the table is shown with both names and both types -/
example :
    rows ⟨[(3, none)], some 3, none⟩ (run ⟨[(3, none)], some 3, none⟩ [.keyword 5 30, .type 5 31, .type 6 32, .keyword 6 33]) =
      [⟨5, some 30, true, some 31, some .doc⟩, ⟨6, some 33, true, some 32, some .doc⟩] := by
  decide

/-- `@type self: …` on a method without `@param self` (19b8897): the row of `self` is shown with its type -/
example :
    rows ⟨[(7, none), (1, none)], none, some 7⟩ (run ⟨[(7, none), (1, none)], none, some 7⟩ [.type 7 30]) =
      [⟨7, none, false, some 30, some .doc⟩, ⟨1, none, false, none, none⟩] := by
  decide

/-- a `type` field is always shown (whatever the name, the signature, the other fields): directly from the fields -/
theorem type_field_shown (s : Sig) (fh : FH) (n t : Nat) :
    ∃ r ∈ rows s (step fh (.type n t)), r.name = n ∧ r.type = some t :=
  typed_parameter_row s _ n t (types_after_type fh n t)

/-- **historical counterexample** (the code before 19b8897, `resolveLoopOld`): the row of `self` was skipped although
its type came from the docstring, and nothing was reported -/
theorem type_of_self_old_counterexample :
    rowsOld ⟨[(7, none), (1, none)], none, some 7⟩ (run ⟨[(7, none), (1, none)], none, some 7⟩ [.type 7 30]) = [] ∧
    (run ⟨[(7, none), (1, none)], none, some 7⟩ [.type 7 30]).reports = [] := by
  decide

end Params

/-! ## 18. `extract_fields`: the last `ivar`/`cvar`/`var` text and the last `type` text of a name are held by its attribute -/
namespace Attrs
open Params (dictSet lookup_dictSet)

def isVar (t : VTag) : Bool := t == .ivar || t == .cvar || t == .var

theorem astep_other_name (st : AState) (i : Nat) (f : AField) (n : Nat) (h : f.name ≠ some n) :
    (astep st i f).attrs.lookup n = st.attrs.lookup n := by
  unfold astep
  split
  · rfl
  · cases hn : f.name with
    | none => rfl
    | some m =>
      have : n ≠ m := fun e => h (by rw [hn, e])
      simp [lookup_dictSet, this]

theorem astep_var (st : AState) (i : Nat) (f : AField) (n : Nat) (hv : isVar f.tag = true) (hn : f.name = some n) :
    ∃ v, (astep st i f).attrs.lookup n = some v ∧ v.doc = some f.text ∧ v.hasKind = true := by
  have h1 : f.tag ≠ .other := by intro e; simp [isVar, e] at hv
  have h2 : f.tag ≠ .type := by intro e; simp [isVar, e] at hv
  simp [astep, h1, h2, hn, lookup_dictSet]

theorem astep_type (st : AState) (i : Nat) (f : AField) (n : Nat) (ht : f.tag = .type) (hn : f.name = some n) :
    ∃ v, (astep st i f).attrs.lookup n = some v ∧ v.type = some f.text := by
  simp [astep, ht, hn, lookup_dictSet]

/-- a later field that is not a `var`-kind field for `n` keeps `doc` and `hasKind` of `n` -/
theorem astep_keeps_doc (st : AState) (i : Nat) (f : AField) (n : Nat) (v : AttrV)
    (hv : st.attrs.lookup n = some v) (hf : ¬ (isVar f.tag = true ∧ f.name = some n)) :
    ∃ v', (astep st i f).attrs.lookup n = some v' ∧ v'.doc = v.doc ∧ v'.hasKind = v.hasKind := by
  by_cases hn : f.name = some n
  · have hnv : isVar f.tag = false := by
      cases h : isVar f.tag with
      | false => rfl
      | true => exact absurd ⟨h, hn⟩ hf
    by_cases ho : f.tag = .other
    · exact ⟨v, by simp [astep, ho, hv], rfl, rfl⟩
    · have ht : f.tag = .type := by
        cases htag : f.tag <;> simp [isVar, htag] at hnv ho ⊢
      simp [astep, ht, hn, lookup_dictSet, hv]
  · exact ⟨v, by rw [astep_other_name st i f n hn]; exact hv, rfl, rfl⟩

theorem astep_keeps_type (st : AState) (i : Nat) (f : AField) (n : Nat) (v : AttrV)
    (hv : st.attrs.lookup n = some v) (hf : ¬ (f.tag = .type ∧ f.name = some n)) :
    ∃ v', (astep st i f).attrs.lookup n = some v' ∧ v'.type = v.type := by
  by_cases hn : f.name = some n
  · have ht : f.tag ≠ .type := fun e => hf ⟨e, hn⟩
    by_cases ho : f.tag = .other
    · exact ⟨v, by simp [astep, ho, hv], rfl⟩
    · simp [astep, ho, ht, hn, lookup_dictSet, hv]
  · exact ⟨v, by rw [astep_other_name st i f n hn]; exact hv, rfl⟩

theorem runFrom_keeps_doc : ∀ (fs : List AField) (st : AState) (i n : Nat) (v : AttrV),
    st.attrs.lookup n = some v → (∀ f ∈ fs, ¬ (isVar f.tag = true ∧ f.name = some n)) →
    ∃ v', (runFrom st i fs).attrs.lookup n = some v' ∧ v'.doc = v.doc ∧ v'.hasKind = v.hasKind := by
  intro fs
  induction fs with
  | nil => intro st i n v hv _; exact ⟨v, hv, rfl, rfl⟩
  | cons f fs ih =>
    intro st i n v hv hfs
    obtain ⟨v1, h1, h2, h3⟩ := astep_keeps_doc st i f n v hv (hfs f (by simp))
    obtain ⟨v2, h4, h5, h6⟩ := ih (astep st i f) (i + 1) n v1 h1 (fun g hg => hfs g (by simp [hg]))
    exact ⟨v2, h4, h5.trans h2, h6.trans h3⟩

theorem runFrom_keeps_type : ∀ (fs : List AField) (st : AState) (i n : Nat) (v : AttrV),
    st.attrs.lookup n = some v → (∀ f ∈ fs, ¬ (f.tag = .type ∧ f.name = some n)) →
    ∃ v', (runFrom st i fs).attrs.lookup n = some v' ∧ v'.type = v.type := by
  intro fs
  induction fs with
  | nil => intro st i n v hv _; exact ⟨v, hv, rfl⟩
  | cons f fs ih =>
    intro st i n v hv hfs
    obtain ⟨v1, h1, h2⟩ := astep_keeps_type st i f n v hv (hfs f (by simp))
    obtain ⟨v2, h4, h5⟩ := ih (astep st i f) (i + 1) n v1 h1 (fun g hg => hfs g (by simp [hg]))
    exact ⟨v2, h4, h5.trans h2⟩

theorem runFrom_append (a b : List AField) : ∀ (st : AState) (i : Nat),
    runFrom st i (a ++ b) = runFrom (runFrom st i a) (i + a.length) b := by
  induction a with
  | nil => intro st i; simp [runFrom]
  | cons f fs ih =>
    intro st i
    simp only [List.cons_append, runFrom, List.length_cons]
    rw [ih]
    congr 1
    omega

/-- **the text of the last `@ivar`/`@cvar`/`@var n` of a module or class docstring is the documentation of the
attribute `n`, and that attribute is displayed** — whatever other fields precede or follow -/
theorem var_text_held (existing : List (Nat × AttrV)) (pre post : List AField) (f : AField) (n : Nat)
    (hv : isVar f.tag = true) (hn : f.name = some n)
    (hpost : ∀ g ∈ post, ¬ (isVar g.tag = true ∧ g.name = some n)) :
    ∃ v, (extract existing (pre ++ f :: post)).attrs.lookup n = some v ∧ v.doc = some f.text ∧ v.hasKind = true := by
  unfold extract
  rw [runFrom_append]
  simp only [runFrom]
  obtain ⟨v1, h1, h2, h3⟩ := astep_var (runFrom ⟨existing, [], [], []⟩ 0 pre) (0 + pre.length) f n hv hn
  obtain ⟨v2, h4, h5, h6⟩ := runFrom_keeps_doc post _ (0 + pre.length + 1) n v1 h1 hpost
  exact ⟨v2, h4, h5.trans h2, h6.trans h3⟩

/-- the text of the last `@type n` is the attribute's `parsed_type` (whether the attribute is displayed is a
separate matter: `Docstring.kept_iff_in_scope`) -/
theorem type_text_held (existing : List (Nat × AttrV)) (pre post : List AField) (f : AField) (n : Nat)
    (ht : f.tag = .type) (hn : f.name = some n)
    (hpost : ∀ g ∈ post, ¬ (g.tag = .type ∧ g.name = some n)) :
    ∃ v, (extract existing (pre ++ f :: post)).attrs.lookup n = some v ∧ v.type = some f.text := by
  unfold extract
  rw [runFrom_append]
  simp only [runFrom]
  obtain ⟨v1, h1, h2⟩ := astep_type (runFrom ⟨existing, [], [], []⟩ 0 pre) (0 + pre.length) f n ht hn
  obtain ⟨v2, h4, h5⟩ := runFrom_keeps_type post _ (0 + pre.length + 1) n v1 h1 hpost
  exact ⟨v2, h4, h5.trans h2⟩

/-- `get_parsed_type`: a `type` field of the variable's own docstring is shown unless `parsed_type` is already set -/
theorem shownType_own (own : List Nat) (t : Nat) (ann : Option Nat) : shownType none (own ++ [t]) ann = some t := by
  simp [shownType]

example : (extract [(1, ⟨none, none, true⟩)] [⟨.type, some 2, 10⟩, ⟨.ivar, some 2, 11⟩, ⟨.type, some 3, 14⟩, ⟨.var, none, 13⟩]).attrs =
      [(1, ⟨none, none, true⟩), (2, ⟨some 11, some 10, true⟩), (3, ⟨none, some 14, false⟩)] := by
  decide

end Attrs

/-! ## 19. napoleon `_dedent`: the same number of columns from every line, never a non-blank character -/
namespace Napoleon
open Epytext (pyIsSpace Line mem_takeWhile_true)

theorem loop_some (ls : List Line) : ∀ a : Nat, ∃ k, minIndentLoop ls (some a) = some k ∧ k ≤ a := by
  induction ls with
  | nil => intro a; exact ⟨a, rfl, Nat.le_refl _⟩
  | cons l ls ih =>
    intro a
    simp only [minIndentLoop]
    split
    · exact ih a
    · obtain ⟨k, hk, hle⟩ := ih (if getIndent l < a then getIndent l else a)
      refine ⟨k, hk, ?_⟩
      split at hle <;> omega

theorem loop_le_mem (ls : List Line) : ∀ (m : Option Nat) (l : Line), l ∈ ls → l ≠ [] →
    ∃ k, minIndentLoop ls m = some k ∧ k ≤ getIndent l := by
  induction ls with
  | nil => intro m l h; simp at h
  | cons x xs ih =>
    intro m l hl hne
    simp only [minIndentLoop]
    rcases List.mem_cons.mp hl with rfl | hmem
    · have hx : l.isEmpty = false := by cases l <;> simp_all
      simp only [hx, Bool.false_eq_true, if_false]
      cases m with
      | none => exact loop_some xs (getIndent l)
      | some a =>
        obtain ⟨k, hk, hle⟩ := loop_some xs (if getIndent l < a then getIndent l else a)
        refine ⟨k, hk, ?_⟩
        split at hle <;> omega
    · split
      · exact ih m l hmem hne
      · cases m with
        | none => exact ih _ l hmem hne
        | some a => exact ih _ l hmem hne

/-- the common amount `_dedent` removes is at most the indentation of every non-empty line -/
theorem getMinIndent_le (lines : List Line) (l : Line) (hl : l ∈ lines) (hne : l ≠ []) :
    getMinIndent lines ≤ getIndent l := by
  obtain ⟨k, hk, hle⟩ := loop_le_mem lines none l hl hne
  simp [getMinIndent, hk, hle]

/-- **`_dedent` never removes a non-blank character**: from every line it drops the same number of columns
(`getMinIndent lines`, fewer only when the line is shorter), and what it drops is white space -/
theorem dedent_removes_only_space (lines : List Line) (l : Line) (hl : l ∈ lines) :
    (l.take (getMinIndent lines)).all pyIsSpace = true ∧
    l = l.take (getMinIndent lines) ++ l.drop (getMinIndent lines) ∧
    l.drop (getMinIndent lines) ∈ dedent lines := by
  refine ⟨?_, (List.take_append_drop _ _).symm, List.mem_map.mpr ⟨l, hl, rfl⟩⟩
  by_cases hne : l = []
  · subst hne; simp
  · have hle := getMinIndent_le lines l hl hne
    have hsplit := List.takeWhile_append_dropWhile (p := pyIsSpace) (l := l)
    rw [List.all_eq_true]
    intro x hx
    have : l.take (getMinIndent lines) = (l.takeWhile pyIsSpace).take (getMinIndent lines) := by
      have h2 : (l.takeWhile pyIsSpace ++ l.dropWhile pyIsSpace).take (getMinIndent lines) =
          (l.takeWhile pyIsSpace).take (getMinIndent lines) := List.take_append_of_le_length hle
      rwa [hsplit] at h2
    rw [this] at hx
    exact mem_takeWhile_true pyIsSpace l x (List.mem_of_mem_take hx)

/-- the shape of C09-r3-1: the continuation block opens deeper than a later line; the later line keeps all its
characters (the first line's indentation is NOT the amount removed) -/
example :
    dedent ["        literal".toList, "".toList, "    Larger values are slower".toList] =
      ["    literal".toList, "".toList, "Larger values are slower".toList] ∧
    getInitialIndent ["        literal".toList, "".toList, "    Larger".toList] = 8 ∧
    getMinIndent ["        literal".toList, "".toList, "    Larger".toList] = 4 := by
  decide

end Napoleon

/-! ## 20. an inherited property docstring is parsed again for the inheriting object: nothing was routed away -/
namespace Property

theorem description_none_of_body (fs : List PField) : ∀ st : PState, st.hasBody = true → st.description = none →
    (fs.foldl pstep st).description = none := by
  induction fs with
  | nil => intro st _ h; exact h
  | cons f fs ih =>
    intro st hb hd
    have h1 : (pstep st f).hasBody = true := by unfold pstep; cases f.tag <;> simp [hb]
    have h2 : (pstep st f).description = none := by unfold pstep; cases f.tag <;> simp [hb, hd]
    exact ih _ h1 h2

/-- **an inherited property docstring holds every field** (full since 5a184d3), with or without a description of its own -/
theorem inherited_holds_all (docHasBody : Bool) (fields : List PField) (f : PField) (hf : f ∈ fields) :
    f ∈ (inheritedView docHasBody fields).otherFields := hf

/-- **historical counterexample** (the code before 5a184d3, `inheritedViewOld`): documented by `@return:` only, the
override without docstring inherited nothing -/
theorem inherited_holds_all_old_counterexample :
    (inheritedViewOld false [⟨.ret, 1, true⟩, ⟨.rtype, 2, true⟩]).otherFields = [] := by
  decide

/-- whereas the defining property's own view has lost `rtype` from its fields (it became the type): reusing that
object for the inheriting property would lose the text there (seeded C09-r3-2) -/
example : (handle true [⟨.rtype, 2, true⟩, ⟨.other, 3, true⟩]).otherFields = [⟨.other, 3, true⟩] ∧
    (inheritedView true [⟨.rtype, 2, true⟩, ⟨.other, 3, true⟩]).otherFields = [⟨.rtype, 2, true⟩, ⟨.other, 3, true⟩] := by
  decide

end Property

/-! ## 21. duplicates of single-valued fields are reported (08a4c10) -/
namespace Docstring
open Fields

theorem runPair_body_isSome (es : List PairEvent) : ∀ init : Option PairDesc,
    ((runPair init es).bind (·.body)).isSome = ((init.bind (·.body)).isSome || es.any fun e => match e with | .desc _ => true | .type _ => false) := by
  induction es with
  | nil => intro init; simp [runPair]
  | cons e es ih =>
    intro init
    have := ih (pairStep init e)
    unfold runPair at this ⊢
    rw [List.foldl_cons, this]
    cases e <;> cases init <;> simp [pairStep]

theorem runPair_type_isSome (es : List PairEvent) : ∀ init : Option PairDesc,
    ((runPair init es).bind (·.type)).isSome = ((init.bind (·.type)).isSome || es.any fun e => match e with | .type _ => true | .desc _ => false) := by
  induction es with
  | nil => intro init; simp [runPair]
  | cons e es ih =>
    intro init
    have := ih (pairStep init e)
    unfold runPair at this ⊢
    rw [List.foldl_cons, this]
    cases e <;> cases init <;> simp [pairStep]

/-- **a `@return` / `@yield` (resp. `@rtype` / `@ytype`) that replaces an earlier one is reported**: after any fields,
the handler reports the field exactly when a field of the same kind came before -/
theorem pair_duplicate_reported (es : List PairEvent) (t : Nat) :
    pairDup (runPair none es) (.desc t) = (es.any fun e => match e with | .desc _ => true | .type _ => false) ∧
    pairDup (runPair none es) (.type t) = (es.any fun e => match e with | .type _ => true | .desc _ => false) := by
  constructor
  · simpa [pairDup] using runPair_body_isSome es none
  · simpa [pairDup] using runPair_type_isSome es none

example : pairDupCount none [.desc 1, .type 2, .desc 3, .type 4] = 2 ∧ pairDupCount none [.type 2, .desc 1] = 0 := by decide

end Docstring

namespace Params

/-- a second `@type n` of the docstring is reported (the first one's text is replaced) -/
theorem type_overwrite_reported (fh : FH) (n t t0 : Nat) (h : fh.types.lookup n = some (some ⟨t0, .doc⟩)) :
    (ReportKind.duplicateType, n) ∈ (step fh (.type n t)).reports := by
  simp [step, h]

end Params

namespace Attrs

/-- a second `@ivar`/`@cvar`/`@var n` (resp. `@type n`) of a module or class docstring is reported -/
theorem var_overwrite_reported (st : AState) (i n : Nat) (f : AField) (ho : f.tag ≠ .other) (hn : f.name = some n)
    (hseen : (n, decide (f.tag = .type)) ∈ st.seen) : i ∈ (astep st i f).duplicates := by
  simp [astep, ho, hn, hseen]

end Attrs
