/-
C09 — rendering a docstring keeps its text.

Theorems over `PdModel.Epytext` (model of pydoctor/epydoc/markup/epytext.py `_colorize`,
`_colorize_link`, `_tokenize_literal`, `_tokenize_doctest`; pydoctor/epydoc/doctest.py splice loops;
plaintext `to_stan`; the `FieldHandler` dispatch table of epydoc2stan.py), with pydoctor's own data
tables (`Generated.Tables`, re-extracted from the repository under test on every run).

1. `Epytext.colorize_conserves` — when `_colorize` emits no error, the text `_to_node` makes visible
   is `strip text`, where `strip` (PdModel/Epytext.lean) is a one-pass, character-by-character
   recogniser without tree or indices: tag letters and their braces removed, `E{}`/`S{}` decoded,
   link targets dropped; nothing else changed, in order.
2. `Epytext.literal_block_exact`, `Epytext.doctest_block_exact` — block slicing.
3. `Doctest.splice_conserves`, `Doctest.doctest_body_text`, `…_conserves_partial`, `…_counterexample`.
4. `Epytext.plaintext_exact`.
5. `Docstring.every_tag_rendered_or_reported_partial` / `_counterexample` / `dropped_iff…` over the
   generated handler table.
-/
import PdModel.Epytext
import PdModel.EpytextIO

namespace Epytext

/-! ## 0. tables -/

/-- every symbol `_colorize` accepts (`SYMBOLS`) has a code point in `SYMBOL_TO_CODEPOINT`: `_to_node`
never raises `KeyError` -/
def Cfg.Total (T : Cfg) : Prop := ∀ s, T.symbols.contains s = true → (T.codepoints.lookup s).isSome = true

theorem symbols_total :
    Generated.Epytext.symbols.all (fun s => (Generated.Epytext.codepoints.lookup s).isSome) = true := by
  decide +kernel

theorem liveCfg_total (extra : List Char) : (liveCfg extra).Total := by
  intro s hs
  have h := symbols_total
  rw [List.all_eq_true] at h
  exact h s (by simpa [liveCfg] using hs)

/-- the literal tables of the model are today's tables of pydoctor -/
theorem tables_current :
    Generated.Epytext.colorizingTags.map (fun p => (colorizingTag p.1).map Tag.show) =
      Generated.Epytext.colorizingTags.map (fun p => some p.2) ∧
    Generated.Epytext.colorizingTags.map (·.1) = ['C', 'M', 'I', 'B', 'U', 'L', 'E', 'S'] ∧
    Generated.Epytext.escapes = escapes.map (fun p => (p.1, [p.2])) ∧
    Generated.Epytext.linkTags = [Tag.link.show, Tag.uri.show] := by
  refine ⟨?_, ?_, ?_, ?_⟩ <;> decide

/-! ## 1. `visible` -/

theorem visibleList_append {T : Cfg} {a b : List Inl} {x y : List Char}
    (ha : visibleList T a = some x) (hb : visibleList T b = some y) :
    visibleList T (a ++ b) = some (x ++ y) := by
  induction a generalizing x with
  | nil => simp [visibleList] at ha; subst ha; simpa using hb
  | cons c cs ih =>
    simp only [visibleList] at ha
    cases hc : visible T c with
    | none => simp [hc] at ha
    | some vc =>
      cases hcs : visibleList T cs with
      | none => simp [hc, hcs] at ha
      | some vcs =>
        simp [hc, hcs] at ha
        subst ha
        simp [visibleList, hc, ih hcs, List.append_assoc]

theorem visibleList_single_text {T : Cfg} (s : List Char) : visibleList T [.text s] = some s := by
  simp [visibleList, visible]

theorem visibleList_single {T : Cfg} {x : Inl} {v : List Char} (h : visible T x = some v) :
    visibleList T [x] = some v := by
  simp [visibleList, h]

/-! ## 2. the abstraction from `_colorize`'s stack to the text buffers of `strip` -/

/-- the last child when it is a string -/
def lastText (cs : List Inl) : Option (List Char) :=
  match cs.getLast? with
  | some (.text s) => some s
  | _ => none

/-- the children before that string -/
def butLastText (cs : List Inl) : List Inl :=
  match cs.getLast? with
  | some (.text _) => cs.dropLast
  | _ => cs

theorem lastText_snoc_text (cs : List Inl) (s : List Char) : lastText (cs ++ [.text s]) = some s := by
  simp [lastText]

theorem butLastText_snoc_text (cs : List Inl) (s : List Char) : butLastText (cs ++ [.text s]) = cs := by
  simp [butLastText]

theorem lastText_snoc_elem (cs : List Inl) (t : Tag) (k : List Inl) : lastText (cs ++ [.elem t k]) = none := by
  simp [lastText]

theorem butLastText_snoc_elem (cs : List Inl) (t : Tag) (k : List Inl) :
    butLastText (cs ++ [.elem t k]) = cs ++ [.elem t k] := by
  simp [butLastText]

theorem lastText_nil : lastText [] = none := rfl
theorem butLastText_nil : butLastText [] = [] := rfl

theorem last_cases (cs : List Inl) :
    (∃ cs' s, cs = cs' ++ [.text s]) ∨ (lastText cs = none ∧ butLastText cs = cs) := by
  cases h : cs.getLast? with
  | none => right; simp [lastText, butLastText, h]
  | some x =>
    cases x with
    | text s =>
      left
      obtain ⟨cs', rfl⟩ := List.getLast?_eq_some_iff.mp h
      exact ⟨cs', s, rfl⟩
    | elem t k => right; simp [lastText, butLastText, h]

def okTag : Tag → Bool
  | .unknown | .name | .target => false
  | _ => true

def kindOfTag : Tag → Kind
  | .litbrace => .lit | .escape => .esc | .symbol => .sym | .uri => .lnk | .link => .lnk
  | _ => .plain

structure FrameRel (T : Cfg) (f : Frame) (sf : SFrame) : Prop where
  kind : sf.kind = kindOfTag f.tag
  ok : okTag f.tag = true
  last : sf.last = lastText f.children
  pre : visibleList T (butLastText f.children) = some sf.pre

theorem FrameRel.all {T : Cfg} {f : Frame} {sf : SFrame} (h : FrameRel T f sf) :
    visibleList T f.children = some sf.all := by
  rcases last_cases f.children with ⟨cs', s, hc⟩ | ⟨hl, hb⟩
  · have hp := h.pre
    have hl := h.last
    rw [hc, butLastText_snoc_text] at hp
    rw [hc, lastText_snoc_text] at hl
    rw [hc, visibleList_append hp (visibleList_single_text s)]
    simp [SFrame.all, hl]
  · have hp := h.pre
    rw [hb] at hp
    simp [SFrame.all, h.last, hl, hp]

theorem rel_push_text {T : Cfg} {f : Frame} {sf : SFrame} (h : FrameRel T f sf) (s : List Char) :
    FrameRel T (f.push (.text s)) (sf.addText s) where
  kind := by simpa [Frame.push, SFrame.addText] using h.kind
  ok := by simpa [Frame.push] using h.ok
  last := by simp [Frame.push, SFrame.addText, lastText_snoc_text]
  pre := by simpa [Frame.push, SFrame.addText, butLastText_snoc_text] using h.all

theorem rel_push_elem {T : Cfg} {f : Frame} {sf : SFrame} (h : FrameRel T f sf) (t : Tag) (k : List Inl)
    {v : List Char} (hv : visible T (.elem t k) = some v) :
    FrameRel T (f.push (.elem t k)) (sf.addVis v) where
  kind := by simpa [Frame.push, SFrame.addVis] using h.kind
  ok := by simpa [Frame.push] using h.ok
  last := by simp [Frame.push, SFrame.addVis, lastText_snoc_elem]
  pre := by
    simp only [Frame.push, SFrame.addVis, butLastText_snoc_elem]
    exact visibleList_append h.all (visibleList_single hv)

/-- recording a run of ordinary characters -/
theorem rel_flush {T : Cfg} {f : Frame} {sf : SFrame} (h : FrameRel T f sf) (cur : List Char) :
    FrameRel T (if cur ≠ [] then f.push (.text cur) else f) (sf.flush cur) := by
  by_cases hc : cur = []
  · simp [hc, SFrame.flush, h]
  · have : cur.isEmpty = false := by cases cur <;> simp_all
    simp [hc, SFrame.flush, this, rel_push_text h cur]

theorem rel_new {T : Cfg} (t : Tag) (e : Nat) (k : Kind) (hk : k = kindOfTag t) (ho : okTag t = true) :
    FrameRel T ⟨t, [], e⟩ ⟨k, [], none⟩ where
  kind := hk
  ok := ho
  last := rfl
  pre := by simp [butLastText_nil, visibleList]

/-! ## 3. `_colorize` with the slices replaced by the run of characters since the last brace -/

def litOpen (e : Nat) (cur : List Char) (st : St) : St :=
  ⟨⟨.litbrace, [], e⟩, (if cur ≠ [] then st.top.push (.text cur) else st.top) :: st.rest, st.errs⟩

def open2 (e : Nat) (cur : List Char) (st : St) : St :=
  match cur.getLast? with
  | none => litOpen e cur st
  | some c =>
    if isCapital c then
      let top := if cur.dropLast ≠ [] then st.top.push (.text cur.dropLast) else st.top
      match colorizingTag c with
      | none => ⟨⟨.unknown, [], e⟩, top :: st.rest, st.errs ++ [⟨.unknownTag, e - 1⟩]⟩
      | some t => ⟨⟨t, [], e⟩, top :: st.rest, st.errs⟩
    else litOpen e cur st

def close2 (T : Cfg) (e : Nat) (cur : List Char) (st : St) : St :=
  match st.rest with
  | [] => { st with errs := st.errs ++ [⟨.unbalancedClose, e⟩] }
  | parent :: rest =>
    let top := if cur ≠ [] then st.top.push (.text cur) else st.top
    let r := closeElem T top e
    { top := { parent with children := parent.children ++ r.1 }, rest := rest, errs := st.errs ++ r.2 }

def finish2 (cur : List Char) (st : St) : Result :=
  let top := if cur ≠ [] then st.top.push (.text cur) else st.top
  let errs := if st.rest.isEmpty then st.errs else st.errs ++ [⟨.unbalancedOpen, top.openAt⟩]
  let root := st.rest.foldl (fun child parent => parent.push (.elem child.tag child.children)) top
  ⟨.elem .para root.children, errs⟩

def scan2 (T : Cfg) : List Char → Nat → List Char → St → Result
  | [], _, cur, st => finish2 cur st
  | c :: cs, i, cur, st =>
    if c = '{' then scan2 T cs (i + 1) [] (open2 i cur st)
    else if c = '}' then scan2 T cs (i + 1) [] (close2 T i cur st)
    else scan2 T cs (i + 1) (cur ++ [c]) st


/-! ## 4. one step of `_colorize` against one step of `strip` -/

def StRel (T : Cfg) (st : St) (ss : SSt) : Prop :=
  FrameRel T st.top ss.top ∧ List.Forall₂ (FrameRel T) st.rest ss.rest

theorem tag_kind {c : Char} {t : Tag} (h : colorizingTag c = some t) :
    kindOfLetter c = kindOfTag t ∧ okTag t = true := by
  unfold colorizingTag at h
  split at h <;> simp at h <;> subst h <;> exact ⟨by decide, by decide⟩

theorem append_singleton_ne_nil {α} (l : List α) (a : α) : l ++ [a] ≠ [] := by simp

theorem sim_open {T : Cfg} {st : St} {ss : SSt} (h : st.errs = [] → StRel T st ss) (i : Nat) :
    ((open2 i ss.cur st).errs = [] → StRel T (open2 i ss.cur st) (stepS T ss '{')) ∧
    (stepS T ss '{').cur = [] := by
  unfold open2 stepS litOpen
  simp only [if_true]
  cases hcur : ss.cur.getLast? with
  | none =>
    have hc : ss.cur = [] := List.getLast?_eq_none_iff.mp hcur
    refine ⟨fun he => ?_, rfl⟩
    obtain ⟨h1, h2⟩ := h he
    refine ⟨rel_new _ _ _ rfl rfl, ?_⟩
    simpa [hc] using List.Forall₂.cons h1 h2
  | some l =>
    by_cases hcap : isCapital l = true
    · simp only [hcap, if_true]
      cases htag : colorizingTag l with
      | none => exact ⟨fun he => absurd he (append_singleton_ne_nil _ _), rfl⟩
      | some t =>
        refine ⟨fun he => ?_, rfl⟩
        obtain ⟨h1, h2⟩ := h he
        obtain ⟨hk, ho⟩ := tag_kind htag
        exact ⟨rel_new _ _ _ hk ho, List.Forall₂.cons (rel_flush h1 _) h2⟩
    · simp only [hcap, Bool.false_eq_true, if_false]
      refine ⟨fun he => ?_, rfl⟩
      obtain ⟨h1, h2⟩ := h he
      exact ⟨rel_new _ _ _ rfl rfl, List.Forall₂.cons (rel_flush h1 _) h2⟩

theorem escapes_lookup (x : List Char) :
    escapes.lookup x = if x = ['l', 'b'] then some '{' else if x = ['r', 'b'] then some '}' else none := by
  by_cases h1 : x = ['l', 'b']
  · subst h1; rfl
  · by_cases h2 : x = ['r', 'b']
    · subst h2; rfl
    · have e1 : (x == ['l', 'b']) = false := by simpa using h1
      have e2 : (x == ['r', 'b']) = false := by simpa using h2
      simp [escapes, List.lookup, e1, e2, h1, h2]

theorem rel_set_children {T : Cfg} {parent : Frame} {x : Inl} :
    ({ parent with children := parent.children ++ [x] } : Frame) = parent.push x := rfl

/-- what a successful `_colorize_link` leaves: `[name, target]`, the name being the children with the
`<target>` cut off the last string (explicit target) or the children themselves (implicit target) -/
theorem colorizeLink_ok {T : Cfg} {tag : Tag} {cs : List Inl} {e : Nat}
    (h : (colorizeLink T tag cs e).2 = []) :
    ∃ vars t, (colorizeLink T tag cs e).1 = .elem tag [.elem .name vars, .elem .target [.text t]] ∧
      ((∃ cs' last txt tgt, cs = cs' ++ [.text last] ∧ splitTarget last = some (txt, tgt) ∧
          vars = cs' ++ [.text txt]) ∨
       (∃ last, cs = [.text last] ∧ splitTarget last = none ∧ vars = cs)) := by
  unfold colorizeLink at h ⊢
  cases hl : cs.getLast? with
  | none => simp [hl] at h
  | some x =>
    obtain ⟨cs', rfl⟩ := List.getLast?_eq_some_iff.mp hl
    cases x with
    | elem t k => simp at h
    | text last =>
      simp only [List.getLast?_concat, List.dropLast_concat] at h ⊢
      cases hs : splitTarget last with
      | some p =>
        obtain ⟨txt, tgt⟩ := p
        simp only [hs] at h ⊢
        by_cases hu : tag = .uri
        · simp only [hu, if_true] at h ⊢
          exact ⟨_, _, rfl, Or.inl ⟨cs', last, txt, tgt, rfl, hs, rfl⟩⟩
        · simp only [hu, if_false] at h ⊢
          split at h
          · simp at h
          · rename_i hv
            simp only [hv, if_false]
            exact ⟨_, _, rfl, Or.inl ⟨cs', last, txt, tgt, rfl, hs, rfl⟩⟩
      | none =>
        simp only [hs] at h ⊢
        cases cs' with
        | cons a as => simp at h
        | nil =>
          simp only [List.nil_append] at h ⊢
          by_cases hu : tag = .uri
          · simp only [hu, if_true] at h ⊢
            exact ⟨_, _, rfl, Or.inr ⟨last, rfl, hs, rfl⟩⟩
          · simp only [hu, if_false] at h ⊢
            split at h
            · simp at h
            · rename_i hv
              simp only [hv, if_false]
              exact ⟨_, _, rfl, Or.inr ⟨last, rfl, hs, rfl⟩⟩

theorem link_rel {T : Cfg} {tag : Tag} (htag : tag = .uri ∨ tag = .link) {f : Frame} {sf : SFrame}
    {parent : Frame} {sp : SFrame} (hf : FrameRel T f sf) (hp : FrameRel T parent sp) (e : Nat)
    (hr : (colorizeLink T tag f.children e).2 = []) :
    FrameRel T (parent.push (colorizeLink T tag f.children e).1) (sp.addVis (linkText sf)) := by
  obtain ⟨vars, t, h1, h2⟩ := colorizeLink_ok hr
  rw [h1]
  apply rel_push_elem hp
  have hvis : visible T (.elem tag [.elem .name vars, .elem .target [.text t]]) = visibleList T vars := by
    rcases htag with rfl | rfl <;> simp [visible]
  rw [hvis]
  rcases h2 with ⟨cs', last, txt, tgt, hc, hs, hv⟩ | ⟨last, hc, hs, hv⟩
  · have hl := hf.last
    have hpre := hf.pre
    rw [hc, lastText_snoc_text] at hl
    rw [hc, butLastText_snoc_text] at hpre
    rw [hv, visibleList_append hpre (visibleList_single_text txt)]
    simp [linkText, hl, hs]
  · have hl := hf.last
    have hpre := hf.pre
    rw [hc] at hl hpre
    have hl' : sf.last = some last := by simpa [lastText] using hl
    have hp' : sf.pre = [] := by simpa [butLastText, visibleList] using hpre.symm
    rw [hv, hc, visibleList_single_text]
    simp [linkText, hl', hs, SFrame.all, hp']

theorem closeElem_rel {T : Cfg} (hT : T.Total) {f : Frame} {sf : SFrame} {parent : Frame} {sp : SFrame}
    (hf : FrameRel T f sf) (hp : FrameRel T parent sp) (e : Nat) (hr : (closeElem T f e).2 = []) :
    FrameRel T { parent with children := parent.children ++ (closeElem T f e).1 } (closeS T sf sp) := by
  have hk := hf.kind
  have hok := hf.ok
  have hall := hf.all
  unfold closeElem at hr ⊢
  unfold closeS
  cases htag : f.tag <;> simp only [htag, kindOfTag, okTag] at hk hok hr ⊢ <;> simp only [hk]
  case para => exact rel_push_elem hp _ _ (by simpa [visible] using hall)
  case code => exact rel_push_elem hp _ _ (by simpa [visible] using hall)
  case math => exact rel_push_elem hp _ _ (by simpa [visible] using hall)
  case italic => exact rel_push_elem hp _ _ (by simpa [visible] using hall)
  case bold => exact rel_push_elem hp _ _ (by simpa [visible] using hall)
  case unknown => simp at hok
  case name => simp at hok
  case target => simp at hok
  case uri => exact link_rel (Or.inl rfl) hf hp e hr
  case link => exact link_rel (Or.inr rfl) hf hp e hr
  case litbrace =>
    have hpa := hp.all
    refine ⟨hp.kind, hp.ok, ?_, ?_⟩
    · show some ['}'] = lastText (parent.children ++ ([Inl.text ['{']] ++ f.children ++ [Inl.text ['}']]))
      rw [← List.append_assoc, lastText_snoc_text]
    · show visibleList T (butLastText (parent.children ++ ([Inl.text ['{']] ++ f.children ++ [Inl.text ['}']]))) = _
      rw [← List.append_assoc, butLastText_snoc_text, ← List.append_assoc]
      rw [visibleList_append (visibleList_append hpa (visibleList_single_text _)) hall]
      simp
  case escape =>
    split at hr
    · rename_i escp hch
      have hl : sf.last = some escp := by simpa [hch, lastText] using hf.last
      have hp0 : sf.pre = [] := by simpa [hch, butLastText, visibleList] using hf.pre.symm
      have hal : sf.all = escp := by simp [SFrame.all, hl, hp0]
      simp only [hch, hal]
      rw [escapes_lookup] at hr ⊢
      by_cases h1 : escp = ['l', 'b']
      · simp only [h1, if_true]
        exact rel_push_text hp _
      · by_cases h2 : escp = ['r', 'b']
        · subst h2
          simp only [decodeEscape]
          exact rel_push_text hp _
        · simp only [h1, h2, if_false] at hr ⊢
          split at hr
          · simp only [decodeEscape, h1, h2, if_false]
            exact rel_push_text hp _
          · simp at hr
    · simp at hr
  case symbol =>
    split at hr
    · rename_i symb hch
      have hl : sf.last = some symb := by simpa [hch, lastText] using hf.last
      have hp0 : sf.pre = [] := by simpa [hch, butLastText, visibleList] using hf.pre.symm
      have hal : sf.all = symb := by simp [SFrame.all, hl, hp0]
      simp only [hch, hal]
      split at hr
      · rename_i hmem
        simp only [hmem, if_true]
        have hsome := hT symb hmem
        cases hcp : T.codepoints.lookup symb with
        | none => simp [hcp] at hsome
        | some cp =>
          apply rel_push_elem hp
          simp [visible, symbolChar, hcp]
      · simp at hr
    · simp at hr

theorem sim_close {T : Cfg} (hT : T.Total) {st : St} {ss : SSt} (h : st.errs = [] → StRel T st ss) (i : Nat) :
    ((close2 T i ss.cur st).errs = [] → StRel T (close2 T i ss.cur st) (stepS T ss '}')) ∧
    (stepS T ss '}').cur = [] := by
  have hne : ('}' = '{') = False := by decide
  unfold close2 stepS
  simp only [hne, if_false, if_true]
  constructor
  · cases hrest : st.rest with
    | nil => intro he; exact absurd he (append_singleton_ne_nil _ _)
    | cons parent rest =>
      intro he
      simp only at he
      have he1 : st.errs = [] := (List.append_eq_nil_iff.mp he).1
      have he2 := (List.append_eq_nil_iff.mp he).2
      obtain ⟨h1, h2⟩ := h he1
      rw [hrest] at h2
      cases h2 with
      | cons hp hr =>
        rename_i sp sr hss
        simp only
        exact ⟨closeElem_rel hT (rel_flush h1 _) hp i he2, hr⟩
  · cases ss.rest <;> rfl

/-! ## 5. the whole run -/

theorem scan2_errs (T : Cfg) : ∀ (cs : List Char) (i : Nat) (cur : List Char) (st : St),
    (scan2 T cs i cur st).errs = [] → st.errs = [] := by
  intro cs
  induction cs with
  | nil =>
    intro i cur st h
    simp only [scan2, finish2] at h
    split at h
    · exact h
    · exact (List.append_eq_nil_iff.mp h).1
  | cons c cs ih =>
    intro i cur st h
    simp only [scan2] at h
    split at h
    · have := ih _ _ _ h
      unfold open2 litOpen at this
      split at this
      · exact this
      · split at this
        · split at this
          · exact (List.append_eq_nil_iff.mp this).1
          · exact this
        · exact this
    · split at h
      · have := ih _ _ _ h
        unfold close2 at this
        split at this <;> exact (List.append_eq_nil_iff.mp this).1
      · exact ih _ _ _ h

/-- the text `strip` returns from a state -/
def finalS (s : SSt) : List Char :=
  (s.rest.foldl (fun child parent => parent.addVis child.all) (s.top.flush s.cur)).all

theorem sim (T : Cfg) (hT : T.Total) : ∀ (cs : List Char) (i : Nat) (st : St) (ss : SSt),
    (st.errs = [] → StRel T st ss) →
    (scan2 T cs i ss.cur st).errs = [] →
    visible T (scan2 T cs i ss.cur st).tree = some (finalS (cs.foldl (stepS T) ss)) := by
  intro cs
  induction cs with
  | nil =>
    intro i st ss h he
    simp only [scan2, finish2] at he ⊢
    have hrest : st.rest = [] := by
      cases hr : st.rest with
      | nil => rfl
      | cons a b => simp [hr] at he
    have he' : st.errs = [] := by simpa [hrest] using he
    obtain ⟨h1, h2⟩ := h he'
    rw [hrest] at h2
    cases h2
    rename_i hss
    simp only [hrest, List.foldl_nil, finalS, ← hss]
    have := (rel_flush h1 ss.cur).all
    simpa [visible] using this
  | cons c cs ih =>
    intro i st ss h he
    simp only [scan2, List.foldl_cons] at he ⊢
    by_cases h1 : c = '{'
    · subst h1
      simp only [if_true] at he ⊢
      obtain ⟨hrel, hcur⟩ := sim_open h i
      have := ih (i + 1) (open2 i ss.cur st) (stepS T ss '{') hrel (by rw [hcur]; exact he)
      rw [hcur] at this
      exact this
    · simp only [h1, if_false] at he ⊢
      by_cases h2 : c = '}'
      · subst h2
        simp only [if_true] at he ⊢
        obtain ⟨hrel, hcur⟩ := sim_close hT h i
        have := ih (i + 1) (close2 T i ss.cur st) (stepS T ss '}') hrel (by rw [hcur]; exact he)
        rw [hcur] at this
        exact this
      · simp only [h2, if_false] at he ⊢
        have hstep : stepS T ss c = { ss with cur := ss.cur ++ [c] } := by simp [stepS, h1, h2]
        have := ih (i + 1) st { ss with cur := ss.cur ++ [c] } h he
        rw [hstep]
        exact this

end Epytext
