/-
C04: pydoctor's name resolution on a finished, well-behaved state agrees with the static relation
`Jpy` (`expand_sound`, `resolve_sound_state`).
-/
import PdProps.C04b

namespace Imports
open Registry

theorem expandLoop_found {e : Names.Env} {i : Nat} {first : Bool} {y : Name} {rest : List Name} {fn : Path}
    (hc : Names.componentName e i first y = some fn) (hne : (decide (fn = [y]) && !first) = false) :
    Names.expandLoop e i first (y :: rest) =
      match Names.objFor e fn with
      | none => some (fn ++ rest)
      | some nxt => match rest with
        | [] => some fn
        | _ :: _ => Names.expandLoop e nxt false rest := by
  rw [Names.expandLoop]
  simp only [hc, hne, Bool.false_eq_true, if_false]
  cases Names.objFor e fn <;> cases rest <;> rfl

theorem expandLoop_notfound {e : Names.Env} {i : Nat} {y : Name} {rest : List Name} {o : Obj} {op : Path}
    (hc : Names.componentName e i false y = some [y]) (ho : getObj e.st i = some o) (hcls : o.cls ≠ .cls)
    (hp : path e.st i = some op) :
    Names.expandLoop e i false (y :: rest) = some (op ++ [y] ++ rest) := by
  rw [Names.expandLoop]
  simp [hc, ho, hcls, hp]

theorem finalBases_nil {proj : Project} {s : St} (hI : PdInv proj s) (c : Nat) : finalBases s c = [] := by
  unfold finalBases
  cases hd : dget s.cinfo c with
  | none => rfl
  | some ci =>
    obtain ⟨h1, h2, h3⟩ := hI.cinfo c ci hd
    simp [h1]

/-- without base classes every class is its own linearisation -/
theorem mroOf_final {proj : Project} {s : St} (hI : PdInv proj s) (c : Nat) : Names.mroOf (finalEnv s) c = [c] := by
  unfold Names.mroOf finalEnv
  simp only
  cases hd : dget (finalMro s) c with
  | none => rfl
  | some v =>
    unfold finalMro at hd
    have := dget_map_key (fun c => match Mro.mroFuel (finalBases s) (s.reg.objs.length + 1) c with
      | some l => l
      | none => Mro.allbasesFuel (finalBases s) (fun _ => false) (s.reg.objs.length + 1) c) _ _ _ hd
    simp only [Option.getD_some, this, Mro.mroFuel, finalBases_nil hI c, List.isEmpty_nil, if_true]

/-- the object pydoctor creates for a `def` / assignment is not a scope Python can look into -/
theorem no_jpy_nonclass {proj : Project} {rank : List Nat} (wf : WFacts proj rank) {S : Site} {c : Cls}
    (hk : ObjKind proj S c) (hc : canContainImports c = false) {y : Name} {w : SVal} : ¬ Jpy proj S [y] w := by
  intro hj
  cases hk with
  | mod hm => unfold modCls at hc; split at hc <;> simp [canContainImports] at hc
  | @dfn m cp b0 st n c hb0 hst hkind =>
    rcases jpy_inv wf hj with ⟨hS, _⟩ | ⟨b, st', hb, _, _, _⟩
    · simp at hS
    · have hb' := siteBody_bodyAt hb
      simp only at hb'
      rw [bodyAt_append] at hb'
      have hb0' := siteBody_bodyAt hb0
      simp only at hb0'
      rw [hb0'] at hb'
      simp only [Option.bind_some, bodyAt] at hb'
      cases hf : findClass b0 n with
      | none => simp [hf] at hb'
      | some b1 =>
        obtain ⟨bs, hm⟩ := findClass_mem hf
        have := same_stmt wf hb0 hst hm (x := n) (stmtNames_of_explicit (defName_explicit (stKind_defName hkind)))
          (stmtNames_of_explicit (by simp [explicitNames]))
        subst this
        simp only [stKind, Option.some.injEq, Prod.mk.injEq] at hkind
        rw [← hkind.2] at hc; simp [canContainImports] at hc

theorem ObjKind.ident {proj : Project} {s : St} {j : Nat} {o : Obj} {S : Site} (hk : ObjKind proj S o.cls)
    (ho : s.reg.objs[j]? = some o) (hp : path s.reg j = some (sitePath proj S)) :
    identOf s.reg j = some (identSV proj (svalOf S)) := by
  unfold identOf
  have : getObj s.reg j = some o := ho
  simp only [this, hp]
  obtain ⟨m, cp⟩ := S
  by_cases hcp : cp = []
  · subst hcp
    have := hk.isMod.2 rfl
    simp [this, svalOf, identSV, sitePath]
  · have : isModuleCls o.cls = false := by
      cases h : isModuleCls o.cls with
      | false => rfl
      | true => exact absurd (hk.isMod.1 h) hcp
    simp [this, svalOf, hcp, identSV, sitePath]

/-- **expandName is sound**: on a finished well-behaved state, the dotted name that `expandName`
returns for `ys` looked up in object `i` (scope `S`) denotes — as an absolute dotted name — whatever
Python gives for `ys` in `S`. -/
theorem expand_sound {proj : Project} {rank : List Nat} (wf : WFacts proj rank) {s : St} (hI : PdInv proj s)
    (hn : NoProcessing s) (e : Names.Env) (he : e.st = s.reg) (hmro : ∀ c, Names.mroOf e c = [c]) :
    ∀ (ys : List Name) (i : Nat) (first : Bool) (S : Site) (o : Obj) (v : SVal) (p : Path),
      s.reg.objs[i]? = some o → path s.reg i = some (sitePath proj S) → ObjKind proj S o.cls →
      Jpy proj S ys v → Names.expandLoop e i first ys = some p → AbsDenW proj p v
  | [], _, _, _, _, _, _, _, _, _, _, hx => by simp [Names.expandLoop] at hx
  | y :: rest, i, first, S, o, v, p, ho, hp, hk, hj, hx => by
    -- the value of the first component, and what is left
    obtain ⟨w, hw, hrest⟩ : ∃ w, Jpy proj S [y] w ∧
        ((rest = [] ∧ v = w) ∨ (∃ y2 r, rest = y2 :: r ∧ Jpy proj (scopeOf w) (y2 :: r) v)) := by
      cases rest with
      | nil => exact ⟨v, hj, Or.inl ⟨rfl, rfl⟩⟩
      | cons y2 r =>
        obtain ⟨w, h1, h2⟩ := jpy_cons_inv hj
        exact ⟨w, h1, Or.inr ⟨y2, r, rfl, h2⟩⟩
    have hgo : getObj e.st i = some o := by rw [he]; exact ho
    have hpe : path e.st i = some (sitePath proj S) := by rw [he]; exact hp
    have hcanon := canon_site wf hk.static
    have hSne : sitePath proj S ≠ [] := by
      obtain ⟨r, rest', root, hpp, _⟩ := hcanon; rw [hpp]; simp
    -- `S.y` and `S.y.rest` as absolute names
    have hfullW : AbsDenW proj (sitePath proj S ++ y :: rest) v :=
      (AbsDen.ext hcanon (by rw [scopeOf_svalOf]; exact hj)).weak
    -- what happens once the component has been turned into the dotted name `fn`
    have cont : ∀ fn : Path, AbsDenW proj fn w → fn ≠ [] → (decide (fn = [y]) && !first) = false →
        Names.componentName e i first y = some fn → AbsDenW proj p v := by
      intro fn hfw hfne hnb hcn
      rw [expandLoop_found hcn hnb] at hx
      cases hof : Names.objFor e fn with
      | none =>
        simp only [hof, Option.some.injEq] at hx; subst hx
        rcases hrest with ⟨hr, hv⟩ | ⟨y2, r, hr, hjr⟩
        · subst hr; subst hv; simpa using hfw
        · subst hr; exact AbsDenW.ext hfw hfne hjr
      | some nxt =>
        simp only [hof] at hx
        have hreg : dget s.reg.all fn = some nxt := by
          have := hof; unfold Names.objFor at this; rw [he] at this; exact this
        have hpn : path s.reg nxt = some fn := hI.reg.reg.keys fn nxt (mem_of_dget hreg)
        obtain ⟨on, hon⟩ : ∃ on, s.reg.objs[nxt]? = some on := by
          have := path_lt hpn; exact ⟨s.reg.objs[nxt], by simp [this]⟩
        obtain ⟨Sn, hkn, hpn'⟩ := hI.site nxt on hon
        rw [hpn] at hpn'; injection hpn' with hpn'
        have hcn' := canon_site wf hkn.static
        rw [← hpn'] at hcn'
        have hwv : svalOf Sn = w := AbsDen.fun wf hcn' hfw
        rcases hrest with ⟨hr, hv⟩ | ⟨y2, r, hr, hjr⟩
        · subst hr; subst hv
          simp only [Option.some.injEq] at hx; subst hx; exact hfw
        · subst hr
          simp only at hx
          rw [← hwv, scopeOf_svalOf] at hjr
          exact expand_sound wf hI hn e he hmro (y2 :: r) nxt false Sn on v p hon (by rw [hpn, hpn']) hkn hjr hx
    by_cases hcan : canContainImports o.cls = true
    · cases hdc : dget o.contents y with
      | some c =>
        -- an entry of `contents`: the qualified name of the child
        have hcn : Names.componentName e i first y = some (sitePath proj S ++ [y]) := by
          rw [Names.componentName_contents first hgo hdc]
          unfold Names.fuelOf
          rw [Names.localName_contents _ hgo hcan hdc, he]
          exact path_child hI.reg ho hdc hp
        refine cont _ (AbsDen.ext hcanon (by rw [scopeOf_svalOf]; exact hw)).weak (by simp) ?_ hcn
        have : sitePath proj S ++ [y] ≠ [y] := by
          intro h
          have := congrArg List.length h
          simp at this
          exact hSne this
        simp [this]
      | none =>
        cases hda : dget o.aliases y with
        | some tgt =>
          have hjd : Jpd proj S y tgt := hI.alias i o S ho hp hk.static y tgt hda
          have hcn : Names.componentName e i first y = some tgt := by
            rw [Names.componentName_alias first hgo hda]
            unfold Names.fuelOf
            exact Names.localName_alias _ hgo hcan hdc hda
          by_cases hnb : (decide (tgt = [y]) && !first) = false
          · exact cont tgt (jpd_jpy wf hjd hw) (jpd_ne_nil wf hjd) hnb hcn
          · -- the alias maps the name to itself and we are not at the first component: "not found"
            have hnb' : tgt = [y] ∧ first = false := by
              cases first <;> simp_all
            obtain ⟨ht, hf⟩ := hnb'
            subst hf
            rw [ht] at hcn
            by_cases hcl : o.cls = .cls
            · -- a class: the name is looked up among the inherited members: none without base classes
              rw [Names.expandLoop] at hx
              have hcf : Names.classFind e i y = none := by
                unfold Names.classFind
                rw [hmro]
                simp [List.findSome?, hgo, hdc]
              simp [hcn, hgo, hcl, hcf, hpe] at hx
              subst hx
              simpa using hfullW
            · rw [expandLoop_notfound hcn hgo hcl hpe] at hx
              simp only [Option.some.injEq] at hx; subst hx
              simpa using hfullW
        | none =>
          -- neither defined nor imported here
          have hcl : o.cls ≠ .cls := by
            intro hcl
            -- a class scope in which Python binds the name holds an entry for it
            have hS2 : S.2 ≠ [] := by
              intro h0
              have := hk.isMod.2 h0
              rw [hcl] at this; simp [isModuleCls] at this
            rcases jpy_inv wf hw with ⟨h0, _⟩ | ⟨b, st, hb, hst, hxs, _⟩
            · exact hS2 h0
            · have hcomp := class_complete hI hn hp hk.static hS2 hb
              have hex : y ∈ explicitNames st :=
                explicit_of_stmtNames (fun lvl M hst' => hS2 (wf.nostar hb (hst' ▸ hst))) hxs
              obtain ⟨o', ho', hent⟩ := complete_entry (hcomp.mem hst) hex
              rw [ho] at ho'; injection ho' with ho'; subst ho'
              rcases hent with h | h
              · exact h hdc
              · exact h hda
          have hmo : isModuleCls o.cls = true := by
            cases hc : o.cls <;> simp_all [canContainImports, isModuleCls]
          have hcn : Names.componentName e i first y = some [y] := by
            unfold Names.componentName
            simp only [hgo, hcl, decide_false, Bool.and_false, Bool.false_and, Bool.false_eq_true, if_false]
            rw [localName_module hgo hmo]; simp [hdc, hda]
          cases first with
          | true =>
            -- a bare name at the first position: a root module of that name, if there is one
            refine cont [y] ?_ (by simp) (by simp) hcn
            intro r rest' root hpr hroot
            injection hpr with e1 e2; subst e1; subst e2
            exact Or.inl ⟨rfl, jpy_root wf hw y root rfl hroot⟩
          | false =>
            rw [expandLoop_notfound hcn hgo hcl hpe] at hx
            simp only [Option.some.injEq] at hx; subst hx
            simpa using hfullW
    · exact absurd hw (no_jpy_nonclass wf hk (by simpa using hcan))

/-- a registered name that denotes `v` is the name of the object standing for `v` -/
theorem registered_ident {proj : Project} {rank : List Nat} (wf : WFacts proj rank) {s : St} (hI : PdInv proj s)
    {p : Path} {v : SVal} {j : Nat} (hden : AbsDenW proj p v) (hreg : dget s.reg.all p = some j) :
    identOf s.reg j = some (identSV proj v) := by
  have hpj : path s.reg j = some p := hI.reg.reg.keys p j (mem_of_dget hreg)
  obtain ⟨oj, hoj⟩ : ∃ oj, s.reg.objs[j]? = some oj := ⟨s.reg.objs[j]'(path_lt hpj), by simp [path_lt hpj]⟩
  obtain ⟨Sj, hkj, hpj'⟩ := hI.site j oj hoj
  rw [hpj] at hpj'; injection hpj' with hpj'
  have hc := canon_site wf hkj.static
  rw [← hpj'] at hc
  have := AbsDen.fun wf hc hden
  rw [← this]
  exact hkj.ident hoj (by rw [hpj, hpj'])

/-- **resolveName is sound on a finished well-behaved state** -/
theorem resolve_sound_state {proj : Project} {rank : List Nat} (wf : WFacts proj rank) {s : St} (hI : PdInv proj s)
    (hn : NoProcessing s) {i : Nat} {o : Obj} {S : Site} (ho : s.reg.objs[i]? = some o)
    (hp : path s.reg i = some (sitePath proj S)) (hk : ObjKind proj S o.cls) {name : Path} {v : SVal} {j : Nat}
    (hj : Jpy proj S name v) (hr : Names.resolveName (finalEnv s) i name = some j) :
    identOf s.reg j = some (identSV proj v) := by
  have hmro := mroOf_final hI
  unfold Names.resolveName at hr
  cases hx : Names.expandName (finalEnv s) i name with
  | none => simp [hx] at hr
  | some p =>
    simp only [hx] at hr
    have hden := expand_sound wf hI hn (finalEnv s) rfl hmro name i true S o v p ho hp hk hj hx
    cases hof : Names.objFor (finalEnv s) p with
    | some j' =>
      simp only [hof, Option.some.injEq] at hr; subst hr
      exact registered_ident wf hI hden hof
    | none =>
      simp only [hof] at hr
      cases hfo : Names.findObject (finalEnv s) p with
      | obj j' =>
        simp only [hfo, Option.some.injEq] at hr; subst hr
        unfold Names.findObject at hfo
        simp only [hof] at hfo
        cases p with
        | nil => simp at hfo
        | cons r rest =>
          simp only at hfo
          split at hfo
          · cases hfo
          · rename_i ro hfind
            by_cases hrest : rest = []
            · simp [hrest] at hfo
            · simp only [hrest, if_false] at hfo
              cases hx2 : Names.expandName (finalEnv s) ro rest with
              | none => simp [hx2] at hfo
              | some p2 =>
                simp only [hx2] at hfo
                cases hof2 : Names.objFor (finalEnv s) p2 with
                | none => simp [hof2] at hfo
                | some j2 =>
                  simp only [hof2, Names.Found.obj.injEq] at hfo; subst hfo
                  -- the root object found by name
                  have hmem := List.mem_of_find?_eq_some hfind
                  have hpred := List.find?_some hfind
                  obtain ⟨oo, hoo, hpar⟩ := hI.reg.tree.rootsOk ro hmem
                  have hgo : getObj (finalEnv s).st ro = some oo := hoo
                  simp only [hgo, decide_eq_true_eq] at hpred
                  have hpro : path s.reg ro = some [r] := by
                    rw [← hpred]; simp only [path]; exact pathAux_root hoo hpar
                  obtain ⟨Sr, hkr, hpr'⟩ := hI.site ro oo hoo
                  rw [hpro] at hpr'; injection hpr' with hpr'
                  -- it is a root module of the project
                  obtain ⟨m, cp⟩ := Sr
                  have hlt := hkr.static.1
                  simp only at hlt
                  have hne := (wf.parentOk m hlt).1
                  have hcp : cp = [] ∧ pathOf proj m = [r] := by
                    simp only [sitePath] at hpr'
                    cases hpm : pathOf proj m with
                    | nil => exact absurd hpm hne
                    | cons a as =>
                      rw [hpm] at hpr'
                      simp only [List.cons_append, List.cons.injEq] at hpr'
                      obtain ⟨h1, h2⟩ := hpr'
                      have h3 := List.append_eq_nil_iff.1 h2.symm
                      exact ⟨h3.2, by rw [h1, h3.1]⟩
                  obtain ⟨hcp, hpm⟩ := hcp
                  subst hcp
                  have hroot : modIdx proj [r] = some m := by rw [← hpm]; exact modIdx_of_path wf.modNodup hlt
                  rcases hden r rest m rfl hroot with ⟨h0, _⟩ | ⟨_, hjr⟩
                  · exact absurd h0 hrest
                  · have hden2 := expand_sound wf hI hn (finalEnv s) rfl hmro rest ro true (m, []) oo v p2 hoo
                      (by rw [hpro]; simp [sitePath, hpm]) hkr hjr hx2
                    exact registered_ident wf hI hden2 hof2
      | external => simp [hfo] at hr
      | lookupError => simp [hfo] at hr
      | indexError => simp [hfo] at hr
      | crash => simp [hfo] at hr

end Imports
