import PdModel.Proto
import PdModel.Visitor
import PdModel.VisitorIO
