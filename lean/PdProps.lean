import PdProps.C19
