import PdProps.C19
import PdProps.C02
import PdProps.C05
import PdProps.C17
