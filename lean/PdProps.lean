import PdProps.C19
import PdProps.C02
import PdProps.C05
import PdProps.C17
import PdProps.C13
import PdProps.C16
import PdProps.C07
import PdProps.C14
