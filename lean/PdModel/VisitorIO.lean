import PdModel.Visitor
import PdModel.Proto
/-! Line protocol for the Visitor model:
`visitor <walkabout|walk|old> <exts> <tree tokens…>`
exts: letters b a i o (registration order) or `-`; tree: `( id act child* )`,
act ∈ n c s k d (none, skipChildren, skipSiblings, skipNode, skipDeparture). -/
namespace Visitor

def parseAct : String → Option Act
  | "n" => some .none | "c" => some .skipChildren | "s" => some .skipSiblings
  | "k" => some .skipNode | "d" => some .skipDeparture | _ => none

def parseWhen : Char → Option When
  | 'b' => some .before | 'a' => some .after | 'i' => some .inner | 'o' => some .outter | _ => none

/-- parse one tree from a token list with fuel; returns the tree and the remaining tokens -/
def parseTree : Nat → List String → Option (Tree × List String)
  | 0, _ => none
  | fuel+1, "(" :: id :: act :: rest => do
    let i ← id.toNat?
    let a ← parseAct act
    let rec kids (f : Nat) (toks : List String) (acc : List Tree) : Option (List Tree × List String) :=
      match f, toks with
      | 0, _ => none
      | _, ")" :: rest => some (acc.reverse, rest)
      | f+1, toks => do
        let (t, rest) ← parseTree fuel toks
        kids f rest (t :: acc)
    let (cs, rest') ← kids (rest.length + 1) rest []
    some (.node i a cs, rest')
  | _, _ => none

def showEvent (e : Event) : String :=
  (match e.who with | .main => "M" | .ext i => "E" ++ toString i) ++
  (match e.kind with | .visit => "v" | .depart => "d") ++ toString e.node

def showHandler : Handler → String
  | .exact n => "exact:" ++ n
  | .lower n => "lower:" ++ n
  | .unknown => "unknown"

def showExc : Option Act → String
  | none => "return"
  | some .skipSiblings => "SkipSiblings"
  | some .skipChildren => "SkipChildren"
  | some .skipNode => "SkipNode"
  | some .skipDeparture => "SkipDeparture"
  | some .none => "return"

/-- `p:c,p:c` (or `-`): node `p`'s main visit method visits node `c` itself -/
def parseInl (tok : String) : Option (List (Nat × Nat)) :=
  if tok == "-" then some [] else
  (tok.splitOn ",").mapM fun pc =>
    match pc.splitOn ":" with
    | [p, c] => do some ((← p.toNat?), (← c.toNat?))
    | _ => none

def inlOf (l : List (Nat × Nat)) (id : Nat) : List Nat := (l.filter (·.1 == id)).map (·.2)

/-- departure actions: one letter per node id (ids 0..n-1), `-` = nobody raises -/
def dactOf (l : List Act) (id : Nat) : Act := l.getD id .none

def handle (args : List String) : String :=
  match args with
  | "walkaboutd" :: exts :: dacts :: toks =>
    -- `visitor walkaboutd <exts> <departure action letters by node id | -> <tree>`
    match (if exts == "-" then some [] else exts.toList.mapM parseWhen),
          (if dacts == "-" then some [] else dacts.toList.mapM (fun c => parseAct c.toString)),
          parseTree (toks.length + 1) toks with
    | some ws, some ds, some (t, []) =>
      let r := walkaboutG (fun _ => []) (dactOf ds) ws t
      "ok " ++ " ".intercalate (r.1.map showEvent) ++ " | " ++ showExc r.2
    | _, _, _ => "bad-op"
  | "walkaboutdold" :: exts :: dacts :: toks =>
    -- the same before 97d973e (historical)
    match (if exts == "-" then some [] else exts.toList.mapM parseWhen),
          (if dacts == "-" then some [] else dacts.toList.mapM (fun c => parseAct c.toString)),
          parseTree (toks.length + 1) toks with
    | some ws, some ds, some (t, []) =>
      let r := walkaboutGOld (fun _ => []) (dactOf ds) ws t
      "ok " ++ " ".intercalate (r.1.map showEvent) ++ " | " ++ showExc r.2
    | _, _, _ => "bad-op"
  | "bstack" :: scopeTok :: skipTok :: inlTok :: exts :: toks =>
    -- the real builder: full trace with extensions and inline-visited nodes, and the scope stack
    match Proto.natList scopeTok, Proto.natList skipTok, parseInl inlTok,
          (if exts == "-" then some [] else exts.toList.mapM parseWhen), parseTree (toks.length + 1) toks with
    | some sc, some sk, some il, some ws, some (t, []) =>
      let r := walkaboutG (inlOf il) (fun _ => .none) ws t
      let full := " ".intercalate (r.1.map showEvent)
      match stackRun (fun n => sc.contains n) (fun n => sk.contains n) (walkabout [] t).1 [] with
      | some st => "ok " ++ full ++ " | " ++ showExc r.2 ++ " | stack " ++ Proto.showNatList st
      | none => "ok " ++ full ++ " | " ++ showExc r.2 ++ " | AssertionError"
    | _, _, _, _, _ => "bad-op"
  | ["dispatch", cls, defined] =>
    -- `visitor dispatch <class name> <defined method names joined by ','>` ('-' = none)
    let ds := if defined == "-" then [] else defined.splitOn ","
    "ok " ++ showHandler (dispatch ds "visit_" cls) ++ " " ++ showHandler (dispatch ds "depart_" cls)
  | "stack" :: scopeTok :: skipTok :: toks =>
    match Proto.natList scopeTok, Proto.natList skipTok, parseTree (toks.length + 1) toks with
    | some sc, some sk, some (t, []) =>
      let tr := (walkabout [] t).1
      let main := " ".intercalate (tr.map showEvent)
      match stackRun (fun n => sc.contains n) (fun n => sk.contains n) tr [] with
      | some st => "ok " ++ main ++ " | stack " ++ Proto.showNatList st
      | none => "ok " ++ main ++ " | AssertionError"
    | _, _, _ => "bad-op"
  | mode :: exts :: toks =>
    match (if exts == "-" then some [] else exts.toList.mapM parseWhen), parseTree (toks.length + 1) toks with
    | some ws, some (t, []) =>
      let r := match mode with
        | "walkabout" => some (walkabout ws t)
        | "walk" => some (walk ws t)
        | "old" => some (walkaboutOld ws t)
        | _ => none
      match r with
      | some (tr, stop) => "ok " ++ " ".intercalate (tr.map showEvent) ++ " | " ++ (if stop then "SkipSiblings" else "return")
      | none => "bad-op"
    | _, _ => "bad-op"
  | _ => "bad-op"

end Visitor
