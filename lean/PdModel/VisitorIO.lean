import PdModel.Visitor
import PdModel.Proto
/-! Line protocol for the Visitor model:
`visitor <walkabout|walk|old> <exts> <tree tokens…>`
exts: letters b a i o (registration order) or `-`; tree: `( id act child* )`,
act ∈ n c s k d (none, skipChildren, skipSiblings, skipNode, skipDeparture). -/
namespace Visitor

def parseAct : String → Option Act
  | "n" => some .none | "c" => some .skipChildren | "s" => some .skipSiblings
  | "k" => some .skipNode | "d" => some .skipDeparture | _ => none

def parseWhen : Char → Option When
  | 'b' => some .before | 'a' => some .after | 'i' => some .inner | 'o' => some .outter | _ => none

/-- parse one tree from a token list with fuel; returns the tree and the remaining tokens -/
def parseTree : Nat → List String → Option (Tree × List String)
  | 0, _ => none
  | fuel+1, "(" :: id :: act :: rest => do
    let i ← id.toNat?
    let a ← parseAct act
    let rec kids (f : Nat) (toks : List String) (acc : List Tree) : Option (List Tree × List String) :=
      match f, toks with
      | 0, _ => none
      | _, ")" :: rest => some (acc.reverse, rest)
      | f+1, toks => do
        let (t, rest) ← parseTree fuel toks
        kids f rest (t :: acc)
    let (cs, rest') ← kids (rest.length + 1) rest []
    some (.node i a cs, rest')
  | _, _ => none

def showEvent (e : Event) : String :=
  (match e.who with | .main => "M" | .ext i => "E" ++ toString i) ++
  (match e.kind with | .visit => "v" | .depart => "d") ++ toString e.node

def showHandler : Handler → String
  | .exact n => "exact:" ++ n
  | .lower n => "lower:" ++ n
  | .unknown => "unknown"

def handle (args : List String) : String :=
  match args with
  | ["dispatch", cls, defined] =>
    -- `visitor dispatch <class name> <defined method names joined by ','>` ('-' = none)
    let ds := if defined == "-" then [] else defined.splitOn ","
    "ok " ++ showHandler (dispatch ds "visit_" cls) ++ " " ++ showHandler (dispatch ds "depart_" cls)
  | "stack" :: scopeTok :: skipTok :: toks =>
    match Proto.natList scopeTok, Proto.natList skipTok, parseTree (toks.length + 1) toks with
    | some sc, some sk, some (t, []) =>
      let tr := (walkabout [] t).1
      let main := " ".intercalate (tr.map showEvent)
      match stackRun (fun n => sc.contains n) (fun n => sk.contains n) tr [] with
      | some st => "ok " ++ main ++ " | stack " ++ Proto.showNatList st
      | none => "ok " ++ main ++ " | AssertionError"
    | _, _, _ => "bad-op"
  | mode :: exts :: toks =>
    match (if exts == "-" then some [] else exts.toList.mapM parseWhen), parseTree (toks.length + 1) toks with
    | some ws, some (t, []) =>
      let r := match mode with
        | "walkabout" => some (walkabout ws t)
        | "walk" => some (walk ws t)
        | "old" => some (walkaboutOld ws t)
        | _ => none
      match r with
      | some (tr, stop) => "ok " ++ " ".intercalate (tr.map showEvent) ++ " | " ++ (if stop then "SkipSiblings" else "return")
      | none => "bad-op"
    | _, _ => "bad-op"
  | _ => "bad-op"

end Visitor
