import PdModel.Builder
import PdModel.Proto
import Generated.Tables
/-! Line protocol for the Builder / PySem models (property C03).

`builder <pd|py> <scope> <inherited> <env> <stmt tokens…>`
* scope      `M0` module · `C0` class · second character `1` = a control-flow block lies above the scope
* inherited  `-` or comma separated `u:` names (what `Class.find` finds in the bases as non-Attribute)
* env        `-` or `;` separated `id=base,base…` — bases of the project's classes
* base       `e<u:name>` external name · `u<id>` class of the project
* statements in prefix notation
    `class <name> <bases|-> <decos|-> <doc|-> ( body )`      `def <name> <0|1> <decos|-> <doc|->`
    `asg <name> <lit> <ann|->`   `ann <name> <ann>`   `str <text>`   `blk <i|t|w|f|e> ( body ) ( tail )`   `alias <name> <src>`   `wrap <name> <c|s|p> <src>`
    `del <name>`   `doc <name> <text>` (`name.__doc__ = text`)   `main ( body )`   `cmp <d|m|n> <eq|ne|is|isnot> <d|m|n> <0|1 negated> ( body )`   `old <name> <c|s>`   `oth`
* decos  comma separated: `c s p` (bare) `C S P` (`builtins.` spelling) `set=<x>` `del=<x>` `ov` `o=<name>` `un`
* lit    `i f c s b B N X` · `L(…)` `T(…)` `S(…)` `D(keys|values)`

Answers
* pd: `ok <name>|<Function|Attribute|Class>|<KIND>|<doc>|<0|1>|<annotation>` … in `contents` order, or `AssertionError`
* py: `ok <name>|<kind class>|<0|1>|<cleaned doc>|<type>` … in `__dict__` order, or `raises`
* `builder subset …` (same arguments as pd/py) → `in` / `out` (`Subset.inSubset`)
* `builder find <name> <class contents…>` → `True|False`: `_maybeAttribute` over the chain `cls.mro()` (own class first);
  class contents = `-` or comma separated `<name>=<A|N>`;  `builder inherited <bases' contents…>` → the names
  `Class.find` on the bases answers with a non-Attribute (`Builder.inheritedNonAttrOf`), in order, `-` if none
* `builder kind <M|C> <decos>` → `<pydoctor kind class> <CPython kind class>`
* `builder infer <lit>` → `<annotation text|-> <type(value).__name__> <element type names>` -/
namespace Builder
open Ir

def parseName (tok : String) : Option Name := Proto.decodeStr tok

def parseOptStr (tok : String) : Option (Option (List Char)) :=
  if tok == "-" then some none else (Proto.decodeStr tok).map some

def parseDeco (tok : String) : Option Deco :=
  match tok with
  | "c" => some (.builtin .classmethod false) | "s" => some (.builtin .staticmethod false)
  | "p" => some (.builtin .property false)
  | "C" => some (.builtin .classmethod true) | "S" => some (.builtin .staticmethod true)
  | "P" => some (.builtin .property true)
  | "ov" => some .overload | "un" => some .unnamed
  | _ =>
    match tok.splitOn "=" with
    | ["set", x] => (parseName x).map .setter
    | ["del", x] => (parseName x).map .deleter
    | ["o", x] => (parseName x).map .ident
    | _ => none

def parseDecos (tok : String) : Option (List Deco) :=
  if tok == "-" then some [] else (tok.splitOn ",").mapM parseDeco

def parseBase (tok : String) : Option Base :=
  if tok.startsWith "e" then (parseName (tok.drop 1).toString).map .ext
  else if tok.startsWith "u" then ((tok.drop 1).toString.toNat?).map .user
  else none

def parseBases (tok : String) : Option (List Base) :=
  if tok == "-" || tok == "" then some [] else (tok.splitOn ",").mapM parseBase

def parseEnv (tok : String) : Option ClassEnv :=
  if tok == "-" then some [] else
  (tok.splitOn ";").mapM fun e =>
    match e.splitOn "=" with
    | [i, bs] => do
      let i ← i.toNat?
      let bs ← parseBases bs
      some (i, bs)
    | _ => none

def parseNames (tok : String) : Option (List Name) :=
  if tok == "-" then some [] else (tok.splitOn ",").mapM parseName

mutual
/-- one literal from a character list (fuel bounds the nesting) -/
def parseLit : Nat → List Char → Option (Lit × List Char)
  | 0, _ => none
  | _+1, 'i' :: r => some (.int, r) | _+1, 'f' :: r => some (.float, r) | _+1, 'c' :: r => some (.complex, r)
  | _+1, 's' :: r => some (.str, r) | _+1, 'b' :: r => some (.bytes, r) | _+1, 'B' :: r => some (.bool, r)
  | _+1, 'N' :: r => some (.none, r) | _+1, 'X' :: r => some (.call, r)
  | fuel+1, 'L' :: '(' :: r => (parseLits fuel r []).bind fun (xs, t, r') => if t = ')' then some (.list xs, r') else none
  | fuel+1, 'T' :: '(' :: r => (parseLits fuel r []).bind fun (xs, t, r') => if t = ')' then some (.tuple xs, r') else none
  | fuel+1, 'S' :: '(' :: r => (parseLits fuel r []).bind fun (xs, t, r') => if t = ')' then some (.set xs, r') else none
  | fuel+1, 'D' :: '(' :: r =>
    (parseLits fuel r []).bind fun (ks, t, r') =>
      if t = '|' then
        (parseLits fuel r' []).bind fun (vs, t', r'') => if t' = ')' then some (.dict ks vs, r'') else none
      else none
  | _, _ => none
/-- literals up to the terminator `)` or `|`, which is returned -/
def parseLits : Nat → List Char → List Lit → Option (List Lit × Char × List Char)
  | _, ')' :: r, acc => some (acc.reverse, ')', r)
  | _, '|' :: r, acc => some (acc.reverse, '|', r)
  | 0, _, _ => none
  | fuel+1, r, acc =>
    match parseLit fuel r with
    | some (l, r') => parseLits fuel r' (l :: acc)
    | none => none
end

def parseLitTok (tok : String) : Option Lit :=
  match parseLit (2 * tok.length + 2) tok.toList with
  | some (l, []) => some l
  | _ => none

def parseBlockKind : String → Option BlockKind
  | "i" => some .ifTaken | "t" => some .try | "w" => some .with | "f" => some .for | "e" => some .elseTaken | _ => none

mutual
def parseStmt : Nat → List String → Option (Stmt × List String)
  | 0, _ => none
  | fuel+1, "class" :: n :: bs :: ds :: doc :: "(" :: rest => do
    let n ← parseName n
    let bs ← parseBases bs
    let ds ← parseDecos ds
    let doc ← parseOptStr doc
    let (body, rest') ← parseStmts fuel rest []
    some (.classDef n bs ds doc body, rest')
  | _+1, "def" :: n :: a :: ds :: doc :: rest => do
    let n ← parseName n
    let ds ← parseDecos ds
    let doc ← parseOptStr doc
    some (.funcDef n (a == "1") ds doc, rest)
  | _+1, "asg" :: n :: l :: a :: rest => do
    let n ← parseName n
    let l ← parseLitTok l
    let a ← parseOptStr a
    some (.assign n l a, rest)
  | _+1, "ann" :: n :: a :: rest => do
    let n ← parseName n
    let a ← parseName a
    some (.annOnly n a, rest)
  | _+1, "str" :: t :: rest => do
    let t ← Proto.decodeStr t
    some (.attrDoc t, rest)
  | fuel+1, "blk" :: k :: "(" :: rest => do
    let k ← parseBlockKind k
    let (body, rest') ← parseStmts fuel rest []
    match rest' with
    | "(" :: rest'' =>
      let (tail, rest''') ← parseStmts fuel rest'' []
      some (.block k body tail, rest''')
    | _ => none
  | fuel+1, "cmp" :: l :: o :: r :: n :: "(" :: rest => do
    let op (t : String) : Option Operand := match t with
      | "d" => some .dunderName | "m" => some .mainStr | "n" => some .noneLit | _ => none
    let l ← op l
    let r ← op r
    let o ← match o with
      | "eq" => some CmpOp.eq | "ne" => some CmpOp.notEq | "is" => some CmpOp.is | "isnot" => some CmpOp.isNot | _ => none
    let (body, rest') ← parseStmts fuel rest []
    some (.ifCmp { left := l, op := o, right := r, negated := n == "1" } body, rest')
  | fuel+1, "main" :: "(" :: rest => do
    let (body, rest') ← parseStmts fuel rest []
    some (.ifMain body, rest')
  | _+1, "old" :: n :: w :: rest => do
    let n ← parseName n
    let w ← match w with | "c" => some Wrap.classmethod | "s" => some Wrap.staticmethod | _ => none
    some (.oldStyle n w, rest)
  | _+1, "alias" :: n :: src :: rest => do
    let n ← parseName n
    let src ← parseName src
    some (.aliasAssign n src, rest)
  | _+1, "wrap" :: n :: d :: src :: rest => do
    let n ← parseName n
    let d ← match d with | "c" => some Desc.classmethod | "s" => some Desc.staticmethod | "p" => some Desc.property | _ => none
    let src ← parseName src
    some (.wrapAssign n d src, rest)
  | _+1, "del" :: n :: rest => do
    let n ← parseName n
    some (.delName n, rest)
  | _+1, "doc" :: n :: t :: rest => do
    let n ← parseName n
    let t ← Proto.decodeStr t
    some (.docAssign n t, rest)
  | _+1, "oth" :: rest => some (.other, rest)
  | _, _ => none
/-- statements up to the closing `)` -/
def parseStmts : Nat → List String → List Stmt → Option (List Stmt × List String)
  | _, ")" :: rest, acc => some (acc.reverse, rest)
  | 0, _, _ => none
  | fuel+1, toks, acc =>
    match parseStmt fuel toks with
    | some (s, rest) => parseStmts fuel rest (s :: acc)
    | none => none
end

/-- the top-level statement list (no closing parenthesis) -/
def parseTop (toks : List String) : Option (List Stmt) :=
  match parseStmts (2 * toks.length + 2) (toks ++ [")"]) [] with
  | some (l, []) => some l
  | _ => none

def parseCtx (scope inh env : String) : Option Ctx := do
  let inClass ← match scope.toList with
    | 'M' :: _ => some false | 'C' :: _ => some true | _ => none
  let inBlock := scope.toList.drop 1 == ['1']
  let inh ← parseNames inh
  let env ← parseEnv env
  some { inClass := inClass, scopeInBlock := inBlock, env := env, pdExc := Tables.Exceptions.pydoctor,
         pyExc := Tables.Exceptions.builtins, inheritedNonAttr := inh }

def showOptStr : Option (List Char) → String
  | none => "-" | some s => Proto.encodeStr s

def showKind : Kind → String
  | .cls => "CLASS" | .exception => "EXCEPTION" | .classMethod => "CLASS_METHOD" | .staticMethod => "STATIC_METHOD"
  | .method => "METHOD" | .function => "FUNCTION" | .constant => "CONSTANT" | .classVariable => "CLASS_VARIABLE"
  | .property => "PROPERTY" | .variable => "VARIABLE"

def showObjClass : ObjClass → String
  | .function => "Function" | .attribute => "Attribute" | .cls => "Class"

def showKindClass : KindClass → String
  | .function => "function" | .method => "method" | .classmethod => "classmethod" | .staticmethod => "staticmethod"
  | .property => "property" | .cls => "class" | .exception => "exception" | .variable => "variable"
  | .foreign => "foreign"

def showMember (m : Member) : String :=
  "|".intercalate [Proto.encodeStr m.name, showObjClass m.cls, showKind m.kind, showOptStr m.doc,
    (if m.isAsync then "1" else "0"), showOptStr m.ann]

def sortedNames (l : List String) : String :=
  let d := l.foldl (fun acc x => if acc.contains x then acc else acc ++ [x]) []
  ",".intercalate (d.toArray.qsort (· < ·)).toList

/-- type name of a value with the sorted set of its elements' type names (`keys/values` for a dict) -/
def showType : Lit → String
  | .list xs => "list[" ++ sortedNames (xs.map PySem.typeName) ++ "]"
  | .tuple xs => "tuple[" ++ sortedNames (xs.map PySem.typeName) ++ "]"
  | .set xs => "set[" ++ sortedNames (xs.map PySem.typeName) ++ "]"
  | .dict ks vs => "dict[" ++ sortedNames (ks.map PySem.typeName) ++ "/" ++ sortedNames (vs.map PySem.typeName) ++ "]"
  | l => PySem.typeName l

def showPy (inClass : Bool) (p : Name × PySem.PyObj) : String :=
  "|".intercalate [Proto.encodeStr p.1, showKindClass (PySem.kindClass inClass p.2),
    (if PySem.coroutine p.2 then "1" else "0"),
    showOptStr ((PySem.rawDoc p.2).map Builder.cleandoc),
    (match p.2 with | .value l => showType l | _ => "-")]

/-- a class's contents for `find`: `-` or comma separated `<u:name>=<A|N>` (A = the object is an Attribute) -/
def parseClassContents (tok : String) : Option ClassContents :=
  if tok == "-" then some [] else
  (tok.splitOn ",").mapM fun e =>
    match e.splitOn "=" with
    | [n, k] => (parseName n).map fun n => (n, k == "A")
    | _ => none

def handle (args : List String) : String :=
  match args with
  | "find" :: n :: chain =>
    match parseName n, chain.mapM parseClassContents with
    | some n, some ch => if maybeAttributeIn ch n then "True" else "False"
    | _, _ => "bad-op"
  | "inherited" :: chain =>
    match chain.mapM parseClassContents with
    | some ch =>
      let l := (inheritedNonAttrOf ch).foldl (fun acc x => if acc.contains x then acc else acc ++ [x]) []
      if l.isEmpty then "-" else ",".intercalate (l.map Proto.encodeStr)
    | none => "bad-op"
  | "pd" :: scope :: inh :: env :: toks =>
    match parseCtx scope inh env, parseTop toks with
    | some c, some stmts =>
      match Builder.scope c stmts with
      | .ok ms => "ok " ++ " ".intercalate (ms.map showMember)
      | .assertionError => "AssertionError"
    | _, _ => "bad-op"
  | "py" :: scope :: inh :: env :: toks =>
    match parseCtx scope inh env, parseTop toks with
    | some c, some stmts =>
      match PySem.scope c stmts with
      | .ok ns => "ok " ++ " ".intercalate (ns.map (showPy c.inClass))
      | .raises => "raises"
    | _, _ => "bad-op"
  | "subset" :: scope :: inh :: env :: toks =>
    match parseCtx scope inh env, parseTop toks with
    | some c, some stmts => if Subset.inSubset c stmts then "in" else "out"
    | _, _ => "bad-op"
  | ["kind", scope, ds] =>
    match parseDecos ds with
    | some ds =>
      let inClass := scope == "C"
      showKindClass (Builder.funcKind inClass [] ds) ++ " " ++
        (match PySem.funcKind inClass [] ds with | some k => showKindClass k | none => "raises")
    | none => "bad-op"
  | ["infer", l] =>
    match parseLitTok l with
    | some v => (match Builder.inferType v with | some a => a.render | none => "-") ++ " " ++ showType v
    | none => "bad-op"
  | _ => "bad-op"

end Builder
