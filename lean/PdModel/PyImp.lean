/-
The PYTHON side of C04: what importing the abstract project (`Imports.Project`) binds under
CPython 3.12 — transcribed from the interpreter, not from pydoctor:

* `importlib._bootstrap._find_and_load(_unlocked)`: a module found in `sys.modules` is returned as
  it is (possibly partially initialised); otherwise the parent package is imported first, the
  module is created, entered into `sys.modules`, its body executed, and on success bound as an
  attribute of the parent package (`setattr(parent_module, child, module)`),
* `import a.b.c` (binds `a`), `import a.b.c as x` (IMPORT_NAME, then IMPORT_FROM along the
  dotted name: `getattr` with the `sys.modules` fall-back),
* `from M import n [as x]`: `_resolve_name` for relative levels (`Names.pythonRelativeBase`),
  `_handle_fromlist` (a missing attribute of a *package* triggers the import of the submodule;
  a missing submodule is ignored), IMPORT_FROM,
* `from M import *`: `_handle_fromlist` over `__all__`, then `import_all_from` (`__all__`, else
  every key of `__dict__` that does not start with an underscore); a SyntaxError inside a class,
* `class C(bases): body`: bases evaluated with LOAD_NAME (class-body locals, then module globals —
  NOT the enclosing class bodies), the body run in a fresh namespace, the class object created at
  the end (C3 via `PyMro`), then bound; `def`, `x = <const>`, `__all__ = [...]`.

Objects are identified by their definition site (module index + chain of names); class objects
live in a heap (`St.heap`) because their namespaces and bases matter for attribute lookup.
A failing statement sets `err` (the exception propagates to the top: the project is "not
importable"); nothing is claimed about namespaces of a run with `err = true`.

Executable, structurally recursive.
-/
import PdModel.Imports

namespace PyImp
open Registry (Name Path dget dset dhas)
open Imports (Stmt Module Project Ident modIdx pathOf isPkg)

inductive Val
  | mod (m : Nat)                      -- module object (index in the project)
  | cls (h : Nat)                      -- class object (index in the heap)
  | obj (m : Nat) (cp : Path)          -- function / constant defined in module m at chain cp
  deriving DecidableEq, Repr, Inhabited

abbrev Ns := List (Name × Val)

inductive MState | absent | executing | done
  deriving DecidableEq, Repr, Inhabited

structure ClassObj where
  mod : Nat
  cp : Path                            -- chain of names of the definition site, class name last
  bases : List Nat
  ns : Ns
  deriving Repr, Inhabited

structure St where
  ns : List Ns                         -- module `__dict__` (public part), by module index
  ms : List MState                     -- `sys.modules` membership and progress
  alls : List (Option (List Name))     -- module `__all__`
  heap : List ClassObj
  err : Bool
  deriving Repr, Inhabited

def nsOf (s : St) (m : Nat) : Ns := s.ns.getD m []
def inSys (s : St) (m : Nat) : Bool := s.ms.getD m .absent != .absent
def allOf (s : St) (m : Nat) : Option (List Name) := s.alls.getD m none

def bindGlobal (s : St) (m : Nat) (k : Name) (v : Val) : St :=
  { s with ns := s.ns.set m (dset (nsOf s m) k v) }

/-- STORE_NAME: into the class-body locals if there are any, else into the module globals -/
def bind (s : St) (m : Nat) (fr : Option Ns) (k : Name) (v : Val) : St × Option Ns :=
  match fr with
  | none => (bindGlobal s m k v, none)
  | some l => (s, some (dset l k v))

/-- `getattr(module, name)` -/
def modAttr (s : St) (t : Nat) (y : Name) : Option Val := dget (nsOf s t) y

/-- IMPORT_FROM on a module: `getattr`, else `sys.modules[module.__name__ + '.' + name]` -/
def importFromAttr (proj : Project) (s : St) (t : Nat) (y : Name) : Option Val :=
  match modAttr s t y with
  | some v => some v
  | none =>
    match proj[t]? with
    | none => none
    | some md =>
      match modIdx proj (md.path ++ [y]) with
      | some c => if inSys s c then some (.mod c) else none
      | none => none

def basesOf (s : St) (h : Nat) : List Nat := match s.heap[h]? with | some c => c.bases | none => []

/-- `type.__mro__` (None: the class could not have been created) -/
def mroOf (s : St) (h : Nat) : Option (List Nat) := PyMro.mroFuel (basesOf s) (s.heap.length + 1) h

/-- `getattr(value, name)` for modules and classes (type attribute lookup along the MRO) -/
def getAttr (s : St) (v : Val) (y : Name) : Option Val :=
  match v with
  | .mod t => modAttr s t y
  | .cls h =>
    match mroOf s h with
    | none => none
    | some l => l.findSome? fun b => match s.heap[b]? with | some c => dget c.ns y | none => none
  | .obj _ _ => none

def getAttrs (s : St) : Val → List Name → Option Val
  | v, [] => some v
  | v, y :: ys => match getAttr s v y with | some w => getAttrs s w ys | none => none

/-- LOAD_NAME: class-body locals, then module globals (then builtins: NameError here) -/
def loadName (s : St) (m : Nat) (fr : Option Ns) (x : Name) : Option Val :=
  match fr with
  | some l => (match dget l x with | some v => some v | none => modAttr s m x)
  | none => modAttr s m x

def evalDotted (s : St) (m : Nat) (fr : Option Ns) : Path → Option Val
  | [] => none
  | x :: rest => match loadName s m fr x with | some v => getAttrs s v rest | none => none

def fail (x : St × Option Ns) : St × Option Ns := ({ x.1 with err := true }, x.2)

/-- the `_handle_fromlist` step for one name: a package that lacks the attribute imports the
submodule of that name if there is one -/
def fromlistOne (proj : Project) (imp : St → Path → St) (T : Path) (t : Nat) (s : St) (n : Name) : St :=
  if isPkg proj t && (modAttr s t n).isNone then
    match modIdx proj (T ++ [n]) with
    | some _ => imp s (T ++ [n])
    | none => s
  else s

/-- one name of `import_all_from` -/
def starBind (m t : Nat) (s : St) (x : Name) : St :=
  if s.err then s else
  match modAttr s t x with
  | none => { s with err := true }                    -- AttributeError
  | some v => bindGlobal s m x v

/-- IMPORT_FROM along the rest of a dotted name (`import a.b.c as x`) -/
def importChain (proj : Project) (s : St) : Val → List Name → Option Val
  | v, [] => some v
  | .mod t, y :: ys => (match importFromAttr proj s t y with | some w => importChain proj s w ys | none => none)
  | _, _ :: _ => none

/-- `import a.b.c [as x]` -/
def execImport (proj : Project) (imp : St → Path → St) (m : Nat) (target : Path) (asname : Option Name)
    (x : St × Option Ns) : St × Option Ns :=
  if x.1.err then x else
  let s1 := imp x.1 target
  if s1.err then (s1, x.2) else
  match target with
  | [] => fail (s1, x.2)
  | h :: rest =>
    match modIdx proj [h] with
    | none => fail (s1, x.2)
    | some top =>
      match asname with
      | none => bind s1 m x.2 h (.mod top)
      | some a =>
        match importChain proj s1 (.mod top) rest with
        | none => fail (s1, x.2)
        | some v => bind s1 m x.2 a v

/-- `from M import n [as x]` -/
def execImportFrom (proj : Project) (imp : St → Path → St) (m : Nat) (level : Nat) (modname : Path) (name : Name)
    (asname : Option Name) (x : St × Option Ns) : St × Option Ns :=
  if x.1.err then x else
  match Imports.pyAbsName proj m level modname with
  | none => fail x                                               -- ImportError: beyond top-level package
  | some T =>
    let s1 := imp x.1 T
    if s1.err then (s1, x.2) else
    match modIdx proj T with
    | none => fail (s1, x.2)
    | some t =>
      let s2 := fromlistOne proj imp T t s1 name
      if s2.err then (s2, x.2) else
      match importFromAttr proj s2 t name with
      | none => fail (s2, x.2)                                   -- ImportError: cannot import name
      | some v => bind s2 m x.2 (asname.getD name) v

/-- `_handle_fromlist(module, ['*'])`: the submodules named in `__all__` are imported -/
def starPrep (proj : Project) (imp : St → Path → St) (T : Path) (t : Nat) (s1 : St) : St :=
  match allOf s1 t with
  | some l => l.foldl (fromlistOne proj imp T t) s1
  | none => s1

/-- `import_all_from`: `__all__`, else the keys of `__dict__` that do not start with an underscore -/
def starNamesPy (s2 : St) (t : Nat) : List Name :=
  match allOf s2 t with
  | some l => l
  | none => ((nsOf s2 t).map (fun e => e.1)).filter (fun n => n.head? != some '_')

/-- `from M import *` -/
def execImportStar (proj : Project) (imp : St → Path → St) (m : Nat) (level : Nat) (modname : Path)
    (x : St × Option Ns) : St × Option Ns :=
  if x.1.err then x else
  if x.2.isSome then fail x else                                 -- SyntaxError: import * only allowed at module level
  match Imports.pyAbsName proj m level modname with
  | none => fail x
  | some T =>
    let s1 := imp x.1 T
    if s1.err then (s1, x.2) else
    match modIdx proj T with
    | none => fail (s1, x.2)
    | some t =>
      if (starPrep proj imp T t s1).err then (starPrep proj imp T t s1, x.2) else
      ((starNamesPy (starPrep proj imp T t s1) t).foldl (starBind m t) (starPrep proj imp T t s1), x.2)

/-- `def f` / `x = <const>`: a new object, identified by its definition site -/
def execDef (m : Nat) (cp : Path) (name : Name) (x : St × Option Ns) : St × Option Ns :=
  if x.1.err then x else bind x.1 m x.2 name (.obj m (cp ++ [name]))

/-- `__all__ = [...]` -/
def execAll (m : Nat) (names : List Name) (x : St × Option Ns) : St × Option Ns :=
  if x.1.err then x else
  match x.2 with
  | none => ({ x.1 with alls := x.1.alls.set m (some names) }, x.2)
  | some _ => x

/-- the class statement once its body has run in the namespace `fr1` (state `s1`): create the class
object and bind it in the enclosing frame `fr` -/
def finishClass (m : Nat) (cp : Path) (name : Name) (hs : List Nat) (fr : Option Ns) (s1 : St) (fr1 : Option Ns) :
    St × Option Ns :=
  if s1.err then (s1, fr) else
  let h := s1.heap.length
  let s2 := { s1 with heap := s1.heap ++ [⟨m, cp ++ [name], hs, fr1.getD []⟩] }
  if (mroOf s2 h).isNone then fail (s2, fr) else                 -- TypeError: MRO conflict / duplicate base
  bind s2 m fr name (.cls h)

/-- the base classes of a class statement, evaluated in the enclosing frame (`none`: NameError,
AttributeError, or not a class) -/
def evalBases (s : St) (m : Nat) (fr : Option Ns) (bases : List Path) : Option (List Nat) :=
  let hs := (bases.map (evalDotted s m fr)).filterMap (fun v => match v with | some (.cls h) => some h | _ => none)
  if hs.length != bases.length then none else some hs

mutual
/-- one statement of module `m`, executed at the definition-site chain `cp` with the class-body
locals `fr` (`none` at module level); `imp` is `import_` (imports a module by absolute name) -/
def execStmt (proj : Project) (imp : St → Path → St) (m : Nat) : Path → Stmt → St × Option Ns → St × Option Ns
  | _, .importMod target asname, x => execImport proj imp m target asname x
  | _, .importFrom level modname name asname, x => execImportFrom proj imp m level modname name asname x
  | _, .importStar level modname, x => execImportStar proj imp m level modname x
  | cp, .classDef name bases body, x =>
    if x.1.err then x else
    match evalBases x.1 m x.2 bases with
    | none => fail x
    | some hs =>
      let r := execStmts proj imp m (cp ++ [name]) body (x.1, some [])
      finishClass m cp name hs x.2 r.1 r.2
  | cp, .funcDef name, x => execDef m cp name x
  | cp, .assign name _, x => execDef m cp name x
  | _, .allAssign names, x => execAll m names x
def execStmts (proj : Project) (imp : St → Path → St) (m : Nat) : Path → List Stmt → St × Option Ns → St × Option Ns
  | _, [], x => x
  | cp, st :: rest, x => execStmts proj imp m cp rest (execStmt proj imp m cp st x)
end

/-- `import_(name)` = `_gcd_import` → `_find_and_load`; fuel bounds the nesting -/
def ensure (proj : Project) : Nat → St → Path → St
  | 0, s, _ => { s with err := true }
  | f+1, s, p =>
    if s.err then s else
    match modIdx proj p with
    | none => { s with err := true }                             -- ModuleNotFoundError
    | some m =>
      if inSys s m then s else
      let s1 := if p.length ≤ 1 then s else ensure proj f s p.dropLast
      if s1.err then s1 else
      if inSys s1 m then s1 else                                 -- the parent's __init__ imported it
      let parentOk := p.length ≤ 1 || (match modIdx proj p.dropLast with | some q => isPkg proj q | none => false)
      if !parentOk then { s1 with err := true } else             -- parent is not a package
      match proj[m]? with
      | none => { s1 with err := true }
      | some md =>
        let s2 := { s1 with ms := s1.ms.set m .executing }
        let s3 := (execStmts proj (ensure proj f) m [] md.body (s2, none)).1
        if s3.err then s3 else
        let s4 := { s3 with ms := s3.ms.set m .done }
        if p.length ≤ 1 then s4 else
        match modIdx proj p.dropLast, p.getLast? with
        | some q, some nm => bindGlobal s4 q nm (.mod m)         -- setattr(parent_module, child, module)
        | _, _ => s4

def initSt (proj : Project) : St :=
  ⟨List.replicate proj.length [], List.replicate proj.length .absent, List.replicate proj.length none, [], false⟩

def fuelOf (proj : Project) : Nat := 2 * proj.length + 2

/-- `importlib.import_module(q)` for every module of `order`, in that order -/
def run (proj : Project) (order : List Nat) : St :=
  order.foldl (fun s m => ensure proj (fuelOf proj) s (pathOf proj m)) (initSt proj)

/-! ### queries on the final state -/

/-- the namespace of the class reached from `ns` through the chain of class names `cp` -/
def walkNs (s : St) : Ns → List Name → Option Ns
  | ns, [] => some ns
  | ns, c :: cs =>
    match dget ns c with
    | some (.cls h) => (match s.heap[h]? with | some co => walkNs s co.ns cs | none => none)
    | _ => none

def identOf (proj : Project) (s : St) : Val → Option Ident
  | .mod m => some (.mod (pathOf proj m))
  | .cls h => (match s.heap[h]? with | some co => some (.dfn (pathOf proj co.mod ++ co.cp)) | none => none)
  | .obj m cp => some (.dfn (pathOf proj m ++ cp))

/-- the value of the dotted `name` whose first component is looked up in the namespace `ns` itself -/
def denoteIn (s : St) (ns : Ns) : Path → Option Val
  | [] => none
  | x :: rest => match dget ns x with | some v => getAttrs s v rest | none => none

def denoteAt (proj : Project) (s : St) (m : Nat) (cp : List Name) (name : Path) : Option Ident :=
  if s.err then none else
  match walkNs s (nsOf s m) cp with
  | none => none
  | some ns => match denoteIn s ns name with | some v => identOf proj s v | none => none

/-! ### names whose class steps stay in the class's own namespace -/

/-- `y` is found in the namespace of `v` itself when `v` is a class (what `vars(v)` lists) -/
def ownAttr (s : St) (v : Val) (y : Name) : Bool :=
  match v with
  | .cls h => (match s.heap[h]? with | some co => dhas co.ns y | none => false)
  | _ => true

def ownAttrs (s : St) : Val → List Name → Bool
  | _, [] => true
  | v, y :: ys => ownAttr s v y && (match getAttr s v y with | some w => ownAttrs s w ys | none => true)

def ownIn (s : St) (ns : Ns) : Path → Bool
  | [] => true
  | x :: rest => match dget ns x with | some v => ownAttrs s v rest | none => true

/-- every attribute step of `name` through a class finds the attribute in that class itself (no
inherited member is involved) -/
def pyOwn (proj : Project) (order : List Nat) (m : Nat) (cp : List Name) (name : Path) : Bool :=
  let s := run proj order
  match walkNs s (nsOf s m) cp with
  | some ns => ownIn s ns name
  | none => true

/-- **what the name denotes under Python**: import every module of `order`, then evaluate the
dotted `name` in the namespace of module `m` / class chain `cp` (first component in that
namespace itself, the rest by attribute access) -/
def pyDenotes (proj : Project) (order : List Nat) (m : Nat) (cp : List Name) (name : Path) : Option Ident :=
  denoteAt proj (run proj order) m cp name

end PyImp

/-! ## bounded search for a counterexample to soundness with re-exports (item 3) -/

namespace Imports
open Registry

/-- the violations of `pydoctor resolves to a ∧ Python binds b → a = finalLoc b` among all dotted names
of length ≤ depth + 1 over the identifiers of the project, in every module / definition scope, for
one finished pydoctor state and one finished Python state: `(module, class chain, name, a, b)` -/
def soundViolationsIn (proj : Project) (sPd : St) (sPy : PyImp.St) (depth : Nat) :
    List (Nat × List Name × Path × Ident × Ident) × Nat :=
  let ids := identifiers proj
  (entities proj).foldl (fun acc S =>
    let den (q : Path) : Option Ident := PyImp.denoteAt proj sPy S.1 S.2 q
    let qs := extendQ (fun q => (den q).isSome) ids depth (ids.map fun x => [x])
    qs.foldl (fun acc q =>
      match resolveIn sPd S.1 S.2 q, den q with
      | some a, some b => if a == finalLoc proj b then (acc.1, acc.2 + 1) else (acc.1 ++ [(S.1, S.2, q, a, b)], acc.2 + 1)
      | _, _ => acc) acc) ([], 0)

/-- … over a list of pydoctor processing orders and Python import orders; also: the analysis must be
clean under every order and the resolution of every checked name the same under every order -/
def soundViolations (proj : Project) (ordsPd ordsPy : List (List Nat)) (depth : Nat) :
    List (Nat × List Name × Path × Ident × Ident) × Nat :=
  ordsPd.foldl (fun acc o =>
    let sPd := run proj o
    if sPd.bad then (acc.1 ++ [(0, [], [], Ident.mod [], Ident.mod [])], acc.2) else
    ordsPy.foldl (fun acc o' =>
      let r := soundViolationsIn proj sPd (PyImp.run proj o') depth
      (acc.1 ++ r.1, acc.2 + r.2)) acc) ([], 0)

/-- all permutations of a list -/
def insertAll {α : Type} (x : α) : List α → List (List α)
  | [] => [[x]]
  | y :: ys => (x :: y :: ys) :: (insertAll x ys).map (y :: ·)
def perms {α : Type} : List α → List (List α)
  | [] => [[]]
  | x :: xs => (perms xs).flatMap (insertAll x)

end Imports

