/-
Determinism — model of the places where pydoctor's output could depend on something other than
its inputs (C18).  Import-free, executable, total.

Five parts (the build-time decision and the presentation sort keys are at the end of the file), each a literal
transcription of the code named beside it:

1. *Set-iteration sites.*  Python iterates a `set` in an order fixed by the hash seed of the
   interpreter.  A site is therefore modelled as a function applied to an ARBITRARY enumeration
   (`enum : List α`, no duplicates) of the set; the property is invariance under permutation.
   Sites: `System.root_names` consumers (`driver.get_system` project-name guess — sorted since f35e237,
   `Documentable.url`, `TemplateWriter.writeSummaryPages`, `summary.summaryPages`,
   `linker` membership test), `astutils._annotation_for_elements`, `IndexPage.rootkind`.
2. *Directory traversal.*  `System.addPackage` = `for path in sorted(package_path.iterdir())`.
   `listing` is what the file system returned, in ITS order.
3. *Output directory.*  A map file ↦ bytes | symlink, with `open(..., 'wb')` (create / truncate,
   follows symlinks), `unlink` guarded by `except FileNotFoundError`, `symlink_to` (raises
   `FileExistsError`); `prepOutputDirectory` removes nothing.

Names are lists of code points (`Name`), so that `sorted` is Python's `str` order.
-/
namespace Determinism

abbrev Name := List Nat

/-! ## 0. `sorted` -/

/-- Python `a <= b` on `str` (and on `pathlib` paths of one directory, which compare by their
parts): lexicographic on code points. -/
def lexLe : Name → Name → Bool
  | [], _ => true
  | _ :: _, [] => false
  | a :: as, b :: bs => if a < b then true else if a = b then lexLe as bs else false

/-- `sorted(xs)` for names: a stable sort by `lexLe` (core `List.mergeSort`; CPython's
timsort is stable as well, and for an antisymmetric total order the result is unique). -/
def sorted (xs : List Name) : List Name := xs.mergeSort lexLe

/-- `sorted(xs, key=k)` -/
def sortedBy {α : Type} (k : α → Name) (xs : List α) : List α :=
  xs.mergeSort (fun a b => lexLe (k a) (k b))

/-! ## 1. set-iteration sites -/

/-- `sep.join(parts)` -/
def join (sep : Name) : List Name → Name
  | [] => []
  | [x] => x
  | x :: y :: rest => x ++ sep ++ join sep (y :: rest)

def slash : Nat := 47

/-- driver.get_system, step 3 (since /repo f35e237):
```
if system.options.projectname is None:
    name = '/'.join(sorted(system.root_names))  # <- the set is sorted before it is joined
    system.projectname = name
else:
    system.projectname = system.options.projectname
```
`enum` is the order in which this interpreter enumerates `system.root_names`. -/
def projectName (explicit : Option Name) (enum : List Name) : Name :=
  match explicit with
  | none => join [slash] (sorted enum)
  | some n => n

/-- the same step BEFORE f35e237 (`name = '/'.join(system.root_names)`: the set was joined in the
interpreter's enumeration order).  Kept for the record only: `projectname_counterexample_old`. -/
def projectNameOld (explicit : Option Name) (enum : List Name) : Name :=
  match explicit with
  | none => join [slash] enum
  | some n => n

/-- generic site class: the set is only asked `x in s` -/
def membershipSite {α : Type} [BEq α] (x : α) (enum : List α) : Bool := enum.contains x

/-- generic site class: `f(sorted(s))` -/
def sortedSite {β : Type} (f : List Name → β) (enum : List Name) : β := f (sorted enum)

/-- generic site class: `f(sorted(s, key=k))` -/
def sortedBySite {α β : Type} (k : α → Name) (f : List α → β) (enum : List α) : β := f (sortedBy k enum)

/-- generic site class: the element is taken only when the set has exactly one:
`if len(s) == 1: f(list(s)[0])  else: dflt` -/
def singletonSite {α β : Type} (f : α → β) (dflt : β) (enum : List α) : β :=
  if enum.length = 1 then
    match enum with
    | x :: _ => f x
    | [] => dflt
  else dflt

def dotHtml : Name := [46, 104, 116, 109, 108]                       -- ".html"
def indexHtml : Name := [105, 110, 100, 101, 120] ++ dotHtml          -- "index.html"

/-- model.Documentable.url, for a page object with full name `full` (quoting is the identity on
the names the model is asked about: identifiers and dots):
```
if list(self.system.root_names) == [page_obj.fullName()]: page_url = 'index.html'
else: page_url = f'{quote(page_obj.fullName())}.html'
``` -/
def pageUrl (enum : List Name) (full : Name) : Name :=
  if enum = [full] then indexHtml else full ++ dotHtml

inductive LinkRes where
  | noLink
  | link (name : Name)      -- `<name>` is replaced by a symlink to index.html
  | indexError              -- `list(...)[0]` on an empty list (unreachable under `len == 1`)
  deriving DecidableEq, Repr

/-- templatewriter.writer.TemplateWriter.writeSummaryPages, tail (at /repo a3977d7):
```
if len(system.root_names) == 1:
    root_module_path = build_directory / (list(system.root_names)[0] + '.html')
    if not any(o.isVisible for o in system.rootobjects): return          # hidden root: no file named after it
    if root_module_path.name == 'index.html': return
    if root_module_path.name in [pclass.filename for pclass in chain(summaryPages(system), searchpages)]: return
    try: root_module_path.unlink()  except FileNotFoundError: pass
    root_module_path.symlink_to('index.html')
```
`pageFiles` = the file names of the summary and search pages of this run (a list: membership only);
`anyRootVisible` = `any(o.isVisible for o in system.rootobjects)`. -/
def rootSymlink (enum : List Name) (anyRootVisible : Bool) (pageFiles : List Name) : LinkRes :=
  if enum.length = 1 then
    match enum[0]? with
    | some r =>
      if !anyRootVisible then .noLink
      else if r ++ dotHtml = indexHtml then .noLink
      else if pageFiles.contains (r ++ dotHtml) then .noLink
      else .link (r ++ dotHtml)
    | none => .indexError
  else .noLink

/-- templatewriter.summary.summaryPages (at /repo a09aa28):
`if len(system.root_names) > 1 or not any(o.isVisible for o in system.rootobjects): pages.append(IndexPage)`;
`anyRootVisible` = `any(o.isVisible for o in system.rootobjects)` (a fold over the LIST of root objects). -/
def hasIndexPage (enum : List Name) (anyRootVisible : Bool) : Bool :=
  decide (enum.length > 1) || !anyRootVisible

/-- linker._EpydocLinker._resolve_identifier_xref: `fullID[:root_idx] not in system.root_names` -/
def rootUnknown (enum : List Name) (pfx : Name) : Bool := !(membershipSite pfx enum)

/-- astutils._annotation_for_elements, tail (`names` is a set of annotation names):
```
if len(names) == 1: name = names.pop(); return ast.Name(id=name)
else: return None
```
`set.pop()` removes an arbitrary element: the first of the enumeration. -/
def popSingle {α : Type} (enum : List α) : Option α :=
  if enum.length = 1 then enum.head? else none

/-- templatewriter.summary.IndexPage.rootkind:
`'/'.join(format_kind(k) for k in sorted(set(kinds), key=lambda k: k.name))` -/
def rootKinds (enum : List Name) : Name := sortedSite (join [slash]) enum

/-! ## 2. directory traversal -/

inductive Kind where
  | file
  | pkgdir      -- `path.is_dir()` and `(path / '__init__.py').exists()`
  | plaindir    -- directory without `__init__.py`
  deriving DecidableEq, Repr

structure Cfg where
  allSuffixes : List Name        -- importlib.machinery.all_suffixes(), in order
  sourceSuffixes : List Name     -- importlib.machinery.SOURCE_SUFFIXES
  extSuffixes : List Name        -- importlib.machinery.EXTENSION_SUFFIXES
  introspectC : Bool             -- options.introspect_c_modules

inductive Ev where
  | package (path : List Name)   -- analyzeModule(path/'__init__.py', ..., is_package=True)
  | module (path : List Name)    -- analyzeModule(path, module_name, package)
  | cmodule (path : List Name)   -- introspectModule(...)
  | fuel                         -- the model ran out of recursion depth (never in a finite tree)
  deriving DecidableEq, Repr

def endsWith (name suffix : Name) : Bool :=
  suffix.length ≤ name.length && name.drop (name.length - suffix.length) == suffix

/-- model.System.addModuleFromPath:
```
for suffix in importlib.machinery.all_suffixes():
    if not name.endswith(suffix): continue
    module_name = name[:-len(suffix)]
    if suffix in EXTENSION_SUFFIXES:
        if self.options.introspect_c_modules: self.introspectModule(path, module_name, package)
    elif suffix in SOURCE_SUFFIXES: self.analyzeModule(path, module_name, package)
    break
``` -/
def addModuleFromPath (cfg : Cfg) (pkg : List Name) (name : Name) : List Ev :=
  match cfg.allSuffixes.find? (endsWith name) with
  | none => []
  | some s =>
    let modname := name.take (name.length - s.length)
    if cfg.extSuffixes.contains s then
      if cfg.introspectC then [.cmodule (pkg ++ [modname])] else []
    else if cfg.sourceSuffixes.contains s then [.module (pkg ++ [modname])]
    else []

def initPy : Name := [95, 95, 105, 110, 105, 116, 95, 95, 46, 112, 121]     -- "__init__.py"

/-- the body of the loop of addPackage for one (sorted) entry -/
def visitEntry (cfg : Cfg) (recurse : List Name → List Ev) (pkg : List Name) (e : Name × Kind) : List Ev :=
  match e.2 with
  | .pkgdir => recurse (pkg ++ [e.1])
  | .plaindir => []
  | .file => if e.1 ≠ initPy ∧ e.1.head? ≠ some 46 then addModuleFromPath cfg pkg e.1 else []

/-- model.System.addPackage:
```
package = self.analyzeModule(package_path / '__init__.py', package_path.name, parentPackage, is_package=True)
for path in sorted(package_path.iterdir()):
    if path.is_dir():
        if (path / '__init__.py').exists(): self.addPackage(path, package)
    elif path.name != '__init__.py' and not path.name.startswith('.'):
        self.addModuleFromPath(path, package)
```
`ls pkg` = `package_path.iterdir()` in the order the file system lists it. -/
def addPackage (cfg : Cfg) (ls : List Name → List (Name × Kind)) : Nat → List Name → List Ev
  | 0, _ => [.fuel]
  | fuel + 1, pkg =>
    .package pkg :: ((sortedBy (·.1) (ls pkg)).map (visitEntry cfg (addPackage cfg ls fuel) pkg)).flatten

/-! ## 3. the output directory -/

inductive Entry where
  | file (content : Nat)       -- regular file; `content` identifies the bytes
  | link (target : Name)       -- symbolic link (relative, same directory)
  deriving DecidableEq, Repr

/-- association list, first binding wins -/
abbrev Dir := List (Name × Entry)

def Dir.get (d : Dir) (n : Name) : Option Entry :=
  match d with
  | [] => none
  | (m, e) :: rest => if m = n then some e else Dir.get rest n

def Dir.set (d : Dir) (n : Name) (e : Entry) : Dir := (n, e) :: d

def Dir.remove (d : Dir) (n : Name) : Dir := d.filter (fun p => p.1 ≠ n)

inductive Op where
  | write (n : Name) (content : Nat)   -- `with path.open('wb') as f: f.write(bytes)`
  | unlinkOk (n : Name)                -- `try: path.unlink()  except FileNotFoundError: pass`
  | symlink (n target : Name)          -- `path.symlink_to(target)`
  deriving DecidableEq, Repr

inductive Err where
  | fileExists     -- symlink_to over an existing name
  | eloop          -- open() met more symbolic links than the system follows (a link cycle)
  deriving DecidableEq, Repr

/-- the name `open(n)` ends at: links are followed (Linux: at most 40); `none` = ELOOP.
A dangling link resolves to its (absent) target, which `open(..., 'wb')` then creates. -/
def resolve (d : Dir) : Nat → Name → Option Name
  | 0, _ => none
  | fuel + 1, n =>
    match d.get n with
    | some (.link t) => resolve d fuel t
    | _ => some n

def maxLinks : Nat := 40

def step (d : Dir) : Op → Except Err Dir
  | .write n c =>
    match resolve d (maxLinks + 1) n with
    | some m => .ok (d.set m (.file c))
    | none => .error .eloop
  | .unlinkOk n => .ok (d.remove n)
  | .symlink n t => if (d.get n).isSome then .error .fileExists else .ok (d.set n (.link t))

def run : List Op → Dir → Except Err Dir
  | [], d => .ok d
  | op :: ops, d =>
    match step d op with
    | .ok d' => run ops d'
    | .error e => .error e

/-- the shape of one pydoctor run (driver.make):
`prepOutputDirectory` (static files) ; summary + search pages ; lunr indexes  — `before`
; optional root symlink                                                     — `link`
; individual pages ; objects.inv                                            — `after` -/
def runOps (before : List (Name × Nat)) (link : Option (Name × Name)) (after : List (Name × Nat)) : List Op :=
  before.map (fun w => Op.write w.1 w.2)
    ++ (match link with
        | none => []
        | some (s, t) => [Op.unlinkOk s, Op.symlink s t])
    ++ after.map (fun w => Op.write w.1 w.2)

def names (ws : List (Name × Nat)) : List Name := ws.map (·.1)

/-- hypothesis of `rerun_idempotent`.  The name `s` that becomes a symlink (`<root>.html`) is not
written after the link is made; and either it is not written before either (the root's page goes
to `index.html`), or — a root module named like a summary page, whose page a re-run writes
THROUGH the link the previous run left — the link's target `t` is rewritten afterwards and is
not `s` itself. -/
def wfRun (before : List (Name × Nat)) (link : Option (Name × Name)) (after : List (Name × Nat)) : Bool :=
  match link with
  | none => true
  | some (s, t) =>
    !(names after).contains s && (!(names before).contains s || ((names after).contains t && s != t))

/-- longest prefix of plain writes -/
def takeWrites : List Op → List (Name × Nat) × List Op
  | .write n c :: rest => let (ws, r) := takeWrites rest; ((n, c) :: ws, r)
  | ops => ([], ops)

/-- recognise an operation log as `runOps before link after` -/
def shapeOf (ops : List Op) : Option (List (Name × Nat) × Option (Name × Name) × List (Name × Nat)) :=
  let (b, rest) := takeWrites ops
  match rest with
  | [] => some (b, none, [])
  | .unlinkOk s :: .symlink s' t :: rest' =>
    if s = s' then
      let (a, r) := takeWrites rest'
      if r.isEmpty then some (b, some (s, t), a) else none
    else none
  | _ => none

/-! ## 4. the build time (what the footer of every page shows) -/

/-- `os.environ['SOURCE_DATE_EPOCH']` as `int(...)` and `datetime.utcfromtimestamp(...)` see it -/
inductive EnvEpoch where
  | unset                    -- KeyError
  | notInt                   -- int() raises ValueError ('abc', '', '1.5')
  | value (seconds : Int)    -- accepted: 0, '00', '0 ', negative, 2^31, twelve digits …
  | yearRange                -- utcfromtimestamp raises ValueError (year out of range)
  | platformRange            -- utcfromtimestamp raises OverflowError / OSError (not caught)
  deriving DecidableEq, Repr

/-- `options.buildtime` as `if options.buildtime:` and `strptime(..., BUILDTIME_FORMAT)` see it -/
inductive OptTime where
  | notGiven                 -- None or ''
  | bad                      -- strptime raises ValueError
  | time (seconds : Int)
  deriving DecidableEq, Repr

inductive BuildTime where
  | time (seconds : Int)     -- system.buildtime, as seconds since 1970-01-01 00:00:00 of the naive datetime
  | exitError                -- utils.error(): message, sys.exit(1)
  | crash                    -- uncaught exception
  deriving DecidableEq, Repr

/-- model.System.__init__ (`self.buildtime = datetime.datetime.now()`) followed by driver.get_system:
```
try: system.buildtime = datetime.datetime.utcfromtimestamp(int(os.environ['SOURCE_DATE_EPOCH']))
except ValueError as e: error(str(e))
except KeyError: pass
if options.buildtime:
    try: system.buildtime = datetime.datetime.strptime(options.buildtime, BUILDTIME_FORMAT)
    except ValueError as e: error(str(e))
```
`now` = what the clock says when the System is created.  A SET variable is used whatever its
value — `0` included: there is no truthiness test on the number. -/
def buildTime (now : Int) (env : EnvEpoch) (opt : OptTime) : BuildTime :=
  match env with
  | .notInt => .exitError
  | .yearRange => .exitError
  | .platformRange => .crash
  | .unset =>
    match opt with
    | .notGiven => .time now
    | .bad => .exitError
    | .time t => .time t
  | .value n =>
    match opt with
    | .notGiven => .time n
    | .bad => .exitError
    | .time t => .time t

/-! ## 5. presentation order: the sort keys of the writers

Every list the writers show is `sorted(<list>, key=<key>)` (Python's sort is stable: elements whose
keys are equal stay in the order of the input list).  The keys are transcribed here; a key is a
tuple of ints and strs, compared as Python compares tuples (lexicographically). -/

/-- an order on keys: `le` with the three laws are in `PdProps.C18` (`*_total/_trans/_antisymm`) -/
def intLe (a b : Int) : Bool := decide (a ≤ b)

/-- lexicographic order of pairs, from the orders of the components: `(a, b) <= (a', b')` -/
def pairLe {α β : Type} (leA : α → α → Bool) (leB : β → β → Bool) (x y : α × β) : Bool :=
  if leA x.1 y.1 && !(leA y.1 x.1) then true          -- x.1 < y.1
  else if leA x.1 y.1 && leA y.1 x.1 then leB x.2 y.2  -- x.1 == y.1
  else false

/-- `sorted(xs, key=key)` with keys ordered by `le` (stable) -/
def sortedWith {α κ : Type} (le : κ → κ → Bool) (key : α → κ) (xs : List α) : List α :=
  xs.mergeSort (fun a b => le (key a) (key b))

/-- what the keys read off a `Documentable` -/
structure Obj where
  privacy : Nat          -- o.privacyClass.value   (HIDDEN 0, PRIVATE 1, PUBLIC 2)
  kind : Option Nat      -- o.kind.value, `none` when o.kind is None
  full : Name            -- o.fullName()
  lowerFull : Name       -- o.fullName().lower()   (str.lower is CPython's: a parameter)
  line : Nat             -- o.linenumber
  isModule : Bool        -- isinstance(o, model.Module)
  deriving DecidableEq, Repr

/-- util._map_kind: packages and modules are listed together (PACKAGE = 1000, MODULE = 900) -/
def mapKind (k : Nat) : Nat := if k = 1000 then 900 else k

/-- `-_map_kind(o.kind).value if o.kind else 0` (an Enum member is always truthy: `else` = None) -/
def negKind (o : Obj) : Int :=
  match o.kind with
  | some k => - (Int.ofNat (mapKind k))
  | none => 0

abbrev AlphaKey := Int × Int × Name

/-- util.alphabetical_order_func:
`(-o.privacyClass.value, -_map_kind(o.kind).value if o.kind else 0, o.fullName().lower())` -/
def alphaKey (o : Obj) : AlphaKey := (- Int.ofNat o.privacy, negKind o, o.lowerFull)

def alphaLe : AlphaKey → AlphaKey → Bool := pairLe intLe (pairLe intLe lexLe)

/-- third component of util.source_order_func: a str for modules, an int otherwise -/
inductive Third where
  | num (n : Nat)
  | str (s : Name)
  deriving DecidableEq, Repr

/-- order on `Third`.  Python raises TypeError for `int < str`; that case is excluded by
`sourceComparable` (it is never reached for real objects: a module and a non-module differ in their
kind component), and is given an arbitrary answer here (ints first) only to keep `le` total. -/
def thirdLe : Third → Third → Bool
  | .num a, .num b => decide (a ≤ b)
  | .str a, .str b => lexLe a b
  | .num _, .str _ => true
  | .str _, .num _ => false

abbrev SourceKey := Int × Int × Third

/-- util.source_order_func:
```
if isinstance(o, model.Module): return (-privacy, -kind, o.fullName().lower())
else:                           return (-privacy, -kind, o.linenumber)
``` -/
def sourceKey (o : Obj) : SourceKey :=
  (- Int.ofNat o.privacy, negKind o, if o.isModule then .str o.lowerFull else .num o.line)

def sourceLe : SourceKey → SourceKey → Bool := pairLe intLe (pairLe intLe thirdLe)

/-- two source keys that Python can compare without TypeError: they differ before the third
component, or their third components have the same type -/
def sourceComparable (a b : Obj) : Bool :=
  (sourceKey a).1 != (sourceKey b).1 || (sourceKey a).2.1 != (sourceKey b).2.1 || a.isModule == b.isModule

/-- `sorted(objs, key=source_order_func)`; `none` = some pair of keys would raise TypeError if the
sort happened to compare it -/
def sortedSource? (objs : List Obj) : Option (List Obj) :=
  if objs.all (fun a => objs.all (fun b => sourceComparable a b)) then some (sortedWith sourceLe sourceKey objs)
  else none

/-- summary._lckey: `(x.fullName().lower(), x.fullName())` -/
def lcKey (o : Obj) : Name × Name := (o.lowerFull, o.full)

def lcLe : Name × Name → Name × Name → Bool := pairLe lexLe lexLe

/-- a str with its `.lower()` (CPython's) -/
structure Str where
  s : Name
  lower : Name
  deriving DecidableEq, Repr

/-- LetterElement.names: `sorted(name2obs, key=lambda x: (x.lower(), x))` -/
def nameKey (x : Str) : Name × Name := (x.lower, x.s)

/-- summary.findRootClasses: `sorted(roots.items(), key=lambda x: x[0].lower())`, and
`sorted(self.ob.implements_directly, key=lambda x: x.lower())` -/
def lowerKey (x : Str) : Name := x.lower

/-- UndocumentedSummaryPage.stuff: `undoccedpublic.sort(key=lambda o: o.fullName())` -/
def fullKey (o : Obj) : Name := o.full

def sortedAlpha (objs : List Obj) : List Obj := sortedWith alphaLe alphaKey objs
def sortedLc (objs : List Obj) : List Obj := sortedWith lcLe lcKey objs
def sortedFull (objs : List Obj) : List Obj := sortedWith lexLe fullKey objs
def sortedNames (xs : List Str) : List Str := sortedWith lcLe nameKey xs
def sortedLower (xs : List Str) : List Str := sortedWith lexLe lowerKey xs

/-! ### inherited members (templatewriter.util) -/

structure Member where
  name : Name
  visible : Bool
  id : Nat               -- which object (position in the request)
  deriving DecidableEq, Repr

inductive AttrsRes where
  | ok (members : List Member)
  | indexError             -- `baselist[0]` of an empty chain
  deriving DecidableEq, Repr

/-- util.unmasked_attrs:
```
maybe_masking = {o.name for b in baselist[1:] for o in b.contents.values() if not model.is_class_private(o.name)}
return [o for o in baselist[0].contents.values() if o.isVisible and o.name not in maybe_masking]
```
`masking` is ANY enumeration of the set `maybe_masking` (it is only asked `in`). -/
def unmaskedAttrsWith (first : List Member) (masking : List Name) : List Member :=
  first.filter (fun o => o.visible && !(masking.contains o.name))

/-- model.is_class_private: `name.startswith('__') and not name.endswith('__')` (Python mangles such a name in a
class body: it neither masks nor is masked across classes) -/
def isClassPrivate (name : Name) : Bool :=
  (name.take 2 == [95, 95] && name.length ≥ 2) && !(endsWith name [95, 95])

def maskingNames (rest : List (List Member)) : List Name :=
  ((rest.map (·.map (·.name))).flatten).filter (fun n => !isClassPrivate n)

def unmaskedAttrs (baselist : List (List Member)) : AttrsRes :=
  match baselist with
  | [] => .indexError
  | first :: rest => .ok (unmaskedAttrsWith first (maskingNames rest))

/-- util.nested_bases: `for i, _ in enumerate(_mro): yield tuple(reversed(_mro[:(i+1)]))` -/
def nestedBases {α : Type} (mro : List α) : List (List α) :=
  (List.range mro.length).map (fun i => (mro.take (i + 1)).reverse)

/-- util.class_members followed by util.inherited_members:
```
for baselist in nested_bases(cls): attrs = unmasked_attrs(baselist); if attrs: baselists.append((baselist, attrs))
for inherited_via, attrs in class_members(cls): if len(inherited_via) > 1: children.extend(attrs)
```
`mro` = the contents (in dict order) of the classes of `cls.mro()`. -/
def inheritedMembers (mro : List (List Member)) : List Member :=
  ((nestedBases mro).filterMap (fun chain =>
    if chain.length > 1 then
      match unmaskedAttrs chain with
      | .ok attrs => some attrs
      | .indexError => none
    else none)).flatten

/-- templatewriter.search.get_all_documents_flattenable and LunrIndexWriter.get_corpus:
`for ob in system.allobjects.values() if ob.isVisible` — the documents of all-documents.html and of the lunr
corpus come in the order of the registry (`allobjects`, a dict: insertion order), hidden objects dropped. -/
def documentOrder (allobjects : List (Name × Bool)) : List Name :=
  (allobjects.filter (·.2)).map (·.1)

/-! ## 6. the template lookup (`--template-dir`) -/

/-- a template file of a directory: its name, `name.lower()`, HTML or static, its bytes -/
structure Tpl where
  name : Name
  lower : Name
  html : Bool
  content : Nat
  deriving DecidableEq, Repr

/-- an entry of TemplateLookup._templates (a CaseInsensitiveDict: keyed by the lowered name): the name
the template keeps (the output file name of a static template), its type, its bytes -/
structure TplEntry where
  outName : Name
  html : Bool
  content : Nat
  deriving DecidableEq, Repr

/-- association list keyed by lowered name, first binding wins -/
abbrev Lookup := List (Name × TplEntry)

def Lookup.get (d : Lookup) (k : Name) : Option TplEntry :=
  match d with
  | [] => none
  | (m, e) :: rest => if m = k then some e else Lookup.get rest k

/-- TemplateLookup.add_template (version checks of HTML templates and the directory check left out):
```
try: current_template = self._templates[template.name]          # case-insensitive
except KeyError: self._templates[template.name] = template
else:
    template.name = current_template.name                         # the FIRST spelling names the output file
    if both static or both HTML: self._templates[template.name] = template      # the LAST content wins
    else: raise OverrideTemplateNotAllowed
```
`none` = OverrideTemplateNotAllowed. -/
def addTemplate (d : Lookup) (t : Tpl) : Option Lookup :=
  match d.get t.lower with
  | none => some ((t.lower, ⟨t.name, t.html, t.content⟩) :: d)
  | some e => if e.html = t.html then some ((t.lower, ⟨e.outName, e.html, t.content⟩) :: d) else none

/-- add templates in the order given -/
def addTemplateDir : Lookup → List Tpl → Option Lookup
  | d, [] => some d
  | d, t :: rest =>
    match addTemplate d t with
    | some d' => addTemplateDir d' rest
    | none => none

/-- TemplateLookup.add_templatedir (at /repo ea400d3): `for template in Template.fromdir(path): self.add_template(template)`
with Template.fromdir walking `sorted(path.iterdir(), key=lambda e: e.name)`;
`listing` = the directory's files in the order the file system lists them. -/
def addTemplateDirSorted (d : Lookup) (listing : List Tpl) : Option Lookup :=
  addTemplateDir d (sortedWith lexLe (·.name) listing)

/-- the same BEFORE ea400d3: the directory was walked in the order `path.iterdir()` listed it.
Kept for the record only (`addTemplateDir_listing_counterexample_old`). -/
def addTemplateDirOld (d : Lookup) (listing : List Tpl) : Option Lookup := addTemplateDir d listing

/-! ## 7. hunter round: extension load order, repr of a live set, the docutils `date` directive -/

/-- extensions._get_submodules / get_extensions BEFORE /repo 2786e75: the names were taken in the order
`files(pkg).iterdir()` listed them.  Kept for the record only (`getExtensions_listing_counterexample_old`). -/
def getExtensionsOld (listing : List (Name × Bool)) : List Name :=
  listing.filterMap (fun e =>
    if e.1.head? ≠ some 95 ∧ e.2 = true ∧ endsWith e.1 [46, 112, 121] then some (e.1.take (e.1.length - 3)) else none)

/-- extensions._get_submodules / get_extensions (at /repo 2786e75):
```
for name in sorted(_importlib_resources_contents(pkg)):   # [path.name for path in files(pkg).iterdir()], sorted
    if (not name.startswith('_') and _importlib_resources_is_resource(pkg, name)) and name.endswith('.py'):
        yield f"{pkg}.{name[:-len('.py')]}"
```
`listing` = the entries of pydoctor/extensions/ (name, is a file) in the order the file system lists them; the
result is the order in which System.__init__ loads the built-in extensions (mixins, AST visitor extensions,
post-processors are registered in that order). -/
def getExtensions (listing : List (Name × Bool)) : List Name :=
  getExtensionsOld (sortedWith lexLe (·.1) listing)

/-- AST visitor extensions registered with the same timing run in the order they were loaded; each of attrs
(`_handleAttrsAssignmentInClass`: kind = INSTANCE_VARIABLE) and zopeinterface
(`_handleZopeInterfaceAssignmentInClass`: kind = ATTRIBUTE / SCHEMA_FIELD) ASSIGNS `attr.kind` for an assignment it
recognises: the last one loaded wins.  `claims` = for each loaded extension, in load order, the kind it assigns
(`none`: it does not recognise the assignment). -/
def kindAfterVisitors (initial : Nat) (claims : List (Option Nat)) : Nat :=
  claims.foldl (fun k c => match c with | some k' => k' | none => k) initial

/-- model._EscapedRepr.__repr__ on a live `set` BEFORE /repo 828eb1f: `repr(value)`, which walks the set in the
interpreter's enumeration order. `enum` = that order, each element as its own repr.  Historical. -/
def setReprOld (enum : List Name) : Name :=
  match enum with
  | [] => [115, 101, 116, 40, 41]                                 -- "set()"
  | _ => [123] ++ join [44, 32] enum ++ [125]                      -- "{a, b}"

/-- model._stable_repr on a live `set` (at /repo 828eb1f; `_EscapedRepr.__repr__` escapes its result):
`'{' + ', '.join(sorted(_stable_repr(v) for v in value)) + '}'`, `repr(value)` for the empty set.
`enum` = the interpreter's enumeration, each element as its own (stable) repr. -/
def setRepr (enum : List Name) : Name := setReprOld (sorted enum)

/-- the time a reStructuredText docstring shows through docutils' `date` directive
(docutils.parsers.rst.directives.misc.Date.run of the installed docutils: `text = time.strftime(format_str)`; its
SOURCE_DATE_EPOCH branch is commented out).  pydoctor hands it neither `system.buildtime`, nor `--buildtime`, nor
the variable: none of them is consulted. -/
def rstDateTime (now : Int) (_env : EnvEpoch) (_opt : OptTime) : Int := now

/-- the executable property predicate for part 1: a site function gives the same answer on two
enumerations -/
def sameOn {α β : Type} [BEq β] (f : List α → β) (e₁ e₂ : List α) : Bool := f e₁ == f e₂

end Determinism
