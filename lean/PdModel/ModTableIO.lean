import PdModel.ModTable
import PdModel.RegistryIO
import PdModel.Proto
/-! Line protocol: `modtable run <op> <op> …` (and `modtable runold …` for the step before 6850302)
op = `A|<kind>|<name u:…>|<parent id or ->`, kind ∈ P (package) M (module) C (C module) Q (C package).
Answer: per-op outcomes, whether every op met `opOk`, the executable invariant, then the state:
`all` keys with ids in order, `roots`, `unproc`, per object `id:kind:name:parent:[contents]`. -/
namespace ModTable

def parseKind : String → Option Kind
  | "P" => some .package | "M" => some .module | "C" => some .cmodule | "Q" => some .cpackage | _ => none

def showKind : Kind → String
  | .package => "P" | .module => "M" | .cmodule => "C" | .cpackage => "Q"

def parseOp (tok : String) : Option Op :=
  match tok.splitOn "|" with
  | ["A", k, n, p] => do
    let k ← parseKind k
    let n ← Proto.decodeStr n
    if p == "-" then some ⟨k, n, none⟩ else do
      let p ← p.toNat?
      some ⟨k, n, some p⟩
  | _ => none

def showErr : Option Err → String
  | none => "ok" | some .valueError => "ValueError" | some .keyError => "KeyError"
  | some .assertionError => "AssertionError" | some .recursionError => "RecursionError"
  | some .duplicateObject => "DuplicateObject"

def showObj (i : Nat) (o : MObj) : String :=
  s!"{i}:{showKind o.kind}:{Proto.encodeStr o.name}:" ++ (match o.parent with | none => "-" | some p => toString p)
    ++ ":[" ++ ",".intercalate (o.contents.map fun e => Proto.encodeStr e.1 ++ "=" ++ toString e.2) ++ "]"

def dump (s : State) : String :=
  "all " ++ " ".intercalate (s.all.map fun e => Registry.showPath e.1 ++ "=" ++ toString e.2)
    ++ " | roots " ++ Proto.showNatList s.roots
    ++ " | unproc " ++ Proto.showNatList s.unproc
    ++ " | objs " ++ " ".intercalate ((List.range s.objs.length).zip s.objs |>.map fun (i, o) => showObj i o)

def answer (old : Bool) (ops : List Op) : String :=
  let (s, outs) := if old then runOld init ops else run init ops
  "ok " ++ ",".intercalate (outs.map showErr) ++ " | pre " ++ toString (histOk init ops)
    ++ " | inv " ++ toString (invB s) ++ " | " ++ dump s

def handle (args : List String) : String :=
  match args with
  | "run" :: toks =>
    match toks.mapM parseOp with
    | none => "bad-op"
    | some ops => answer false ops
  | "runold" :: toks =>
    match toks.mapM parseOp with
    | none => "bad-op"
    | some ops => answer true ops
  | _ => "bad-op"

end ModTable
