/-
Line-protocol helpers shared by all model front ends (Driver.lean).
Tokens are separated by single spaces. Arbitrary strings travel as `u:` followed by
dot-separated decimal code points (`u:` alone is the empty string).
-/
namespace Proto

def tokens (line : String) : List String :=
  (line.splitOn " ").filter (· ≠ "")

def decodeStr (tok : String) : Option (List Char) :=
  if tok.startsWith "u:" then
    let body := (tok.drop 2).toString
    if body.isEmpty then some [] else
    (body.splitOn ".").mapM fun p => p.toNat?.map Char.ofNat
  else none

def encodeStr (cs : List Char) : String :=
  "u:" ++ ".".intercalate (cs.map fun c => toString c.toNat)

def natList (tok : String) : Option (List Nat) :=
  if tok == "-" then some [] else (tok.splitOn ",").mapM (·.toNat?)

def showNatList (l : List Nat) : String :=
  if l.isEmpty then "-" else ",".intercalate (l.map toString)

end Proto
