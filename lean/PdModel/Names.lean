/-
Model of name resolution in pydoctor/model.py:
`Module/Class/Inheritable._localNameToFullName`, `Documentable.expandName`, `resolveName`,
`Class.find`, `System.objForFullName`, `System.find_object`, and the relative-import level
arithmetic of `astbuilder.ModuleVistor.visit_ImportFrom`.

Works over `Registry.State` (objects with `contents` and alias maps) plus each class's
linearisation (`mro`, computed elsewhere: C05).  Dotted strings are paths (see Registry.lean).
-/
import PdModel.Registry

namespace Names
open Registry

structure Env where
  st : State
  mro : List (Nat × List Nat)      -- Class id ↦ Class.mro() as ids (documented classes only)
  deriving Repr

def mroOf (e : Env) (c : Nat) : List Nat := (dget e.mro c).getD [c]

mutual
/-- `_localNameToFullName(name)` for the object `obj`; fuel bounds the walk to the parents.
`none` = the walk fell off the tree (AttributeError on `None.parent`) or ran out of fuel. -/
def localName (e : Env) : Nat → Nat → Name → Option Path
  | 0, _, _ => none
  | f+1, obj, p =>
    match getObj e.st obj with
    | none => none
    | some o =>
      match o.cls with
      | .module | .package =>
        match dget o.contents p with
        | some c => path e.st c
        | none => match dget o.aliases p with
          | some t => some t
          | none => some [p]
      | .cls =>
        match dget o.contents p with
        | some c => path e.st c
        | none => match dget o.aliases p with
          | some t => some t
          | none => match o.parent with
            | some par => localNameSkip e f par p
            | none => none
      | .function | .attribute =>
        match o.parent with
        | some par => localName e f par p
        | none => none
/-- the fall-back of `Class._localNameToFullName` (since fix 71f60f2): `scope = self.parent; while isinstance(scope, Class)
and isinstance(scope.parent, CanContainImportsDocumentable): scope = scope.parent; return scope._localNameToFullName(name)`
— the names bound in enclosing CLASS bodies are skipped, the first enclosing scope that is not a class answers -/
def localNameSkip (e : Env) : Nat → Nat → Name → Option Path
  | 0, _, _ => none
  | f+1, scope, p =>
    match getObj e.st scope with
    | none => none
    | some so =>
      match so.cls with
      | .module | .package =>
        match dget so.contents p with
        | some c => path e.st c
        | none => match dget so.aliases p with
          | some t => some t
          | none => some [p]
      | .cls =>
        match so.parent with
        | some par =>
          if (match getObj e.st par with | some po => canContainImports po.cls | none => false) then
            localNameSkip e f par p                      -- an enclosing class: skipped
          else
            -- a class whose parent is no module or class answers itself (`Class._localNameToFullName`)
            match dget so.contents p with
            | some c => path e.st c
            | none => match dget so.aliases p with
              | some t => some t
              | none => localName e f par p
        | none =>
          match dget so.contents p with
          | some c => path e.st c
          | none => match dget so.aliases p with
            | some t => some t
            | none => none
      | .function | .attribute =>
        match so.parent with
        | some par => localName e f par p
        | none => none
end

def fuelOf (e : Env) : Nat := e.st.objs.length + 1

/-- `Class.find(name)`: first class of the linearisation whose contents has the name -/
def classFind (e : Env) (c : Nat) (p : Name) : Option Nat :=
  (mroOf e c).findSome? fun b =>
    match getObj e.st b with
    | some bo => dget bo.contents p
    | none => none

def objFor (e : Env) (p : Path) : Option Nat := dget e.st.all p

/-- the inherited-member step of `expandName` (since fix d230b6e): the first class of `obj.mro()`
that defines the name (its qualified name) or imports it in its body (the alias target) decides -/
def classLookup (e : Env) (c : Nat) (p : Name) : Option Path :=
  (mroOf e c).findSome? fun b =>
    match getObj e.st b with
    | some bo =>
      match dget bo.contents p with
      | some i => some ((path e.st i).getD [p])
      | none => dget bo.aliases p
    | none => none

/-- what one component of a dotted name is looked up as: `_localNameToFullName(p)`, except that an
attribute of a class (`i != 0`) which the class neither defines nor imports is NOT looked up in the
scopes enclosing the class statement (`full_name = p`; the inherited members are tried next) -/
def componentName (e : Env) (obj : Nat) (first : Bool) (p : Name) : Option Path :=
  match getObj e.st obj with
  | some o =>
    if !first && o.cls = .cls && (dget o.contents p).isNone && (dget o.aliases p).isNone then some [p]
    else localName e (fuelOf e) obj p
  | none => localName e (fuelOf e) obj p

/-- the `for i, p in enumerate(parts)` loop of `expandName`; `first` ⇔ `i == 0` -/
def expandLoop (e : Env) : Nat → Bool → List Name → Option Path
  | _, _, [] => none
  | obj, first, p :: rest =>
    match componentName e obj first p with
    | none => none
    | some fn =>
      let fn' : Option (Path × Bool) :=     -- (full_name, break?)
        if fn = [p] && !first then
          let inh : Path :=
            match getObj e.st obj with
            | some o =>
              if o.cls = .cls then
                match classLookup e obj p with
                | some q => q
                | none => [p]
              else [p]
            | none => [p]
          if inh = [p] then
            match path e.st obj with
            | some op => some (op ++ [p], true)
            | none => none
          else some (inh, false)
        else some (fn, false)
      match fn' with
      | none => none
      | some (full, true) => some (full ++ rest)
      | some (full, false) =>
        match objFor e full with
        | none => some (full ++ rest)
        | some nxt =>
          match rest with
          | [] => some full
          | _ :: _ => expandLoop e nxt false rest

/-- `Documentable.expandName(name)`; `name.split('.')` is the path -/
def expandName (e : Env) (obj : Nat) (name : Path) : Option Path := expandLoop e obj true name

inductive Found | obj (i : Nat) | external | lookupError | indexError | crash
  deriving DecidableEq, Repr

/-- the guard of `find_object` (since fix 996ac8b): the root binds the first component of the rest of the name —
`first in root_obj.contents or (isinstance(root_obj, CanContainImportsDocumentable) and first in
root_obj._localNameToFullName_map)` -/
def rootBinds (e : Env) (ro : Nat) (first : Name) : Bool :=
  match getObj e.st ro with
  | some o => (dget o.contents first).isSome || (canContainImports o.cls && (dget o.aliases first).isSome)
  | none => false

/-- `System.find_object(full_name)` -/
def findObject (e : Env) (full : Path) : Found :=
  match objFor e full with
  | some o => .obj o
  | none =>
    match full with
    | [] => .external      -- ''.split('.',1) = [''] ; no root is called ''
    | r :: rest =>
      match e.st.roots.find? (fun ro => match getObj e.st ro with | some o => o.name = r | none => false) with
      | none => .external
      | some ro =>
        match rest with
        | [] => .indexError           -- `name_parts[1]`
        | first :: _ =>
          if !rootBinds e ro first then .lookupError else
          match expandName e ro rest with
          | none => .crash
          | some p => match objFor e p with
            | some o => .obj o
            | none => .lookupError

/-- HISTORICAL: `find_object` before fix 996ac8b — no guard: a rest whose first component the root does not bind was
handed back by `expandName` as a free name, and an unrelated root module of that name was found -/
def findObjectOld (e : Env) (full : Path) : Found :=
  match objFor e full with
  | some o => .obj o
  | none =>
    match full with
    | [] => .external
    | r :: rest =>
      match e.st.roots.find? (fun ro => match getObj e.st ro with | some o => o.name = r | none => false) with
      | none => .external
      | some ro =>
        if rest = [] then .indexError else
        match expandName e ro rest with
        | none => .crash
        | some p => match objFor e p with
          | some o => .obj o
          | none => .lookupError

/-- `Documentable.resolveName(name)`: the expanded name is looked up; when nothing is registered under
it, it may be the ORIGINAL location of an object moved by a re-export since it was imported:
`find_object` follows the alias left there (`LookupError`, which includes `IndexError`, → `None`) -/
def resolveName (e : Env) (obj : Nat) (name : Path) : Option Nat :=
  match expandName e obj name with
  | some p =>
    match objFor e p with
    | some o => some o
    | none =>
      match findObject e p with
      | .obj o => some o
      | _ => none
  | none => none

/-! ### relative import level arithmetic (`visit_ImportFrom`) -/

/-- the package path a relative import resolves against, or `none` = "relative import level too
high". `modPath` is the importing module, `isPkg` whether it is a package `__init__`. -/
def relativeBase (modPath : Path) (isPkg : Bool) (level : Nat) : Option Path :=
  let lvl := if isPkg then level - 1 else level
  -- `parent = ctx.parentMod`, then `for _ in range(level): parent = parent.parent`
  if lvl < modPath.length then some (modPath.take (modPath.length - lvl)) else none

/-- Python's own rule (importlib._bootstrap._resolve_name): `package.rsplit('.', level-1)[0]`,
where `package` is the module itself for a package, its parent otherwise. -/
def pythonRelativeBase (modPath : Path) (isPkg : Bool) (level : Nat) : Option Path :=
  let package := if isPkg then modPath else modPath.dropLast
  if level = 0 then none
  else if package = [] then none                     -- attempted relative import with no known parent package
  else if level - 1 < package.length then some (package.take (package.length - (level - 1)))
  else none                                          -- beyond top-level package

end Names
