/-
Model of pydoctor/epydoc/markup/_pyval_repr.py (the expression colourizer):

* `_OperatorDelimiter` (parenthesis decision from the parent's precedence, the `+1` rules: under
  `**`, under `and`/`or`, and for the right operand of any other binary operator),
* `PyvalColorizer._colorize_ast*` for constants, unary / binary / boolean operators, tuples,
  lists, sets, dicts, names, dotted names, subscripts, calls, starred, keywords,
* what is handed to `astor.to_source` (`_colorize_ast_generic`): comparison chains and conditional
  expressions over names and operators are modelled after astor's `code_gen.SourceGenerator`
  (`visit_UnaryOp/BinOp/BoolOp/Compare/IfExp`, `Delimit`); every other delegated form is an
  `opaque` leaf whose text the caller supplies,
* `_str_escape`, `_bytes_escape`, `_colorize_str`,
* `_output` (line wrapping, the `↵` continuation marker, `_Maxlines` / `_Linebreak`),
  `_multiline`, `_colorize_iter`, `_insert_comma`, `colorize` (truncation marker `...`),
  `_trim_result`, `is_complete`, and the text extraction `''.join(gettext(to_node()))`
  (docutils `Text.astext` removes NUL characters).

The colourizer is a tree walk that talks to a mutable state through a handful of helpers.  The
walk is transcribed as `compile : Expr → Prog` (one `Prog` instruction per helper call, in call
order); the helpers are transcribed as the interpreter `exec`.  Exceptions are explicit: `exec`
returns `.error (exception, state at the time it was raised)`.

Operator precedences are not written here: every function takes a `PrecTable`, instantiated in
`PyvalIO` / `PdProps.C15` from `Generated.Tables` (extracted from the live astor on every run).

Import-free, executable.
-/
namespace Pyval

/-! ## operators (`ast.unaryop`, `ast.operator`, `ast.boolop`, `ast.cmpop`) -/

inductive UOp | invert | not | uadd | usub
  deriving DecidableEq, Repr, Inhabited

inductive BOp | add | sub | mult | matMult | div | mod | pow | lShift | rShift | bitOr | bitXor | bitAnd | floorDiv
  deriving DecidableEq, Repr, Inhabited

inductive LOp | and | or
  deriving DecidableEq, Repr, Inhabited

inductive COp | eq | notEq | lt | ltE | gt | gtE | is | isNot | in | notIn
  deriving DecidableEq, Repr, Inhabited

def UOp.all : List UOp := [.invert, .not, .uadd, .usub]
def BOp.all : List BOp :=
  [.add, .sub, .mult, .matMult, .div, .mod, .pow, .lShift, .rShift, .bitOr, .bitXor, .bitAnd, .floorDiv]
def LOp.all : List LOp := [.and, .or]
def COp.all : List COp := [.eq, .notEq, .lt, .ltE, .gt, .gtE, .is, .isNot, .in, .notIn]

/-- class names in `ast` -/
def UOp.name : UOp → String
  | .invert => "Invert" | .not => "Not" | .uadd => "UAdd" | .usub => "USub"
def BOp.name : BOp → String
  | .add => "Add" | .sub => "Sub" | .mult => "Mult" | .matMult => "MatMult" | .div => "Div"
  | .mod => "Mod" | .pow => "Pow" | .lShift => "LShift" | .rShift => "RShift" | .bitOr => "BitOr"
  | .bitXor => "BitXor" | .bitAnd => "BitAnd" | .floorDiv => "FloorDiv"
def LOp.name : LOp → String
  | .and => "And" | .or => "Or"
def COp.name : COp → String
  | .eq => "Eq" | .notEq => "NotEq" | .lt => "Lt" | .ltE => "LtE" | .gt => "Gt" | .gtE => "GtE"
  | .is => "Is" | .isNot => "IsNot" | .in => "In" | .notIn => "NotIn"

/-- the symbol `_colorize_ast_unary_op` writes (`not` comes with its space) -/
def UOp.sym : UOp → List Char
  | .usub => ['-'] | .uadd => ['+'] | .not => "not ".toList | .invert => ['~']

/-- the symbol `_colorize_ast_binary_op` writes; it is also astor's `get_op_symbol` -/
def BOp.sym : BOp → List Char
  | .sub => ['-'] | .add => ['+'] | .mult => ['*'] | .div => ['/'] | .floorDiv => "//".toList
  | .mod => ['%'] | .pow => "**".toList | .lShift => "<<".toList | .rShift => ">>".toList
  | .bitOr => ['|'] | .bitXor => ['^'] | .bitAnd => ['&'] | .matMult => ['@']

/-- `' and '` / `' or '` (both the colourizer and astor write the spaces) -/
def LOp.sym : LOp → List Char
  | .and => " and ".toList | .or => " or ".toList

/-- astor's `get_op_symbol` for comparison operators -/
def COp.sym : COp → List Char
  | .eq => "==".toList | .notEq => "!=".toList | .lt => "<".toList | .ltE => "<=".toList
  | .gt => ">".toList | .gtE => ">=".toList | .is => "is".toList | .isNot => "is not".toList
  | .in => "in".toList | .notIn => "not in".toList

/-- astor's `get_op_symbol(node.op)` for unary operators (no trailing space) -/
def UOp.asym : UOp → List Char
  | .usub => ['-'] | .uadd => ['+'] | .not => "not".toList | .invert => ['~']

/-- the numbers `astor.op_util.get_op_precedence` / `Precedence` give (see `Generated.Tables`) -/
structure PrecTable where
  unary : UOp → Nat
  bin : BOp → Nat
  bool : LOp → Nat
  cmp : COp → Nat
  ifExp : Nat
  comma : Nat
  powRHS : Nat
  highest : Nat
  /-- `sys.float_info.max_10_exp + 1`: the exponent in `_INFSTR` (`"1e309"`) -/
  infExp : Nat

/-! ## expressions -/

/-- The part of the delegated (astor) language that is modelled: names and operator forms. -/
inductive AExpr
  | name (s : List Char)
  | unary (op : UOp) (x : AExpr)
  | binary (op : BOp) (l r : AExpr)
  | boolop (op : LOp) (xs : List AExpr)
  /-- `ast.Compare(left, ops, comparators)` -/
  | compare (l : AExpr) (ops : List COp) (rights : List AExpr)
  | ifExp (body test orelse : AExpr)
  deriving Repr, Inhabited

/-- `ast.Constant` values `None`, `True`, `False` -/
inductive CName | none | true | false
  deriving DecidableEq, Repr, Inhabited

inductive Expr
  /-- `ast.Name` -/
  | name (s : List Char)
  /-- `ast.Attribute` chain that ends in a `Name` (`node2dottedname` succeeds): the parts -/
  | dotted (parts : List (List Char))
  /-- `ast.Constant` holding an `int` (source literals are never negative) -/
  | constInt (n : Nat)
  /-- `ast.Constant` holding a `float`/`complex`: `str(value)` is supplied by the caller -/
  | constNum (txt : List Char)
  | constStr (s : List Char)
  /-- `ast.Constant` holding `bytes` (each element < 256) -/
  | constBytes (b : List Nat)
  | constName (k : CName)
  | ellipsis
  | unary (op : UOp) (x : Expr)
  | binary (op : BOp) (l r : Expr)
  | boolop (op : LOp) (xs : List Expr)
  | tuple (xs : List Expr)
  | list (xs : List Expr)
  | set (xs : List Expr)
  /-- `ast.Dict(keys, values)`; a `None` key (`**mapping`) is `Expr.absent` -/
  | dict (keys vals : List Expr)
  /-- `ast.Call(func, args, keywords)`; `keywords` are `keyword` nodes -/
  | call (f : Expr) (args : List Expr) (keywords : List Expr)
  /-- `ast.keyword(arg, value)`; `arg = none` is `**value` -/
  | keyword (arg : Option (List Char)) (value : Expr)
  | subscript (v : Expr) (slice : Expr)
  | starred (x : Expr)
  /-- delegated to astor, inside the modelled fragment -/
  | astor (a : AExpr)
  /-- delegated to astor, text supplied: `oneLine` = `astor.to_source(node, pretty_source=''.join).strip()`
  (what `_colorize_ast_generic` asks for when `state.linebreakok` is false, a5155ca), `wrapped` =
  `astor.to_source(node).strip()` (astor may wrap long lines) when line breaks are allowed -/
  | opaque (oneLine wrapped : List Char)
  /-- delegated to astor and astor raised: `UNKNOWN_REPR` -/
  | unknown
  /-- Python `None` where a node is optional (dict key of `**m`) -/
  | absent
  /-- HISTORICAL (before a1c047d): a node that carried no `parent` link when the colourizer reached
  it — the root of a sub-tree that `astutils.unstring_annotation` parsed out of a string literal.
  `_colorize_ast` links such a node itself with `parent = None`, so `_OperatorDelimiter` treats it
  as top level.  Since a1c047d `unstring_annotation` re-runs `Parentage`; no request uses this
  constructor any more, it is kept for `unstring_counterexample_old`. -/
  | unlinked (e : Expr)
  deriving Repr, Inhabited

/-! ## astor's code generator on the modelled fragment

`Delimit(node, op)`: `p = get_op_precedence(op or node)`, `pp = node._pp` (default
`Precedence.highest`), parentheses are discarded iff `p >= pp`. -/

def delimit (p pp : Nat) (body : List Char) : List Char :=
  if p ≥ pp then body else '(' :: (body ++ [')'])

def joinSep (sep : List Char) : List (List Char) → List Char
  | [] => []
  | [x] => x
  | x :: xs => x ++ sep ++ joinSep sep xs

/-- `zip(node.ops, node.comparators)` written as `' %s ' % symbol`, right operand -/
def cmpTail : List COp → List (List Char) → List Char
  | op :: ops, r :: rs => ' ' :: (op.sym ++ [' ']) ++ r ++ cmpTail ops rs
  | _, _ => []

mutual
/-- `SourceGenerator.visit(node)` with `node._pp = pp`. `none` = astor raised (`node.ops[0]` on an
empty comparison). -/
def renderA (T : PrecTable) (pp : Nat) : AExpr → Option (List Char)
  | .name s => some s
  | .unary op x =>
    let p := T.unary op
    -- write(sym, ' ' if sym.isalpha() else '', operand)
    (renderA T p x).map fun t =>
      delimit p pp (op.asym ++ (if op = .not then [' '] else []) ++ t)
  | .binary op l r =>
    let p := T.bin op
    let ispow := op = .pow
    match renderA T (if ispow then T.bin .pow + 1 else p) l,
          renderA T (if ispow then T.powRHS else p + 1) r with
    | some tl, some tr => some (delimit p pp (tl ++ [' '] ++ op.sym ++ [' '] ++ tr))
    | _, _ => none
  | .boolop op xs =>
    let p := T.bool op
    (renderAList T (p + 1) xs).map fun ts => delimit p pp (joinSep op.sym ts)
  | .compare l ops rights =>
    match ops with
    | [] => none
    | op0 :: _ =>
      let p := T.cmp op0
      match renderA T (p + 1) l, renderAList T (p + 1) rights with
      | some tl, some trs => some (delimit p pp (tl ++ cmpTail ops trs))
      | _, _ => none
  | .ifExp body test orelse =>
    let p := T.ifExp
    match renderA T (p + 1) body, renderA T (p + 1) test, renderA T p orelse with
    | some tb, some tt, some te =>
      some (delimit p pp (tb ++ " if ".toList ++ tt ++ " else ".toList ++ te))
    | _, _, _ => none
def renderAList (T : PrecTable) (pp : Nat) : List AExpr → Option (List (List Char))
  | [] => some []
  | x :: xs =>
    match renderA T pp x, renderAList T pp xs with
    | some t, some ts => some (t :: ts)
    | _, _ => none
end

/-! ## string / bytes escaping -/

/-- `_str_escape` (the surrogate fall-back is unreachable: `Char` has no surrogates) -/
def strEscapeChar (c : Char) : List Char :=
  if c = '\'' then ['\\', '\'']
  else if c = '\t' then ['\\', 't']
  else if c = '\r' then ['\\', 'r']
  else if c = '\n' then ['\\', 'n']
  else if c = Char.ofNat 12 then ['\\', 'f']
  else if c = Char.ofNat 11 then ['\\', 'v']
  else if c = '\\' then ['\\', '\\']
  else if c = Char.ofNat 0 then ['\\', 'x', '0', '0']
  else [c]

def strEscape (s : List Char) : List Char := s.flatMap strEscapeChar

/-- `_str_escape` before e938da2 (a NUL went through unescaped and was dropped by docutils) -/
def strEscapeCharOld (c : Char) : List Char :=
  if c = Char.ofNat 0 then [c] else strEscapeChar c

def strEscapeOld (s : List Char) : List Char := s.flatMap strEscapeCharOld

def hexDigit (n : Nat) : Char :=
  if n < 10 then Char.ofNat (48 + n) else Char.ofNat (87 + n)

/-- `repr(b)[2:-1]`: CPython's `bytes_repr` picks `"` when the value holds `'` and no `"` -/
def bytesQuote (b : List Nat) : Nat := if b.contains 39 && !b.contains 34 then 34 else 39

def bytesEscapeByte (quote c : Nat) : List Char :=
  if c = quote || c = 92 then ['\\', Char.ofNat c]
  else if c = 9 then ['\\', 't']
  else if c = 10 then ['\\', 'n']
  else if c = 13 then ['\\', 'r']
  else if c < 32 || c ≥ 127 then ['\\', 'x', hexDigit (c / 16 % 16), hexDigit (c % 16)]
  else [Char.ofNat c]

/-- `_bytes_escape` before 257fc5a: `repr(b)[2:-1]` -/
def bytesEscapeOld (b : List Nat) : List Char := b.flatMap (bytesEscapeByte (bytesQuote b))

/-- `body.replace("'", "\\'")` -/
def escapeQuotes (s : List Char) : List Char :=
  s.flatMap fun c => if c = '\'' then ['\\', '\''] else [c]

/-- `_bytes_escape`: `repr(b)[2:-1]`, and when repr picked double quotes (`r[1] == '"'`) every single
quote is escaped, because the colourizer always writes single quotes -/
def bytesEscape (b : List Nat) : List Char :=
  let body := b.flatMap (bytesEscapeByte (bytesQuote b))
  if bytesQuote b = 34 then escapeQuotes body else body

/-- `str(pyval).replace('inf', _INFSTR)` with `_INFSTR = "1e" + repr(max_10_exp + 1)` -/
def replaceInf (infExp : Nat) : List Char → List Char
  | 'i' :: 'n' :: 'f' :: rest => ['1', 'e'] ++ Nat.toDigits 10 infExp ++ replaceInf infExp rest
  | c :: rest => c :: replaceInf infExp rest
  | [] => []

/-- `s.split('\n')` -/
def splitOnNat (sep : Nat) : List Nat → List (List Nat)
  | [] => [[]]
  | c :: cs =>
    match splitOnNat sep cs with
    | [] => [[c]]
    | l :: ls => if c = sep then [] :: l :: ls else (c :: l) :: ls

def splitNl : List Char → List (List Char)
  | [] => [[]]
  | c :: cs =>
    match splitNl cs with
    | [] => [[c]]
    | l :: ls => if c = '\n' then [] :: l :: ls else (c :: l) :: ls

/-! ## colourizer state, `_output` -/

/-- docutils node kinds in `state.result` -/
inductive EKind | inline | link | linewrap | ellipsis | unknown
  deriving DecidableEq, Repr, Inhabited

inductive Item
  /-- `nodes.Text(s)` -/
  | text (s : List Char)
  /-- an element with one `Text` child (none when `s` is empty): `inline`, `obj_reference`,
  `LINEWRAP`, `ELLIPSIS`, `UNKNOWN_REPR` -/
  | elem (k : EKind) (s : List Char)
  /-- `WORD_BREAK_OPPORTUNITY`: an element without children -/
  | wbr
  /-- `NEWLINE` -/
  | newline
  deriving DecidableEq, Repr, Inhabited

def linewrapItem : Item := .elem .linewrap [Char.ofNat 8629]
def ellipsisItem : Item := .elem .ellipsis "...".toList
def unknownItem : Item := .elem .unknown "??".toList

/-- how `_output` is called: `css_class` and `link` -/
inductive OKind
  | plain      -- css_class None
  | quote      -- 'variable-quote'
  | str        -- 'variable-string'
  | ellipsis   -- 'variable-ellipsis'
  | link       -- LINK_TAG / CONST_TAG with link=True
  deriving DecidableEq, Repr, Inhabited

structure St where
  result : List Item
  charpos : Nat
  lineno : Nat
  lbok : Bool
  deriving Repr, Inhabited

inductive Exc | maxlines | linebreak | valueError | indexError | fuel | recursion
  deriving DecidableEq, Repr, Inhabited

/-- a helper either returns (new state) or raises (exception, state as mutated so far) -/
abbrev Res := Except (Exc × St) St

/-- `PyvalColorizer.__init__`: `linelen` 0/None → no wrapping, `maxlines` 0 → unbounded -/
structure Cfg where
  linelen : Option Nat
  maxlines : Option Nat
  linebreakok : Bool
  deriving Repr, Inhabited

def Cfg.make (linelen maxlines : Nat) (lb : Bool) : Cfg :=
  ⟨if linelen = 0 then none else some linelen, if maxlines = 0 then none else some maxlines, lb⟩

/-- `(state.lineno+1) > self.maxlines` -/
def exceeds (n : Nat) : Option Nat → Bool
  | none => false
  | some m => n > m

/-- `segment[:split]`, `segment[split:]` with `split = linelen - charpos` (negative when the line
is already too long: Python slices from the end then) -/
def pySplit (linelen charpos : Nat) (seg : List Char) : List Char × List Char :=
  if charpos ≤ linelen then (seg.take (linelen - charpos), seg.drop (linelen - charpos))
  else (seg.take (seg.length - (charpos - linelen)), seg.drop (seg.length - (charpos - linelen)))

def mkElem (k : OKind) (seg : List Char) : Item :=
  match k with
  | .link => .elem .link seg
  | .plain => .text seg
  | _ => .elem .inline seg

/-- the `if i > 0:` block of `_output`'s loop: a new line starts (`first` = (`i == 0`)) -/
def nlStep (cfg : Cfg) (first : Bool) (st : St) : Res :=
  if first then .ok st
  else if exceeds (st.lineno + 1) cfg.maxlines then .error (.maxlines, st)
  else if !st.lbok then .error (.linebreak, st)
  else .ok { st with result := st.result ++ [.newline], lineno := st.lineno + 1, charpos := 0 }

/-- the segment fits: `state.charpos += segment_len; state.result.append(element)` -/
def pushSeg (k : OKind) (seg : List Char) (st : St) : St :=
  { st with charpos := st.charpos + seg.length, result := st.result ++ [mkElem k seg] }

/-- the segment is cut: `state.result += [element, self.LINEWRAP]` (charpos is not touched) -/
def pushWrap (k : OKind) (piece : List Char) (st : St) : St :=
  { st with result := st.result ++ [mkElem k piece, linewrapItem] }

/-- the `for i, segment in enumerate(segments)` loop of `_output`; `first` = (`i == 0`).
The loop inserts into the list it iterates over, hence the fuel. -/
def outSegs (cfg : Cfg) (k : OKind) : Nat → Bool → List (List Char) → St → Res
  | _, _, [], st => .ok st
  | 0, _, _ :: _, st => .error (.fuel, st)
  | fuel + 1, first, seg :: rest, st =>
    match nlStep cfg first st with
    | .error e => .error e
    | .ok st =>
      match cfg.linelen with
      | none => outSegs cfg k fuel false rest (pushSeg k seg st)
      | some n =>
        if st.charpos + seg.length ≤ n || k = .link || k = .quote then
          outSegs cfg k fuel false rest (pushSeg k seg st)
        else
          outSegs cfg k fuel false ((pySplit n st.charpos seg).2 :: rest)
            (pushWrap k (pySplit n st.charpos seg).1 st)

/-- `PyvalColorizer._output(s, css_class, state, link)` -/
def output (cfg : Cfg) (s : List Char) (k : OKind) (st : St) : Res :=
  outSegs cfg k (3 * s.length + 4) true (splitNl s) st

/-! ## the colourizer's control structure as a program -/

inductive Prog
  /-- `self._output(s, css, state, link)` -/
  | out (s : List Char) (k : OKind)
  /-- `state.result.append(self.WORD_BREAK_OPPORTUNITY)` -/
  | wbr
  /-- `state.result.append(self.UNKNOWN_REPR)` -/
  | unknown
  /-- `self._insert_comma(indent, state)` with the `indent` of the enclosing `group` -/
  | comma
  /-- an exception that is not control flow (`str(int)` over the digit limit) -/
  | fail (e : Exc)
  | seq (ps : List Prog)
  /-- `indent = state.charpos` followed by the body -/
  | group (ps : List Prog)
  /-- `with _OperatorDelimiter(...)` when `discard` is False -/
  | paren (p : Prog)
  /-- `self._multiline(func, …)` with body `p` -/
  | multiline (p : Prog)
  /-- `if state.linebreakok: t else: f` -/
  | ifLb (t f : Prog)
  deriving Repr, Inhabited

/-- `state.restore(mark)` -/
def restore (mark st : St) : St :=
  { result := st.result.take mark.result.length, charpos := mark.charpos, lineno := mark.lineno,
    lbok := mark.lbok }

/-- `_insert_comma` -/
def insertComma (cfg : Cfg) (indent : Nat) (st : St) : Res :=
  if st.lbok then
    match output cfg [','] .plain st with
    | .error e => .error e
    | .ok st => output cfg ('\n' :: List.replicate indent ' ') .plain st
  else output cfg [',', ' '] .plain st

/-- `_OperatorDelimiter.__exit__` (runs whether or not the body raised; an exception raised here
replaces the pending one) -/
def exitParen (cfg : Cfg) (mark : St) (st : St) (pending : Option Exc) : Res :=
  let trimmed := st.result.drop mark.result.length
  let st := restore mark st
  match output cfg ['('] .plain st with
  | .error e => .error e
  | .ok st =>
    let st := { st with result := st.result ++ trimmed }
    match output cfg [')'] .plain st with
    | .error e => .error e
    | .ok st =>
      match pending with
      | none => .ok st
      | some e => .error (e, st)

mutual
def exec (cfg : Cfg) (indent : Nat) : Prog → St → Res
  | .out s k, st => output cfg s k st
  | .wbr, st => .ok { st with result := st.result ++ [.wbr] }
  | .unknown, st => .ok { st with result := st.result ++ [unknownItem] }
  | .comma, st => insertComma cfg indent st
  | .fail e, st => .error (e, st)
  | .seq ps, st => execList cfg indent ps st
  | .group ps, st => execList cfg st.charpos ps st
  | .paren p, st =>
    match exec cfg indent p st with
    | .ok st1 => exitParen cfg st st1 none
    | .error (e, st1) => exitParen cfg st st1 (some e)
  | .multiline p, st =>
    -- linebreakok = state.linebreakok; mark = state.mark(); try: state.linebreakok = False; func()
    match exec cfg indent p { st with lbok := false } with
    | .ok st1 => .ok { st1 with lbok := st.lbok }
    | .error (.linebreak, st1) =>
      if !st.lbok then .error (.linebreak, st1)
      else exec cfg indent p (restore st st1)
    | .error e => .error e
  | .ifLb t f, st => if st.lbok then exec cfg indent t st else exec cfg indent f st
def execList (cfg : Cfg) (indent : Nat) : List Prog → St → Res
  | [], st => .ok st
  | p :: ps, st =>
    match exec cfg indent p st with
    | .ok st1 => execList cfg indent ps st1
    | .error e => .error e
end

/-! ## `_colorize*`: expression → program -/

/-- the body of `_colorize_iter` / `_colorize_ast_dict`'s loop: comma from the second element on,
a word-break opportunity, the element -/
def iterBody : Bool → List Prog → List Prog
  | _, [] => []
  | first, p :: ps => (if first then [] else [Prog.comma]) ++ [Prog.wbr, p] ++ iterBody false ps

/-- `_colorize_iter(elts, state, prefix, suffix)` -/
def iterProg (pre suf : Option (List Char)) (elts : List Prog) : Prog :=
  .seq ((match pre with | some s => [Prog.out s .plain] | none => []) ++
        [Prog.group (iterBody true elts)] ++
        (match suf with | some s => [Prog.out s .plain] | none => []))

/-- `_colorize_str` body lines: `'\n'` between the lines, each line escaped on its own -/
def linesProg : Bool → List (List Char) → List Prog
  | _, [] => []
  | first, l :: ls =>
    (if first then [] else [Prog.out ['\n'] .plain]) ++ [Prog.out l .str] ++ linesProg false ls

/-- `_colorize_str(pyval, state, '', _str_escape)` -/
def strProg (s : List Char) : Prog :=
  let q3 : List Char := if s.contains '\n' then ['\'', '\'', '\''] else ['\'']
  .ifLb
    (.seq ([Prog.out [] .plain, Prog.out q3 .quote] ++
           linesProg true ((splitNl s).map strEscape) ++ [Prog.out q3 .quote]))
    (.seq [Prog.out [] .plain, Prog.out ['\''] .quote, Prog.out (strEscape s) .str,
           Prog.out ['\''] .quote])

/-- `_colorize_str(pyval, state, b'b', _bytes_escape)` -/
def bytesProg (b : List Nat) : Prog :=
  let q3 : List Char := if b.contains 10 then ['\'', '\'', '\''] else ['\'']
  .ifLb
    (.seq ([Prog.out ['b'] .plain, Prog.out q3 .quote] ++
           linesProg true ((splitOnNat 10 b).map bytesEscape) ++ [Prog.out q3 .quote]))
    (.seq [Prog.out ['b'] .plain, Prog.out ['\''] .quote, Prog.out (bytesEscape b) .str,
           Prog.out ['\''] .quote])

/-- `_OperatorDelimiter.__init__`: `pp` is `none` when the node has no parent (or the parent is not
an expression/keyword/comprehension), else the parent precedence the code computes. -/
def needParen (pp : Option Nat) (precedence : Nat) : Bool :=
  match pp with
  | none => false
  | some q => precedence < q

def parenIf (b : Bool) (p : Prog) : Prog := if b then .paren p else p

/-- `for index, value in enumerate(pyval.values)` of `_colorize_ast_bool_op` -/
def boolBody (sep : List Char) : List Prog → List Prog
  | [] => []
  | [p] => [p]
  | p :: ps => p :: Prog.out sep .plain :: boolBody sep ps

def joinDots : List (List Char) → List Char
  | [] => []
  | [x] => x
  | x :: xs => x ++ ['.'] ++ joinDots xs

def CName.text : CName → List Char
  | .none => "None".toList | .true => "True".toList | .false => "False".toList

/-- `sys.int_info.default_max_str_digits` -/
def maxStrDigits : Nat := 4300

/-- `try: str(pyval) except ValueError: hex(pyval)`: `str()` refuses more than 4300 digits -/
def intText (n : Nat) : List Char :=
  if (Nat.toDigits 10 n).length > maxStrDigits then '0' :: 'x' :: Nat.toDigits 16 n
  else Nat.toDigits 10 n

/-- `zip(keys, values)` of `_colorize_ast_dict`; `kp`/`vpComma`/`vpHigh` are the compiled keys, the
values compiled under `Precedence.Comma` (set when the key is present) and under the default. -/
def dictItems : List Expr → List Prog → List Prog → List Prog → List Prog
  | k :: ks, kp :: kps, vc :: vcs, vh :: vhs =>
    (match k with
     | .absent => Prog.seq [Prog.out ['*', '*'] .plain, vh]
     | _ => Prog.seq [kp, Prog.out [':', ' '] .plain, vc]) :: dictItems ks kps vcs vhs
  | _, _, _, _ => []

mutual
/-- `_colorize(pyval, state)` for an AST node whose `_OperatorDelimiter` parent precedence is `pp` -/
def compile (T : PrecTable) (pp : Option Nat) : Expr → Prog
  | .name s => .out s .link
  | .dotted parts => .out (joinDots parts) .link
  | .constInt n => .out (intText n) .plain
  | .constNum t => .out (replaceInf T.infExp t) .plain
  | .constStr s => strProg s
  | .constBytes b => bytesProg b
  | .constName k => .out k.text .link
  | .ellipsis => .out "...".toList .ellipsis
  | .absent => .out "None".toList .link
  | .unary op x =>
    parenIf (needParen pp (T.unary op))
      (.seq [.out op.sym .plain, compile T (some (T.unary op)) x])
  | .binary op l r =>
    -- parent precedence: +1 under `**`; +1 for the right operand of every other binary operator
    parenIf (needParen pp (T.bin op))
      (.seq [compile T (some (T.bin op + (if op = .pow then 1 else 0))) l, .out op.sym .plain,
             compile T (some (T.bin op + 1)) r])
  | .boolop op xs =>
    parenIf (needParen pp (T.bool op))
      (.seq (boolBody op.sym (compileList T (some (T.bool op + 1)) xs)))
  | .list xs => .multiline (iterProg (some ['[']) (some [']']) (compileList T (some T.highest) xs))
  | .tuple xs => .multiline (iterProg (some ['(']) (some [')']) (compileList T (some T.highest) xs))
  | .set xs =>
    .multiline (iterProg (some "set([".toList) (some "])".toList) (compileList T (some T.highest) xs))
  | .dict ks vs =>
    .multiline (iterProg (some ['{']) (some ['}'])
      (dictItems ks (compileList T (some T.highest) ks) (compileList T (some T.comma) vs)
        (compileList T (some T.highest) vs)))
  | .subscript v (.tuple elts) =>
    .seq [compile T (some T.highest) v, .out ['['] .plain,
          .multiline (iterProg none none (compileList T (some T.highest) elts)), .out [']'] .plain]
  | .subscript v s =>
    .seq [compile T (some T.highest) v, .out ['['] .plain, .wbr, compile T (some T.highest) s,
          .out [']'] .plain]
  | .call f args kws =>
    .seq [compile T (some T.highest) f, .out ['('] .plain,
          .group ([Prog.multiline (iterProg none none (compileList T (some T.highest) args))] ++
                  (if kws.isEmpty then [] else
                    (if args.isEmpty then [] else [Prog.comma]) ++
                    [Prog.multiline (iterProg none none (compileList T (some T.highest) kws))])),
          .out [')'] .plain]
  -- the `ast.keyword` branch of `_colorize_ast`
  | .keyword (some a) v =>
    .seq [.out a .plain, .out ['='] .plain, compile T (some T.highest) v]
  | .keyword none v => .seq [.out ['*', '*'] .plain, compile T (some T.highest) v]
  | .starred x => .seq [.out ['*'] .plain, compile T (some T.highest) x]
  | .astor a =>
    match renderA T T.highest a with
    | some t => .out t .plain
    | none => .unknown
  | .opaque t w => .ifLb (.out w .plain) (.out t .plain)
  | .unknown => .unknown
  | .unlinked e => compile T none e
def compileList (T : PrecTable) (pp : Option Nat) : List Expr → List Prog
  | [] => []
  | x :: xs => compile T pp x :: compileList T pp xs
end

/-! ## `colorize`, `_trim_result`, text extraction -/

/-- docutils `unescape`: `for sep in ['\x00 ', '\x00\n', '\x00']: text = ''.join(text.split(sep))` -/
def dropPair (a b : Char) : List Char → List Char
  | [] => []
  | [x] => [x]
  | x :: y :: rest => if x = a ∧ y = b then dropPair a b rest else x :: dropPair a b (y :: rest)

def astext (s : List Char) : List Char :=
  ((dropPair (Char.ofNat 0) '\n' (dropPair (Char.ofNat 0) ' ' s)).filter (· ≠ Char.ofNat 0))

def Item.astext : Item → List Char
  | .text s => Pyval.astext s
  | .elem _ s => Pyval.astext s
  | .wbr => []
  | .newline => ['\n']

/-- raw length of a `Text` node (`len(result[-1])`) -/
def Item.rawLen : Item → Nat
  | .text s => s.length
  | .newline => 1
  | _ => 0

/-- `data[:-trim]` (note `data[:-0] == ''`) -/
def dropLastPy (trim : Nat) (l : List Char) : List Char :=
  if trim = 0 then [] else l.take (l.length - trim)

/-- `_trim_result(result, num_chars)`; `rev` is the result list reversed (last item first).
Every round either pops an item or consumes characters, so `fuel = items + num_chars` suffices. -/
def trimResult : Nat → List Item → Nat → List Item
  | 0, rev, _ => rev
  | _, rev, 0 => rev
  | _, [], _ => []
  | fuel + 1, it :: rev, n + 1 =>
    match it with
    | .elem k s =>
      if s.isEmpty then trimResult fuel rev (n + 1)            -- no children: pop, trim = 0
      else
        let data := astext s
        let trim := min (n + 1) data.length
        let rest := dropLastPy trim data
        if rest.isEmpty then trimResult fuel rev (n + 1 - trim)  -- single child emptied: pop
        else trimResult fuel (.elem k rest :: rev) (n + 1 - trim)
    | .wbr => trimResult fuel rev (n + 1)
    | .text s =>
      let trim := min (n + 1) s.length
      let rest := dropLastPy trim (astext s)
      if rest.isEmpty then trimResult fuel rev (n + 1 - trim)
      else trimResult fuel (.text rest :: rev) (n + 1 - trim)
    | .newline => trimResult fuel rev n

structure Colorized where
  items : List Item
  isComplete : Bool
  deriving Repr, Inhabited

/-- `PyvalColorizer.colorize`; `.error` = an exception other than the two control-flow ones
escapes (`ValueError` from `str(int)`, `IndexError` from `state.result[-1]` on an empty list). -/
def colorizeProg (cfg : Cfg) (p : Prog) : Except Exc Colorized :=
  let st0 : St := { result := [], charpos := 0, lineno := 1, lbok := cfg.linebreakok }
  match exec cfg 0 p st0 with
  | .ok st => .ok ⟨st.result, true⟩
  | .error (e, st) =>
    if e = .maxlines || e = .linebreak then
      if cfg.linebreakok then .ok ⟨st.result ++ [.newline, ellipsisItem], false⟩
      else
        match st.result.reverse with
        | [] => .error .indexError
        | last :: rev =>
          let rev := if last = linewrapItem then rev else last :: rev
          .ok ⟨(trimResult (rev.length + 3) rev 3).reverse ++ [ellipsisItem], false⟩
    else if e = .recursion then
      -- `except RecursionError:` (0a8115c): a warning, what was produced so far, then the ellipsis.
      -- The model's walk is structural recursion and never raises it itself (`Prog.fail .recursion`
      -- stands for the interpreter running out of stack at that point).
      .ok ⟨st.result ++ [ellipsisItem], false⟩
    else .error e

def colorize (T : PrecTable) (cfg : Cfg) (e : Expr) : Except Exc Colorized :=
  colorizeProg cfg (compile T none e)

/-- `''.join(gettext(parsed.to_node()))` -/
def itemsText (items : List Item) : List Char := items.flatMap Item.astext

/-! ## the text without any limit (what `colorize_inline_pyval` shows when nothing is cut) -/

mutual
/-- the characters a program hands to `_output` when nothing is wrapped or cut and `linebreakok`
is false (before docutils' `astext` drops NULs: see `itemsText`) -/
def flat : Prog → List Char
  | .out s _ => s
  | .wbr => []
  | .unknown => "??".toList
  | .comma => [',', ' ']
  | .fail _ => []
  | .seq ps => flatList ps
  | .group ps => flatList ps
  | .paren p => '(' :: (flat p ++ [')'])
  | .multiline p => flat p
  | .ifLb _ f => flat f
def flatList : List Prog → List Char
  | [] => []
  | p :: ps => flat p ++ flatList ps
end

/-- the displayed text of an expression in inline mode (no line length, one line) -/
def render (T : PrecTable) (e : Expr) : List Char := flat (compile T none e)


/-! ## the regex colourizer, element level (`_colorize_re_tree`: the LITERAL and GROUPREF branches)

Only these two branches are transcribed (the tree itself comes from pydoctor's vendored sre_parse36);
the rest of the regex colourizer is checked by the direct oracle only. -/

def reSpecials : List Char := ".^$\\*+?{}[]|()'".toList

def hex4 (n : Nat) : List Char :=
  [hexDigit (n / 4096 % 16), hexDigit (n / 256 % 16), hexDigit (n / 16 % 16), hexDigit (n % 16)]

/-- the LITERAL branch: `in_set` (inside `[...]`), `verbose` (`self._re_keep_verbose_escapes`: the
pattern contains `(?x)` / `(?x:...)`) -/
def reLiteral (inSet verbose : Bool) (c : Char) : List Char :=
  if reSpecials.contains c || (inSet && c == '-') then ['\\', c]
  else if (c == ' ' || c == '#') && verbose then ['\\', c]
  else if c = '\t' then ['\\', 't']
  else if c = '\r' then ['\\', 'r']
  else if c = '\n' then ['\\', 'n']
  else if c = Char.ofNat 12 then ['\\', 'f']
  else if c = Char.ofNat 11 then ['\\', 'v']
  else if c.toNat > 255 && c.toNat ≤ 65535 then '\\' :: 'u' :: hex4 c.toNat
  else if (c.toNat < 32 || c.toNat ≥ 127) && c.toNat ≤ 65535 then
    ['\\', 'x', hexDigit (c.toNat / 16 % 16), hexDigit (c.toNat % 16)]
  else [c]

/-- HISTORICAL (before 55809ad): blanks and `#` were never escaped -/
def reLiteralOld (inSet : Bool) (c : Char) : List Char := reLiteral inSet false c

def isDigitChar (c : Char) : Bool := '0' ≤ c && c ≤ '9'

/-- the GROUPREF branch: `'\\%d' % group`, inside `(?:…)` when the next element of the tree is a
LITERAL digit (`next` = the character of a following LITERAL element, if any) -/
def reGroupRef (n : Nat) (next : Option Char) : List Char :=
  match next with
  | some d =>
    if isDigitChar d then "(?:".toList ++ '\\' :: Nat.toDigits 10 n ++ [')']
    else '\\' :: Nat.toDigits 10 n
  | none => '\\' :: Nat.toDigits 10 n

/-- HISTORICAL (before fd7f5b9) -/
def reGroupRefOld (n : Nat) : List Char := '\\' :: Nat.toDigits 10 n

/-! ## `astbuilder.ModuleVistor._storeAttrValue`: the value of a variable assembled from statements -/

/-- `_storeAttrValue(obj, new_value, augassign)` on `obj.value = old`:
`if new_value: if augassign: (if obj.value: obj.value = BinOp(obj.value, augassign, new_value)) else: obj.value = new_value`
(the synthetic `BinOp` has no `parent` attribute; the colourizer links the whole tree when it meets it) -/
def storeAttrValue (old : Option Expr) (new : Option Expr) (aug : Option BOp) : Option Expr :=
  match new with
  | none => old
  | some v =>
    match aug with
    | some op =>
      match old with
      | some o => some (.binary op o v)
      | none => none
    | none => some v

/-- the statements `X = v` / `X op= v` of one variable, in source order -/
def storeAll (old : Option Expr) : List (Option BOp × Expr) → Option Expr
  | [] => old
  | (aug, v) :: rest => storeAll (storeAttrValue old (some v) aug) rest

/-! ## Specification side: Python's reading of a concrete expression text

`Doc` is a concrete syntax tree: exactly the token structure of a displayed text, with every
parenthesis, comma and `*` explicit.  `Doc.flatten` spells it; `parseDoc n d` is the abstract tree
Python's grammar assigns to that spelling when it is read at a non-terminal of binding level `n`
(`none` = not derivable there), written from the productions of `python.gram` (3.12):

    expression:   disjunction 'if' disjunction 'else' expression | disjunction | lambdef     level 1
    disjunction:  conjunction ('or' conjunction)+                                             level 2
    conjunction:  inversion ('and' inversion)+                                                level 3
    inversion:    'not' inversion | comparison                                                level 4
    comparison:   bitwise_or (compare_op bitwise_or)+                                         level 5
    bitwise_or:   bitwise_or '|' bitwise_xor          (left recursive = left associative)     level 6
    bitwise_xor … bitwise_and … shift_expr … sum … term                                       levels 7-11
    factor:       ('+'|'-'|'~') factor | power                                                level 12
    power:        await_primary '**' factor                                                   level 13
    await_primary                                                                             level 14
    primary / atom: NAME, NUMBER, STRING, group, tuple, list, set, dict, call, subscript      level 15
    star_named_expression: '*' bitwise_or | named_expression                                  level 0
    group:  '(' named_expression ')'         tuple: '(' [star_named_expression ',' [star_named_expressions]] ')'
    slices: slice !',' | ','.(slice | starred_expression)+ [',']       starred_expression: '*' expression
    args:   ','.(starred_expression | expression)+ …   kwarg: NAME '=' expression | '**' expression
    dict:   '{' ','.(expression ':' expression | '**' bitwise_or)* '}'

The result is again a `Doc`, in normal form (no `group`, tuples as `tuple _ false`, `bare` index
lists as tuples, no spacing flag).  This reading is compared with CPython's parser in the check
(stream `grammar`), independently of the colourizer model. -/

inductive Doc
  /-- NAME / NUMBER / STRING / dotted name / `...` / a delegated text assumed self-delimiting -/
  | atom (s : List Char)
  /-- `( d )` -/
  | group (d : Doc)
  | unary (op : UOp) (d : Doc)
  /-- `sp`: written with spaces around the operator (astor) -/
  | binary (sp : Bool) (op : BOp) (l r : Doc)
  | boolop (op : LOp) (ds : List Doc)
  | compare (l : Doc) (ops : List COp) (rs : List Doc)
  | ifExp (b t o : Doc)
  /-- `( d, d )`, with a trailing comma when `trailing` -/
  | tuple (ds : List Doc) (trailing : Bool)
  /-- `d, d` as written between the brackets of a subscript -/
  | bare (ds : List Doc)
  | list (ds : List Doc)
  /-- `set([ d, d ])`: the documented spelling of a set display -/
  | setCall (ds : List Doc)
  /-- `{ k: v, **v }`; key `absent` = `**` -/
  | dict (ks vs : List Doc)
  /-- `f(a, *b, k=v, **m)`: positional arguments, then `keyword` items -/
  | call (f : Doc) (args : List Doc)
  /-- `k=v` / `**v` inside a call -/
  | keyword (arg : Option (List Char)) (v : Doc)
  | subscript (v idx : Doc)
  | starred (d : Doc)
  | absent
  /-- text that is not an expression (`??`) -/
  | junk (s : List Char)
  deriving Repr, Inhabited

def BOp.level : BOp → Nat
  | .bitOr => 6 | .bitXor => 7 | .bitAnd => 8 | .lShift => 9 | .rShift => 9 | .add => 10 | .sub => 10
  | .mult => 11 | .matMult => 11 | .div => 11 | .mod => 11 | .floorDiv => 11 | .pow => 13
/-- level the left operand must be derivable at: the same non-terminal (left recursion); for `**`
the `await_primary` -/
def BOp.leftMin (op : BOp) : Nat := if op = .pow then 14 else op.level
/-- right operand: the next tighter non-terminal; for `**` a `factor` -/
def BOp.rightMin (op : BOp) : Nat := if op = .pow then 12 else op.level + 1
def UOp.level : UOp → Nat
  | .not => 4 | _ => 12
def LOp.level : LOp → Nat
  | .or => 2 | .and => 3

/-- dictionary items from the keys and the spelled keys / values -/
def dictTexts : List Doc → List (List Char) → List (List Char) → List (List Char)
  | k :: ks, kt :: kts, vt :: vts =>
    (match k with
     | .absent => ['*', '*'] ++ vt
     | _ => kt ++ [':', ' '] ++ vt) :: dictTexts ks kts vts
  | _, _, _ => []

mutual
def Doc.flatten : Doc → List Char
  | .atom s => s
  | .group d => '(' :: (d.flatten ++ [')'])
  | .unary op d => op.sym ++ d.flatten
  | .binary sp op l r =>
    l.flatten ++ (if sp then [' '] ++ op.sym ++ [' '] else op.sym) ++ r.flatten
  | .boolop op ds => joinSep op.sym (Doc.flattenList ds)
  | .compare l ops rs => l.flatten ++ cmpTail ops (Doc.flattenList rs)
  | .ifExp b t o => b.flatten ++ " if ".toList ++ t.flatten ++ " else ".toList ++ o.flatten
  | .tuple ds tr => '(' :: (joinSep [',', ' '] (Doc.flattenList ds) ++ (if tr then [','] else []) ++ [')'])
  | .bare ds => joinSep [',', ' '] (Doc.flattenList ds)
  | .list ds => '[' :: (joinSep [',', ' '] (Doc.flattenList ds) ++ [']'])
  | .setCall ds => "set([".toList ++ joinSep [',', ' '] (Doc.flattenList ds) ++ "])".toList
  | .dict ks vs =>
    '{' :: (joinSep [',', ' '] (dictTexts ks (Doc.flattenList ks) (Doc.flattenList vs)) ++ ['}'])
  | .call f args => f.flatten ++ ['('] ++ joinSep [',', ' '] (Doc.flattenList args) ++ [')']
  | .keyword (some a) v => a ++ ['='] ++ v.flatten
  | .keyword none v => ['*', '*'] ++ v.flatten
  | .subscript v idx => v.flatten ++ ['['] ++ idx.flatten ++ [']']
  | .starred d => '*' :: d.flatten
  | .absent => "None".toList
  | .junk s => s
def Doc.flattenList : List Doc → List (List Char)
  | [] => []
  | d :: ds => d.flatten :: Doc.flattenList ds
end

def Doc.isKeyword : Doc → Bool
  | .keyword _ _ => true
  | _ => false

/-- positional arguments (starred or not) come before keyword items (`k=v`, `**v`) -/
def argsOrdered : List Doc → Bool
  | [] => true
  | d :: ds => if d.isKeyword then ds.all Doc.isKeyword else argsOrdered ds

def sequence {α} : List (Option α) → Option (List α)
  | [] => some []
  | some x :: rest => (sequence rest).map (x :: ·)
  | none :: _ => none

/-- value `i` of a dict is read after `**` (a `bitwise_or`) when key `i` is absent, else as an
expression; `v6`/`v1` are the values read both ways -/
def pickVals : List Doc → List (Option Doc) → List (Option Doc) → List (Option Doc)
  | k :: ks, a :: as, b :: bs =>
    (match k with
     | .absent => a
     | _ => b) :: pickVals ks as bs
  | _, _, _ => []

mutual
def parseDoc (n : Nat) : Doc → Option Doc
  | .atom s => some (.atom s)
  | .junk _ => none
  | .absent => none
  | .bare _ => none
  | .group d => parseDoc 1 d
  | .unary op d =>
    if n ≤ op.level then (parseDoc op.level d).map (Doc.unary op) else none
  | .binary _ op l r =>
    if n ≤ op.level then
      match parseDoc op.leftMin l, parseDoc op.rightMin r with
      | some l', some r' => some (.binary false op l' r')
      | _, _ => none
    else none
  | .boolop op ds =>
    if n ≤ op.level ∧ 2 ≤ ds.length then
      (sequence (parseEach (op.level + 1) ds)).map (Doc.boolop op)
    else none
  | .compare l ops rs =>
    if n ≤ 5 ∧ 1 ≤ ops.length ∧ ops.length = rs.length then
      match parseDoc 6 l, sequence (parseEach 6 rs) with
      | some l', some rs' => some (.compare l' ops rs')
      | _, _ => none
    else none
  | .ifExp b t o =>
    if n ≤ 1 then
      match parseDoc 2 b, parseDoc 2 t, parseDoc 1 o with
      | some b', some t', some o' => some (.ifExp b' t' o')
      | _, _, _ => none
    else none
  | .tuple [] tr => if tr then none else some (.tuple [] false)
  | .tuple [d] false => parseDoc 1 d          -- `( d )` is a group
  | .tuple ds _ => (sequence (parseEach 0 ds)).map (Doc.tuple · false)
  | .list ds => (sequence (parseEach 0 ds)).map Doc.list
  | .setCall ds => (sequence (parseEach 0 ds)).map Doc.setCall
  | .dict ks vs =>
    if ks.length = vs.length then
      match sequence (parseKeyEach ks),
            sequence (pickVals ks (parseEach 6 vs) (parseEach 1 vs)) with
      | some ks', some vs' => some (.dict ks' vs')
      | _, _ => none
    else none
  | .call f args =>
    if argsOrdered args then
      match parseDoc 15 f, sequence (parseArgEach args) with
      | some f', some args' => some (.call f' args')
      | _, _ => none
    else none
  | .keyword _ _ => none
  | .subscript _ (.bare []) => none
  | .subscript v (.bare [.starred x]) =>
    match parseDoc 15 v, parseDoc 1 x with
    | some v', some x' => some (.subscript v' (.tuple [.starred x'] false))
    | _, _ => none
  | .subscript v (.bare [d]) =>
    match parseDoc 15 v, parseDoc 1 d with
    | some v', some d' => some (.subscript v' d')
    | _, _ => none
  | .subscript v (.bare ds) =>
    if ds.all (!·.isKeyword) then
      match parseDoc 15 v, sequence (parseArgEach ds) with
      | some v', some ds' => some (.subscript v' (.tuple ds' false))
      | _, _ => none
    else none
  | .subscript v (.starred x) =>
    match parseDoc 15 v, parseDoc 1 x with
    | some v', some x' => some (.subscript v' (.tuple [.starred x'] false))
    | _, _ => none
  | .subscript v idx =>
    match parseDoc 15 v, parseDoc 1 idx with
    | some v', some i' => some (.subscript v' i')
    | _, _ => none
  | .starred d => if n = 0 then (parseDoc 6 d).map Doc.starred else none
def parseEach (n : Nat) : List Doc → List (Option Doc)
  | [] => []
  | d :: ds => parseDoc n d :: parseEach n ds
/-- call arguments / index lists: `'*' expression`, `k=expression`, `'**' expression` or an expression -/
def parseArgEach : List Doc → List (Option Doc)
  | [] => []
  | .starred x :: ds => (parseDoc 1 x).map Doc.starred :: parseArgEach ds
  | .keyword a v :: ds => (parseDoc 1 v).map (Doc.keyword a) :: parseArgEach ds
  | d :: ds => parseDoc 1 d :: parseArgEach ds
def parseKeyEach : List Doc → List (Option Doc)
  | [] => []
  | .absent :: ks => some .absent :: parseKeyEach ks
  | k :: ks => parseDoc 1 k :: parseKeyEach ks
end

end Pyval
