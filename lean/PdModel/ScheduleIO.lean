import PdModel.Schedule
import PdModel.Proto
/-! Line protocol: `schedule run <order ids> <mod> <mod> …` with mod = `<p|x>:<import ids or ->:<ids of the packages
above, outermost first, or ->` (p = parses, x = does not; the third part may be left out = none). Answer: the event log and the final states.
`schedule exit <W 0|1> <violations> <parseErrors>` → exit status. -/
namespace Schedule

def parseMod (tok : String) : Option Mod :=
  match tok.splitOn ":" with
  | [p, imps] => do
    let imps ← Proto.natList imps
    if p == "p" then some ⟨true, imps, []⟩ else if p == "x" then some ⟨false, imps, []⟩ else none
  | [p, imps, ab] => do
    let imps ← Proto.natList imps
    let ab ← Proto.natList ab
    if p == "p" then some ⟨true, imps, ab⟩ else if p == "x" then some ⟨false, imps, ab⟩ else none
  | _ => none

def showSt : PState → String
  | .unprocessed => "U" | .processing => "G" | .processed => "D"

def showEvent : Event → String
  | .start m => s!"start{m}"
  | .parseError m => s!"parseError{m}"
  | .visit m => s!"visit{m}"
  | .sees m t st => s!"sees{m}>{t}{showSt st}"
  | .finish m => s!"finish{m}"
  | .assertFail m => s!"ASSERT{m}"

def handle (args : List String) : String :=
  match args with
  | "run" :: order :: mods =>
    match Proto.natList order, mods.mapM parseMod with
    | some order, some mods =>
      let s := run mods order
      "ok " ++ " ".intercalate (s.log.map showEvent) ++ " | " ++ "".intercalate (s.st.map showSt)
        ++ " | " ++ Proto.showNatList s.unprocessed
    | _, _ => "bad-op"
  | ["exit", w, v, p] =>
    match v.toNat?, p.toNat? with
    | some v, some p => "ok " ++ toString (exitStatus (w == "1") v p)
    | _, _ => "bad-op"
  | _ => "bad-op"

end Schedule
