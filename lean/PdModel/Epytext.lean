/-
Model of the text-conserving kernels behind property C09 ("rendering keeps the text"):

* `pydoctor/epydoc/markup/epytext.py`: `_colorize` (the brace/stack machine, with the slices
  `text[start:end-1]` / `text[start:end]` written as slices of the whole paragraph), `_colorize_link`
  (`_TARGET_RE` target splitting, target clean-up), the inline part of
  `ParsedEpytextDocstring._to_node` (which text of the tree becomes visible), `_tokenize_literal`,
  `_tokenize_doctest` (block slicing);
* `pydoctor/epydoc/doctest.py`: `colorize_codeblock_body`, `subfunc`, `colorize_doctest_body`
  (regex match spans are parameters; `…Old` = the code before a0449ac);
* `pydoctor/epydoc/markup/plaintext.py`: `ParsedPlaintextDocstring.to_stan`;
* `pydoctor/epydoc2stan.py`: what each `FieldHandler.handle_*` function and `extract_fields` do with
  a field (rendered under a heading / handed to an attribute / reported / nothing).

Also here, because the property theorems compare against it: `strip`, the *specification* of the
visible text of an epytext paragraph — a one-pass, character-by-character recogniser that keeps
only text buffers (no tree, no indices).

Parameters (Python's Unicode tables, pydoctor's data tables): `Cfg`.  Import-free, executable, total.
-/
namespace Epytext

/-! ## characters -/

/-- `str.isspace()` / regex `\s` for one code point (CPython 3.12 `_PyUnicode_IsWhitespace`). -/
def pyIsSpace (c : Char) : Bool :=
  let n := c.toNat
  (9 ≤ n && n ≤ 13) || (28 ≤ n && n ≤ 32) || n == 0x85 || n == 0xA0 || n == 0x1680 ||
  (0x2000 ≤ n && n ≤ 0x200A) || n == 0x2028 || n == 0x2029 || n == 0x202F || n == 0x205F ||
  n == 0x3000

/-- `'A' <= ch <= 'Z'` -/
def isCapital (c : Char) : Bool := 65 ≤ c.toNat && c.toNat ≤ 90

def asciiLetterU (c : Char) : Bool :=
  (65 ≤ c.toNat && c.toNat ≤ 90) || (97 ≤ c.toNat && c.toNat ≤ 122) || c == '_'

def asciiWord (c : Char) : Bool := asciiLetterU c || (48 ≤ c.toNat && c.toNat ≤ 57)

/-- data the code reads from tables: `SYMBOLS`, `ParsedEpytextDocstring.SYMBOL_TO_CODEPOINT`, and the
regex class `\w` beyond ASCII (Python's Unicode database; a parameter). -/
structure Cfg where
  symbols : List (List Char)
  codepoints : List (List Char × Nat)
  wordExtra : Char → Bool

/-- regex `\w` -/
def Cfg.isWord (T : Cfg) (c : Char) : Bool := asciiWord c || (c.toNat ≥ 128 && T.wordExtra c)

/-- `t[a:b]` for `0 ≤ a`, `0 ≤ b` -/
def slice {α} (t : List α) (a b : Nat) : List α := (t.take b).drop a

/-! ## the inline tree (`epytext.Element` below a paragraph) -/

inductive Tag
  | para | code | math | italic | bold | uri | link | escape | symbol | unknown | litbrace | name | target
  deriving DecidableEq, Repr

/-- `_COLORIZING_TAGS` -/
def colorizingTag : Char → Option Tag
  | 'C' => some .code | 'M' => some .math | 'I' => some .italic | 'B' => some .bold
  | 'U' => some .uri | 'L' => some .link | 'E' => some .escape | 'S' => some .symbol
  | _ => none

/-- `_ESCAPES` -/
def escapes : List (List Char × Char) := [(['l', 'b'], '{'), (['r', 'b'], '}')]

inductive Inl
  | text (s : List Char)
  | elem (tag : Tag) (children : List Inl)

inductive ErrKind
  | unknownTag | unbalancedClose | invalidSymbol | invalidEscape | badTarget | badLinkTarget | unbalancedOpen
  deriving DecidableEq, Repr

/-- a `ColorizingError` (all are fatal): kind and `charnum` -/
structure Err where
  kind : ErrKind
  charnum : Nat
  deriving DecidableEq, Repr

/-! ## `_TARGET_RE = ^(.*?)\s*<(?:URI:|URL:)?([^<>]+)>$` (no flags), as `match(s).groups()`

`$` matches at the end or before a final `'\n'`; the closing `>` is therefore the last character
(after dropping one final newline); `[^<>]+` makes the opening `<` the last `<` of the string and
forbids `>` in between; `(.*?)\s*` gives the prefix with trailing whitespace removed, and `.` does
not match `'\n'`. -/

/-- split at the last occurrence of `c`: `(before, after)`; `none` when `c` does not occur -/
def splitLast (c : Char) : List Char → Option (List Char × List Char)
  | [] => none
  | x :: xs =>
    match splitLast c xs with
    | some (a, b) => some (x :: a, b)
    | none => if x = c then some ([], xs) else none

/-- `s.rstrip()` -/
def rstrip (s : List Char) : List Char := (s.reverse.dropWhile pyIsSpace).reverse

def uriPrefixes : List (List Char) := [['U', 'R', 'I', ':'], ['U', 'R', 'L', ':']]

/-- the optional `(?:URI:|URL:)` (greedy, given back when nothing would be left for `[^<>]+`) -/
def dropUriPrefix (t : List Char) : List Char :=
  if uriPrefixes.contains (t.take 4) && t.length > 4 then t.drop 4 else t

def splitTarget (s : List Char) : Option (List Char × List Char) :=
  let s' := if s.getLast? = some '\n' then s.dropLast else s
  if s'.getLast? ≠ some '>' then none else
  match splitLast '<' s'.dropLast with
  | none => none
  | some (pre, tgt) =>
    if tgt.isEmpty || tgt.contains '>' then none else
    let txt := rstrip pre
    if txt.contains '\n' then none else some (txt, dropUriPrefix tgt)

/-! ## `_colorize_link` -/

/-- `re.sub(r'\(.*\)$', '', target)` on a string without newlines: from the first `(` when the
string ends with `)` -/
def removeArgList (t : List Char) : List Char :=
  if t.getLast? = some ')' then t.takeWhile (· ≠ '(') else t

/-- `s.split(sep)` -/
def splitOnChar (sep : Char) : List Char → List (List Char)
  | [] => [[]]
  | c :: cs =>
    match splitOnChar sep cs with
    | [] => [[]]   -- unreachable: the result is never empty
    | p :: ps => if c = sep then [] :: p :: ps else (c :: p) :: ps

/-- `^[a-zA-Z_]\w*(\.[a-zA-Z_]\w*)*$` on a string without newlines -/
def validDotted (T : Cfg) (t : List Char) : Bool :=
  (splitOnChar '.' t).all fun part =>
    match part with
    | [] => false
    | c :: cs => asciiLetterU c && cs.all T.isWord

/-- `re.match(r'\w+:', target)` -/
def hasScheme (T : Cfg) (t : List Char) : Bool :=
  let w := t.takeWhile T.isWord
  !w.isEmpty && (t.drop w.length).head? = some ':'

/-- `re.match(r'\w+@(\w+)(\.\w+)*', target)` -/
def looksLikeMail (T : Cfg) (t : List Char) : Bool :=
  let w := t.takeWhile T.isWord
  let r := t.drop w.length
  !w.isEmpty && r.head? = some '@' && (match r.drop 1 with | c :: _ => T.isWord c | [] => false)

def mailto : List Char := ['m', 'a', 'i', 'l', 't', 'o', ':']
def httpPrefix : List Char := ['h', 't', 't', 'p', ':', '/', '/']

/-- what `_colorize_link` leaves in place of the link element: the element itself (children
replaced by `[name, target]`, or untouched with an error). `e` is the index of the closing brace. -/
def colorizeLink (T : Cfg) (tag : Tag) (children : List Inl) (e : Nat) : Inl × List Err :=
  let bad : Inl × List Err := (.elem tag children, [⟨.badTarget, e⟩])
  let build (vars : List Inl) (target : List Char) : Inl × List Err :=
    let target := target.filter (fun c => !pyIsSpace c)           -- re.sub(r'\s', '', target)
    if tag = .uri then
      let target :=
        if hasScheme T target then target
        else if looksLikeMail T target then mailto ++ target
        else httpPrefix ++ target
      (.elem tag [.elem .name vars, .elem .target [.text target]], [])
    else
      let target := removeArgList target
      if !validDotted T target then (.elem tag children, [⟨.badLinkTarget, e⟩])
      else (.elem tag [.elem .name vars, .elem .target [.text target]], [])
  match children.getLast? with
  | none => bad                                   -- len(variables)==0
  | some (.elem _ _) => bad                       -- not isinstance(variables[-1], str)
  | some (.text last) =>
    match splitTarget last with
    | some (txt, tgt) => build (children.dropLast ++ [.text txt]) tgt
    | none =>
      match children with
      | [_] => build children last                -- len(variables) == 1: implicit target
      | _ => bad

/-! ## `_colorize` -/

/-- one entry of `stack` / `openbrace_stack` -/
structure Frame where
  tag : Tag
  children : List Inl
  openAt : Nat

def Frame.push (f : Frame) (c : Inl) : Frame := { f with children := f.children ++ [c] }

/-- `stack` (top first, the paragraph element last) and `errors`.  The code appends a new element to
its parent when it is opened and patches the parent's last child when it is closed; here the
element is appended when it is closed (`finish` appends the ones still open) — nothing is added
to the parent in between. -/
structure St where
  top : Frame
  rest : List Frame
  errs : List Err

/-- `match.group() == '{'` at index `e`, `start` = first unprocessed index -/
def openBrace (text : List Char) (start e : Nat) (st : St) : St :=
  let lit : St :=
    let top := if e > start then st.top.push (.text (slice text start e)) else st.top
    { top := ⟨.litbrace, [], e⟩, rest := top :: st.rest, errs := st.errs }
  match (if e > 0 then text[e - 1]? else none) with
  | none => lit
  | some c =>
    if isCapital c then
      let top := if e - 1 > start then st.top.push (.text (slice text start (e - 1))) else st.top
      match colorizingTag c with
      | none => { top := ⟨.unknown, [], e⟩, rest := top :: st.rest, errs := st.errs ++ [⟨.unknownTag, e - 1⟩] }
      | some t => { top := ⟨t, [], e⟩, rest := top :: st.rest, errs := st.errs }
    else lit

/-- what stands in the parent's children for the element that closes at `e` -/
def closeElem (T : Cfg) (f : Frame) (e : Nat) : List Inl × List Err :=
  match f.tag with
  | .symbol =>
    match f.children with
    | [.text symb] =>
      if T.symbols.contains symb then ([.elem .symbol [.text symb]], [])
      else ([.elem .symbol f.children], [⟨.invalidSymbol, e⟩])
    | _ => ([.elem .symbol f.children], [⟨.invalidSymbol, e⟩])
  | .escape =>
    match f.children with
    | [.text escp] =>
      match escapes.lookup escp with
      | some ch => ([.text [ch]], [])
      | none =>
        if escp.length = 1 then ([.text escp], [])
        else ([.elem .escape f.children], [⟨.invalidEscape, e⟩])
    | _ => ([.elem .escape f.children], [⟨.invalidEscape, e⟩])
  | .litbrace => ([.text ['{']] ++ f.children ++ [.text ['}']], [])
  | .uri => let r := colorizeLink T .uri f.children e; ([r.1], r.2)
  | .link => let r := colorizeLink T .link f.children e; ([r.1], r.2)
  | t => ([.elem t f.children], [])

/-- `match.group() == '}'` at index `e` -/
def closeBrace (T : Cfg) (text : List Char) (start e : Nat) (st : St) : St :=
  match st.rest with
  | [] => { st with errs := st.errs ++ [⟨.unbalancedClose, e⟩] }      -- len(stack) <= 1
  | parent :: rest =>
    let top := if e > start then st.top.push (.text (slice text start e)) else st.top
    let r := closeElem T top e
    { top := { parent with children := parent.children ++ r.1 }, rest := rest, errs := st.errs ++ r.2 }

structure Result where
  tree : Inl
  errs : List Err

/-- after the loop: final text, "Unbalanced '{'", `return stack[0]` (the element created as
`Element(tagName)`, here `para`) -/
def finish (text : List Char) (start : Nat) (st : St) : Result :=
  let top := if start < text.length then st.top.push (.text (text.drop start)) else st.top
  let errs := if st.rest.isEmpty then st.errs else st.errs ++ [⟨.unbalancedOpen, top.openAt⟩]
  let root := st.rest.foldl (fun child parent => parent.push (.elem child.tag child.children)) top
  ⟨.elem .para root.children, errs⟩

/-- the `while 1:` loop: `_BRACE_RE.search(text, start)` is the scan over the characters from index
`i`; `cs` is `text[i:]`. -/
def scan (T : Cfg) (text : List Char) : List Char → Nat → Nat → St → Result
  | [], _, start, st => finish text start st
  | c :: cs, i, start, st =>
    if c = '{' then scan T text cs (i + 1) (i + 1) (openBrace text start i st)
    else if c = '}' then scan T text cs (i + 1) (i + 1) (closeBrace T text start i st)
    else scan T text cs (i + 1) start st

/-- `_colorize(token, errors, tagName='para')` on `token.contents = text` -/
def colorize (T : Cfg) (text : List Char) : Result :=
  scan T text text 0 0 ⟨⟨.para, [], 0⟩, [], []⟩

/-! ## visible text of the inline tree (`_to_node`, then the text of the docutils nodes)

`none` = `_to_node` raises (AssertionError / ValueError on unpacking / KeyError). -/

mutual
def visible (T : Cfg) : Inl → Option (List Char)
  | .text s => some s
  | .elem tag cs =>
    match tag with
    | .para | .code | .math | .italic | .bold | .name => visibleList T cs
    | .uri | .link =>
      match cs with
      | [.elem .name vars, .elem .target [.text _]] => visibleList T vars   -- label, target = variables
      | _ => none
    | .symbol =>
      match cs with
      | [.text s] => (T.codepoints.lookup s).map fun cp => [Char.ofNat cp]
      | _ => none
    | .target | .escape | .unknown | .litbrace => none
def visibleList (T : Cfg) : List Inl → Option (List Char)
  | [] => some []
  | c :: cs =>
    match visible T c, visibleList T cs with
    | some a, some b => some (a ++ b)
    | _, _ => none
end

/-! ## `strip`: the specification of the visible text of a paragraph

One pass over the characters.  State: the current run of ordinary characters and, for every open
brace, a text buffer.  A frame remembers apart the last piece when it is a plain string (that is
where a link target `<…>` is looked for).  No tree, no indices, no error list. -/

inductive Kind | plain | lit | esc | sym | lnk
  deriving DecidableEq, Repr

structure SFrame where
  kind : Kind
  pre : List Char
  last : Option (List Char)

def SFrame.all (f : SFrame) : List Char := f.pre ++ f.last.getD []
def SFrame.addText (f : SFrame) (s : List Char) : SFrame := { f with pre := f.all, last := some s }
def SFrame.addVis (f : SFrame) (v : List Char) : SFrame := { f with pre := f.all ++ v, last := none }
/-- a run of ordinary characters is recorded when it is not empty -/
def SFrame.flush (f : SFrame) (cur : List Char) : SFrame := if cur.isEmpty then f else f.addText cur

def kindOfLetter : Char → Kind
  | 'E' => .esc | 'S' => .sym | 'U' => .lnk | 'L' => .lnk | _ => .plain

/-- `E{lb}` `E{rb}` `E{c}` -/
def decodeEscape (code : List Char) : List Char :=
  if code = ['l', 'b'] then ['{'] else if code = ['r', 'b'] then ['}'] else code

def symbolChar (T : Cfg) (name : List Char) : List Char :=
  match T.codepoints.lookup name with
  | some cp => [Char.ofNat cp]
  | none => []

structure SSt where
  cur : List Char
  top : SFrame
  rest : List SFrame

/-- text of a link: everything, minus the `<target>` (and the blanks before it) that ends the last string -/
def linkText (f : SFrame) : List Char :=
  match f.last with
  | some l =>
    match splitTarget l with
    | some (txt, _) => f.pre ++ txt
    | none => f.all
  | none => f.all

def closeS (T : Cfg) (f p : SFrame) : SFrame :=
  match f.kind with
  | .plain => p.addVis f.all
  | .lit => { p with pre := p.all ++ '{' :: f.all, last := some ['}'] }
  | .esc => p.addText (decodeEscape f.all)
  | .sym => p.addVis (symbolChar T f.all)
  | .lnk => p.addVis (linkText f)

def stepS (T : Cfg) (s : SSt) (c : Char) : SSt :=
  if c = '{' then
    match s.cur.getLast? with
    | some l =>
      if isCapital l then ⟨[], ⟨kindOfLetter l, [], none⟩, s.top.flush s.cur.dropLast :: s.rest⟩
      else ⟨[], ⟨.lit, [], none⟩, s.top.flush s.cur :: s.rest⟩
    | none => ⟨[], ⟨.lit, [], none⟩, s.top :: s.rest⟩
  else if c = '}' then
    match s.rest with
    | [] => { s with cur := [] }
    | p :: r => ⟨[], closeS T (s.top.flush s.cur) p, r⟩
  else { s with cur := s.cur ++ [c] }

def strip (T : Cfg) (text : List Char) : List Char :=
  let s := text.foldl (stepS T) ⟨[], ⟨.plain, [], none⟩, []⟩
  (s.rest.foldl (fun child parent => parent.addVis child.all) (s.top.flush s.cur)).all

/-! ## block slicing: `_tokenize_literal`, `_tokenize_doctest` -/

abbrev Line := List Char

/-- `len(line) - len(line.lstrip())` -/
def indentOf (l : Line) : Nat := l.length - (l.dropWhile pyIsSpace).length

/-- `'\n'.join(lines)` -/
def joinNL : List Line → List Char
  | [] => []
  | [l] => l
  | l :: ls => l ++ '\n' :: joinNL ls

def isSpNl (c : Char) : Bool := c == ' ' || c == '\n'

/-- `re.sub(r'(\A[ \n]*\n)|(\n[ \n]*\Z)', '', contents)`: first alternative -/
def cutLead (s : List Char) : List Char :=
  let run := s.takeWhile isSpNl
  if run.contains '\n' then (run.reverse.takeWhile (· ≠ '\n')).reverse ++ s.drop run.length else s

/-- second alternative (leftmost `'\n'` followed only by blanks and newlines up to the end) -/
def cutTrail (s : List Char) : List Char :=
  let run := (s.reverse.takeWhile isSpNl).reverse
  if run.contains '\n' then s.take (s.length - run.length) ++ run.takeWhile (· ≠ '\n') else s

def stripBlankEnds (s : List Char) : List Char := cutTrail (cutLead s)

/-- the `while linenum < len(lines)` loop of `_tokenize_literal`; `ls = lines[linenum:]` -/
def litLoop (blockIndent : Nat) : List Line → Nat → Nat
  | [], n => n
  | l :: ls, n =>
    if l.length ≠ indentOf l ∧ indentOf l ≤ blockIndent then n else litLoop blockIndent ls (n + 1)

/-- `_tokenize_literal(lines, start, block_indent, …)`: (token contents, returned linenum) -/
def tokenizeLiteral (lines : List Line) (start blockIndent : Nat) : List Char × Nat :=
  let stop := litLoop blockIndent (lines.drop (start + 1)) (start + 1)
  (stripBlankEnds (joinNL ((slice lines start stop).map (·.drop blockIndent))), stop)

/-- the loop of `_tokenize_doctest`: (linenum, min_indent, lines with "Improper doctest block indentation.") -/
def dtLoop (blockIndent : Nat) : List Line → Nat → Nat → List Nat → Nat × Nat × List Nat
  | [], n, m, es => (n, m, es)
  | l :: ls, n, m, es =>
    if indentOf l = l.length then (n, m, es)
    else if indentOf l < blockIndent then dtLoop blockIndent ls (n + 1) (min m (indentOf l)) (es ++ [n])
    else dtLoop blockIndent ls (n + 1) m es

/-- `_tokenize_doctest(lines, start, block_indent, …)`: (contents, returned linenum, error lines) -/
def tokenizeDoctest (lines : List Line) (start blockIndent : Nat) : List Char × Nat × List Nat :=
  let r := dtLoop blockIndent (lines.drop (start + 1)) (start + 1) blockIndent []
  (joinNL ((slice lines start r.1).map (·.drop r.2.1)), r.1, r.2.2)

/-! ## `_tokenize_listart` and the literal block that follows the first paragraph of a list item or field

```
linenum = start + 1; para_indent = None; doublecolon = lines[start].rstrip()[-2:] == '::'
while linenum < len(lines):
    line = lines[linenum]; indent = len(line) - len(line.lstrip())
    if doublecolon: break
    if line.rstrip()[-2:] == '::': doublecolon = True
    if indent == len(line): break
    if indent < bullet_indent: break
    if _BULLET_RE.match(line, indent): break
    if para_indent is None: para_indent = indent
    if indent != para_indent: break
    linenum += 1
tokens.append(Token(BULLET, start, bcontents, bullet_indent))
pcontents = ' '.join([lines[start][para_start:].strip()] + [ln.strip() for ln in lines[start+1:linenum]]).strip()
if pcontents: tokens.append(Token(PARA, start, pcontents, para_indent))
```
and in `_tokenize`: `if tokens[-1].indent is not None: indent = tokens[-1].indent`, then
`if tokens[-1].tag == PARA and tokens[-1].contents[-2:] == '::': _tokenize_literal(lines, linenum, indent, …)`.
`_BULLET_RE.match(line, indent)` is a parameter (one Boolean per line); `para_start = match.end()`. -/

/-- `line.rstrip()[-2:] == '::'` -/
def endsDoubleColon (l : List Char) : Bool := (rstrip l).reverse.take 2 == [':', ':']

/-- `s.strip()` -/
def pyStrip (l : List Char) : List Char := rstrip (l.dropWhile pyIsSpace)

/-- `' '.join(parts)` -/
def joinSp : List (List Char) → List Char
  | [] => []
  | [l] => l
  | l :: ls => l ++ ' ' :: joinSp ls

/-- the loop; `ls = lines[linenum:]` with the bullet flag of each line; returns (linenum, para_indent) -/
def listartLoop (bulletIndent : Nat) : List (Line × Bool) → Nat → Option Nat → Bool → Nat × Option Nat
  | [], n, pi, _ => (n, pi)
  | (l, isBullet) :: ls, n, pi, dc =>
    if dc then (n, pi)
    else if indentOf l = l.length then (n, pi)
    else if indentOf l < bulletIndent then (n, pi)
    else if isBullet then (n, pi)
    else
      match pi with
      | some p => if indentOf l ≠ p then (n, pi) else listartLoop bulletIndent ls (n + 1) pi (endsDoubleColon l)
      | none => listartLoop bulletIndent ls (n + 1) (some (indentOf l)) (endsDoubleColon l)

/-- the literal block `_tokenize` creates right after the first paragraph of the item that starts on
`lines[start]`: `(contents, indentation it was measured from)`, or `none` when that paragraph does not
end with `::` (or is empty) -/
def itemLiteral (lines : List Line) (bullets : List Bool) (start bulletIndent paraStart : Nat) :
    Option (List Char × Nat) :=
  match lines[start]? with
  | none => none                       -- `_tokenize` only calls it on an existing line
  | some first =>
    let r := listartLoop bulletIndent ((lines.zip bullets).drop (start + 1)) (start + 1) none (endsDoubleColon first)
    let pcontents := pyStrip (joinSp (pyStrip (first.drop paraStart) :: (slice lines (start + 1) r.1).map pyStrip))
    if pcontents.isEmpty then none     -- no PARA token; tokens[-1] is the bullet
    else if pcontents.reverse.take 2 == [':', ':'] then
      let indent := r.2.getD bulletIndent     -- tokens[-1].indent if it is not None, else the line's indentation
      some ((tokenizeLiteral lines r.1 indent).1, indent)
    else none

/-! ## `_tokenize_para`: does a paragraph look like a heading?

```
contents = [ln.strip() for ln in lines[start:linenum]]
if len(contents) < 2 or contents[1][0] not in _HEADING_CHARS or abs(len(contents[0])-len(contents[1])) > 5:
    looks_like_heading = False
else:
    looks_like_heading = True
    for char in contents[1]:
        if char != contents[1][0]: looks_like_heading = False; break
if looks_like_heading:
    if len(contents[0]) != len(contents[1]): errors.append("Possible heading typo…", non fatal)   # stays a paragraph
    else: HEADING token, level = _HEADING_CHARS.index(contents[1][0]); return start+2
PARA token
``` -/

/-- `_HEADING_CHARS = '=-~'` -/
def headingChars : List Char := ['=', '-', '~']

inductive HeadOutcome
  | heading (level : Nat)     -- the first line is a section title, the second line is consumed as its underline
  | typo                      -- "Possible heading typo" (warning); both lines stay paragraph text
  | para                      -- an ordinary paragraph
  | indexError                -- `contents[1][0]` on an empty line (lines of a paragraph are never empty)
  deriving DecidableEq, Repr

/-- `abs(a - b) > 5` -/
def farApart (a b : Nat) : Bool := (a - b) + (b - a) > 5

/-- the `for char in contents[1]` loop -/
def allSame (c : Char) : List Char → Bool
  | [] => true
  | x :: xs => if x ≠ c then false else allSame c xs

/-- `c0`, `c1` = `contents[0]`, `contents[1]` (`none`: the paragraph has one line) -/
def headingOf (c0 : List Char) (c1 : Option (List Char)) : HeadOutcome :=
  match c1 with
  | none => .para
  | some [] => .indexError
  | some (h :: t) =>
    if !headingChars.contains h || farApart c0.length (h :: t).length then .para
    else if !allSame h (h :: t) then .para
    else if c0.length ≠ (h :: t).length then .typo
    else .heading (headingChars.idxOf h)

/-! ## plaintext: `ParsedPlaintextDocstring.to_stan` = `tags.p(self._text, class_='pre')` -/

/-- children of the `<p class="pre">` tag -/
def plaintextToStan (text : List Char) : List (List Char) := [text]

end Epytext

/-! ## `pydoctor/epydoc/doctest.py` -/
namespace Doctest
open Epytext (slice joinNL rstrip Line)

inductive Cls | prompt | more | keyword | builtin | comment | string | defname | output | except_
  deriving DecidableEq, Repr

/-- what the generators yield: a plain string or `tags.span(text, class_=…)` -/
inductive Piece
  | raw (s : List Char)
  | span (cls : Cls) (s : List Char)
  deriving DecidableEq, Repr

def Piece.text : Piece → List Char
  | .raw s => s
  | .span _ s => s

def textOf (ps : List Piece) : List Char := (ps.map Piece.text).flatten

/-- which named group of `DOCTEST_RE` matched (the order of the `elif` chain of `subfunc`) -/
inductive MKind | prompt1 | prompt2 | keyword | builtin | comment | string | define | eos
  deriving DecidableEq, Repr

/-- one match of `DOCTEST_RE.finditer(s)`: `match.start()`, `match.end()`, the group -/
structure Match where
  start : Nat
  stop : Nat
  kind : MKind
  deriving Repr

/-- the regexes used inside `subfunc`, as functions of the string they are applied to:
`PROMPT2_RE.match(line)` ↦ `m.end()`; `DEFINE_FUNC_RE.match(text)` ↦ groups `def`, `space`, `name`. -/
structure Params where
  promptEnd : List Char → Option Nat
  defineGroups : List Char → Option (List Char × List Char × List Char)

inductive Error | assertion
  deriving DecidableEq, Repr

/-- one line of a multi-line string literal -/
def emitLine (P : Params) (line : List Char) : List Piece :=
  match P.promptEnd line with
  | some pe =>
    let rest := line.drop pe
    .span .more (line.take pe) :: (if rest.isEmpty then [] else [.span .string rest])
  | none => if line.isEmpty then [] else [.span .string line]

/-- the `while True:` loop of the STRING branch: `line` = characters of the current line so far -/
def stringLoop (P : Params) : List Char → List Char → List Piece
  | line, [] => emitLine P line
  | line, c :: cs =>
    if c = '\n' then emitLine P line ++ .raw ['\n'] :: stringLoop P [] cs
    else stringLoop P (line ++ [c]) cs

/-- `subfunc(match)` with `text = match.group(1)` -/
def subfunc (P : Params) (kind : MKind) (text : List Char) : Except Error (List Piece) :=
  match kind with
  | .prompt1 => .ok [.span .prompt text]
  | .prompt2 => .ok [.span .more text]
  | .keyword => .ok [.span .keyword text]
  | .builtin => .ok [.span .builtin text]
  | .comment => .ok [.span .comment text]
  | .string => .ok (stringLoop P [] text)
  | .define =>
    match P.defineGroups text with
    | some (d, sp, n) => .ok [.span .keyword d, .raw sp, .span .defname n]
    | none => .error .assertion
  | .eos => .ok []

/-- `colorize_codeblock_body(s)`; `ms` = the remaining matches, `idx` as in the code -/
def codeblockBody (P : Params) (s : List Char) : List Match → Nat → Except Error (List Piece)
  | [], idx => if idx = s.length then .ok [] else .error .assertion
  | m :: ms, idx =>
    match subfunc P m.kind (slice s m.start m.stop), codeblockBody P s ms m.stop with
    | .ok mid, .ok rest => .ok ((if idx < m.start then [.raw (slice s idx m.start)] else []) ++ mid ++ rest)
    | _, _ => .error .assertion

/-- one match of `DOCTEST_EXAMPLE_RE.finditer(s)`: `match.start()`, end of group `source` (= start
of group `want`), `match.end()`; the matches of `DOCTEST_RE` inside `source`; `EXCEPT_RE.match(want)` -/
structure Example where
  start : Nat
  srcEnd : Nat
  stop : Nat
  inner : List Match
  isExcept : Bool

/-- `s.split('\n')` -/
def splitNL : List Char → List Line
  | [] => [[]]
  | c :: cs =>
    match splitNL cs with
    | [] => [[]]
    | p :: ps => if c = '\n' then [] :: p :: ps else (c :: p) :: ps

/-- `want[:-1] if want.endswith('\n') else want` -/
def dropFinalNewline (want : List Char) : List Char :=
  if want.getLast? = some '\n' then want.dropLast else want

/-- the expected output of one example: only the final newline is dropped, then one span and one
newline per line (pydoctor a0449ac) -/
def wantPieces (isExcept : Bool) (want : List Char) : List Piece :=
  if want.isEmpty then [] else
  (splitNL (dropFinalNewline want)).flatMap fun line =>
    [.span (if isExcept then .except_ else .output) line, .raw ['\n']]

/-- `colorize_doctest_body(s)` -/
def doctestBody (P : Params) (s : List Char) : List Example → Nat → Except Error (List Piece)
  | [], idx => .ok [.raw (s.drop idx)]
  | ex :: exs, idx =>
    let pysrc := slice s ex.start ex.srcEnd
    let want := slice s ex.srcEnd ex.stop
    match codeblockBody P pysrc ex.inner 0, doctestBody P s exs ex.stop with
    | .ok src, .ok rest => .ok (.raw (slice s idx ex.start) :: src ++ wantPieces ex.isExcept want ++ rest)
    | _, _ => .error .assertion

/-! ### before a0449ac (kept for the historical counterexample): `for line in want.rstrip().split('\n')` -/

def wantPiecesOld (isExcept : Bool) (want : List Char) : List Piece :=
  if want.isEmpty then [] else
  (splitNL (rstrip want)).flatMap fun line =>
    [.span (if isExcept then .except_ else .output) line, .raw ['\n']]

def doctestBodyOld (P : Params) (s : List Char) : List Example → Nat → Except Error (List Piece)
  | [], idx => .ok [.raw (s.drop idx)]
  | ex :: exs, idx =>
    let pysrc := slice s ex.start ex.srcEnd
    let want := slice s ex.srcEnd ex.stop
    match codeblockBody P pysrc ex.inner 0, doctestBodyOld P s exs ex.stop with
    | .ok src, .ok rest => .ok (.raw (slice s idx ex.start) :: src ++ wantPiecesOld ex.isExcept want ++ rest)
    | _, _ => .error .assertion

end Doctest

/-! ## `epydoc2stan.FieldHandler` and `extract_fields`: what happens to one field

A handler is named by the `__name__` of the function object bound to `FieldHandler.handle_<tag>`
(aliases share it); `handleUnknownField` stands for a tag without `handle_` attribute. -/
namespace Fields

inductive ObjKind | module | cls | function | attr
  deriving DecidableEq, Repr

/-- what is known about the field besides its tag: has an argument; the argument names a
parameter of the documented function (`name in self.types`) / of the class constructor -/
structure Shape where
  hasArg : Bool
  paramExists : Bool
  /-- the argument names a variable that is assigned in the module/class body or documented by an
  `ivar`/`cvar`/`var` field of the same docstring (so the `Attribute` has a kind and is displayed) -/
  attrKnown : Bool
  deriving DecidableEq, Repr

structure Outcome where
  /-- heading of `FieldHandler.format()` under which the field's body is displayed -/
  heading : Option String
  /-- the body is handed to an `Attribute` (created or annotated), or becomes the object's `parsed_type` -/
  toAttr : Bool
  /-- that attribute has a kind, i.e. it is part of the documentation (`kind is None` = not visible) -/
  attrShown : Bool
  /-- `field.report(...)` / `obj.report(...)` is certainly called for this field -/
  reported : Bool
  /-- the handler function is one the model knows -/
  modelled : Bool
  deriving DecidableEq, Repr

/-- `_handle_param_not_found` reports (source is the object itself, no computed base class) -/
def paramNotFoundReports (k : ObjKind) (s : Shape) : Bool :=
  match k with
  | .function | .cls => !s.paramExists
  | .module | .attr => true

/-- the `handle_*` functions, by `__name__`, during `format_docstring` -/
def handler (fn : String) (k : ObjKind) (s : Shape) : Outcome :=
  let shown (h : String) (rep : Bool) : Outcome := ⟨some h, false, false, rep, true⟩
  let unexpectedArg := s.hasArg      -- _report_unexpected_argument
  if fn = "handle_return" then shown "Returns" unexpectedArg
  else if fn = "handle_yield" then shown "Yields" unexpectedArg
  else if fn = "handle_returntype" then shown "Returns" unexpectedArg
  else if fn = "handle_yieldtype" then shown "Yields" unexpectedArg
  else if fn = "handle_type" then
    match k with
    | .attr => ⟨none, true, true, s.hasArg, true⟩
    | .function =>
      if s.hasArg then shown "Parameters" (paramNotFoundReports k s) else ⟨none, false, false, true, true⟩
    | .module | .cls => ⟨none, false, false, false, true⟩      -- left to extract_fields
  else if fn = "handle_param" then
    if s.hasArg then shown "Parameters" (paramNotFoundReports k s) else ⟨none, false, false, true, true⟩
  else if fn = "handle_keyword" then
    if s.hasArg then shown "Parameters" (k = .function && s.paramExists) else ⟨none, false, false, true, true⟩
  else if fn = "handled_elsewhere" then
    -- left to extract_fields for modules and classes (`CanContainImportsDocumentable`); reported elsewhere (513af36)
    match k with
    | .module | .cls => ⟨none, false, false, false, true⟩
    | .function | .attr => ⟨none, false, false, true, true⟩
  else if fn = "handle_raises" then shown "Raises" (!s.hasArg)
  else if fn = "handle_warns" then shown "Warns" false
  else if fn = "handle_seealso" then shown "See Also" false
  else if fn = "handle_note" then shown "Note" false
  else if fn = "handle_author" then shown "Author" false
  else if fn = "handle_since" then shown "Present Since" false
  else if fn = "handleUnknownField" then shown "Unknown Field" true
  else ⟨none, false, false, false, false⟩

/-- `extract_fields(obj)` (called by the AST builder for modules and classes that have a docstring):
`(handed to an attribute, that attribute has a kind, reported)` -/
def extractFields (tag : String) (k : ObjKind) (s : Shape) : Bool × Bool × Bool :=
  match k with
  | .module | .cls =>
    if tag = "ivar" || tag = "cvar" || tag = "var" then
      if s.hasArg then (true, true, false) else (false, false, true)     -- sets `attrobj.kind`
    else if tag = "type" then
      if s.hasArg then (true, s.attrKnown, false) else (false, false, true)
    else (false, false, false)
  | .function | .attr => (false, false, false)

/-- everything that happens to a field `@tag` of an object of kind `k` -/
def outcome (tag fn : String) (k : ObjKind) (s : Shape) : Outcome :=
  let h := handler fn k s
  let x := extractFields tag k s
  { h with toAttr := h.toAttr || x.1, attrShown := h.attrShown || x.2.1, reported := h.reported || x.2.2 }

/-! ### the paired handlers: `handle_return`/`handle_returntype` and `handle_yield`/`handle_yieldtype`

```
if not self.return_desc: self.return_desc = ReturnDesc()       # get or create
self.return_desc.body = field.format()                          # resp. `.type = field.format()`
```
Texts are identified by numbers. -/

/-- a description field or a type field of the pair -/
inductive PairEvent
  | desc (text : Nat)
  | type (text : Nat)
  deriving DecidableEq, Repr

/-- `ReturnDesc` / `FieldDesc`: `body`, `type` -/
structure PairDesc where
  body : Option Nat
  type : Option Nat
  deriving DecidableEq, Repr

/-- one handler call on `self.return_desc` / `self.yields_desc` (`none` = not created yet) -/
def pairStep (d : Option PairDesc) : PairEvent → Option PairDesc
  | .desc t => some { (d.getD ⟨none, none⟩) with body := some t }
  | .type t => some { (d.getD ⟨none, none⟩) with type := some t }

/-- the fields of a docstring in source order -/
def runPair (init : Option PairDesc) (evs : List PairEvent) : Option PairDesc := evs.foldl pairStep init

/-- `_report_duplicate` (08a4c10): the handler reports the field when the entry already holds a text of that kind
written in the docstring (`init = none`: no annotation) -/
def pairDup (d : Option PairDesc) : PairEvent → Bool
  | .desc _ => (d.bind (·.body)).isSome
  | .type _ => (d.bind (·.type)).isSome

/-- how many fields of the sequence are reported as duplicates -/
def pairDupCount : Option PairDesc → List PairEvent → Nat
  | _, [] => 0
  | d, e :: es => (if pairDup d e then 1 else 0) + pairDupCount (pairStep d e) es

/-- the field is not lost: displayed under a heading, given to an attribute, or reported -/
def Outcome.kept (o : Outcome) : Bool :=
  o.modelled && (o.heading.isSome || (o.toAttr && o.attrShown) || o.reported)

end Fields

/-! ## `restructuredtext._SplitFieldsTranslator.handle_consolidated_bullet_list`: the separator after `` `name` ``

```
text = fbody[0][0].astext()
if text[:1] in ':-':             fbody[0][0] = nodes.Text(text[1:].lstrip())
elif text[:2] in (' -', ' :'):   fbody[0][0] = nodes.Text(text[2:].lstrip())
```
(`text[:1] in ':-'` is a substring test: it also holds for the empty string.) -/
namespace Rst
open Epytext (pyIsSpace)

/-- `s.lstrip()` -/
def lstrip (s : List Char) : List Char := s.dropWhile pyIsSpace

def stripSeparator (text : List Char) : List Char :=
  if text.take 1 = [] ∨ text.take 1 = [':'] ∨ text.take 1 = ['-'] then lstrip (text.drop 1)
  else if text.take 2 = [' ', '-'] ∨ text.take 2 = [' ', ':'] then lstrip (text.drop 2)
  else text

end Rst

/-! ## `FieldHandler`: the Parameters table (`handle_param`, `handle_keyword`, `handle_type` of a function,
`resolve_types`, the part of `format` that decides whether the table is shown)

Names and texts are numbers.  `VariableArgument` / `KeywordArgument` are `str` subclasses: a field name
takes the class of the signature parameter it equals (`_handle_param_name`), so the kind is a function of
the name (`Sig.kwargName`). -/
namespace Params

inductive Origin | ast | doc
  deriving DecidableEq, Repr

/-- `ParamType(stan, origin)` -/
structure PType where
  text : Nat
  origin : Origin
  deriving DecidableEq, Repr

/-- `ParamDesc` / `KeywordDesc` -/
structure Desc where
  name : Nat
  body : Option Nat
  isKw : Bool
  type : Option Nat
  origin : Option Origin
  deriving DecidableEq, Repr

inductive ReportKind | duplicate | notFound | asKeyword | duplicateType
  deriving DecidableEq, Repr

/-- what `resolve_types` needs to know about the documented function -/
structure Sig where
  /-- `annotations.items()` without `'return'`: parameter name, formatted annotation if any -/
  params : List (Nat × Option Nat)
  /-- the `**kwargs` parameter (`KeywordArgument`) -/
  kwargName : Option Nat
  /-- `self` of a method / `cls` of a class method: dropped from the table when it comes first, has no description
  and no type from the docstring -/
  selfName : Option Nat
  deriving Repr

structure FH where
  /-- `self.types`, an insertion-ordered dict -/
  types : List (Nat × Option PType)
  /-- `self.parameter_descs` -/
  descs : List Desc
  reports : List (ReportKind × Nat)
  deriving Repr

/-- `d[k] = v` -/
def dictSet {β} (d : List (Nat × β)) (k : Nat) (v : β) : List (Nat × β) :=
  if d.any (·.1 == k) then d.map (fun p => if p.1 == k then (k, v) else p) else d ++ [(k, v)]

def dictHas {β} (d : List (Nat × β)) (k : Nat) : Bool := d.any (·.1 == k)

/-- `set_param_types_from_annotations` -/
def init (s : Sig) : FH :=
  ⟨s.params.foldl (fun d p => dictSet d p.1 (p.2.map fun t => ⟨t, .ast⟩)) [], [], []⟩

inductive Event
  | param (name text : Nat)
  | keyword (name text : Nat)
  | type (name text : Nat)
  deriving DecidableEq, Repr

def step (fh : FH) : Event → FH
  | .type n t =>
    -- handle_type, Function branch
    let rep := if !dictHas fh.types n && !fh.descs.any (·.name == n) then [(ReportKind.notFound, n)] else []
    -- _report_duplicate (08a4c10): an earlier `type` field of the docstring for the same name
    let dup := match fh.types.lookup n with
      | some (some pt) => if pt.origin == .doc then [(ReportKind.duplicateType, n)] else []
      | _ => []
    { fh with types := dictSet fh.types n (some ⟨t, .doc⟩), reports := fh.reports ++ rep ++ dup }
  | .param n t =>
    let dup := if fh.descs.any (·.name == n) then [(ReportKind.duplicate, n)] else []
    let nf := if !dictHas fh.types n then [(ReportKind.notFound, n)] else []
    { fh with descs := fh.descs ++ [⟨n, some t, false, none, none⟩], reports := fh.reports ++ dup ++ nf }
  | .keyword n t =>
    let dup := if fh.descs.any (·.name == n) then [(ReportKind.duplicate, n)] else []
    let ak := if dictHas fh.types n then [(ReportKind.asKeyword, n)] else []
    { fh with descs := fh.descs ++ [⟨n, some t, true, none, none⟩], reports := fh.reports ++ dup ++ ak }

/-- `{param.name: param for param in self.parameter_descs}` -/
def paramsDict (descs : List Desc) : List (Nat × Desc) := descs.foldl (fun d p => dictSet d p.name p) []

/-- the `for index, (name, param_type) in enumerate(self.types.items())` loop:
(rows in order, what is left in `params`, `any_info` contributions) -/
def resolveLoop (s : Sig) : List (Nat × Option PType) → Nat → List (Nat × Desc) → List Desc × List (Nat × Desc) × Bool
  | [], _, params => ([], params, false)
  | (name, pt) :: rest, index, params =>
    match params.lookup name with
    | some d =>
      -- params.pop(name); param.type / param.type_origin are set from the type
      let r := resolveLoop s rest (index + 1) (params.filter (·.1 != name))
      ({ d with type := pt.map (·.text), origin := pt.map (·.origin) } :: r.1, r.2.1, r.2.2)
    | none =>
      -- (19b8897) a leading self / cls is dropped only when its type does not come from the docstring
      if index == 0 && (pt.isNone || pt.map (·.origin) != some .doc) && s.selfName == some name then
        resolveLoop s rest (index + 1) params
      else
        let r := resolveLoop s rest (index + 1) params
        (⟨name, none, false, pt.map (·.text), pt.map (·.origin)⟩ :: r.1, r.2.1, r.2.2 || pt.isSome)

def Desc.isDocumented (d : Desc) : Bool := d.body.isSome || d.origin == some .doc

/-- `resolve_types` -/
def resolveTypes (s : Sig) (fh : FH) : List Desc :=
  let params := paramsDict fh.descs
  let r := resolveLoop s fh.types 0 params
  let anyInfo := !params.isEmpty || r.2.2
  let descs := if anyInfo then r.1 ++ r.2.1.map (·.2) else fh.descs
  -- the **kwargs entry
  let kwargs := (descs.filter fun p => some p.name == s.kwargName).getLast?
  let hasKeywords := descs.any fun p => some p.name != s.kwargName && p.isKw
  match kwargs with
  | none => descs
  | some k =>
    let without := descs.erase k
    if !hasKeywords || k.isDocumented then without ++ [k] else without

/-- rows of the "Parameters" table of `format()` (empty = the table is not shown) -/
def rows (s : Sig) (fh : FH) : List Desc :=
  let ds := resolveTypes s fh
  if ds.any Desc.isDocumented then ds else []

def run (s : Sig) (es : List Event) : FH := es.foldl step (init s)

/-! ### before 19b8897 (kept for the historical counterexample): the leading `self` / `cls` was dropped whenever it
had no description, also when its type came from the docstring -/

def resolveLoopOld (s : Sig) : List (Nat × Option PType) → Nat → List (Nat × Desc) → List Desc × List (Nat × Desc) × Bool
  | [], _, params => ([], params, false)
  | (name, pt) :: rest, index, params =>
    match params.lookup name with
    | some d =>
      let r := resolveLoopOld s rest (index + 1) (params.filter (·.1 != name))
      ({ d with type := pt.map (·.text), origin := pt.map (·.origin) } :: r.1, r.2.1, r.2.2)
    | none =>
      if index == 0 && s.selfName == some name then resolveLoopOld s rest (index + 1) params
      else
        let r := resolveLoopOld s rest (index + 1) params
        (⟨name, none, false, pt.map (·.text), pt.map (·.origin)⟩ :: r.1, r.2.1, r.2.2 || pt.isSome)

/-- `rows` with the old loop (the `**kwargs` step is irrelevant for the counterexample and left out) -/
def rowsOld (s : Sig) (fh : FH) : List Desc :=
  let params := paramsDict fh.descs
  let r := resolveLoopOld s fh.types 0 params
  let descs := if !params.isEmpty || r.2.2 then r.1 ++ r.2.1.map (·.2) else fh.descs
  if descs.any Desc.isDocumented then descs else []

end Params

/-! ## `astbuilder._handlePropertyDef`: where the fields of a property's docstring go

```
for field in pdoc.fields:
    tag = field.tag()
    if tag == 'return':
        if not pdoc.has_body: pdoc = field.body(); attr.docstring = ''
        else: other_fields.append(field)
    elif tag == 'rtype': attr.parsed_type = field.body()
    else: other_fields.append(field)
pdoc.fields = other_fields
``` -/
namespace Property

inductive PTag | ret | rtype | other
  deriving DecidableEq, Repr

/-- a field: tag, text, whether its body is non-empty (`field.body().has_body`) -/
structure PField where
  tag : PTag
  text : Nat
  hasBody : Bool
  deriving DecidableEq, Repr

structure PState where
  /-- `pdoc.has_body` of the current `pdoc` -/
  hasBody : Bool
  /-- the field whose body became the description -/
  description : Option Nat
  parsedType : Option Nat
  otherFields : List PField
  deriving DecidableEq, Repr

def pstep (st : PState) (f : PField) : PState :=
  match f.tag with
  | .ret =>
    if !st.hasBody then { st with hasBody := f.hasBody, description := some f.text }
    else { st with otherFields := st.otherFields ++ [f] }
  | .rtype => { st with parsedType := some f.text }
  | .other => { st with otherFields := st.otherFields ++ [f] }

def handle (docHasBody : Bool) (fields : List PField) : PState :=
  fields.foldl pstep ⟨docHasBody, none, none, []⟩

/-- `ensure_parsed_docstring(sub)` when `sub` has no docstring of its own: `parse_docstring(sub, doc, source)` on the
source TEXT — every field is there for `FieldHandler` (the routing of `_handlePropertyDef` concerns the defining
property only) -/
def inheritedView (docHasBody : Bool) (fields : List PField) : PState := ⟨docHasBody, none, none, fields⟩

/-- before 5a184d3 (kept for the historical counterexample): when a `@return` became the description,
`_handlePropertyDef` set `attr.docstring = ''`, `get_docstring` then found an empty docstring on the source and the
inheriting property got nothing at all -/
def inheritedViewOld (docHasBody : Bool) (fields : List PField) : PState :=
  if (handle docHasBody fields).description.isSome then ⟨false, none, none, []⟩
  else ⟨docHasBody, none, none, fields⟩

end Property

/-! ## `epydoc2stan.extract_fields`: which attribute of a module / class gets which text

```
for field in parsed_doc.fields:
    tag = field.tag()
    if tag in ['ivar', 'cvar', 'var', 'type']:
        arg = field.arg()
        if arg is None: obj.report("Missing field name in @%s" % (tag,), …); continue
        attrobj = obj.contents.get(arg)
        if attrobj is None: attrobj = Attribute(…); attrobj.kind = None; …addObject
        …
        if tag == 'type': attrobj.parsed_type = field.body()
        else: attrobj.parsed_docstring = field.body(); attrobj.kind = field_name_to_kind[tag]
```
and `get_parsed_type` (what the attribute's page shows as its type). -/
namespace Attrs
open Params (dictSet)

inductive VTag | ivar | cvar | var | type | other
  deriving DecidableEq, Repr

structure AField where
  tag : VTag
  name : Option Nat
  text : Nat
  deriving DecidableEq, Repr

/-- what `extract_fields` can change of an `Attribute` -/
structure AttrV where
  doc : Option Nat          -- parsed_docstring
  type : Option Nat         -- parsed_type
  hasKind : Bool            -- kind is not None (the attribute is displayed)
  deriving DecidableEq, Repr

structure AState where
  /-- `obj.contents` restricted to attributes, in insertion order -/
  attrs : List (Nat × AttrV)
  /-- indices of the fields reported with "Missing field name" -/
  missing : List Nat
  /-- `seen` (08a4c10): (name, is a type field) of the fields handled so far -/
  seen : List (Nat × Bool) := []
  /-- indices of the fields reported with "… was already given, the earlier text is not displayed" -/
  duplicates : List Nat := []
  deriving Repr

def astep (st : AState) (i : Nat) (f : AField) : AState :=
  if f.tag = .other then st else
  match f.name with
  | none => { st with missing := st.missing ++ [i] }
  | some n =>
    let cur := (st.attrs.lookup n).getD ⟨none, none, false⟩
    let upd : AttrV := if f.tag = .type then { cur with type := some f.text } else { cur with doc := some f.text, hasKind := true }
    let key := (n, decide (f.tag = .type))
    { st with attrs := dictSet st.attrs n upd, seen := st.seen ++ [key],
              duplicates := if st.seen.contains key then st.duplicates ++ [i] else st.duplicates }

def runFrom (st : AState) : Nat → List AField → AState
  | _, [] => st
  | i, f :: fs => runFrom (astep st i f) (i + 1) fs

/-- `extract_fields(obj)` with the attributes the AST builder already created for the body -/
def extract (existing : List (Nat × AttrV)) (fields : List AField) : AState := runFrom ⟨existing, [], [], []⟩ 0 fields

/-- `get_parsed_type(attr)`: `parsed_type`, else the last `type` field of the attribute's own docstring
(87738b5), else the annotation -/
def shownType (parsedType : Option Nat) (ownTypeFields : List Nat) (annotation : Option Nat) : Option Nat :=
  match parsedType with
  | some t => some t
  | none =>
    match ownTypeFields.getLast? with
    | some t => some t
    | none => annotation

end Attrs

/-! ## `pydoctor/napoleon/docstring.py`: `_get_indent`, `_get_min_indent`, `_dedent` (continuation lines of google / numpy fields)

```
def _get_indent(self, line):
    for i, s in enumerate(line):
        if not s.isspace(): return i
    return len(line)
def _get_min_indent(self, lines):
    min_indent = None
    for line in lines:
        if line:
            indent = self._get_indent(line)
            if min_indent is None: min_indent = indent
            elif indent < min_indent: min_indent = indent
    return min_indent or 0
def _dedent(self, lines, full=False):
    … min_indent = self._get_min_indent(lines); return [line[min_indent:] for line in lines]
``` -/
namespace Napoleon
open Epytext (pyIsSpace Line)

def getIndent (line : Line) : Nat := (line.takeWhile pyIsSpace).length

def minIndentLoop : List Line → Option Nat → Option Nat
  | [], m => m
  | l :: ls, m =>
    if l.isEmpty then minIndentLoop ls m
    else
      match m with
      | none => minIndentLoop ls (some (getIndent l))
      | some k => minIndentLoop ls (some (if getIndent l < k then getIndent l else k))

def getMinIndent (lines : List Line) : Nat := (minIndentLoop lines none).getD 0

/-- `_dedent(lines)` (`full=False`) -/
def dedent (lines : List Line) : List Line := lines.map (·.drop (getMinIndent lines))

/-- `_get_initial_indent`: the indentation of the first non-empty line -/
def getInitialIndent : List Line → Nat
  | [] => 0
  | l :: ls => if l.isEmpty then getInitialIndent ls else getIndent l

end Napoleon
