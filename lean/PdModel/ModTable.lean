/-
Model of the module table of pydoctor/model.py, i.e. what happens when modules and packages are
*added* to a `System`, before any of them is processed:

  `System.analyzeModule` / `SystemBuilder.addModuleString` / `System.introspectModule`
      (create the Module / Package object, then) `System._addUnprocessedModule(mod)`
  `System._addUnprocessedModule`, `System._handleDuplicateModule`, `System._remove`,
  the module half of `System.addObject` (`parent.contents[name] = obj` / `rootobjects.append`,
  `allobjects.setdefault`).

State = the four containers the code touches: the objects (name, parent, kind, `contents`),
`allobjects`, `rootobjects`, `unprocessed_modules`.  Python `dict` = insertion-ordered association
list (`Registry.dget/dset/ddel`), `list.remove` = `List.erase` guarded by membership.  Qualified
names are paths, as in Registry.lean.  Exceptions are explicit.  The step before commit 6850302
is kept as `addModuleOld` for the historical counterexample only.

Executable; imports only the dict primitives of PdModel.Registry.
-/
import PdModel.Registry

namespace ModTable
open Registry (Name Path dget dhas dset ddel)

/-- `Package` / `Module`, each either analysed from source or introspected (`_is_c_module`) -/
inductive Kind | package | module | cmodule | cpackage
  deriving DecidableEq, Repr, Inhabited

/-- `isinstance(m, Package)` -/
def Kind.isPkg : Kind → Bool
  | .package => true | .cpackage => true | _ => false
/-- `m._is_c_module` -/
def Kind.isC : Kind → Bool
  | .cmodule => true | .cpackage => true | _ => false

inductive Err
  | keyError          -- `del allobjects[name]` of an absent key
  | valueError        -- `list.remove` of an absent element
  | assertionError    -- an object id that does not exist (cannot be written in Python)
  | recursionError    -- fuel ran out (`fullName()` / `_remove` / `_addUnprocessedModule` recursion)
  | duplicateObject   -- `addObject` found the name taken: `System.handleDuplicate` would run (Registry's business)
  deriving DecidableEq, Repr

structure MObj where
  name : Name
  parent : Option Nat
  kind : Kind
  contents : List (Name × Nat)      -- Documentable.contents
  deriving Repr, Inhabited

structure State where
  objs : List MObj                  -- index = creation order
  all : List (Path × Nat)           -- System.allobjects
  roots : List Nat                  -- System.rootobjects
  unproc : List Nat                 -- System.unprocessed_modules
  deriving Repr, Inhabited

def init : State := ⟨[], [], [], []⟩

/-- `Documentable.fullName()` as a path; `none` = the parent chain does not end or dangles -/
def pathAux (objs : List MObj) : Nat → Nat → Option Path
  | 0, _ => none
  | f+1, i =>
    match objs[i]? with
    | none => none
    | some o =>
      match o.parent with
      | none => some [o.name]
      | some p => (pathAux objs f p).map (· ++ [o.name])

def path (s : State) (i : Nat) : Option Path := pathAux s.objs (s.objs.length + 1) i

/-- `for c in cs: g(c)` where `g` may raise -/
def foldE (g : State → Nat → Except Err State) : State → List Nat → Except Err State
  | s, [] => .ok s
  | s, c :: cs =>
    match g s c with
    | .error e => .error e
    | .ok s1 => foldE g s1 cs

/-- `System._remove(o)`:
```
del self.allobjects[o.fullName()]
if isinstance(o, Module) and o in self.unprocessed_modules:
    self.unprocessed_modules.remove(o)
oc = list(o.contents.values())
for c in oc: self._remove(c)
```
(every object of this model is a Module). The first argument is the recursion fuel. -/
def removeAux : Nat → State → Nat → Except Err State
  | 0, _, _ => .error .recursionError
  | f+1, s, o =>
    match s.objs[o]? with
    | none => .error .assertionError
    | some ob =>
      match path s o with
      | none => .error .recursionError
      | some fn =>
        match ddel s.all fn with
        | none => .error .keyError
        | some a =>
          let u := if s.unproc.contains o then s.unproc.erase o else s.unproc
          foldE (removeAux f) { s with all := a, unproc := u } (ob.contents.map (·.2))

def remove (s : State) (o : Nat) : Except Err State := removeAux (s.objs.length + 1) s o

/-- the module half of `System.addObject(obj)`:
```
if obj.parent: obj.parent.contents[obj.name] = obj
elif isinstance(obj, _ModuleT): self.rootobjects.append(obj)
first = self.allobjects.setdefault(obj.fullName(), obj)
if obj is not first: self.handleDuplicate(obj)
``` -/
def addObject (s : State) (m : Nat) : Except Err State :=
  match s.objs[m]? with
  | none => .error .assertionError
  | some mo =>
    let s1 : State :=
      match mo.parent with
      | some p => { s with objs := s.objs.modify p (fun po => { po with contents := dset po.contents mo.name m }) }
      | none => { s with roots := s.roots ++ [m] }
    match path s1 m with
    | none => .error .recursionError
    | some fn =>
      match dget s1.all fn with
      | none => .ok { s1 with all := s1.all ++ [(fn, m)] }
      | some _ => .error .duplicateObject

/-- `System._addUnprocessedModule(mod)` with `System._handleDuplicateModule(first, dup)` inlined
(they call each other); the first argument is the recursion fuel.
```
first = self.allobjects.get(mod.fullName())
if first is not None: self._handleDuplicateModule(first, mod)
else: self.unprocessed_modules.append(mod); self.addObject(mod)

def _handleDuplicateModule(self, first, dup):
    if first._is_c_module and not isinstance(dup, Package): return
    elif isinstance(first, Package) and not isinstance(dup, Package): return
    else:
        self._remove(first)
        if first.parent is None: self.rootobjects.remove(first)
        self._addUnprocessedModule(dup)
``` -/
def addUnprocAux : Nat → State → Nat → Except Err State
  | 0, _, _ => .error .recursionError
  | f+1, s, m =>
    match s.objs[m]? with
    | none => .error .assertionError
    | some mo =>
      match path s m with
      | none => .error .recursionError
      | some fn =>
        match dget s.all fn with
        | none => addObject { s with unproc := s.unproc ++ [m] } m
        | some first =>
          match s.objs[first]? with
          | none => .error .assertionError
          | some fo =>
            if fo.kind.isC && !mo.kind.isPkg then .ok s
            else if fo.kind.isPkg && !mo.kind.isPkg then .ok s
            else
              match remove s first with
              | .error e => .error e
              | .ok s1 =>
                match fo.parent with
                | some _ => addUnprocAux f s1 m
                | none =>
                  if s1.roots.contains first then addUnprocAux f { s1 with roots := s1.roots.erase first } m
                  else .error .valueError

/-- object construction `factory(system, name, parent)` (no side effect on the system) -/
def create (s : State) (k : Kind) (name : Name) (parent : Option Nat) : State :=
  { s with objs := s.objs ++ [⟨name, parent, k, []⟩] }

/-- `analyzeModule` / `addModuleString` / `introspectModule`: construct the module object (id =
creation index), then `_addUnprocessedModule`. A parent id that does not exist cannot be passed
in Python. -/
def addModule (s : State) (k : Kind) (name : Name) (parent : Option Nat) : Except Err State :=
  match parent with
  | some p =>
    if p < s.objs.length then addUnprocAux (s.all.length + 2) (create s k name parent) s.objs.length
    else .error .assertionError
  | none => addUnprocAux (s.all.length + 2) (create s k name parent) s.objs.length

/-! ### before commit 6850302 (historical) -/

/-- `_remove` as it was: the pending list is not touched -/
def removeOldAux : Nat → State → Nat → Except Err State
  | 0, _, _ => .error .recursionError
  | f+1, s, o =>
    match s.objs[o]? with
    | none => .error .assertionError
    | some ob =>
      match path s o with
      | none => .error .recursionError
      | some fn =>
        match ddel s.all fn with
        | none => .error .keyError
        | some a => foldE (removeOldAux f) { s with all := a } (ob.contents.map (·.2))

/-- `_handleDuplicateModule` as it was: `self._remove(first); self.unprocessed_modules.remove(first);
self._addUnprocessedModule(dup)` — `rootobjects` is not touched -/
def addUnprocOldAux : Nat → State → Nat → Except Err State
  | 0, _, _ => .error .recursionError
  | f+1, s, m =>
    match s.objs[m]? with
    | none => .error .assertionError
    | some mo =>
      match path s m with
      | none => .error .recursionError
      | some fn =>
        match dget s.all fn with
        | none => addObject { s with unproc := s.unproc ++ [m] } m
        | some first =>
          match s.objs[first]? with
          | none => .error .assertionError
          | some fo =>
            if fo.kind.isC && !mo.kind.isPkg then .ok s
            else if fo.kind.isPkg && !mo.kind.isPkg then .ok s
            else
              match removeOldAux (s.objs.length + 1) s first with
              | .error e => .error e
              | .ok s1 =>
                if s1.unproc.contains first then addUnprocOldAux f { s1 with unproc := s1.unproc.erase first } m
                else .error .valueError

def addModuleOld (s : State) (k : Kind) (name : Name) (parent : Option Nat) : Except Err State :=
  match parent with
  | some p =>
    if p < s.objs.length then addUnprocOldAux (s.all.length + 2) (create s k name parent) s.objs.length
    else .error .assertionError
  | none => addUnprocOldAux (s.all.length + 2) (create s k name parent) s.objs.length

/-! ### histories -/

structure Op where
  kind : Kind
  name : Name
  parent : Option Nat
  deriving Repr

def step (s : State) (op : Op) : Except Err State := addModule s op.kind op.name op.parent
def stepOld (s : State) (op : Op) : Except Err State := addModuleOld s op.kind op.name op.parent

/-- run a history; an operation that raises leaves the state as it was before it and is reported
(same convention as `Registry.run`) -/
def runWith (st : State → Op → Except Err State) : State → List Op → State × List (Option Err)
  | s, [] => (s, [])
  | s, op :: ops =>
    match st s op with
    | .ok s' => let r := runWith st s' ops; (r.1, none :: r.2)
    | .error e => let r := runWith st s ops; (r.1, some e :: r.2)

def run : State → List Op → State × List (Option Err) := runWith step
def runOld : State → List Op → State × List (Option Err) := runWith stepOld

/-! ### what the callers pass -/

def registered (s : State) (i : Nat) : Bool := (s.all.map (·.2)).contains i

/-- the parent argument of `analyzeModule` / `addModuleString` / `introspectModule` as the callers
(`addPackage`, `addModuleFromPath`, `SystemBuilder.addModuleString`) pass it: `None`, or a Package
that is registered at that moment (`addModuleString` takes it out of `allobjects` and asserts it is
a Package; `addPackage` passes the package it has just added, and a Package never loses against an
earlier module of its name, so it is registered) -/
def opOk (s : State) (op : Op) : Bool :=
  match op.parent with
  | none => true
  | some p =>
    match s.objs[p]? with
    | none => false
    | some po => po.kind.isPkg && registered s p

/-- every operation of the history meets `opOk` in the state it is applied to. Nothing is asked of
what follows an operation that raises: there is no such operation (`ModTable.run_ok`). -/
def histOk : State → List Op → Bool
  | _, [] => true
  | s, op :: ops =>
    opOk s op &&
      match step s op with
      | .ok s' => histOk s' ops
      | .error _ => true

/-! ### the invariant as an executable predicate (printed by the driver, proved in PdProps.C02Mod) -/

def keysUnique (s : State) : Bool :=
  s.all.all fun e => (s.all.filter (fun e' => e'.1 = e.1)).length == 1

def keysAreNames (s : State) : Bool :=
  s.all.all fun e => path s e.2 == some e.1

def parentsRegistered (s : State) : Bool :=
  s.all.all fun e =>
    match s.objs[e.2]? with
    | none => false
    | some o =>
      match o.parent with
      | none => s.roots.contains e.2
      | some p =>
        registered s p &&
          match s.objs[p]? with
          | none => false
          | some po => dget po.contents o.name == some e.2

def rootsOk (s : State) : Bool :=
  (s.roots.all fun r =>
    registered s r && (match s.objs[r]? with | none => false | some o => o.parent.isNone)
      && (s.roots.filter (· == r)).length == 1)

def pendingOk (s : State) : Bool := s.unproc == s.all.map (·.2)

def contentsOk (s : State) : Bool :=
  s.all.all fun e =>
    match s.objs[e.2]? with
    | none => false
    | some o => o.contents.all fun nc =>
        registered s nc.2 &&
          match s.objs[nc.2]? with
          | none => false
          | some c => c.parent == some e.2 && c.name == nc.1

def invB (s : State) : Bool :=
  keysUnique s && keysAreNames s && parentsRegistered s && rootsOk s && pendingOk s && contentsOk s

end ModTable
