import PdModel.Lineno
import PdModel.Proto
/-! Line protocol for the Lineno model (`lineno <op> …`):

* `isspace <lo> <hi>`                      → code points in `[lo, hi)` that `str.isspace` accepts
* `literal <strLineno> <u:value>`           → `dl=<docstring_lineno> clean=<u:cleandoc(value)>`
* `report <isModule> <docstring_lineno> <linenumber> <d|x|o> <offset>` → printed line or `???`
* `doc <e|r|g|n> <isModule> <linenumber> <strLineno> <u:value> <cls:raw:j>*`
      cls ∈ E U P X B D T (see `IOCons`)    → `dl=… n=… | <line>:<cls> …` (sorted)
* `moved <fmt> <srcFile> <currentModuleFile> <linenumber> <strLineno> <u:value> <cls:raw:j>*`
      → set of `<file>:<line>:<cls>` for an object moved by a re-export
* `inherit <fmt> <srcFile> <srcLinenumber> <strLineno> <u:value> <-|file.ln,…> <cls:raw:j>*`
      → set of `<file>:<line>:<cls>` printed when the source and the inheriting objects are rendered
* `src <strLineno> <p:piece codes> <marks>` (1114112 nl, 1114113 cont, 1114114 escNl) → value, docstring_lineno, last line, per mark `phys:valueLine`
* `getlineno <nodeLine|N> <u:nodeRaw> (<line|N> <u:rawsource>)*` → `get_lineno`
* `attr <classDl> <off> (f:<fieldLineno> | d:<ownDl>)*` → which text is rendered, reported line, docstring_lineno
* `napoleon <g|n> <hdr> <t<extra>|u<extra>,…>` → written line, `:param` line, `:type` line of every entry
* `docgn <g|n> <isModule> <linenumber> <strLineno> <u:value> <raw line of the section header|-> <entries|-> <cls:raw:j>*`
      → every `(line, kind)` reported for a google / numpy docstring of the generated shape
* `docassign <fmt> <old docstring_lineno> <linenumber> <strLineno> <u:value> <cls:raw:j>*`
      → `(line, kind)` reported for a text assigned to `obj.__doc__`
* `parser <fmt> <u:value> <cls:raw:j>*` → `Field.lineno`s and `ParseError._linenum`s the parser stores
* `inrange <strLineno> <u:value> <isModule> <linenumber> <d|x|o> <offset>` → `<line> in|out`
* `sys <W> <verbosity> <op>*`  ops: `m:<sec>:<msg>:<thresh>:<top>:<once>`, `r:<sec>:<obj>:<nerrs>[:<phase>:<name>]`
      (reportErrors), `v:<n>` (set violations), `p:<sec>:<obj>` (add name), `k:<sec>` (touch key)
                                            → `status=… violations=… printed=… pe=<0|1>`
-/
namespace Lineno

def parseInt (s : String) : Option Int :=
  if s.startsWith "-" then (s.drop 1).toString.toNat?.map fun n => -(n : Int)
  else s.toNat?.map fun n => (n : Int)

def showLine : Line → String
  | .num n => toString n
  | .unknown => "???"

def parseSec : String → Option Sec
  | "d" => some .docstring | "x" => some .xref | "o" => some .other | _ => none

def parseFmt : String → Option Fmt
  | "e" => some .epytext | "r" => some .rst | "g" => some .google | "n" => some .numpy | _ => none

def parseCls : String → Option Cls
  | "E" => some .markupError | "U" => some .unknownField | "P" => some .badParam
  | "X" => some .badXref | _ => none

def showCls : Cls → String
  | .markupError => "E" | .unknownField => "U" | .badParam => "P" | .badXref => "X"

def parseConstruct (tok : String) : Option Construct :=
  match tok.splitOn ":" with
  | [c, r, j] => do
    let cls ← parseCls c
    let raw ← r.toNat?
    let jj ← j.toNat?
    some ⟨cls, raw, jj⟩
  | _ => none

/-- protocol-level construct: E U P X as `Cls`; B / D = bad parameter documented by a bullet /
definition-list entry of a consolidated field; T = cross-reference in a definition-list classifier -/
structure IOCons where
  tag : String
  raw : Nat
  j : Nat

def parseIOCons (tok : String) : Option IOCons :=
  match tok.splitOn ":" with
  | [c, r, j] => do
    let raw ← r.toNat?
    let jj ← j.toNat?
    if ["E", "U", "P", "X", "B", "D", "T", "W", "V", "S", "Z"].contains c then some ⟨c, raw, jj⟩ else none
  | _ => none

/-- line and class letter printed for one protocol construct of a literal -/
def ioLine (fmt : Fmt) (sl : Nat) (doc : List Char) (ln : Int) (im : Bool) (c : IOCons) : Line × String :=
  let o := docObj sl doc ln im
  let i : Int := (c.raw : Int) - (dropped doc : Nat)
  -- docutils' line structure: extra `splitlines()` boundaries before the block
  let sh : Int := (lineShift fmt doc (c.raw - dropped doc) : Nat)
  let r : Line × String := match c.tag with
    | "B" => (report o .docstring (rstFieldLineno docutilsBase .bulletItem i), "P")
    | "D" => (report o .docstring (rstFieldLineno docutilsBase .deflistItem i), "P")
    | "T" => (report o .xref (classifierXrefOffset docutilsBase i), "X")
    | "W" => (report o .docstring (typeWarningOffset (fieldStoredLineno docutilsBase fmt i)), "W")
    -- V: c.j = number of further lines of the directive block
    | "V" => (report o .xref (versionArgXrefOffset i c.j (cleandocLines doc).length 0), "X")
    | "S" => (report o .xref (sectionTitleXrefOffset docutilsBase i c.j), "X")
    | "Z" => (report o .xref tocXrefOffsetOld, "X")      -- historical (before fcb5e8a); the harness no longer sends it
    | t => match parseCls t with
      | some cls => (reportedLine fmt sl doc ln im ⟨cls, c.raw, c.j⟩, showCls cls)
      | none => (.unknown, "?")
  if c.tag == "Z" then r else (shiftLine r.1 sh, r.2)

/-- epytext: a fatal markup error leaves only the errors -/
def ioReported (fmt : Fmt) (cs : List IOCons) : List IOCons :=
  if fmt = .epytext ∧ cs.any (fun c => c.tag == "E") then cs.filter (fun c => c.tag == "E") else cs

def parsePieces (tok : String) : Option (List Piece) :=
  if tok == "p:" then some [] else
  if tok.startsWith "p:" then
    ((tok.drop 2).toString.splitOn ".").mapM fun t => do
      let n ← t.toNat?
      some (if n == 1114112 then Piece.nl else if n == 1114113 then Piece.cont
            else if n == 1114114 then Piece.escNl else Piece.ch (Char.ofNat n))
  else none

def parseOptInt (s : String) : Option (Option Int) :=
  if s == "N" then some none else (parseInt s).map some

def parseRawAncs : List String → Option (List RawAnc)
  | [] => some []
  | l :: r :: rest => do
    let line ← parseOptInt l
    let raw ← Proto.decodeStr r
    let tl ← parseRawAncs rest
    some (⟨line, raw⟩ :: tl)
  | _ => none

def parseEntries (tok : String) : Option (List Entry) :=
  if tok == "-" then some [] else
  (tok.splitOn ",").mapM fun t =>
    match t.toList with
    | 't' :: ds => (String.ofList ds).toNat?.map fun n => ⟨true, n⟩
    | 'u' :: ds => (String.ofList ds).toNat?.map fun n => ⟨false, n⟩
    | _ => none

def attrOps (a : AttrDoc) (classDl : Int) : List String → Option AttrDoc
  | [] => some a
  | t :: ts =>
    match t.splitOn ":" with
    | ["f", n] => do attrOps (a.extractField classDl (← parseInt n)) classDl ts
    | ["d", n] => do attrOps (a.setDocstring (← parseInt n)) classDl ts
    | _ => none

def parseBool : String → Option Bool
  | "0" => some false | "1" => some true | _ => none

/-- insertion sort of answer tokens so that the answer is canonical -/
def insertTok (t : String) : List String → List String
  | [] => [t]
  | x :: xs => if t ≤ x then t :: x :: xs else x :: insertTok t xs

def sortToks (l : List String) : List String := l.foldr insertTok []

def sysOp (s : Sys) (tok : String) : Option Sys :=
  match tok.splitOn ":" with
  | ["m", sec, m, th, top, once] => do
    let sec ← sec.toNat?
    let m ← m.toNat?
    let th ← parseInt th
    let top ← parseInt top
    let once ← parseBool once
    some (s.msg sec m th top once)
  | ["r", sec, obj, n] => do
    let sec ← sec.toNat?
    let obj ← obj.toNat?
    let n ← n.toNat?
    some (s.reportErrors sec obj (List.range n))
  | ["r", sec, obj, n, phase, name] => do
    let sec ← sec.toNat?
    let obj ← obj.toNat?
    let n ← n.toNat?
    let phase ← phase.toNat?
    let name ← name.toNat?
    some (s.reportErrors sec obj (List.range n) phase name)
  | ["v", n] => do
    let n ← n.toNat?
    some { s with violations := n }
  | ["p", sec, obj] => do
    let sec ← sec.toNat?
    let obj ← obj.toNat?
    some { s with parseErrors := addName sec obj s.parseErrors }
  | ["k", sec] => do
    let sec ← sec.toNat?
    some { s with parseErrors := touch sec s.parseErrors }
  | _ => none

def sysOps (s : Sys) : List String → Option Sys
  | [] => some s
  | t :: ts => match sysOp s t with
    | some s' => sysOps s' ts
    | none => none

def handle (args : List String) : String :=
  match args with
  | ["isspace", lo, hi] =>
    match lo.toNat?, hi.toNat? with
    | some lo, some hi =>
      Proto.showNatList ((List.range (hi - lo)).filterMap fun d =>
        let n := lo + d
        if (Char.ofNat n).toNat = n && pyIsSpace (Char.ofNat n) then some n else none)
    | _, _ => "bad-op"
  | ["literal", ln, v] =>
    match ln.toNat?, Proto.decodeStr v with
    | some ln, some doc =>
      let r := extractDocstring ln doc
      "dl=" ++ toString r.1 ++ " clean=" ++ Proto.encodeStr r.2
    | _, _ => "bad-op"
  | ["report", im, dl, ln, sec, off] =>
    match parseBool im, parseInt dl, parseInt ln, parseSec sec, parseInt off with
    | some im, some dl, some ln, some sec, some off => showLine (report ⟨dl, ln, im⟩ sec off)
    | _, _, _, _, _ => "bad-op"
  | "doc" :: fmt :: im :: ln :: sl :: v :: cs =>
    match parseFmt fmt, parseBool im, parseInt ln, sl.toNat?, Proto.decodeStr v, cs.mapM parseIOCons with
    | some fmt, some im, some ln, some sl, some doc, some cs =>
      let toks := (ioReported fmt cs).map fun c =>
        let r := ioLine fmt sl doc ln im c
        showLine r.1 ++ ":" ++ r.2
      "dl=" ++ toString (extractLinenum sl doc) ++ " n=" ++ toString (cleandocLines doc).length
        ++ " | " ++ " ".intercalate (sortToks toks)
    | _, _, _, _, _, _ => "bad-op"
  | "inherit" :: fmt :: sfile :: sln :: sl :: v :: inh :: cs =>
    -- inh: `-` or `file.linenumber,file.linenumber,…` (the objects showing the inherited docstring)
    match parseFmt fmt, sfile.toNat?, parseInt sln, sl.toNat?, Proto.decodeStr v, cs.mapM parseIOCons,
      (if inh == "-" then some [] else (inh.splitOn ",").mapM fun t =>
        match t.splitOn "." with
        | [f, l] => do some (← f.toNat?, ← parseInt l)
        | _ => none) with
    | some fmt, some sfile, some sln, some sl, some doc, some cs, some inh =>
      let source : Located := ⟨sfile, ⟨0, sln, false⟩⟩
      let viewers : List Located := source :: inh.map fun p => ⟨p.1, ⟨0, p.2, false⟩⟩
      let toks := viewers.flatMap fun o => (ioReported fmt cs).map fun c =>
        -- the report is made on `reportTarget source o`, i.e. with the source's file, line base and linenumber
        let t := reportTarget source o
        let r := ioLine fmt sl doc t.obj.linenumber t.obj.isModule c
        toString t.file ++ ":" ++ showLine r.1 ++ ":" ++ r.2
      " ".intercalate ((sortToks toks).eraseDups)
    | _, _, _, _, _, _, _ => "bad-op"
  | "moved" :: fmt :: srcFile :: curFile :: ln :: sl :: v :: cs =>
    -- an object created from file `srcFile`, now living in the module of file `curFile`
    match parseFmt fmt, srcFile.toNat?, curFile.toNat?, parseInt ln, sl.toNat?, Proto.decodeStr v, cs.mapM parseIOCons with
    | some fmt, some sf, some cf, some ln, some sl, some doc, some cs =>
      let p : Placed := (⟨sf, sf, docObj sl doc ln false⟩ : Placed).reparent cf
      let toks := (ioReported fmt cs).map fun c =>
        let r := ioLine fmt sl doc ln false c
        toString p.descriptionFile ++ ":" ++ showLine r.1 ++ ":" ++ r.2
      " ".intercalate ((sortToks toks).eraseDups)
    | _, _, _, _, _, _, _ => "bad-op"
  | ["src", sl, ps, marks] =>
    match sl.toNat?, parsePieces ps, Proto.natList marks with
    | some sl, some ps, some marks =>
      let v := valueOf ps
      "value=" ++ Proto.encodeStr v ++ " dl=" ++ toString (extractLinenum sl v) ++ " end=" ++ toString (sl + physNls ps)
        ++ " marks=" ++ ",".intercalate (marks.map fun k => toString (physLineAt sl ps k) ++ ":" ++ toString (valueLineAt ps k))
    | _, _, _ => "bad-op"
  | "getlineno" :: nl :: nr :: ancs =>
    match parseOptInt nl, Proto.decodeStr nr, parseRawAncs ancs with
    | some nl, some nr, some ancs => toString (getLinenoRaw nl nr ancs)
    | _, _, _ => "bad-op"
  | "attr" :: cdl :: off :: ops =>
    match parseInt cdl, parseInt off, (do attrOps {} (← parseInt cdl) ops) with
    | some cdl, some off, some a =>
      "renders=" ++ (if a.rendersField then "field" else "own") ++ " line=" ++ toString (a.xrefLine cdl off)
        ++ " dl=" ++ toString a.docstringLineno
    | _, _, _ => "bad-op"
  | ["napoleon", kind, hdr, es] =>
    match hdr.toNat?, parseEntries es with
    | some hdr, some es =>
      let numpy := kind == "n"
      let idx := List.range es.length
      "in=" ++ Proto.showNatList (idx.map (entryInLine numpy hdr es))
        ++ " param=" ++ Proto.showNatList (idx.map (paramOutLine numpy hdr es))
        ++ " type=" ++ Proto.showNatList (idx.filterMap fun k => if ((es[k]?).map (·.typed)).getD false then some (typeOutLine numpy hdr es k) else none)
    | _, _ => "bad-op"
  | "docgn" :: kind :: im :: ln :: sl :: v :: hdrRaw :: es :: cs =>
    -- google / numpy docstring: paragraphs (constructs X / E, copied one for one by napoleon) and, when `hdrRaw` is not
    -- `-`, a trailing parameter section whose entries document parameters that do not exist
    match parseBool im, parseInt ln, sl.toNat?, Proto.decodeStr v, parseEntries es, cs.mapM parseIOCons with
    | some im, some ln, some sl, some doc, some es, some cs =>
      let numpy := kind == "n"
      let o := docObj sl doc ln im
      let gfmt : Fmt := if numpy then .numpy else .google
      let paras := cs.map fun c =>
        let r := ioLine gfmt sl doc ln im c
        showLine r.1 ++ ":" ++ r.2
      let sect := match hdrRaw.toNat? with
        | some hr =>
          let hdr := hr - dropped doc + lineShift gfmt doc (hr - dropped doc)
          (List.range es.length).flatMap fun k =>
            [showLine (report o .docstring (convertedParamOffset numpy hdr es k)) ++ ":P"] ++
            (if ((es[k]?).map (·.typed)).getD false then
              [showLine (report o .xref (convertedTypeOffset numpy hdr es k)) ++ ":X"] else [])
        | none => []
      " ".intercalate ((sortToks (paras ++ sect)).eraseDups)
    | _, _, _, _, _, _ => "bad-op"
  | "docassign" :: fmt :: oldDl :: ln :: sl :: v :: cs =>
    -- `obj.__doc__ = <literal on line sl with value v>`; the object's docstring_lineno / linenumber are oldDl / ln
    match parseFmt fmt, parseInt oldDl, parseInt ln, sl.toNat?, Proto.decodeStr v, cs.mapM parseIOCons with
    | some fmt, some oldDl, some ln, some sl, some doc, some cs =>
      let d : Int := (extractLinenum sl doc : Nat)
      let toks := (ioReported fmt cs).map fun c =>
        let r := ioLine fmt sl doc ln false c
        let sec := if r.2 == "X" then Sec.xref else Sec.docstring
        match r.1 with
        | .num n => showLine (reportAfterDocAssignment ⟨oldDl, ln, false⟩ sl doc sec (n - d)) ++ ":" ++ r.2
        | .unknown => "???:" ++ r.2
      " ".intercalate ((sortToks toks).eraseDups)
    | _, _, _, _, _, _ => "bad-op"
  | "parser" :: fmt :: v :: cs =>
    -- what the parser itself stores: Field.lineno of every field-level construct, ParseError._linenum of every error
    match parseFmt fmt, Proto.decodeStr v, cs.mapM parseIOCons with
    | some fmt, some doc, some cs =>
      -- index of the block in the line structure the parser uses (docutils: `splitlines()`)
      let idx (c : IOCons) : Int := (c.raw : Int) - (dropped doc : Nat)
        + ((lineShift fmt doc (c.raw - dropped doc) : Nat) : Int)
      let fatal := fmt == .epytext && cs.any (fun c => c.tag == "E")
      let fields := if fatal then [] else (cs.filter fun c => ["U", "P", "B", "D"].contains c.tag).map fun c =>
        toString (if c.tag == "B" then rstFieldLineno docutilsBase .bulletItem (idx c)
                  else if c.tag == "D" then rstFieldLineno docutilsBase .deflistItem (idx c)
                  else fieldStoredLineno docutilsBase fmt (idx c))
      let errs := (cs.filter fun c => c.tag == "E").map fun c => toString (errorStoredLinenum docutilsBase fmt (idx c))
      "fields=" ++ ",".intercalate ((sortToks fields).eraseDups) ++ " errs=" ++ ",".intercalate ((sortToks errs).eraseDups)
    | _, _, _ => "bad-op"
  | ["inrange", sl, v, im, ln, sec, off] =>
    match sl.toNat?, Proto.decodeStr v, parseBool im, parseInt ln, parseSec sec, parseInt off with
    | some sl, some doc, some im, some ln, some sec, some off =>
      let l := report (docObj sl doc ln im) sec off
      showLine l ++ (if inSpan sl doc l then " in" else " out")
    | _, _, _, _, _, _ => "bad-op"
  | "sys" :: w :: verb :: ops =>
    match parseBool w, parseInt verb with
    | some w, some verb =>
      match sysOps { verbosity := verb } ops with
      | some s =>
        let r := mainTail s w
        "status=" ++ toString r.1 ++ " violations=" ++ toString r.2.violations ++ " printed="
          ++ toString r.2.printed ++ " pe=" ++ (if anyParseErrors s then "1" else "0")
      | none => "bad-op"
    | _, _ => "bad-op"
  | _ => "bad-op"

end Lineno
