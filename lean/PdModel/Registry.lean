/-
Model of the object registry of pydoctor/model.py:
`System.addObject`, `System.handleDuplicate`, `System._objectsBelow`, `Documentable.reparent`,
`Documentable.fullName`, `System._addUnprocessedModule` / `_handleDuplicateModule` / `_remove`.

Python `dict` = insertion-ordered association list with CPython's overwrite/delete semantics.
Qualified names are *paths* (lists of name components); the code keys `allobjects` by the
components joined with '.'.  The two agree whenever no component contains a '.'; names that do
(`x.setter`) are covered by the correspondence and the direct oracle only (see DESIGN.md C02).

Exceptions are explicit (`Except Err`).  Import-free, executable.
-/
namespace Registry

abbrev Name := List Char
abbrev Path := List Name

inductive Cls | package | module | cls | function | attribute
  deriving DecidableEq, Repr, Inhabited

inductive Err | valueError | keyError | assertionError | recursionError
  deriving DecidableEq, Repr

structure Obj where
  name : Name
  parent : Option Nat
  cls : Cls
  contents : List (Name × Nat)      -- Documentable.contents
  aliases : List (Name × Path)      -- CanContainImportsDocumentable._localNameToFullName_map
  deriving Repr, Inhabited

structure State where
  objs : List Obj                   -- index = creation order
  all : List (Path × Nat)           -- System.allobjects
  roots : List Nat                  -- System.rootobjects
  deriving Repr, Inhabited

def init : State := ⟨[], [], []⟩

/-! ### PyDict -/
section PyDict
variable {κ ν : Type} [DecidableEq κ]

/-- `d.get(k)` -/
def dget : List (κ × ν) → κ → Option ν
  | [], _ => none
  | (k', v) :: d, k => if k' = k then some v else dget d k
def dhas (d : List (κ × ν)) (k : κ) : Bool := (dget d k).isSome
/-- `d[k] = v`: overwrite in place, or append -/
def dset : List (κ × ν) → κ → ν → List (κ × ν)
  | [], k, v => [(k, v)]
  | (k', v') :: d, k, v => if k' = k then (k', v) :: d else (k', v') :: dset d k v
/-- `del d[k]` (`none` = KeyError) -/
def ddel : List (κ × ν) → κ → Option (List (κ × ν))
  | [], _ => none
  | (k', v') :: d, k => if k' = k then some d else (ddel d k).map ((k', v') :: ·)
end PyDict

/-! ### objects -/

def getObj (s : State) (i : Nat) : Option Obj := s.objs[i]?

def modifyObj (s : State) (i : Nat) (f : Obj → Obj) : State :=
  { s with objs := s.objs.modify i f }

/-- `Documentable.fullName()` as a path; `none` = the parent chain does not end (Python would
recurse for ever) or dangles. Fuel = number of objects + 1. -/
def pathAux (objs : List Obj) : Nat → Nat → Option Path
  | 0, _ => none
  | f+1, i =>
    match objs[i]? with
    | none => none
    | some o =>
      match o.parent with
      | none => some [o.name]
      | some p => (pathAux objs f p).map (· ++ [o.name])

def path (s : State) (i : Nat) : Option Path := pathAux s.objs (s.objs.length + 1) i

/-- `isBelow` of `System._objectsBelow`: `top` is `i` or one of its parents -/
def isBelowAux (objs : List Obj) (top : Nat) : Nat → Nat → Bool
  | 0, _ => false
  | f+1, i =>
    i == top ||
      match objs[i]? with
      | none => false
      | some o => match o.parent with
        | none => false
        | some p => isBelowAux objs top f p

def isBelow (s : State) (top i : Nat) : Bool := isBelowAux s.objs top (s.objs.length + 1) i

/-- `System._objectsBelow(top)`: registered objects below `top`, in `allobjects` order -/
def objectsBelow (s : State) (top : Nat) : List Nat :=
  (s.all.map (·.2)).filter (isBelow s top)

/-- `for o in below: del allobjects[o.fullName()]` -/
def delAll (s : State) : List Nat → Except Err State
  | [] => .ok s
  | o :: os =>
    match path s o with
    | none => .error .recursionError
    | some p =>
      match ddel s.all p with
      | none => .error .keyError
      | some a => delAll { s with all := a } os

/-- `for o in below: allobjects[o.fullName()] = o` -/
def addAll (s : State) : List Nat → Except Err State
  | [] => .ok s
  | o :: os =>
    match path s o with
    | none => .error .recursionError
    | some p => addAll { s with all := dset s.all p o } os

def natDigits (n : Nat) : List Char := (toString n).toList

/-- the `while (fullName + ' ' + str(i)) in self.allobjects: i += 1` loop; fuel = |allobjects|+1 -/
def freeIndexAux (all : List (Path × Nat)) (pre : Path) (name : Name) : Nat → Nat → Nat
  | 0, i => i
  | f+1, i => if dhas all (pre ++ [name ++ ' ' :: natDigits i]) then freeIndexAux all pre name f (i+1) else i

def freeIndex (s : State) (pre : Path) (name : Name) : Nat :=
  freeIndexAux s.all pre name (s.all.length + 1) 0

/-- `System.handleDuplicate(obj)`; `fn` is `obj.fullName()` -/
def handleDuplicate (s : State) (obj : Nat) (fn : Path) : Except Err State :=
  match getObj s obj, dget s.all fn with
  | some o, some prev =>
    let i := freeIndex s fn.dropLast o.name
    let below := objectsBelow s prev
    match delAll s below with
    | .error e => .error e
    | .ok s1 =>
      let s2 := modifyObj s1 prev (fun p => { p with name := o.name ++ ' ' :: natDigits i })
      match addAll s2 below with
      | .error e => .error e
      | .ok s3 => .ok { s3 with all := dset s3.all fn obj }
  | _, _ => .error .keyError

def isModuleCls (c : Cls) : Bool := c == .module || c == .package

/-- object construction: the new object (id = creation index) is linked into its parent's
`contents` or, for a parentless module, into `rootobjects` -/
def place (s : State) (c : Cls) (name : Name) (parent : Option Nat) : Except Err State :=
  let id := s.objs.length
  let s0 : State := { s with objs := s.objs ++ [⟨name, parent, c, [], []⟩] }
  match parent with
  | some p =>
    if p < s.objs.length then
      .ok (modifyObj s0 p (fun po => { po with contents := dset po.contents name id }))
    else .error .assertionError   -- a parent that does not exist cannot be passed in Python
  | none =>
    if isModuleCls c then .ok { s0 with roots := s0.roots ++ [id] }
    else .error .valueError

/-- the registration half of `System.addObject(obj)`:
`allobjects.setdefault(fullName, obj)`, then `handleDuplicate` if somebody else was there -/
def register (s1 : State) (id : Nat) : Except Err State :=
  match path s1 id with
  | none => .error .recursionError
  | some fn =>
    match dget s1.all fn with
    | none => .ok { s1 with all := s1.all ++ [(fn, id)] }   -- setdefault inserted obj
    | some _ => handleDuplicate s1 id fn

/-- object construction followed by `System.addObject(obj)`; the new object's id is returned -/
def addObject (s : State) (c : Cls) (name : Name) (parent : Option Nat) : Except Err State :=
  match place s c name parent with
  | .error e => .error e
  | .ok s1 => register s1 s.objs.length

def canContainImports (c : Cls) : Bool := c == .module || c == .package || c == .cls

/-- `Documentable.reparent(new_parent, new_name)` -/
def reparent (s : State) (obj newParent : Nat) (newName : Name) : Except Err State :=
  match getObj s obj, getObj s newParent with
  | some o, some _ =>
    let below := objectsBelow s obj
    match delAll s below with
    | .error e => .error e
    | .ok s1 =>
      match o.parent with
      | none => .error .assertionError
      | some op =>
        match getObj s1 op with
        | none => .error .assertionError
        | some opo =>
          if !canContainImports opo.cls then .error .assertionError else
          let s2 := modifyObj s1 obj (fun x => { x with parent := some newParent, name := newName })
          match ddel opo.contents o.name with
          | none => .error .keyError
          | some oc =>
            match path s2 obj with
            | none => .error .recursionError
            | some newPath =>
              let s3 := modifyObj s2 op (fun x => { x with contents := oc, aliases := dset x.aliases o.name newPath })
              let s4 := modifyObj s3 newParent (fun x => { x with contents := dset x.contents newName obj })
              -- `if self.fullName() in allobjects: system.handleDuplicate(self)`
              if dhas s4.all newPath then
                match handleDuplicate s4 obj newPath with
                | .error e => .error e
                | .ok s5 => addAll s5 below
              else addAll s4 below
  | _, _ => .error .assertionError

inductive Op
  | add (c : Cls) (name : Name) (parent : Option Nat)
  | reparent (obj newParent : Nat) (newName : Name)
  deriving Repr

def step (s : State) : Op → Except Err State
  | .add c n p => addObject s c n p
  | .reparent o np nn => reparent s o np nn

/-- run a history; an operation that raises leaves the state as it was before it (the harness
never continues after an exception, so this choice is not observable) and is reported. -/
def run : State → List Op → State × List (Option Err)
  | s, [] => (s, [])
  | s, op :: ops =>
    match step s op with
    | .ok s' => let r := run s' ops; (r.1, none :: r.2)
    | .error e => let r := run s ops; (r.1, some e :: r.2)

/-! ### the invariant of C02 as an executable predicate -/

def allKeysUnique (d : List (Path × Nat)) : Bool :=
  d.all fun e => (d.filter (fun e' => e'.1 = e.1)).length == 1

/-- every registered object sits under exactly its current qualified name -/
def keysAreNames (s : State) : Bool :=
  s.all.all fun e => path s e.2 == some e.1

/-- every created object is registered (exactly once) -/
def allRegistered (s : State) : Bool :=
  (List.range s.objs.length).all fun i => ((s.all.filter (fun e => e.2 = i)).length == 1)

/-- contents entries point to children carrying that name -/
def contentsCoherent (s : State) : Bool :=
  (List.range s.objs.length).all fun p =>
    match getObj s p with
    | none => false
    | some po => po.contents.all fun e =>
        match getObj s e.2 with
        | none => false
        | some c => c.parent == some p && c.name == e.1

def isSupersededName (n : Name) : Bool := n.contains ' '

/-- a child is its parent's entry unless it has been superseded (renamed `name i`) -/
def childrenListed (s : State) : Bool :=
  (List.range s.objs.length).all fun i =>
    match getObj s i with
    | none => false
    | some o =>
      match o.parent with
      | none => s.roots.contains i
      | some p =>
        match getObj s p with
        | none => false
        | some po => dget po.contents o.name == some i || isSupersededName o.name

def invB (s : State) : Bool :=
  allKeysUnique s.all && keysAreNames s && allRegistered s && contentsCoherent s && childrenListed s

end Registry
