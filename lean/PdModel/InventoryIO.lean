import PdModel.Inventory
import PdModel.Proto
/-! Line protocol for the Inventory model (`inventory <op> …`).

* `line <u:line>`                       → `ok <u:name> <u:typ> <prio> <u:location> <u:display>` | `ValueError` | `IndexError`
* `parse <u:base> <u:payload>`          → `<ok|IndexError> | <links> | <log>`
* `strip <b:hex>`                       → `b:<hex>` (the bytes handed to zlib)
* `session (U <u:url> <N|b:hex> <Z|P:b:hex|C:b:hex> | Q <u:name>)*`
      `update` and `getLink` calls on one `SphinxInventory`, in the given order; the zlib/UTF-8
      inflater's result for each update is given by the caller (Z = zlib.error, P = output with eof False, C = output
      with eof True); decoding is the model's own `utf8Decode`
                                        → `(<b:payload>:<ok|Exc> | q=<answer>)… | <links> | <log>`
* `header <u:project> <u:version>`     → `b:<hex>` (the bytes of `_generateHeader`)
* `maxage <u:s>`                        → `ok <u:unit> <amount>` | `InvalidMaxAge`
* `preparecache <clear 0|1> <enable 0|1> <R|M|E = rmtree removed/missing/other error> <u:maxAge>` → `plain` | `caching <seconds>` | `OSError` | `InvalidMaxAge`
* `fetch (F <u:url> <C:b:hex|E|B> <Z|P:b:hex|C:b:hex>)*` → `<ok|BaseException> | <links> | <log>`
* `xref <N|u:objForFullName> <u:expandName> <N|u:context result> <u:identifier> <k=b=l>*` → `internal u:… | external u:… | unresolved`
* `linkto <N|u:resolveName> <u:expandName> <u:identifier> <k=b=l>*`  → same
* `subjects <makehtml> <makeintersphinx> <summaryPagesOnly> <u:htmlsubject>*` (0/1 flags) → `roots | nothing | named u:… | no-inventory`
* `role <DOCUMENTABLEKIND>`              → `u:py:<type>`
* `gen <forest>`                        → `ok <u:content> | <unknown-type names>` | `AssertionError`
* `roundtrip <u:base> <forest>`         → content, links of parse(content), log, visible objects, getLink per object
  forest: `( <u:name> <m|p|c|f|M|a|o> <h|v> child* )*`
-/
namespace Inventory

def hexVal (c : Char) : Option Nat :=
  if c.isDigit then some (c.toNat - 48)
  else if 'a'.toNat ≤ c.toNat ∧ c.toNat ≤ 'f'.toNat then some (c.toNat - 87)
  else none

def decodeHex : List Char → Option Bytes
  | [] => some []
  | a :: b :: rest => do
    let x ← hexVal a
    let y ← hexVal b
    let r ← decodeHex rest
    some ((x * 16 + y) :: r)
  | _ => none

def decodeBytes (tok : String) : Option Bytes :=
  if tok.startsWith "b:" then decodeHex (tok.drop 2).toString.toList else none

def hexLower (n : Nat) : Char := if n < 10 then Char.ofNat (48 + n) else Char.ofNat (87 + n)

def encodeBytes (bs : Bytes) : String :=
  "b:" ++ String.ofList (bs.flatMap fun b => [hexLower (b / 16 % 16), hexLower (b % 16)])

def parseKind : String → Option Kind
  | "m" => some .module | "p" => some .package | "c" => some .klass | "f" => some .function
  | "M" => some .method | "a" => some .attribute | "o" => some .other | _ => none

/-- parse one tree from a token list with fuel; returns the tree and the remaining tokens -/
def parseTree : Nat → List String → Option (Tree × List String)
  | 0, _ => none
  | fuel+1, "(" :: nm :: k :: h :: rest => do
    let name ← Proto.decodeStr nm
    let kind ← parseKind k
    let hidden ← (match h with | "h" => some true | "v" => some false | _ => none)
    let rec kids (f : Nat) (toks : List String) (acc : List Tree) : Option (List Tree × List String) :=
      match f, toks with
      | 0, _ => none
      | _, ")" :: rest => some (acc.reverse, rest)
      | f+1, toks => do
        let (t, rest) ← parseTree fuel toks
        kids f rest (t :: acc)
    let (cs, rest') ← kids (rest.length + 1) rest []
    some (.node name kind hidden cs, rest')
  | _, _ => none

def parseForest : Nat → List String → Option (List Tree)
  | 0, _ => none
  | _, [] => some []
  | f+1, toks => do
    let (t, rest) ← parseTree (toks.length + 1) toks
    let ts ← parseForest f rest
    some (t :: ts)

def showErr : PyErr → String
  | .valueError => "ValueError" | .indexError => "IndexError" | .assertionError => "AssertionError"
  | .keyError => "KeyError" | .typeError => "TypeError" | .osError => "OSError"
  | .invalidMaxAge => "InvalidMaxAge" | .lookupError => "LookupError" | .baseException => "BaseException"

def parseOptStr (tok : String) : Option (Option Str) :=
  if tok == "N" then some none else (Proto.decodeStr tok).map some

/-- `k=b=l` -/
def parseLinkTok (tok : String) : Option (Str × Link) :=
  match tok.splitOn "=" with
  | [k, b, l] => do
    let k ← Proto.decodeStr k
    let b ← Proto.decodeStr b
    let l ← Proto.decodeStr l
    some (k, (b, l))
  | _ => none

def parseBool (tok : String) : Option Bool :=
  if tok == "1" then some true else if tok == "0" then some false else none

def showTarget : XrefTarget → String
  | .internal o => "internal " ++ Proto.encodeStr o
  | .external u => "external " ++ Proto.encodeStr u
  | .unresolved => "unresolved"

def parseDocKind : String → Option DocKind
  | "PACKAGE" => some .package | "MODULE" => some .module | "CLASS" => some .klass
  | "INTERFACE" => some .interface | "EXCEPTION" => some .exception | "CLASS_METHOD" => some .classMethod
  | "STATIC_METHOD" => some .staticMethod | "METHOD" => some .method | "FUNCTION" => some .function
  | "CONSTANT" => some .constant | "TYPE_VARIABLE" => some .typeVariable | "TYPE_ALIAS" => some .typeAlias
  | "CLASS_VARIABLE" => some .classVariable | "SCHEMA_FIELD" => some .schemaField | "ATTRIBUTE" => some .attribute
  | "INSTANCE_VARIABLE" => some .instanceVariable | "PROPERTY" => some .property | "VARIABLE" => some .variable
  | _ => none

def showLinks (d : Dict) : String :=
  if d.isEmpty then "-" else
  " ".intercalate (d.map fun (k, (b, l)) => Proto.encodeStr k ++ "=" ++ Proto.encodeStr b ++ "=" ++ Proto.encodeStr l)

def showLog (log : List LogMsg) : String :=
  if log.isEmpty then "-" else
  " ".intercalate (log.map fun
    | .noBaseUrl u => "noBaseUrl:" ++ Proto.encodeStr u
    | .noData u => "noData:" ++ Proto.encodeStr u
    | .uncompress b => "uncompress:" ++ Proto.encodeStr b
    | .decode b => "decode:" ++ Proto.encodeStr b
    | .badLine l b => "badLine:" ++ Proto.encodeStr l ++ ":" ++ Proto.encodeStr b)

def showOpt : Option Str → String
  | none => "None"
  | some s => Proto.encodeStr s

/-- what the real inflater did with the payload, as observed by the harness: `Z` = zlib.error,
`P:b:<hex>` = returned <hex> with eof False (stream ends early), `C:b:<hex>` = returned <hex>, eof True -/
def parseZ (tok : String) : Option Inflate :=
  if tok == "Z" then some .rejected
  else if tok.startsWith "P:" then (decodeBytes (tok.drop 2).toString).map (Inflate.done · false)
  else if tok.startsWith "C:" then (decodeBytes (tok.drop 2).toString).map (Inflate.done · true)
  else none

def parseData (tok : String) : Option (Option Bytes) :=
  if tok == "N" then some none else (decodeBytes tok).map some

/-- parse `U <url> <data> <z>` and `Q <name>` items, in any order, into model steps (with, for each
update, the text shown for the payload handed to zlib) -/
def parseSteps : Nat → List String → Option (List (Step × String))
  | 0, _ => none
  | _, [] => some []
  | f+1, "U" :: u :: d :: z :: rest => do
    let url ← Proto.decodeStr u
    let data ← parseData d
    let zr ← parseZ z
    let unzip : Bytes → Inflate := fun _ => zr
    let decode : Bytes → Option Str := utf8Decode
    let shown := match data with
      | some (b :: bs) => if (rsplitSlash url).isSome then encodeBytes (strippedPayload (b :: bs)) else "-"
      | _ => "-"
    let more ← parseSteps f rest
    some ((.upd unzip decode url data, shown) :: more)
  | f+1, "Q" :: n :: rest => do
    let name ← Proto.decodeStr n
    let more ← parseSteps f rest
    some ((.ask name, "") :: more)
  | _, _ => none

/-- run the calls on one reader (the model's `runSteps`), one output item per call -/
def session (toks : List String) : Option String := do
  let items ← parseSteps (toks.length + 1) toks
  let (st, results) := runSteps pyInt ⟨[], []⟩ (items.map (·.1))
  let outs := (items.zip results).map fun ((_, shown), r) =>
    match r with
    | .inl (.ok _) => shown ++ ":ok"
    | .inl (.raised e) => shown ++ ":" ++ showErr e
    | .inr ans => "q=" ++ showOpt ans
  some ((if outs.isEmpty then "-" else " ".intercalate outs) ++ " | " ++ showLinks st.links ++ " | " ++ showLog st.log)

def parseFetches : Nat → List String → Option (List Fetch)
  | 0, _ => none
  | _, [] => some []
  | f+1, "F" :: u :: sr :: z :: rest => do
    let url ← Proto.decodeStr u
    let session ← (if sr == "E" then some SessionResult.exception else if sr == "B" then some .baseException
      else if sr.startsWith "C:" then (decodeBytes (sr.drop 2).toString).map .content else none)
    let zr ← parseZ z
    let unzip : Bytes → Inflate := fun _ => zr
    let decode : Bytes → Option Str := utf8Decode
    let more ← parseFetches f rest
    some (⟨url, session, unzip, decode⟩ :: more)
  | _, _ => none

def showObjs (os : List Obj) : String :=
  if os.isEmpty then "-" else
  " ".intercalate (os.map fun o => Proto.encodeStr o.full ++ "=" ++ Proto.encodeStr o.url)

def handle (args : List String) : String :=
  match args with
  | ["line", l] =>
    match Proto.decodeStr l with
    | none => "bad-op"
    | some line =>
      match parseLine pyInt line with
      | .ok e => "ok " ++ Proto.encodeStr e.name ++ " " ++ Proto.encodeStr e.typ ++ " " ++ toString e.prio ++ " " ++
          Proto.encodeStr e.location ++ " " ++ Proto.encodeStr e.display
      | .raised e => showErr e
  | ["parse", b, p] =>
    match Proto.decodeStr b, Proto.decodeStr p with
    | some base, some payload =>
      let (log, r) := parseInventory pyInt base payload
      (match r with
        | .ok d => "ok | " ++ showLinks d
        | .raised e => showErr e ++ " | -") ++ " | " ++ showLog log
    | _, _ => "bad-op"
  | ["strip", d] =>
    match decodeBytes d with
    | some data => encodeBytes (strippedPayload data)
    | none => "bad-op"
  | ["header", pj, v] =>
    match Proto.decodeStr pj, Proto.decodeStr v with
    | some project, some version => encodeBytes (encodeUtf8 (headerText project version))
    | _, _ => "bad-op"
  | "session" :: toks =>
    (session toks).getD "bad-op"
  | ["maxage", a] =>
    match Proto.decodeStr a with
    | none => "bad-op"
    | some ma =>
      match parseMaxAge pyInt ma with
      | .ok (u, n) => "ok " ++ Proto.encodeStr u ++ " " ++ toString n
      | .raised e => showErr e
  | ["preparecache", c, e, r, a] =>
    match parseBool c, parseBool e, (match r with | "R" => some RmResult.removed | "M" => some .missing | "E" => some .otherError | _ => none),
        Proto.decodeStr a with
    | some clear, some enable, some rm, some ma =>
      match prepareCache pyInt clear enable rm ma with
      | .ok .plain => "plain"
      | .ok (.caching u n) => "caching " ++ toString (n * unitSeconds u)
      | .raised err => showErr err
    | _, _, _, _ => "bad-op"
  | "fetch" :: toks =>
    match parseFetches (toks.length + 1) toks with
    | none => "bad-op"
    | some fs =>
      let (st, r) := fetchAll pyInt ⟨[], []⟩ fs
      (match r with | .ok _ => "ok" | .raised e => showErr e) ++ " | " ++ showLinks st.links ++ " | " ++ showLog st.log
  | "xref" :: o :: f :: c :: i :: links =>
    match parseOptStr o, Proto.decodeStr f, parseOptStr c, Proto.decodeStr i, links.mapM parseLinkTok with
    | some objFor, some fullID, some context, some ident, some d =>
      showTarget (resolveXref (fun _ => objFor) (fun _ => fullID) d context ident)
    | _, _, _, _, _ => "bad-op"
  | "linkto" :: r :: f :: i :: links =>
    match parseOptStr r, Proto.decodeStr f, Proto.decodeStr i, links.mapM parseLinkTok with
    | some resolved, some fullID, some ident, some d => showTarget (linkTo resolved (fun _ => fullID) d ident)
    | _, _, _, _ => "bad-op"
  | "subjects" :: mh :: mi :: sp :: names =>
    match parseBool mh, parseBool mi, parseBool sp, names.mapM Proto.decodeStr with
    | some makehtml, some makeinv, some summary, some ns =>
      (match inventorySubjects makehtml makeinv ns summary with
       | none => "no-inventory"
       | some .roots => "roots"
       | some .nothing => "nothing"
       | some (.named l) => "named " ++ " ".intercalate (l.map Proto.encodeStr))
    | _, _, _, _ => "bad-op"
  | ["role", k] =>
    match parseDocKind k with
    | some dk => Proto.encodeStr dk.role
    | none => "bad-op"
  | "gen" :: toks =>
    match parseForest (toks.length + 1) toks with
    | none => "bad-op"
    | some roots =>
      match generateContent roots with
      | .raised e => showErr e
      | .ok c =>
        let unk := unknownList none roots
        "ok " ++ Proto.encodeStr c ++ " | " ++ (if unk.isEmpty then "-" else " ".intercalate (unk.map Proto.encodeStr))
  | "roundtrip" :: b :: toks =>
    match Proto.decodeStr b, parseForest (toks.length + 1) toks with
    | some base, some roots =>
      match generateContent roots with
      | .raised e => showErr e
      | .ok c =>
        let (log, r) := parseInventory pyInt base c
        let vis := visibleObjects roots
        match r with
        | .raised e => "ok " ++ Proto.encodeStr c ++ " | " ++ showErr e
        | .ok d =>
          "ok " ++ Proto.encodeStr c ++ " | " ++ showLinks d ++ " | " ++ showLog log ++ " | " ++ showObjs vis ++ " | " ++
            (if vis.isEmpty then "-" else " ".intercalate (vis.map fun o => showOpt (getLink d o.full)))
    | _, _ => "bad-op"
  | _ => "bad-op"

end Inventory
