import PdModel.Registry
import PdModel.Proto
/-! Line protocol: `registry run <op> <op> …`
op = `A|<cls>|<name u:…>|<parent id or ->`  or  `R|<obj>|<newParent>|<newName u:…>`
cls ∈ P M C F A.   Answer: per-op outcomes, then the state dump. -/
namespace Registry

def parseCls : String → Option Cls
  | "P" => some .package | "M" => some .module | "C" => some .cls
  | "F" => some .function | "A" => some .attribute | _ => none

def showCls : Cls → String
  | .package => "P" | .module => "M" | .cls => "C" | .function => "F" | .attribute => "A"

def parseOp (tok : String) : Option Op :=
  match tok.splitOn "|" with
  | ["A", c, n, p] => do
    let c ← parseCls c
    let n ← Proto.decodeStr n
    if p == "-" then some (.add c n none) else do
      let p ← p.toNat?
      some (.add c n (some p))
  | ["R", o, np, nn] => do
    let o ← o.toNat?
    let np ← np.toNat?
    let nn ← Proto.decodeStr nn
    some (.reparent o np nn)
  | _ => none

def showErr : Option Err → String
  | none => "ok" | some .valueError => "ValueError" | some .keyError => "KeyError"
  | some .assertionError => "AssertionError" | some .recursionError => "RecursionError"

def joinPath (p : Path) : List Char := List.intercalate ['.'] p

def showPath (p : Path) : String := Proto.encodeStr (joinPath p)

def showObj (i : Nat) (o : Obj) : String :=
  s!"{i}:{showCls o.cls}:{Proto.encodeStr o.name}:" ++ (match o.parent with | none => "-" | some p => toString p)
    ++ ":[" ++ ",".intercalate (o.contents.map fun e => Proto.encodeStr e.1 ++ "=" ++ toString e.2) ++ "]"
    ++ ":[" ++ ",".intercalate (o.aliases.map fun e => Proto.encodeStr e.1 ++ "=" ++ showPath e.2) ++ "]"

def dump (s : State) : String :=
  "all " ++ " ".intercalate (s.all.map fun e => showPath e.1 ++ "=" ++ toString e.2)
    ++ " | roots " ++ Proto.showNatList s.roots
    ++ " | objs " ++ " ".intercalate ((List.range s.objs.length).zip s.objs |>.map fun (i, o) => showObj i o)

def handle (args : List String) : String :=
  match args with
  | "run" :: toks =>
    match toks.mapM parseOp with
    | none => "bad-op"
    | some ops =>
      let (s, outs) := run init ops
      "ok " ++ ",".intercalate (outs.map showErr) ++ " | inv " ++ toString (invB s) ++ " | " ++ dump s
  | _ => "bad-op"

end Registry
