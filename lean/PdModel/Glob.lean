/-
Model of pydoctor/qnmatch.py (`translate`, `qnmatch`) and of the fragment of Python's `re`
that `translate` emits, plus `Glob.spec`: the meaning of a pattern as the manual states it
(pydoctor/qnmatch.py module docstring, docs/source/customize.rst), written without any
regular expression.

* `Regex.Atom`      – the five regex constructs `translate` can emit; `Regex.source` renders the
                      exact Python regex source text (`(?s:…)\Z`).
* `Regex.parseSet`  – transcription of the character-set loop of CPython's `re/_parser.py`
                      (3.12) on the text between `[` and the closing `]`: leading `^`, escape pairs,
                      `lo-hi` ranges, `bad character range` when `hi < lo`.
* `Regex.matchA`    – language semantics of the fragment for `pattern.match(name)` with `\Z`
                      (whole-string acceptance).  The quantifiers are the lazy ones (`*?`): the
                      continuation is tried first, as `re` does; `Regex.matchG` is the greedy order.
* `Glob.loop`/`Glob.translate` – character-level transcription of the `while i < n` loop.
                      `none` = the `IndexError` that `stuff[0]` would raise on an empty `stuff`.
* `Glob.qnmatch`    – `qnmatch(name, pattern)` with its three outcomes (bool / re.error / IndexError).
* `Glob.tokens`/`Glob.specMatch`/`Glob.spec` – the manual's meaning.

Strings are `List Char`.  Import-free, executable, every recursion structural (fuel = pattern length
for the two pattern scanners, which jump over a whole bracket expression in one iteration).
-/

namespace Regex

inductive Atom where
  /-- `re.escape(c)`: matches exactly the character `c` -/
  | lit (c : Char)
  /-- `.` inside `(?s:…)`: any one character, newline included -/
  | any
  /-- `.*?` -/
  | starAny
  /-- `[^\.]*?` -/
  | starNoDot
  /-- `[body]`, `body` being the text `translate` puts between the brackets -/
  | set (body : List Char)
  deriving DecidableEq, Repr

/-- `re._special_chars_map` (CPython 3.7+): the characters `re.escape` prefixes with a backslash. -/
def reSpecial (c : Char) : Bool :=
  [ '(', ')', '[', ']', '{', '}', '?', '*', '+', '-', '|', '^', '$', '\\', '.', '&', '~', '#',
    ' ', '\t', '\n', '\r', Char.ofNat 11, Char.ofNat 12 ].contains c

def reEscape (c : Char) : List Char := if reSpecial c then ['\\', c] else [c]

def Atom.text : Atom → List Char
  | .lit c => reEscape c
  | .any => ['.']
  | .starAny => ['.', '*', '?']
  | .starNoDot => ['[', '^', '\\', '.', ']', '*', '?']
  | .set b => '[' :: (b ++ [']'])

def concatText : List Atom → List Char
  | [] => []
  | a :: as => a.text ++ concatText as

/-- `r'(?s:%s)\Z' % res` -/
def source (as : List Atom) : List Char :=
  ['(', '?', 's', ':'] ++ concatText as ++ [')', '\\', 'Z']

/-! ### character sets: `re/_parser.py`, branch `elif this == "["` -/

/-- one `sourceget()` result inside a set: a plain character, or an escape pair `\c` -/
structure Tok where
  esc : Bool
  c : Char
  deriving DecidableEq, Repr

def isAsciiAlnum (c : Char) : Bool :=
  (48 ≤ c.toNat && c.toNat ≤ 57) || (65 ≤ c.toNat && c.toNat ≤ 90) || (97 ≤ c.toNat && c.toNat ≤ 122)

/-- The tokenizer of `re`: a backslash always takes the next character with it.
`_class_escape` gives `LITERAL c` for `\c` when `c` is not an ASCII letter or digit; letters and
digits (categories, octal/hex escapes, `bad escape`) are outside the fragment: `none`.
A backslash at the very end is `bad escape (end of pattern)`: `none`. -/
def lex : List Char → Option (List Tok)
  | [] => some []
  | c :: r =>
    if c = '\\' then
      match r with
      | [] => none
      | d :: r' => if isAsciiAlnum d then none else (lex r').map (⟨true, d⟩ :: ·)
    else (lex r).map (⟨false, c⟩ :: ·)

inductive Item where
  | single (c : Char)
  | range (lo hi : Char)
  deriving DecidableEq, Repr

def dash : Tok := ⟨false, '-'⟩

/-- The `while True:` loop over the set's items.  `this` is the head token; `if sourcematch("-")`
looks for an unescaped `-`; the end of the body stands for the closing `]` (so `x-` at the end is
the two literals `x`, `-`); `if hi < lo: raise error("bad character range")` is `none`. -/
def items : List Tok → Option (List Item)
  | [] => some []
  | [t] => some [Item.single t.c]
  | [t, m] => (items [m]).map (Item.single t.c :: ·)
  | t :: m :: u :: r =>
    if m = dash then
      if t.c.toNat ≤ u.c.toNat then (items r).map (Item.range t.c u.c :: ·) else none
    else (items (m :: u :: r)).map (Item.single t.c :: ·)

/-- `negate = sourcematch("^")`, then the items.  An empty item list cannot be written between
brackets (`[]…` makes the `]` a literal): outside the fragment, `none`. -/
def parseSet (body : List Char) : Option (Bool × List Item) :=
  let neg := body.head? = some '^'
  let b := if neg then body.tail else body
  match lex b with
  | none => none
  | some ts => if ts.isEmpty then none else (items ts).map (fun its => (neg, its))

def Item.has : Item → Char → Bool
  | .single x, c => x = c
  | .range lo hi, c => lo.toNat ≤ c.toNat && c.toNat ≤ hi.toNat

def setHas (body : List Char) (c : Char) : Bool :=
  match parseSet body with
  | some (neg, its) => neg != its.any (·.has c)
  | none => false

/-- `re.compile` accepts the emitted text -/
def atomOk : Atom → Bool
  | .set b => (parseSet b).isSome
  | _ => true

def compiles (as : List Atom) : Bool := as.all atomOk

/-! ### acceptance -/

/-- lazy `x*?` followed by continuation `k`: try `k` first, otherwise consume one `x` -/
def starLazy (ok : Char → Bool) (k : List Char → Bool) : List Char → Bool
  | [] => k []
  | x :: n => k (x :: n) || (ok x && starLazy ok k n)

/-- greedy `x*` followed by `k`: consume as long as possible, then back off -/
def starGreedy (ok : Char → Bool) (k : List Char → Bool) : List Char → Bool
  | [] => k []
  | x :: n => (ok x && starGreedy ok k n) || k (x :: n)

/-- `re.compile(source as).match(name) is not None` for a text that compiles -/
def matchA : List Atom → List Char → Bool
  | [], n => n.isEmpty
  | .lit c :: as, n => match n with | [] => false | x :: n' => x = c && matchA as n'
  | .any :: as, n => match n with | [] => false | _ :: n' => matchA as n'
  | .set b :: as, n => match n with | [] => false | x :: n' => setHas b x && matchA as n'
  | .starAny :: as, n => starLazy (fun _ => true) (matchA as) n
  | .starNoDot :: as, n => starLazy (fun x => x != '.') (matchA as) n

/-- the same with greedy quantifiers (`.*`, `[^\.]*`) -/
def matchG : List Atom → List Char → Bool
  | [], n => n.isEmpty
  | .lit c :: as, n => match n with | [] => false | x :: n' => x = c && matchG as n'
  | .any :: as, n => match n with | [] => false | _ :: n' => matchG as n'
  | .set b :: as, n => match n with | [] => false | x :: n' => setHas b x && matchG as n'
  | .starAny :: as, n => starGreedy (fun _ => true) (matchG as) n
  | .starNoDot :: as, n => starGreedy (fun x => x != '.') (matchG as) n

end Regex

namespace Glob
open Regex

/-- `while j < n and pat[j] != ']': j = j+1`, run on the suffix `pat[j:]` -/
def scan : List Char → Nat → Nat
  | [], j => j
  | c :: cs, j => if c != ']' then scan cs (j + 1) else j

/-- `stuff.replace('\\', r'\\')` -/
def replaceBs : List Char → List Char
  | [] => []
  | c :: r => if c = '\\' then '\\' :: '\\' :: replaceBs r else c :: replaceBs r

/-- ```
if stuff[0] == '!': stuff = '^' + stuff[1:]
elif stuff[0] in ('^', '['): stuff = '\\' + stuff
```
`none` = `IndexError` (empty `stuff`). -/
def fixHead : List Char → Option (List Char)
  | [] => none
  | c :: t =>
    if c = '!' then some ('^' :: t)
    else if c = '^' || c = '[' then some ('\\' :: c :: t)
    else some (c :: t)

/-- The `elif c == '['` branch; `rest = pat[i:]` (the text after the bracket), indices relative
to `i`.  Result: `none` when `j >= n` (no closing bracket: the code emits `\[` and goes on at
`i`), else `(pat[i:j], pat[j+1:])`. -/
def bracket (rest : List Char) : Option (List Char × List Char) :=
  let j := 0
  let j := if rest[j]? = some '!' then j + 1 else j
  let j := if rest[j]? = some ']' then j + 1 else j
  let j := scan (rest.drop j) j
  if j ≥ rest.length then none else some (rest.take j, rest.drop (j + 1))

/-- the `while i < n:` loop on `pat[i:]`; one unit of fuel per iteration -/
def loop : Nat → List Char → Option (List Atom)
  | 0, _ => some []
  | _, [] => some []
  | f + 1, c :: rest =>
    if c = '*' then
      match rest with
      | [] => (loop f rest).map (Atom.starNoDot :: ·)
      | d :: rest' =>
        if d = '*' then (loop f rest').map (Atom.starAny :: ·)
        else (loop f rest).map (Atom.starNoDot :: ·)
    else if c = '?' then (loop f rest).map (Atom.any :: ·)
    else if c = '[' then
      match bracket rest with
      | none => (loop f rest).map (Atom.lit '[' :: ·)
      | some (stuff, rest') =>
        match fixHead (replaceBs stuff) with
        | none => none
        | some body => (loop f rest').map (Atom.set body :: ·)
    else (loop f rest).map (Atom.lit c :: ·)

/-- `qnmatch.translate(pat)` as atoms (`none` = IndexError); the emitted text is
`Regex.source` of the atoms -/
def translate (pat : List Char) : Option (List Atom) := loop pat.length pat

def translateText (pat : List Char) : Option (List Char) := (translate pat).map source

inductive MatchRes where
  | ok (b : Bool)
  | reError
  | indexError
  deriving DecidableEq, Repr

/-- `qnmatch(name, pattern)`; `_compile_pattern`'s `lru_cache` memoises a pure function and does
not cache exceptions, so it is not visible here -/
def qnmatch (name pat : List Char) : MatchRes :=
  match translate pat with
  | none => .indexError
  | some as => if compiles as then .ok (matchA as name) else .reError

/-! ### `_compile_pattern` and its `functools.lru_cache(maxsize=256, typed=True)` -/

inductive CompRes where
  /-- `re.compile(translate(pat)).match` -/
  | ok (as : List Atom)
  | reError
  | indexError
  deriving DecidableEq, Repr

/-- `_compile_pattern.__wrapped__(pat)` -/
def compilePattern (pat : List Char) : CompRes :=
  match translate pat with
  | none => .indexError
  | some as => if compiles as then .ok as else .reError

/-- state of the `lru_cache`: entries most recently used first, and the two counters of
`cache_info()`.  An exception of the wrapped function is not stored, but the call was counted as a
miss before the function ran (C implementation of `functools`). -/
structure Lru where
  entries : List (List Char × List Atom)
  hits : Nat
  misses : Nat
  deriving Repr

def Lru.empty : Lru := ⟨[], 0, 0⟩

def lruFind : List (List Char × List Atom) → List Char → Option (List Atom)
  | [], _ => none
  | (k, v) :: es, p => if k = p then some v else lruFind es p

def lruErase : List (List Char × List Atom) → List Char → List (List Char × List Atom)
  | [], _ => []
  | (k, v) :: es, p => if k = p then es else (k, v) :: lruErase es p

/-- `_compile_pattern(pat)`: a hit moves the entry to the front; a miss computes, stores at the front
and, when more than `maxsize` entries are held, drops the least recently used one -/
def lruCall (maxsize : Nat) (c : Lru) (pat : List Char) : CompRes × Lru :=
  match lruFind c.entries pat with
  | some as => (.ok as, ⟨(pat, as) :: lruErase c.entries pat, c.hits + 1, c.misses⟩)
  | none =>
    match compilePattern pat with
    | .ok as => (.ok as, ⟨((pat, as) :: c.entries).take maxsize, c.hits, c.misses + 1⟩)
    | .reError => (.reError, ⟨c.entries, c.hits, c.misses + 1⟩)
    | .indexError => (.indexError, ⟨c.entries, c.hits, c.misses + 1⟩)

/-- `qnmatch(name, pattern)` as the code runs it: through the cache -/
def qnmatchCached (maxsize : Nat) (c : Lru) (name pat : List Char) : MatchRes × Lru :=
  match lruCall maxsize c pat with
  | (.ok as, c') => (.ok (matchA as name), c')
  | (.reError, c') => (.reError, c')
  | (.indexError, c') => (.indexError, c')

/-- a history of `qnmatch(name, pattern)` calls -/
def runLru (maxsize : Nat) : Lru → List (List Char × List Char) → List MatchRes × Lru
  | c, [] => ([], c)
  | c, (n, p) :: qs =>
    let (r, c') := qnmatchCached maxsize c n p
    let (rs, c'') := runLru maxsize c' qs
    (r :: rs, c'')

/-- the pattern translates and `re.compile` accepts the text -/
def compilesPat (pat : List Char) : Bool :=
  match translate pat with
  | none => false
  | some as => compiles as

/-- acceptance by the emitted regex (meaningful when `compilesPat`) -/
def matchesPat (pat name : List Char) : Bool :=
  match translate pat with
  | none => false
  | some as => matchA as name

/-! ## The manual's meaning

```
**      matches everything (recursive)
*       matches everything except "." (one level ony)
?       matches any single character
[seq]   matches any character in seq
[!seq]  matches any char not in seq
```
"fnmatch-like": a bracket expression starts at `[`, an optional `!` negates, the first
character of `seq` is taken as it is (so `]` may come first), and `seq` ends at the next `]`;
a `[` that is never closed stands for itself.  Inside `seq`, `lo-hi` is the range of characters
from `lo` to `hi` (code point order), a `-` that is first or last stands for itself.  A range whose
end lies before its start contains nothing.  There is no way to quote a metacharacter.
-/

inductive GTok where
  | star | dstar | one
  | cls (neg : Bool) (seq : List Char)
  | ch (c : Char)
  deriving DecidableEq, Repr

/-- `r` = the text after `[` and after the optional `!`: `(seq, text after the closing bracket)` -/
def closeBracket (r : List Char) : Option (List Char × List Char) :=
  match r with
  | [] => none
  | c :: r' =>
    match r'.dropWhile (· != ']') with
    | [] => none
    | _ :: after => some (c :: r'.takeWhile (· != ']'), after)

def tokens : Nat → List Char → List GTok
  | 0, _ => []
  | _, [] => []
  | f + 1, c :: r =>
    if c = '*' then
      match r with
      | [] => [.star]
      | d :: r' => if d = '*' then .dstar :: tokens f r' else .star :: tokens f r
    else if c = '?' then .one :: tokens f r
    else if c = '[' then
      let neg := r.head? = some '!'
      match closeBracket (if neg then r.tail else r) with
      | some (seq, after) => .cls neg seq :: tokens f after
      | none => .ch '[' :: tokens f r
    else .ch c :: tokens f r

/-- is `x` one of the characters of `seq`? -/
def seqHas : List Char → Char → Bool
  | [], _ => false
  | [a], x => a = x
  | [a, b], x => a = x || b = x
  | lo :: d :: hi :: r, x =>
    if d = '-' then (lo.toNat ≤ x.toNat && x.toNat ≤ hi.toNat) || seqHas r x
    else lo = x || seqHas (d :: hi :: r) x

/-- `seq` contains a range whose end lies before its start -/
def descending : List Char → Bool
  | [] => false
  | [_] => false
  | [_, _] => false
  | lo :: d :: hi :: r =>
    if d = '-' then hi.toNat < lo.toNat || descending r
    else descending (d :: hi :: r)

/-- all ways of cutting `n` in two -/
def splits : List Char → List (List Char × List Char)
  | [] => [([], [])]
  | x :: n => ([], x :: n) :: (splits n).map (fun uv => (x :: uv.1, uv.2))

def specMatch : List GTok → List Char → Bool
  | [], n => n.isEmpty
  | .star :: ts, n => (splits n).any (fun uv => uv.1.all (· != '.') && specMatch ts uv.2)
  | .dstar :: ts, n => (splits n).any (fun uv => specMatch ts uv.2)
  | .one :: ts, n => match n with | [] => false | _ :: n' => specMatch ts n'
  | .cls neg seq :: ts, n =>
    match n with | [] => false | x :: n' => (neg != seqHas seq x) && specMatch ts n'
  | .ch c :: ts, n => match n with | [] => false | x :: n' => x = c && specMatch ts n'

def patTokens (pat : List Char) : List GTok := tokens pat.length pat

/-- does `name` match `pat`, as the manual says? -/
def spec (pat name : List Char) : Bool := specMatch (patTokens pat) name

def tokOk : GTok → Bool
  | .cls _ seq => !descending seq
  | _ => true

/-- no bracket expression of the pattern has a range that runs backwards -/
def wellFormed (pat : List Char) : Bool := (patTokens pat).all tokOk

end Glob
