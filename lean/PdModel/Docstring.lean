/-
Model of the docstring wrapper logic of pydoctor (C08):

  pydoctor/epydoc2stan.py   `_get_docformat`, `reportErrors`, `parse_docstring`,
                            `ensure_parsed_docstring`, `ParsedStanOnly`, `_get_parsed_summary`,
                            `get_to_stan_error`, `safe_to_stan`, `format_docstring_fallback`,
                            `format_docstring` (body + one `Field.format` per field),
                            `format_summary_fallback`, `format_summary`, `format_toc`,
                            `extract_fields` (parse, store, split `ivar/cvar/var/type` fields onto attributes),
                            `get_parsed_type`, `type2stan`, `colorized_pyval_fallback`,
                            `format_constant_value` (the safe_to_stan wrapper)
  pydoctor/templatewriter/pages/__init__.py
                            `format_signature`, `format_class_signature`, `format_decorators` (wrappers only)
  pydoctor/templatewriter/search.py
                            `format_docstring` (text for the search index)
  pydoctor/epydoc/markup/__init__.py
                            `processtypes` / `_processtypes`, `ParsedDocstring.get_summary`,
                            `ParsedDocstring.get_toc`, `ParseError.linenum`
  pydoctor/epydoc/markup/plaintext.py
                            `parse_docstring`, `ParsedPlaintextDocstring.to_stan`
  pydoctor/epydoc/markup/epytext.py
                            the tail of `parse` (`raise next(e for e in errors if e.is_fatal())`)
  pydoctor/model.py         `get_docstring`

The third-party / large pieces are PARAMETERS (structure `Env`) ranging over outcomes:
the markup parser (`get_parser_by_name(docformat, obj)(doc, errs)`), `to_stan`, `to_node`,
the `SummaryExtractor` walk, `build_table_of_content`, the `ParsedTypeDocstring` constructor.
An outcome is "returns a value" or "raises `e`" — exceptions are explicit (`Exc`), and every
place where the Python has no handler propagates (`Res.raises`).  The model follows /repo after
the fixes 46bdc37 (a failed field shows its text), b867a76 (report key = the object: objects ARE identities here),
2732bb2 (reST registry restored: `parseRestoring`), c070c47 (a broken summary is remembered on the object rendered), 4690c0c (reportErrors keyed by phase), c422501 (format_toc guards get_toc), 4caea46 (colorized_pyval_fallback guards to_node),
e1378c4 (search text guards to_node) and a0ab2a9 (epytext to_node keeps no half-built
document, so `to_node` is a function of the parsed docstring, as the model assumes); the pre-fix
`format_toc` survives as `formatTocOld`.  Errors a parser appended to the
`errs` list before returning / raising are part of its outcome.

Objects are `Nat`s (distinct `fullName()`s assumed: `System.parse_errors` is keyed by full name).
Import-free, executable.
-/
namespace Docstring

abbrev Obj := Nat
abbrev Text := List Char
/-- section name handed to `reportErrors` / `Documentable.report` (`0` = 'docstring') -/
abbrev Sec := Nat

/-- a raised exception: what the `except` clauses dispatch on, plus an identity -/
inductive Exc
  | parseError (n : Nat)      -- `ParseError` (or subclass)
  | notImplemented            -- `NotImplementedError`
  | assertion                 -- `AssertionError` of an `assert` in the modelled code
  | other (n : Nat)           -- any other `Exception`
  deriving DecidableEq, Repr, Inhabited

def Exc.isParseError : Exc → Bool
  | .parseError _ => true
  | _ => false

inductive Docformat | epytext | restructuredtext | google | numpy | plaintext | unknown
  deriving DecidableEq, Repr, Inhabited

/-- `ParseError.descr()`: a message the parser wrote, or `f'{e.__class__.__name__}: {e}'` -/
inductive Descr | msg (n : Nat) | exc (e : Exc)
  deriving DecidableEq, Repr, Inhabited

/-- `ParseError(descr, linenum, is_fatal)` -/
structure Err where
  descr : Descr
  line : Option Nat
  fatal : Bool
  deriving DecidableEq, Repr, Inhabited

/-- `ParseError.linenum()` -/
def Err.linenum (e : Err) : Option Nat := e.line.map (· + 1)

/-- `(err.linenum() or 1) - 1` in `reportErrors` -/
def Err.offset (e : Err) : Nat :=
  (match e.linenum with
   | some n => if n = 0 then 1 else n
   | none => 1) - 1

/-- the stan trees the wrappers can hand back -/
inductive Stan
  | pre (t : Text)        -- `tags.p(text, class_='pre')`: ParsedPlaintextDocstring.to_stan
  | broken                -- `BROKEN`
  | undocumented          -- `<p class="undocumented">Undocumented</p>` of format_docstring
  | undocSummary          -- `format_undocumented(obj)`
  | brokenSummary         -- `<span class="undocumented">Broken summary</span>`
  | noSummary             -- `<span class="undocumented">No summary</span>`
  | opaque (n : Nat)      -- whatever a parameter `to_stan` returned
  | code                  -- `Tag('code')(gettext(doc.to_node()))` of colorized_pyval_fallback
  | sigBroken             -- the `(...)` of format_signature
  deriving DecidableEq, Repr, Inhabited

/-- a field body: made by the parser, or a `ParsedTypeDocstring` put there by `_processtypes` -/
inductive Body | user (k : Nat) | typed (k : Nat)
  deriving DecidableEq, Repr, Inhabited

/-- the field tags the wrappers distinguish -/
inductive FieldTag
  | plain     -- any tag whose handler just formats the body (`warns`, `note`, …)
  | rtype     -- `rtype`/`returntype`/`ytype`/`yieldtype`: in ParsedTypeDocstring.FIELDS, formatted
  | typ       -- `type`: in FIELDS; split by extract_fields; read by get_parsed_type; not formatted for Attributes
  | ivar      -- `ivar`/`cvar`/`var`: split by extract_fields, `handled_elsewhere` in format_docstring
  deriving DecidableEq, Repr, Inhabited

structure Field where
  tag : FieldTag
  arg : Option Obj        -- `field.arg()` resolved in the documented object's `contents` (none = no argument)
  body : Body
  lineno : Nat
  deriving DecidableEq, Repr, Inhabited

/-- `field.tag() in ParsedTypeDocstring.FIELDS` -/
def Field.isType (f : Field) : Bool := f.tag = .rtype || f.tag = .typ

/-- a `ParsedDocstring` -/
inductive PD
  | plain (t : Text)                      -- ParsedPlaintextDocstring(t)
  | stanOnly (s : Stan)                   -- ParsedStanOnly(s)
  | user (k : Nat) (fields : List Field)  -- anything else (parser-, summary-, toc-made)
  deriving DecidableEq, Repr, Inhabited

/-! ### outcomes of the parameters -/

inductive ParseOut
  | returns (pd : PD) (errs : List Err)
  | raises (errs : List Err) (e : Exc)
  deriving DecidableEq, Repr, Inhabited

inductive StanOut | returns (s : Stan) | raises (e : Exc)
  deriving DecidableEq, Repr, Inhabited
inductive NodeOut | returns | raises (e : Exc)
  deriving DecidableEq, Repr, Inhabited
/-- `visitor = SummaryExtractor(doc); doc.walk(visitor)` then `visitor.summary` -/
inductive WalkOut | summary (k : Nat) | nothing | raises (e : Exc)
  deriving DecidableEq, Repr, Inhabited
/-- `build_table_of_content(document, depth)` -/
inductive TocOut | contents (k : Nat) | empty | raises (e : Exc)
  deriving DecidableEq, Repr, Inhabited
/-- `ParsedTypeDocstring(node, lineno=…)`; on return its `.warnings` -/
inductive TypedOut | returns (warns : List Nat) | raises (e : Exc)
  deriving DecidableEq, Repr, Inhabited

structure Env where
  processtypes : Bool                         -- system.options.processtypes
  tocDepth : Nat                              -- system.options.sidebartocdepth
  systemDocformat : Docformat                 -- system.options.docformat
  moduleDocformat : Obj → Option Docformat    -- obj.module.docformat
  parent : Obj → Option Obj
  inherited : Obj → List Obj                  -- `docsources()` after `self`
  parser : Docformat → Obj → Text → ParseOut  -- get_parser_by_name(docformat, obj)(doc, errs)
  toStan : Nat → StanOut                      -- PD.user k
  typedToStan : Nat → StanOut                 -- ParsedTypeDocstring made from body k
  toNode : Nat → NodeOut
  plainToNode : Text → NodeOut                -- ParsedPlaintextDocstring.to_node
  mkTyped : Nat → Nat → TypedOut              -- body k, lineno
  walk : PD → WalkOut
  buildToc : PD → Nat → TocOut
  nodeText : Nat → Text                       -- ''.join(gettext(body k .to_node())): the text of a field body
  isAttribute : Obj → Bool                    -- isinstance(obj, model.Attribute)
  annotation : Obj → Option Nat               -- colorize_inline_pyval(obj.annotation) as ParsedDocstring k
  constPd : Obj → Nat                         -- colorize_pyval(obj.value, …) as ParsedDocstring k
  sigOut : Obj → Option StanOut               -- html2stan(str(func.signature)); none = no signature
  bases : Obj → List Nat                      -- colorize_inline_pyval(base_node) per raw base
  decorators : Obj → List Nat                 -- colorize_inline_pyval(dec) per displayed decorator

/-! ### state -/

structure ObjSt where
  docstring : Option Text
  parsed : Option PD          -- obj.parsed_docstring
  parsedSummary : Option PD   -- obj.parsed_summary
  ptype : Option Body         -- obj.parsed_type
  deriving DecidableEq, Repr, Inhabited

/-- one `obj.report('bad <section>: ' + descr, lineno_offset=offset, section=section)` -/
structure Report where
  obj : Obj
  sec : Sec
  descr : Descr
  offset : Nat
  deriving DecidableEq, Repr, Inhabited

/-- `phase` argument of reportErrors (4690c0c): parse_docstring / format_signature report with the default
'parsing', safe_to_stan with 'rendering' -/
inductive Phase | parsing | rendering
  deriving DecidableEq, Repr, Inhabited

structure St where
  objs : Obj → ObjSt
  errors : List (Sec × Obj)   -- system.parse_errors[section] ∋ fullName, in insertion order (a set: no duplicates added)
  reports : List Report       -- log of report calls
  importMsg : Bool            -- the once-only 'Error trying to import … parser' message was issued
  reported : List (Sec × Obj × Phase) := []   -- system.reported_errors: what reportErrors has reported already

def setParsed (st : St) (o : Obj) (pd : PD) : St :=
  { st with objs := fun x => if x = o then { st.objs o with parsed := some pd } else st.objs x }

def setSummary (st : St) (o : Obj) (pd : PD) : St :=
  { st with objs := fun x => if x = o then { st.objs o with parsedSummary := some pd } else st.objs x }

def setPType (st : St) (o : Obj) (b : Body) : St :=
  { st with objs := fun x => if x = o then { st.objs o with ptype := some b } else st.objs x }

inductive Res (α : Type) | ok (a : α) | raises (e : Exc)
  deriving Repr

def Res.isOk {α : Type} : Res α → Bool
  | .ok _ => true
  | .raises _ => false

/-! ### epydoc2stan.reportErrors -/

/-- since 4690c0c the once-only key is (section, fullName, phase): a failure to render is still reported when
parsing already produced a warning; `parse_errors[section]` (a set of names) gains the name either way -/
def reportErrors (st : St) (obj : Obj) (errs : List Err) (sec : Sec) (phase : Phase := .parsing) : St :=
  if errs.isEmpty then st
  else if st.reported.contains (sec, obj, phase) then st
  else { st with
          reported := st.reported ++ [(sec, obj, phase)],
          errors := if st.errors.contains (sec, obj) then st.errors else st.errors ++ [(sec, obj)],
          reports := st.reports ++ errs.map fun e => ⟨obj, sec, e.descr, e.offset⟩ }

/-- HISTORICAL (before 4690c0c): one report group per (section, fullName) whatever the phase.
Used only by `render_failure_masked_old_counterexample`. -/
def reportErrorsOld (st : St) (obj : Obj) (errs : List Err) (sec : Sec) : St :=
  if errs.isEmpty then st
  else if st.errors.contains (sec, obj) then st
  else { st with
          errors := st.errors ++ [(sec, obj)],
          reports := st.reports ++ errs.map fun e => ⟨obj, sec, e.descr, e.offset⟩ }

/-! ### epytext.parse: the signalling tail -/

/-- `try: raise next(e for e in errors if e.is_fatal()) except StopIteration: pass; return doc`:
`some e` = the error raised. -/
def epytextSignal : List Err → Option Err
  | [] => none
  | e :: es => if e.fatal then some e else epytextSignal es

/-! ### epytext: `ParsedEpytextDocstring._slugify` (runs inside `to_node`)

```python
s = slugify(text); i = 1
while s in self._section_slugs:
    s = slugify(f"{text}-{i}"); i += 1
self._section_slugs.add(s)
```
`cand 0 = slugify(text)`, `cand i = slugify(f"{text}-{i}")` — `slugify` itself is a parameter.
The Python loop has no bound; `slugLoop` runs it with fuel, `none` = still looping when the fuel
is spent.  (`PdProps.C08`: it ends within `used.length + 1` steps when the candidates are pairwise
distinct, and never ends when they are all the same used slug.) -/

abbrev Slug := List Char

/-- the loop started at candidate `i`, with `fuel` iterations left -/
def slugLoop (cand : Nat → Slug) (used : List Slug) : Nat → Nat → Option Slug
  | 0, _ => none
  | fuel + 1, i => if used.contains (cand i) then slugLoop cand used fuel (i + 1) else some (cand i)

/-- `_slugify(text)`: the slug returned and the new `_section_slugs` -/
def slugifyUnique (cand : Nat → Slug) (used : List Slug) (fuel : Nat) : Option (Slug × List Slug) :=
  (slugLoop cand used fuel 0).map fun s => (s, used ++ [s])

/-! ### markup.processtypes -/

def bodyToNode (env : Env) : Body → NodeOut
  | .user k => env.toNode k
  | .typed _ => .raises .notImplemented        -- ParsedTypeDocstring.to_node

def bodyToStan (env : Env) : Body → StanOut
  | .user k => env.toStan k
  | .typed k => env.typedToStan k

inductive FieldsOut
  | done (fields : List Field) (errs : List Err)
  | raised (errs : List Err) (e : Exc)
  deriving DecidableEq, Repr

/-- `_processtypes(doc, errs)`: the loop over `doc.fields`, `errs` being the shared list -/
def processFields (env : Env) : List Field → List Err → FieldsOut
  | [], errs => .done [] errs
  | f :: fs, errs =>
    if f.isType then
      match f.body, bodyToNode env f.body with
      | _, .raises e => .raised errs e
      | .typed _, .returns => .raised errs .notImplemented   -- not reachable: typed.to_node raises
      | .user k, .returns =>
        match env.mkTyped k f.lineno with
        | .raises e => .raised errs e
        | .returns warns =>
          -- append_warnings(body.warnings, errs, lineno=field.lineno+1); field.replace_body(body)
          let errs' := errs ++ warns.map fun w => ⟨.msg w, some (f.lineno + 1), false⟩
          match processFields env fs errs' with
          | .done fs' e' => .done ({ f with body := .typed k } :: fs') e'
          | .raised e' x => .raised e' x
    else
      match processFields env fs errs with
      | .done fs' e' => .done (f :: fs') e'
      | .raised e' x => .raised e' x

def pdFields : PD → List Field
  | .user _ fs => fs
  | _ => []

def pdSetFields : PD → List Field → PD
  | .user k _, fs => .user k fs
  | p, _ => p

/-- `_docformat_skip_processtypes` -/
def skipProcesstypes : Docformat → Bool
  | .google | .numpy | .plaintext => true
  | _ => false

/-- the parser `parse_docstring` ends up calling: `get_parser_by_name` (ImportError → plaintext
parser) wrapped in `processtypes(...)` when the option is on and the format is not skipped. -/
def runParser (env : Env) (fmt : Docformat) (obj : Obj) (doc : Text) : ParseOut :=
  let base : ParseOut :=
    if fmt = .unknown then .returns (.plain doc) [] else env.parser fmt obj doc
  if env.processtypes && !skipProcesstypes fmt then
    match base with
    | .raises errs e => .raises errs e
    | .returns pd errs =>
      match processFields env (pdFields pd) errs with
      | .done fs errs' => .returns (pdSetFields pd fs) errs'
      | .raised errs' e => .raises errs' e
  else base

/-! ### epydoc2stan._get_docformat / parse_docstring -/

def getDocformat (env : Env) (src : Obj) : Docformat :=
  if env.systemDocformat = .plaintext then .plaintext
  else match env.moduleDocformat src with
    | some f => f
    | none => env.systemDocformat

/-- what `parse_docstring` turns the parser's outcome into: the parsed form and the final `errs` -/
def parseResult (doc : Text) : ParseOut → PD × List Err
  | .returns pd errs => (pd, errs)
  | .raises errs e =>
    if e.isParseError then (.plain doc, errs)                  -- except ParseError
    else (.plain doc, errs ++ [⟨.exc e, some 1, true⟩])        -- except Exception as e

def parseDocstring (env : Env) (st : St) (obj : Obj) (doc : Text) (source : Obj) (sec : Sec := 0) :
    PD × St :=
  let fmt := getDocformat env source
  let st := if fmt = .unknown then { st with importMsg := true } else st
  let r := parseResult doc (runParser env fmt obj doc)
  (r.1, reportErrors st source r.2 sec)

/-! ### model.get_docstring / ensure_parsed_docstring -/

inductive DocLookup
  | found (doc : Text) (source : Obj)   -- (docstring, source)
  | empty (source : Obj)                -- (None, source): empty docstring
  | missing                             -- (None, None)
  deriving DecidableEq, Repr

def getDocstring (st : St) : List Obj → DocLookup
  | [] => .missing
  | s :: rest =>
    match (st.objs s).docstring with
    | some d => if d ≠ [] then .found d s else .empty s
    | none => getDocstring st rest

/-- returns the `source` (None when `obj.parsed_docstring` stays None) and the new state -/
def ensureParsed (env : Env) (st : St) (obj : Obj) : Option Obj × St :=
  match getDocstring st (obj :: env.inherited obj), (st.objs obj).parsed with
  | .found _ src, some _ => (some src, st)
  | .found d src, none =>
    let r := parseDocstring env st obj d src
    (some src, setParsed r.2 obj r.1)
  | .empty src, some _ => (some src, st)
  | .empty _, none => (none, st)
  | .missing, some _ => (env.parent obj, st)     -- split field: documented by the parent
  | .missing, none => (none, st)

/-! ### ParsedDocstring.to_stan / to_node / get_summary / get_toc -/

def pdToStan (env : Env) : PD → StanOut
  | .plain t => .returns (.pre t)
  | .stanOnly s => .returns s
  | .user k _ => env.toStan k

def pdToNode (env : Env) : PD → NodeOut
  | .plain t => env.plainToNode t
  | .stanOnly _ => .raises .notImplemented
  | .user k _ => env.toNode k

/-- `ParsedDocstring.get_summary` (the `_summary` cache is not observable: parameters are functions) -/
def getSummary (env : Env) (pd : PD) : Res PD :=
  match pdToNode env pd with
  | .raises _ => .ok (.stanOnly .brokenSummary)          -- except Exception
  | .returns =>
    match env.walk pd with
    | .raises _ => .ok (.stanOnly .brokenSummary)        -- except Exception
    | .summary k => .ok (.user k [])
    | .nothing => .ok (.stanOnly .noSummary)

/-- `ParsedDocstring.get_toc(depth)`: only `NotImplementedError` from `to_node` is handled here
(the caller, `format_toc`, handles the rest) -/
def getToc (env : Env) (pd : PD) (depth : Nat) : Res (Option PD) :=
  match pdToNode env pd with
  | .raises e => if e = .notImplemented then .ok none else .raises e
  | .returns =>
    match env.buildToc pd depth with
    | .raises e => .raises e
    | .contents k => .ok (some (.user k []))
    | .empty => .ok none

/-! ### safe_to_stan and its fallbacks -/

inductive Fallback
  | docstring     -- format_docstring_fallback
  | summary       -- format_summary_fallback
  | broken        -- lambda _, __, ___: BROKEN
  deriving DecidableEq, Repr

def applyFallback (st : St) (fb : Fallback) (ctx : Obj) : Stan × St :=
  match fb with
  | .docstring =>
    match (st.objs ctx).docstring with
    | none => (.broken, st)
    | some d => (.pre d, st)       -- plaintext.parse_docstring(ctx.docstring, errs).to_stan(...)
  | .summary => (.broken, setSummary st ctx (.stanOnly .broken))
  | .broken => (.broken, st)

/-- `get_to_stan_error(e)` = `ParseError(f"{cls}: {e}", 0)` -/
def toStanError (e : Exc) : Err := ⟨.exc e, some 0, true⟩

def safeToStanOut (st : St) (out : StanOut) (ctx : Obj) (fb : Fallback) (report : Bool) (sec : Sec) :
    Stan × St :=
  match out with
  | .returns s => (s, st)
  | .raises e =>
    let r := applyFallback st fb ctx
    (r.1, if report then reportErrors r.2 ctx [toStanError e] sec .rendering else r.2)

def safeToStan (env : Env) (st : St) (pd : PD) (ctx : Obj) (fb : Fallback) (report : Bool)
    (sec : Sec := 0) : Stan × St :=
  safeToStanOut st (pdToStan env pd) ctx fb report sec

/-! ### format_docstring -/

structure DocOut where
  body : Stan
  fields : List Stan
  deriving DecidableEq, Repr

/-- Python's `str.isspace` on one character (what `text.strip()` removes) -/
def pyIsSpace (c : Char) : Bool :=
  let n := c.toNat
  (9 ≤ n && n ≤ 13) || (28 ≤ n && n ≤ 32) || n == 0x85 || n == 0xA0 || n == 0x1680 ||
  (0x2000 ≤ n && n ≤ 0x200A) || n == 0x2028 || n == 0x2029 || n == 0x202F || n == 0x205F || n == 0x3000

/-- `format_field_fallback` (46bdc37): the text of the field's node tree as `<p class="pre">`; BROKEN when the
body has no node tree (`to_node` raises: a ParsedTypeDocstring) or no visible text -/
def fieldFallback (env : Env) (b : Body) : Stan :=
  match b, bodyToNode env b with
  | _, .raises _ => .broken
  | .typed _, .returns => .broken              -- not reached: typed.to_node raises
  | .user k, .returns =>
    if (env.nodeText k).any (fun c => !pyIsSpace c) then .pre (env.nodeText k) else .broken

/-- `Field.format()` = `safe_to_stan(body, linker, source, fallback=format_field_fallback)` -/
def fieldToStan (env : Env) (st : St) (b : Body) (src : Obj) : Stan × St :=
  match bodyToStan env b with
  | .returns s => (s, st)
  | .raises e => (fieldFallback env b, reportErrors st src [toStanError e] 0 .rendering)

/-- HISTORICAL (before 46bdc37): the fallback of a field was `lambda …: BROKEN` — the text of the field was shown
nowhere.  Used only by `field_failure_text_lost_old_counterexample`. -/
def fieldToStanOld (env : Env) (st : St) (b : Body) (src : Obj) : Stan × St :=
  safeToStanOut st (bodyToStan env b) src .broken true 0

/-! ### restructuredtext.parse_docstring and docutils' module-level role registry (abstract)

`roles_before = dict(roles._roles); try: publish_string(…) finally: roles._roles.clear(); roles._roles.update(roles_before)`
(2732bb2).  A parse is a function of the registry it finds; it returns its outcome and the registry it leaves. -/

def parseRestoring {R α : Type} (reg : R) (parse : R → α × R) : α × R := ((parse reg).1, reg)

/-- HISTORICAL (before 2732bb2): whatever the parser left in the registry stayed there (docutils forgets the
default role only when the state machine returns normally) -/
def parseLeaking {R α : Type} (reg : R) (parse : R → α × R) : α × R := parse reg

/-- the `FieldHandler.handle` loop of format_docstring, as far as the wrappers are concerned: one
`Field.format()` (= `safe_to_stan` with `format_field_fallback`, reported against the source) per field
whose handler formats it, in call order.  `type` fields: for an Attribute `handle_type` stores the
body as `obj.parsed_type` and formats nothing; otherwise the body is formatted when the field has
an argument (`@type name:` in a class/module docstring).  `ivar`/`cvar`/`var`: `handled_elsewhere`.
(`type` without argument in a Function docstring additionally files a 'Parameter name missing'
warning through `Field.report`; the dispatch and those warnings are C09's.) -/
def formatFields (env : Env) (st : St) (obj src : Obj) : List Field → List Stan × St
  | [] => ([], st)
  | f :: fs =>
    match f.tag with
    | .ivar => formatFields env st obj src fs
    | .typ =>
      if env.isAttribute obj then formatFields env (setPType st obj f.body) obj src fs
      else if f.arg.isSome then
        let r := fieldToStan env st f.body src
        let rs := formatFields env r.2 obj src fs
        (r.1 :: rs.1, rs.2)
      else formatFields env st obj src fs
    | _ =>
      let r := fieldToStan env st f.body src
      let rs := formatFields env r.2 obj src fs
      (r.1 :: rs.1, rs.2)

def formatDocstring (env : Env) (st : St) (obj : Obj) : Res DocOut × St :=
  let r := ensureParsed env st obj
  match r.1 with
  | none => (.ok ⟨.undocumented, []⟩, r.2)
  | some src =>
    match (r.2.objs obj).parsed with
    | none => (.raises .assertion, r.2)       -- assert obj.parsed_docstring is not None
    | some pd =>
      let b := safeToStan env r.2 pd src .docstring true
      let fs := formatFields env b.2 obj src (pdFields pd)
      (.ok ⟨b.1, fs.1⟩, fs.2)

/-! ### format_summary -/

def getParsedSummary (env : Env) (st : St) (obj : Obj) : Res (Option Obj × PD) × St :=
  let r := ensureParsed env st obj
  match (r.2.objs obj).parsedSummary with
  | some s => (.ok (r.1, s), r.2)
  | none =>
    match r.1 with
    | none =>
      let s := PD.stanOnly .undocSummary
      (.ok (none, s), setSummary r.2 obj s)
    | some src =>
      match (r.2.objs obj).parsed with
      | none => (.raises .assertion, r.2)
      | some pd =>
        match getSummary env pd with          -- not inside any handler
        | .raises e => (.raises e, r.2)
        | .ok s => (.ok (some src, s), setSummary r.2 obj s)

/-- since c070c47 the fallback marks the summary of `obj` — the object being rendered — as broken
(`lambda errs, doc, _: format_summary_fallback(errs, doc, obj)`); `report=False` -/
def formatSummary (env : Env) (st : St) (obj : Obj) : Res Stan × St :=
  match getParsedSummary env st obj with
  | (.raises e, st') => (.raises e, st')
  | (.ok (_, pd), st') =>
    match pdToStan env pd with
    | .returns s => (.ok s, st')
    | .raises _ => (.ok .broken, setSummary st' obj (.stanOnly .broken))

/-- HISTORICAL (before c070c47): `format_summary_fallback` received `ctx` = the docstring SOURCE and stored
the broken summary there.  Used only by `summary_fallback_touches_source` / `…_overwrites_class_summary`. -/
def formatSummaryOld (env : Env) (st : St) (obj : Obj) : Res Stan × St :=
  match getParsedSummary env st obj with
  | (.raises e, st') => (.raises e, st')
  | (.ok (source, pd), st') =>
    let src := source.getD obj                -- if not source: source = obj
    let r := safeToStan env st' pd src .summary false
    (.ok r.1, r.2)

/-! ### format_toc -/

/-- `format_toc` (since c422501): `get_toc` is called inside `try … except Exception: toc = None`;
since e05762e no table of contents for a docstring whose own `to_stan` raises -/
def formatToc (env : Env) (st : St) (obj : Obj) : Res (Option Stan) × St :=
  let r := ensureParsed env st obj
  match (r.2.objs obj).parsed with
  | none => (.ok none, r.2)
  | some pd =>
    if env.tocDepth > 0 then
      match getToc env pd env.tocDepth with
      | .raises _ => (.ok none, r.2)          -- except Exception: toc = None
      | .ok none => (.ok none, r.2)
      | .ok (some toc) =>
        -- e05762e: the entries link to the headings of the RENDERED docstring: when `to_stan` of the docstring
        -- raises (the page shows its plain text, without headings) there is no table of contents
        match pdToStan env pd with
        | .raises _ => (.ok none, r.2)
        | .returns _ =>
          let s := safeToStan env r.2 toc obj .broken false
          (.ok (some s.1), s.2)
    else (.ok none, r.2)

/-- HISTORICAL: `format_toc` before c422501 — `get_toc` called outside any handler.
Used only by `total_old_counterexample`. -/
def formatTocOld (env : Env) (st : St) (obj : Obj) : Res (Option Stan) × St :=
  let r := ensureParsed env st obj
  match (r.2.objs obj).parsed with
  | none => (.ok none, r.2)
  | some pd =>
    if env.tocDepth > 0 then
      match getToc env pd env.tocDepth with   -- called outside safe_to_stan
      | .raises e => (.raises e, r.2)
      | .ok none => (.ok none, r.2)
      | .ok (some toc) =>
        let s := safeToStan env r.2 toc obj .broken false
        (.ok (some s.1), s.2)
    else (.ok none, r.2)

/-! ### extract_fields: parse the object's own docstring, store it, split the variable fields -/

/-- `field.body()` as the attribute's `parsed_docstring` (field bodies carry no fields of their own) -/
def bodyPd : Body → PD
  | .user k => .user k []
  | .typed k => .user k []      -- not reached: `ivar`/`cvar`/`var` are not in ParsedTypeDocstring.FIELDS

/-- the loop over `parsed_doc.fields`: `ivar/cvar/var` → the named attribute's `parsed_docstring`,
`type` → its `parsed_type`; a field without argument is skipped ('Missing field name' warning, not
a reportErrors report).  `arg` is the attribute the name resolves to in `obj.contents` (creation of
a new Attribute for an unknown name is the registry's business, C02). -/
def splitFields (st : St) : List Field → St
  | [] => st
  | f :: fs =>
    match f.tag, f.arg with
    | .typ, some a => splitFields (setPType st a f.body) fs
    | .ivar, some a => splitFields (setParsed st a (bodyPd f.body)) fs
    | _, _ => splitFields st fs

def extractFields (env : Env) (st : St) (obj : Obj) : Res Unit × St :=
  match (st.objs obj).docstring with
  | none => (.raises .assertion, st)          -- assert doc is not None, obj
  | some d =>
    let r := parseDocstring env st obj d obj
    (.ok (), splitFields (setParsed r.2 obj r.1) (pdFields r.1))

/-! ### get_parsed_type / type2stan / colorized_pyval_fallback and the other pyval wrappers -/

/-- the `for field in fields: if field.tag() == 'type': parsed_type = field.body()` loop: last one wins -/
def lastTypeField : List Field → Option Body
  | [] => none
  | f :: fs =>
    match lastTypeField fs with
    | some b => some b
    | none => if f.tag = .typ then some f.body else none

def annotationBody (env : Env) (obj : Obj) : Option Body := (env.annotation obj).map Body.user

/-- `get_parsed_type` (since 87738b5 it looks into the Attribute's own docstring) -/
def getParsedType (env : Env) (st : St) (obj : Obj) : Option Body × St :=
  match (st.objs obj).ptype with
  | some b => (some b, st)
  | none =>
    if env.isAttribute obj then
      let r := ensureParsed env st obj
      match (r.2.objs obj).parsed with
      | none => (annotationBody env obj, r.2)
      | some pd =>
        match lastTypeField (pdFields pd) with
        | some b => (some b, setPType r.2 obj b)
        | none => (annotationBody env obj, r.2)
    else (annotationBody env obj, st)

/-- `safe_to_stan(doc, linker, ctx, fallback=colorized_pyval_fallback, section=sec)`:
the fallback is `Tag('code')(gettext(doc.to_node()))`; since 4caea46 a failure of `to_node` there is
caught too and the BROKEN placeholder is shown.  Either way the `to_stan` failure is reported. -/
def safeToStanPyval (env : Env) (st : St) (b : Body) (ctx : Obj) (sec : Sec) : Res Stan × St :=
  match bodyToStan env b with
  | .returns s => (.ok s, st)
  | .raises e =>
    match bodyToNode env b with
    | .raises _ => (.ok .broken, reportErrors st ctx [toStanError e] sec .rendering)
    | .returns => (.ok .code, reportErrors st ctx [toStanError e] sec .rendering)

/-- HISTORICAL (before 4caea46): `to_node` ran inside the `except` block of safe_to_stan with no
handler of its own: if it raised, that exception left safe_to_stan, and nothing was reported.
Used only by `type_old_counterexample` / `typed_failure_escaped_old`. -/
def safeToStanPyvalOld (env : Env) (st : St) (b : Body) (ctx : Obj) (sec : Sec) : Res Stan × St :=
  match bodyToStan env b with
  | .returns s => (.ok s, st)
  | .raises e =>
    match bodyToNode env b with
    | .raises e' => (.raises e', st)
    | .returns => (.ok .code, reportErrors st ctx [toStanError e] sec)

/-- section numbers of the wrappers (0 = 'docstring') -/
def secAnnotation : Sec := 1
def secConstant : Sec := 2
def secSignature : Sec := 3
def secClassSignature : Sec := 4
def secDecorators : Sec := 5

def type2stan (env : Env) (st : St) (obj : Obj) : Res (Option Stan) × St :=
  let r := getParsedType env st obj
  match r.1 with
  | none => (.ok none, r.2)
  | some b =>
    match safeToStanPyval env r.2 b obj secAnnotation with
    | (.ok s, st') => (.ok (some s), st')
    | (.raises e, st') => (.raises e, st')

/-- HISTORICAL (before 4caea46): `type2stan` over the old fallback -/
def type2stanOld (env : Env) (st : St) (obj : Obj) : Res (Option Stan) × St :=
  let r := getParsedType env st obj
  match r.1 with
  | none => (.ok none, r.2)
  | some b =>
    match safeToStanPyvalOld env r.2 b obj secAnnotation with
    | (.ok s, st') => (.ok (some s), st')
    | (.raises e, st') => (.raises e, st')

/-- `format_constant_value`: the value row (warnings of the colorizer are filed through
`reportWarnings`, outside this model) -/
def formatConstant (env : Env) (st : St) (obj : Obj) : Res Stan × St :=
  safeToStanPyval env st (.user (env.constPd obj)) obj secConstant

/-- `pages.format_signature`: `html2stan(str(func.signature))` in try/except Exception -/
def formatSignature (env : Env) (st : St) (obj : Obj) : Res Stan × St :=
  match env.sigOut obj with
  | none => (.ok .sigBroken, st)
  | some (.returns s) => (.ok s, st)
  | some (.raises e) => (.ok .sigBroken, reportErrors st obj [toStanError e] secSignature)

/-- a `for x in …: safe_to_stan(colorize_inline_pyval(x), …, fallback=colorized_pyval_fallback)` loop:
`pages.format_class_signature` (bases) and `pages.format_decorators` -/
def pyvalList (env : Env) (obj : Obj) (sec : Sec) : St → List Nat → Res (List Stan) × St
  | st, [] => (.ok [], st)
  | st, k :: ks =>
    match safeToStanPyval env st (.user k) obj sec with
    | (.raises e, st') => (.raises e, st')
    | (.ok s, st') =>
      match pyvalList env obj sec st' ks with
      | (.raises e, st'') => (.raises e, st'')
      | (.ok ss, st'') => (.ok (s :: ss), st'')

def formatClassSignature (env : Env) (st : St) (obj : Obj) : Res (List Stan) × St :=
  pyvalList env obj secClassSignature st (env.bases obj)

def formatDecorators (env : Env) (st : St) (obj : Obj) : Res (List Stan) × St :=
  pyvalList env obj secDecorators st (env.decorators obj)

/-! ### templatewriter/search.py `format_docstring` (text for the search index) -/

inductive SearchOut
  | none                    -- undocumented
  | nodeText                -- ' '.join(gettext(parsed_docstring.to_node()))
  | docstring (t : Option Text)  -- `source.docstring`
  deriving DecidableEq, Repr

/-- since e1378c4 `to_node()` is called in `try … except Exception`: any failure → the raw docstring -/
def searchDocstring (env : Env) (st : St) (obj : Obj) : Res SearchOut × St :=
  let r := ensureParsed env st obj
  match r.1 with
  | none => (.ok .none, r.2)
  | some src =>
    match (r.2.objs obj).parsed with
    | none => (.raises .assertion, r.2)
    | some pd =>
      match pdToNode env pd with
      | .returns => (.ok .nodeText, r.2)
      | .raises _ => (.ok (.docstring (r.2.objs src).docstring), r.2)

/-- HISTORICAL (before e1378c4): only `NotImplementedError` was handled.  Used by `search_old_counterexample`. -/
def searchDocstringOld (env : Env) (st : St) (obj : Obj) : Res SearchOut × St :=
  let r := ensureParsed env st obj
  match r.1 with
  | none => (.ok .none, r.2)
  | some src =>
    match (r.2.objs obj).parsed with
    | none => (.raises .assertion, r.2)
    | some pd =>
      match pdToNode env pd with
      | .returns => (.ok .nodeText, r.2)
      | .raises e =>
        if e = .notImplemented then (.ok (.docstring (r.2.objs src).docstring), r.2)
        else (.raises e, r.2)

/-! ### running a list of entry-point calls (correspondence, isolation statements) -/

inductive Op | ensure | doc | summary | toc | extract
  deriving DecidableEq, Repr

inductive Out
  | ensure (src : Option Obj)
  | doc (r : Res DocOut)
  | summary (r : Res Stan)
  | toc (r : Res (Option Stan))
  | extract (r : Res Unit)

def Out.isOk : Out → Bool
  | .ensure _ => true
  | .doc r => r.isOk
  | .summary r => r.isOk
  | .toc r => r.isOk
  | .extract r => r.isOk

def step (env : Env) (st : St) (op : Op) (obj : Obj) : Out × St :=
  match op with
  | .ensure => let r := ensureParsed env st obj; (.ensure r.1, r.2)
  | .doc => let r := formatDocstring env st obj; (.doc r.1, r.2)
  | .summary => let r := formatSummary env st obj; (.summary r.1, r.2)
  | .toc => let r := formatToc env st obj; (.toc r.1, r.2)
  | .extract => let r := extractFields env st obj; (.extract r.1, r.2)

def run (env : Env) : St → List (Op × Obj) → List Out × St
  | st, [] => ([], st)
  | st, (op, o) :: rest =>
    let r := step env st op o
    let rs := run env r.2 rest
    (r.1 :: rs.1, rs.2)

/-! ### the further rendering entry points, for the correspondence -/

inductive XOp
  | core (op : Op)
  | typ | const | sig | classSig | decorators | search
  deriving DecidableEq, Repr

inductive XOut
  | core (o : Out)
  | typ (r : Res (Option Stan))
  | stan (r : Res Stan)
  | stans (r : Res (List Stan))
  | search (r : Res SearchOut)

def XOut.isOk : XOut → Bool
  | .core o => o.isOk
  | .typ r => r.isOk
  | .stan r => r.isOk
  | .stans r => r.isOk
  | .search r => r.isOk

def xstep (env : Env) (st : St) (op : XOp) (obj : Obj) : XOut × St :=
  match op with
  | .core o => let r := step env st o obj; (.core r.1, r.2)
  | .typ => let r := type2stan env st obj; (.typ r.1, r.2)
  | .const => let r := formatConstant env st obj; (.stan r.1, r.2)
  | .sig => let r := formatSignature env st obj; (.stan r.1, r.2)
  | .classSig => let r := formatClassSignature env st obj; (.stans r.1, r.2)
  | .decorators => let r := formatDecorators env st obj; (.stans r.1, r.2)
  | .search => let r := searchDocstring env st obj; (.search r.1, r.2)

def xrun (env : Env) : St → List (XOp × Obj) → List XOut × St
  | st, [] => ([], st)
  | st, (op, o) :: rest =>
    let r := xstep env st op o
    let rs := xrun env r.2 rest
    (r.1 :: rs.1, rs.2)

/-- the object `reportErrors` / the fallbacks are applied to when `obj` is processed -/
def sourceOf (env : Env) (st : St) (obj : Obj) : Obj :=
  match getDocstring st (obj :: env.inherited obj) with
  | .found _ s => s
  | .empty s => s
  | .missing => (env.parent obj).getD obj

/-- reports naming `(sec, o)` -/
def reportsOf (st : St) (sec : Sec) (o : Obj) : List Report :=
  st.reports.filter fun r => r.sec = sec ∧ r.obj = o

end Docstring
