/-
Model of the module scheduler of pydoctor/model.py:
`System.process`, `System.processModule`, `System.getProcessedModule`, `ProcessingState`,
`System.unprocessed_modules`, and `driver.main`'s exit status.

A module is (parses?, the list of modules its body asks `getProcessedModule` for, in source
order, the packages above it — its `parent` chain — outermost first).  Visiting a body = walking
the list; a request for a module that is UNPROCESSED first processes the UNPROCESSED packages above
that module, outermost first, then the module itself if it still is UNPROCESSED (nested calls); a
module that is PROCESSING (import cycle) or PROCESSED is returned as it is, and the packages above
it are not looked at.  An unparsable file is reported once and stays in state PROCESSING.

Follows /repo 0ba6723 (`getProcessedModule`: "the packages above the module go first, outermost
first") and 824faae (`import a.b.c` asks for a, a.b, a.b.c: three entries of `imports`).  With
`above = []` everywhere this is the scheduler as it was before 0ba6723.

Import-free, executable.
-/
namespace Schedule

inductive PState | unprocessed | processing | processed
  deriving DecidableEq, Repr, Inhabited

structure Mod where
  parses : Bool
  imports : List Nat          -- targets of getProcessedModule in body order (ids; unknown names are dropped)
  above : List Nat            -- the packages above the module (`mod.parent`, its parent, …), OUTERMOST FIRST
  deriving Repr, Inhabited

inductive Event
  | start (m : Nat)           -- processModule(m) entered
  | parseError (m : Nat)      -- report "cannot parse file"
  | visit (m : Nat)           -- body about to be walked (processModuleAST)
  | sees (m t : Nat) (st : PState)   -- body of m obtained module t in state st (after on-demand processing)
  | finish (m : Nat)          -- state := PROCESSED
  | assertFail (m : Nat)      -- one of the three `assert`s failed
  deriving DecidableEq, Repr

structure State where
  st : List PState            -- Module.state by id
  unprocessed : List Nat      -- System.unprocessed_modules
  log : List Event
  deriving Repr, Inhabited

def setSt (l : List PState) (i : Nat) (v : PState) : List PState := l.set i v

def getSt (s : State) (m : Nat) : PState := s.st.getD m .processed

/-- `above` of module `t` (no packages above an unknown id) -/
def aboveOf (mods : List Mod) (t : Nat) : List Nat :=
  match mods[t]? with
  | some md => md.above
  | none => []

mutual
/-- `System.processModule(mod)`; fuel bounds the nesting depth -/
def processModule (mods : List Mod) : Nat → State → Nat → State
  | 0, s, m => { s with log := s.log ++ [.assertFail m] }
  | f+1, s, m =>
    if getSt s m ≠ .unprocessed ∨ ¬ s.unprocessed.contains m then
      { s with log := s.log ++ [.assertFail m] }           -- `assert mod.state is UNPROCESSED`, `assert mod in unprocessed_modules`
    else
      let s1 : State := { st := setSt s.st m .processing, unprocessed := s.unprocessed.erase m,
                          log := s.log ++ [.start m] }
      match mods[m]? with
      | none => s1
      | some md =>
        if !md.parses then { s1 with log := s1.log ++ [.parseError m] }
        else
          let s2 := visitBody mods f { s1 with log := s1.log ++ [.visit m] } m md.imports
          { s2 with st := setSt s2.st m .processed, log := s2.log ++ [.finish m] }
/-- `for pack in reversed(above): if pack.state is UNPROCESSED: self.processModule(pack)` -/
def processAbove (mods : List Mod) : Nat → State → List Nat → State
  | _, s, [] => s
  | f, s, p :: ps =>
    processAbove mods f (if getSt s p = .unprocessed then processModule mods f s p else s) ps
/-- the import statements of a body, in order: `getProcessedModule(t)` each:
`if mod.state is UNPROCESSED: <the packages above first>`; `if mod.state is UNPROCESSED: processModule(mod)` -/
def visitBody (mods : List Mod) : Nat → State → Nat → List Nat → State
  | _, s, _, [] => s
  | f, s, m, t :: ts =>
    let s0 := if getSt s t = .unprocessed then processAbove mods f s (aboveOf mods t) else s
    let s1 := if getSt s0 t = .unprocessed then processModule mods f s0 t else s0
    visitBody mods f { s1 with log := s1.log ++ [.sees m t (getSt s1 t)] } m ts
end

/-- `System.process()`: `while unprocessed_modules: processModule(next(iter(unprocessed_modules)))` -/
def process (mods : List Mod) : Nat → State → State
  | 0, s => s
  | f+1, s =>
    match s.unprocessed with
    | [] => s
    | m :: _ => process mods f (processModule mods (mods.length + 1) s m)

def initState (n : Nat) (order : List Nat) : State :=
  { st := List.replicate n .unprocessed, unprocessed := order, log := [] }

/-- a whole run from the initial order of `unprocessed_modules` -/
def run (mods : List Mod) (order : List Nat) : State :=
  process mods (mods.length + 1) (initState mods.length order)

/-! ### driver.main exit status -/

/-- `exitcode` of `driver.main`: 3 when warnings are errors and something was reported; else 2
when some docstring / expression could not be parsed; else 0. -/
def exitStatus (warningsAsErrors : Bool) (violations : Nat) (parseErrors : Nat) : Nat :=
  if warningsAsErrors && violations > 0 then 3
  else if parseErrors > 0 then 2
  else 0

end Schedule
