/-
Model layer `Escape` (property C10): how text becomes HTML in pydoctor.

Transcribed code (strings are `List Char`; twisted works on the UTF-8 bytes, every character it
touches is ASCII, and UTF-8 is ASCII-transparent, so the byte-level `replace` is the same
function on code points):

* twisted.web._flatten (26.4): `escapeForContent`, `writeWithAttributeEscaping` (the attribute
  value escaping), `escapedCDATA`, `escapedComment`, `_flattenElement` for `str`, `Tag`, `Comment`,
  `CDATA`, `CharRef`, lists (= children), `voidElements`.
* docutils.writers._html_base.HTMLTranslator (0.22): `special_characters`/`encode`, `attval`.
* pydoctor.stanutils.html2stan: `_RE_CONTROL` substitution; `XMLString` is a parameter whose
  assumed contract (`xmlText`) is XML 1.0 character data reading: line-end normalisation,
  rejection of characters that are not XML `Char`s, predefined entities and decimal references.
* pydoctor.extensions.deprecate.deprecatedToUsefulText: `validate_identifier`, the wrapping of a
  non-identifier replacement, the two templates; and, on the docutils side, what happens to the
  interpolated string: `str.splitlines` line breaks, `escape2null`, the inline-literal
  end-string search of `Inliner.inline_obj` (`patterns.literal`), `unescape(…, True)`.

Import-free, executable, total; structural recursion only (so that `decide` can evaluate it).
-/
namespace Escape

/-! ## 1. character replacement (`bytes.replace` / `str.translate` with single characters) -/

/-- `data.replace(c, r)` for a one-character pattern. -/
def replaceChar (c : Char) (r : List Char) : List Char → List Char
  | [] => []
  | x :: xs => if x = c then r ++ replaceChar c r xs else x :: replaceChar c r xs

def amp : List Char := ['&', 'a', 'm', 'p', ';']
def lt : List Char := ['&', 'l', 't', ';']
def gt : List Char := ['&', 'g', 't', ';']
def quot : List Char := ['&', 'q', 'u', 'o', 't', ';']
def at64 : List Char := ['&', '#', '6', '4', ';']
def nbsp : List Char := ['&', 'n', 'b', 's', 'p', ';']

/-- `escapeForContent`: `.replace(b"&", b"&amp;").replace(b"<", b"&lt;").replace(b">", b"&gt;")`,
three passes in this order. -/
def escapeForContent (s : List Char) : List Char :=
  replaceChar '>' gt (replaceChar '<' lt (replaceChar '&' amp s))

/-- `writeWithAttributeEscaping._write`: `escapeForContent(data).replace(b'"', b"&quot;")`
(`attributeEscapingDoneOutside` is the identity on the data). -/
def escapeAttr (s : List Char) : List Char :=
  replaceChar '"' quot (escapeForContent s)

/-- `escapedCDATA`: `data.replace(b"]]>", b"]]]]><![CDATA[>")` (leftmost, non-overlapping). -/
def escapedCDATA : List Char → List Char
  | ']' :: ']' :: '>' :: r => [']', ']', ']', ']', '>', '<', '!', '[', 'C', 'D', 'A', 'T', 'A', '[', '>'] ++ escapedCDATA r
  | c :: r => c :: escapedCDATA r
  | [] => []

/-- `data.replace(b"-->", b"--&gt;")`. -/
def replaceCommentEnd : List Char → List Char
  | '-' :: '-' :: '>' :: r => ['-', '-', '&', 'g', 't', ';'] ++ replaceCommentEnd r
  | c :: r => c :: replaceCommentEnd r
  | [] => []

/-- `escapedComment`: the replacement above, then a space is appended when the data ends in `-`. -/
def escapedComment (s : List Char) : List Char :=
  let d := replaceCommentEnd s
  if d.getLast? = some '-' then d ++ [' '] else d

/-- docutils `html4css1.HTMLTranslator.special_characters` (a `str.translate` table: one pass);
the html4css1 writer, which pydoctor subclasses, adds U+00A0 → `&nbsp;` to the base table. -/
def encodeChar (c : Char) : List Char :=
  if c = '&' then amp else if c = '<' then lt else if c = '"' then quot
  else if c = '>' then gt else if c = '@' then at64 else if c.toNat = 160 then nbsp else [c]

/-- docutils `HTMLTranslator.encode` -/
def encode (s : List Char) : List Char := s.flatMap encodeChar

/-- `attval`: `[\n\r\t\v\f]` → space, then `encode` (mailto cloaking is not modelled) -/
def attvalWs (c : Char) : Char :=
  if c = '\n' ∨ c = '\r' ∨ c = '\t' ∨ c = Char.ofNat 11 ∨ c = Char.ofNat 12 then ' ' else c

def attval (s : List Char) : List Char := encode (s.map attvalWs)

/-- docutils `HTMLTranslator.starttag`, the part that writes one attribute:
`'%s="%s"' % (name.lower(), self.attval(str(value)))` (names are given in lower case). This is the
writer every directive argument / option that ends up in an attribute goes through (image `alt`,
`uri`, `target`, `class`, `name`, `title`). -/
def starttagAttr (name value : List Char) : List Char :=
  name ++ ['=', '"'] ++ attval value ++ ['"']

/-- `starttag(node, tagname, '', **{name: value})` for a node without ids/classes and one string
attribute: `<tagname name="attval(value)">` -/
def starttag1 (tag name value : List Char) : List Char :=
  '<' :: tag ++ [' '] ++ starttagAttr name value ++ ['>']

/-! ## 2. `html2stan`: control characters -/

def hexDigit (n : Nat) : Char :=
  if n < 10 then Char.ofNat (48 + n) else Char.ofNat (87 + n)

/-- `b'\\x%02x' % ord(m.group())` -/
def escByte (n : Nat) : List Char := ['\\', 'x', hexDigit (n / 16), hexDigit (n % 16)]

/-- a byte matched by `_RE_CONTROL`: 0–31 except `\t \n \f \r` -/
def isControl (c : Char) : Bool :=
  c.toNat < 32 && c.toNat != 9 && c.toNat != 10 && c.toNat != 12 && c.toNat != 13

def neutraliseChar (c : Char) : List Char := if isControl c then escByte c.toNat else [c]

/-- `_RE_CONTROL.sub(lambda m: b'\\x%02x' % ord(m.group()), html)` -/
def neutralise (s : List Char) : List Char := s.flatMap neutraliseChar

/-! ## 3. reading character data back (the `XMLString` parameter; also the oracle's `unescape`) -/

def digitsToNat : List Char → Nat → Option Nat
  | [], acc => some acc
  | c :: r, acc => if '0' ≤ c ∧ c ≤ '9' then digitsToNat r (acc * 10 + (c.toNat - 48)) else none

/-- XML 1.0 `Char` production -/
def xmlCharOk (n : Nat) : Bool :=
  n == 9 || n == 10 || n == 13 || (32 ≤ n && n ≤ 0xD7FF) || (0xE000 ≤ n && n ≤ 0xFFFD) ||
    (0x10000 ≤ n && n ≤ 0x10FFFF)

def hexVal (c : Char) : Option Nat :=
  if '0' ≤ c ∧ c ≤ '9' then some (c.toNat - 48)
  else if 'a' ≤ c ∧ c ≤ 'f' then some (c.toNat - 87)
  else if 'A' ≤ c ∧ c ≤ 'F' then some (c.toNat - 55)
  else none

def hexToNat : List Char → Nat → Option Nat
  | [], acc => some acc
  | c :: r, acc => match hexVal c with
    | some v => hexToNat r (acc * 16 + v)
    | none => none

def charOfRef (n : Option Nat) : Option Char :=
  match n with
  | some n => if xmlCharOk n then some (Char.ofNat n) else none
  | none => none

/-- entity name (between `&` and `;`) → character: the predefined entities, decimal and
hexadecimal character references. -/
def decodeEntity (name : List Char) : Option Char :=
  if name = ['a', 'm', 'p'] then some '&'
  else if name = ['l', 't'] then some '<'
  else if name = ['g', 't'] then some '>'
  else if name = ['q', 'u', 'o', 't'] then some '"'
  else if name = ['a', 'p', 'o', 's'] then some '\''
  else match name with
    | '#' :: 'x' :: d :: ds => charOfRef (hexToNat (d :: ds) 0)
    | '#' :: d :: ds => charOfRef (digitsToNat (d :: ds) 0)
    | _ => none

/-- scanner: `none` = in text, `some acc` = inside an entity reference (reversed name so far). -/
def unescapeGo : Option (List Char) → List Char → Option (List Char)
  | none, [] => some []
  | some _, [] => none
  | none, c :: r =>
    if c = '&' then unescapeGo (some []) r
    else if c = '<' then none
    else (unescapeGo none r).map (c :: ·)
  | some acc, c :: r =>
    if c = ';' then
      match decodeEntity acc.reverse with
      | some ch => (unescapeGo none r).map (ch :: ·)
      | none => none
    else unescapeGo (some (c :: acc)) r

/-- the XML reading of character data / of an attribute value's literal: `none` = not well formed
(a `<`, an `&` that does not start a known reference). -/
def unescape (s : List Char) : Option (List Char) := unescapeGo none s

def startsWith (p : List Char) (s : List Char) : Bool := p.isPrefixOf s

def containsSub (p : List Char) : List Char → Bool
  | [] => p.isEmpty
  | c :: r => startsWith p (c :: r) || containsSub p r

/-- XML 1.0 §2.11 line-end normalisation -/
def lineNorm : List Char → List Char
  | '\r' :: '\n' :: r => '\n' :: lineNorm r
  | '\r' :: r => '\n' :: lineNorm r
  | c :: r => c :: lineNorm r
  | [] => []

/-- what `XMLString(b'<div>%s</div>' % html).load()` yields for markup-free `html`:
`none` = `SAXParseException`. -/
def xmlText (s : List Char) : Option (List Char) :=
  if s.all (fun c => xmlCharOk c.toNat) && !containsSub [']', ']', '>'] s then unescape (lineNorm s)
  else none

/-- `html2stan` on markup-free html: neutralise, parse. -/
def html2stanText (s : List Char) : Option (List Char) := xmlText (neutralise s)

/-! ## 4. safety predicates (the model's reading of "escaped") -/

/-- every `&` starts one of the entities the escaping functions emit -/
def ampOk : List Char → Bool
  | [] => true
  | c :: r =>
    (if c = '&' then
      startsWith ['a', 'm', 'p', ';'] r || startsWith ['l', 't', ';'] r ||
      startsWith ['g', 't', ';'] r || startsWith ['q', 'u', 'o', 't', ';'] r ||
      startsWith ['#', '6', '4', ';'] r || startsWith ['n', 'b', 's', 'p', ';'] r
     else true) && ampOk r

def contentSafe (s : List Char) : Bool :=
  !s.contains '<' && !s.contains '>' && ampOk s

def attrSafe (s : List Char) : Bool :=
  !s.contains '<' && !s.contains '>' && !s.contains '"' && ampOk s

def commentSafe (s : List Char) : Bool :=
  !containsSub ['-', '-', '>'] s && s.getLast? != some '-'

/-! ## 5. stan trees and the flattener -/

inductive Stan where
  | text (s : List Char)
  | tag (name : List Char) (attrs : List (List Char × List Char)) (children : List Stan)
  | comment (s : List Char)
  | cdata (s : List Char)
  | charref (n : Nat)
  deriving Repr

inductive Err where
  | unicodeEncodeError   -- `tagName.encode("ascii")` / `k.encode("ascii")`
  deriving Repr, DecidableEq

def voidElements : List (List Char) :=
  ["img", "br", "hr", "base", "meta", "link", "param", "area", "input", "col", "basefont",
   "isindex", "frame", "command", "embed", "keygen", "source", "track", "wbs"].map String.toList

/-- `if root.children or nativeString(tagName) not in voidElements` -/
def writesEndTag (name : List Char) (children : List α) : Bool :=
  !children.isEmpty || !voidElements.contains name

def isAscii (s : List Char) : Bool := s.all (fun c => c.toNat < 128)

def natDigits (n : Nat) : List Char := (toString n).toList

/-- the attribute loop of `_flattenElement`: ` k="escaped v"` for string values -/
def flattenAttrs : List (List Char × List Char) → Except Err (List Char)
  | [] => .ok []
  | (k, v) :: r =>
    if isAscii k then
      match flattenAttrs r with
      | .ok rest => .ok (' ' :: k ++ ['=', '"'] ++ escapeAttr v ++ ['"'] ++ rest)
      | .error e => .error e
    else .error .unicodeEncodeError

mutual
/-- `_flattenElement` with `dataEscaper = escapeForContent` -/
def flattenStr : Stan → Except Err (List Char)
  | .text s => .ok (escapeForContent s)
  | .comment s => .ok (['<', '!', '-', '-'] ++ escapedComment s ++ ['-', '-', '>'])
  | .cdata s => .ok (['<', '!', '[', 'C', 'D', 'A', 'T', 'A', '['] ++ escapedCDATA s ++ [']', ']', '>'])
  | .charref n => .ok (['&', '#'] ++ natDigits n ++ [';'])
  | .tag name attrs children =>
    if name.isEmpty then flattenList children          -- `if not root.tagName`
    else if isAscii name then
      match flattenAttrs attrs with
      | .error e => .error e
      | .ok as =>
        if writesEndTag name children then
          match flattenList children with
          | .ok cs => .ok ('<' :: name ++ as ++ ['>'] ++ cs ++ ['<', '/'] ++ name ++ ['>'])
          | .error e => .error e
        else .ok ('<' :: name ++ as ++ [' ', '/', '>'])
    else .error .unicodeEncodeError
def flattenList : List Stan → Except Err (List Char)
  | [] => .ok []
  | t :: ts =>
    match flattenStr t with
    | .ok a => match flattenList ts with
      | .ok b => .ok (a ++ b)
      | .error e => .error e
    | .error e => .error e
end

/-- `templatewriter.writer.flattenToFile`: the DOCTYPE constant, then exactly what the flattener
produced — nothing is done to the serialised page (no normalisation, re-encoding, minification) -/
def flattenToFile (doctype : List Char) (t : Stan) : Except Err (List Char) :=
  match flattenStr t with
  | .ok s => .ok (doctype ++ s)
  | .error e => .error e

/-- what the flattener writes, as a token stream; strings are the escaped forms as written -/
inductive Tok where
  | open (name : List Char)            -- `<name`
  | attr (k v : List Char)             -- ` k="v"`
  | startEnd                           -- `>`
  | voidEnd                            -- ` />`
  | close (name : List Char)           -- `</name>`
  | text (s : List Char)
  | comment (s : List Char)            -- `<!--s-->`
  | cdata (s : List Char)              -- `<![CDATA[s]]>`
  | charref (n : Nat)                  -- `&#n;`
  deriving Repr, DecidableEq

def attrToks : List (List Char × List Char) → List Tok
  | [] => []
  | (k, v) :: r => .attr k (escapeAttr v) :: attrToks r

mutual
def toks : Stan → List Tok
  | .text s => [.text (escapeForContent s)]
  | .comment s => [.comment (escapedComment s)]
  | .cdata s => [.cdata (escapedCDATA s)]
  | .charref n => [.charref n]
  | .tag name attrs children =>
    if name.isEmpty then toksList children
    else if writesEndTag name children then
      .open name :: attrToks attrs ++ [.startEnd] ++ toksList children ++ [.close name]
    else .open name :: attrToks attrs ++ [.voidEnd]
def toksList : List Stan → List Tok
  | [] => []
  | t :: ts => toks t ++ toksList ts
end

def renderTok : Tok → List Char
  | .open n => '<' :: n
  | .attr k v => ' ' :: k ++ ['=', '"'] ++ v ++ ['"']
  | .startEnd => ['>']
  | .voidEnd => [' ', '/', '>']
  | .close n => ['<', '/'] ++ n ++ ['>']
  | .text s => s
  | .comment s => ['<', '!', '-', '-'] ++ s ++ ['-', '-', '>']
  | .cdata s => ['<', '!', '[', 'C', 'D', 'A', 'T', 'A', '['] ++ s ++ [']', ']', '>']
  | .charref n => ['&', '#'] ++ natDigits n ++ [';']

def render (ts : List Tok) : List Char := ts.flatMap renderTok

/-- XML `Name` restricted to ASCII: `[A-Za-z_:][A-Za-z0-9_:.-]*` -/
def isLetter (c : Char) : Bool :=
  let n := c.toNat
  (65 ≤ n && n ≤ 90) || (97 ≤ n && n ≤ 122)
def isDigit (c : Char) : Bool := 48 ≤ c.toNat && c.toNat ≤ 57
def nameStart (c : Char) : Bool := isLetter c || c = '_' || c = ':'
def nameChar (c : Char) : Bool := nameStart c || isDigit c || c = '.' || c = '-'
def validName : List Char → Bool
  | [] => false
  | c :: r => nameStart c && r.all nameChar

/-- well-nestedness recogniser: a stack of open element names and "inside a start tag". -/
def nested : List (List Char) → Bool → List Tok → Bool
  | st, false, [] => st.isEmpty
  | _, true, [] => false
  | st, false, .open n :: r => nested (n :: st) true r
  | st, true, .attr _ _ :: r => nested st true r
  | st, true, .startEnd :: r => nested st false r
  | _ :: st, true, .voidEnd :: r => nested st false r
  | n :: st, false, .close m :: r => n == m && nested st false r
  | st, false, .text _ :: r => nested st false r
  | st, false, .comment _ :: r => nested st false r
  | st, false, .cdata _ :: r => nested st false r
  | st, false, .charref _ :: r => nested st false r
  | _, _, _ => false

def tokSafe : Tok → Bool
  | .open n => validName n
  | .close n => validName n
  | .attr k v => validName k && attrSafe v
  | .text s => contentSafe s
  | .comment s => commentSafe s
  | _ => true

mutual
def namesValid : Stan → Bool
  | .tag name attrs children =>
    -- the attributes of a transparent tag are never written
    if name.isEmpty then namesValidList children
    else validName name && attrs.all (fun kv => validName kv.1) && namesValidList children
  | _ => true
def namesValidList : List Stan → Bool
  | [] => true
  | t :: ts => namesValid t && namesValidList ts
end

/-- text content of a token stream, decoded (`none` if some token does not decode) -/
def decodeToks : List Tok → Option (List Char)
  | [] => some []
  | .text s :: r => match unescape s, decodeToks r with
    | some a, some b => some (a ++ b)
    | _, _ => none
  | .charref n :: r => (decodeToks r).map (Char.ofNat n :: ·)
  | _ :: r => decodeToks r

/-! ## 6. `deprecate`: identifier validation and template interpolation -/

/-- `str.isidentifier`: the Unicode tables (XID_Start/XID_Continue) are parameters. -/
structure IdTables where
  start : Char → Bool
  cont : Char → Bool

def asciiIdStart (c : Char) : Bool := isLetter c || c = '_'
def asciiIdCont (c : Char) : Bool := isLetter c || c = '_' || isDigit c

/-- ASCII exactly as CPython; non-ASCII characters by the two given lists -/
def tablesOf (xs xc : List Char) : IdTables :=
  { start := fun c => if c.toNat < 128 then asciiIdStart c else xs.contains c,
    cont := fun c => if c.toNat < 128 then asciiIdCont c else xc.contains c }

def isIdentifier (T : IdTables) : List Char → Bool
  | [] => false
  | c :: r => T.start c && r.all T.cont

/-- `str.split('.')` -/
def splitDot : List Char → List (List Char)
  | [] => [[]]
  | c :: r =>
    match splitDot r with
    | [] => [[]]   -- unreachable
    | p :: ps => if c = '.' then [] :: p :: ps else (c :: p) :: ps

/-- `validate_identifier`: `all(p.isidentifier() for p in _text.split('.'))` -/
def validateIdentifier (T : IdTables) (s : List Char) : Bool := (splitDot s).all (isIdentifier T)

/-- Python `str.isspace` / `\s` of `re` on `str` (also the separators of `str.split()`) -/
def isPySpace (c : Char) : Bool :=
  let n := c.toNat
  (9 ≤ n && n ≤ 13) || (28 ≤ n && n ≤ 32) || n == 0x85 || n == 0xA0 || n == 0x1680 ||
  (0x2000 ≤ n && n ≤ 0x200A) || n == 0x2028 || n == 0x2029 || n == 0x202F || n == 0x205F ||
  n == 0x3000

/-- `.replace('\0', ' ')` -/
def nulToSpace (c : Char) : Char := if c.toNat = 0 then ' ' else c

inductive CState where
  | start   -- no word seen yet
  | word    -- inside a word
  | gap     -- after a word, separators seen
  deriving Repr, DecidableEq

/-- `' '.join(s.split())` as a scanner: words are copied, every run of separators between two words
becomes one blank, leading and trailing separators vanish -/
def collapseGo : CState → List Char → List Char
  | _, [] => []
  | .start, c :: r => if isPySpace c then collapseGo .start r else c :: collapseGo .word r
  | .word, c :: r => if isPySpace c then collapseGo .gap r else c :: collapseGo .word r
  | .gap, c :: r => if isPySpace c then collapseGo .gap r else ' ' :: c :: collapseGo .word r

def collapse (s : List Char) : List Char := collapseGo .start s

/-- `str.rstrip(chars)` with the character set as a predicate -/
def rstrip (p : Char → Bool) : List Char → List Char
  | [] => []
  | c :: r =>
    match rstrip p r with
    | [] => if p c then [] else [c]
    | r' => c :: r'

/-- the sanitiser of a non-identifier replacement:
`' '.join(r.replace('\0', ' ').split())`, then `.replace('`', "'")`, then `.rstrip('\\ ')`, and `''` if
nothing is left. `stripBlank = true` is the code as it is (pydoctor commit 782581b); `false` is
`.rstrip('\\')`, the code between 50c0cec and 782581b, kept for `sanitise_guard_counterexample`. -/
def sanitise (stripBlank : Bool) (r : List Char) : List Char :=
  let a := collapse (r.map nulToSpace)
  let b := a.map (fun c => if c = '`' then '\'' else c)
  let c := rstrip (fun c => c = '\\' || (stripBlank && c = ' ')) b
  if c.isEmpty then ['\'', '\''] else c

/-- the replacement as it is put into the template: identifiers as they are, anything else
sanitised and with one more pair of backticks -/
def wrapReplacement (T : IdTables) (r : List Char) : List Char :=
  if validateIdentifier T r then r else '`' :: sanitise true r ++ ['`']

inductive DeprErr where
  | valueError   -- "Invalid package name"
  deriving Repr, DecidableEq

/-- `deprecatedToUsefulText` after argument binding: the text for given name, package, public
version and optional replacement string -/
def deprecationText (T : IdTables) (name package version : List Char)
    (repl : Option (List Char)) : Except DeprErr (List Char) :=
  if !validateIdentifier T package then .error .valueError else
  match repl with
  | some r =>
    .ok (['`', '`'] ++ name ++ ['`', '`', ' ', 'w', 'a', 's', ' ', 'd', 'e', 'p', 'r', 'e', 'c', 'a', 't', 'e', 'd', ' ', 'i', 'n', ' '] ++ package ++ [' '] ++ version ++
      [';', ' ', 'p', 'l', 'e', 'a', 's', 'e', ' ', 'u', 's', 'e', ' ', '`'] ++ wrapReplacement T r ++ ['`', ' ', 'i', 'n', 's', 't', 'e', 'a', 'd', '.'])
  | none =>
    .ok (['`', '`'] ++ name ++ ['`', '`', ' ', 'w', 'a', 's', ' ', 'd', 'e', 'p', 'r', 'e', 'c', 'a', 't', 'e', 'd', ' ', 'i', 'n', ' '] ++ package ++ [' '] ++ version ++ ['.'])

/-! ### the docutils side of the interpolation -/

/-- docutils `string2lines(convert_whitespace=True)`: `[\v\f]` → space, before the text is split -/
def convertWs (c : Char) : Char := if c.toNat = 11 ∨ c.toNat = 12 then ' ' else c

/-- line boundaries of `str.splitlines` that are left after `convertWs` (docutils `string2lines`) -/
def isLineBreak (c : Char) : Bool :=
  let n := c.toNat
  n == 10 || n == 13 || (28 ≤ n && n ≤ 30) || n == 0x85 || n == 0x2028 || n == 0x2029

/-- ASCII members of docutils `end_string_suffix`: `\s`, NUL, closing delimiters `\.,;!?`,
delimiters `-` `/` `:`, closers `"')>]}`; non-ASCII punctuation is not modelled (treated as no suffix) -/
def isEndSuffix (c : Char) : Bool :=
  isPySpace c || c.toNat == 0 ||
  ['\\', '.', ',', ';', '!', '?', '-', '/', ':', '"', '\'', ')', '>', ']', '}'].contains c

/-- `docutils.utils.escape2null` -/
def escape2null : List Char → List Char
  | '\\' :: c :: r => Char.ofNat 0 :: c :: escape2null r
  | ['\\'] => [Char.ofNat 0]
  | c :: r => c :: escape2null r
  | [] => []

/-- `unescape(text, restore_backslashes=True)` -/
def restoreBackslashes (s : List Char) : List Char :=
  s.map (fun c => if c.toNat = 0 then '\\' else c)

/-- `patterns.literal.search(s)`: first position where "``" is not preceded by whitespace and is
followed by the end of the string or an end-string suffix character. `prev` = character before
the current position (`none` at the start of the searched string). Returns the text before the
end-string and the text after it. -/
def literalSearch : Option Char → List Char → Option (List Char × List Char)
  | _, [] => none
  | prev, c :: r =>
    let here : Bool :=
      c = '`' && (match r with
        | '`' :: r2 => (match prev with | some p => !isPySpace p | none => true) &&
            (match r2 with | [] => true | d :: _ => isEndSuffix d)
        | _ => false)
    if here then some ([], r.drop 1)
    else match literalSearch (some c) r with
      | some (t, rest) => some (c :: t, rest)
      | none => none

/-- `Inliner.literal` via `inline_obj` on the (null-escaped) text that follows a recognised
start-string: the literal's text and the remaining source; `none` = "Inline literal start-string
without end-string" (also when the first end-string candidate is at position 0). -/
def literalParse (after : List Char) : Option (List Char × List Char) :=
  match literalSearch none (escape2null after) with
  | some ([], _) => none
  | some (t, rest) => some (restoreBackslashes t, rest)
  | none => none

/-- `(?!\s)` after the start-string: the start-string is only recognised before non-whitespace -/
def literalStartOk : List Char → Bool
  | [] => false
  | c :: _ => !isPySpace c

/-- what docutils makes of the wrapped replacement `r'` (already without `\n`) placed in
"… please use ``r'`` instead.": `broken` = the text spans several lines for `splitlines` (the
directive ends inside the replacement; tab expansion is not modelled), `nolit` = no inline literal is recognised there,
`lit t` = a literal with text `t` followed by source `rest`. -/
inductive LitResult where
  | broken
  | nolit
  | lit (t rest : List Char)
  deriving Repr, DecidableEq

def tailText : List Char := ['`', '`', ' ', 'i', 'n', 's', 't', 'e', 'a', 'd', '.']

/-- `restructuredtext.parse_docstring` (commit ce72216): the `str.splitlines` boundaries that are
not line ends for Python — U+001C–U+001E, U+0085, U+2028, U+2029 — are replaced by a blank before
docutils sees the text -/
def rstPreprocess (c : Char) : Char :=
  let n := c.toNat
  if (28 ≤ n ∧ n ≤ 30) ∨ n = 0x85 ∨ n = 0x2028 ∨ n = 0x2029 then ' ' else c

def interpolatedLiteral (r' : List Char) : LitResult :=
  let r2 := (r'.map rstPreprocess).map convertWs
  if r2.any isLineBreak then .broken
  else if !literalStartOk (r2 ++ tailText) then .nolit
  else match literalParse (r2 ++ tailText) with
    | some (t, rest) => .lit t rest
    | none => .nolit

/-- the hypothesis under which the wrapping is proved to hold the replacement -/
def literalSafe (r : List Char) : Bool :=
  !r.isEmpty && !r.contains '`' && !r.contains '\\' && !r.any (fun c => c.toNat == 0) &&
  !r.any isLineBreak && !r.any (fun c => c.toNat == 9 || c.toNat == 11 || c.toNat == 12) &&
  (match r.head? with | some c => !isPySpace c | none => false) &&
  (match r.getLast? with | some c => !isPySpace c | none => false)


/-! ## 7. markup that pydoctor itself builds from strings -/

/-! ### 7a. a string default value in a signature (`astbuilder._ValueFormatter`, `pages.format_signature`) -/

/-- `_pyval_repr._str_escape` (same transcription as `Pyval.strEscapeChar`; the surrogate fall-back
is unreachable, `Char` has no surrogates) -/
def strEscapeChar (c : Char) : List Char :=
  if c = '\'' then ['\\', '\'']
  else if c = '\t' then ['\\', 't']
  else if c = '\r' then ['\\', 'r']
  else if c = '\n' then ['\\', 'n']
  else if c = Char.ofNat 12 then ['\\', 'f']
  else if c = Char.ofNat 11 then ['\\', 'v']
  else if c = '\\' then ['\\', '\\']
  else if c = Char.ofNat 0 then ['\\', 'x', '0', '0']
  else [c]

def strEscape (s : List Char) : List Char := s.flatMap strEscapeChar

def sigOpen : List Char :=
  ['(', 'a', '=', '<', 's', 'p', 'a', 'n', ' ', 'c', 'l', 'a', 's', 's', '=', '"', 'r', 's', 't', '-', 'v', 'a', 'r', 'i', 'a', 'b', 'l', 'e', '-', 'q', 'u', 'o', 't', 'e', '"', '>', '\'', '<', '/', 's', 'p', 'a', 'n', '>',
   '<', 's', 'p', 'a', 'n', ' ', 'c', 'l', 'a', 's', 's', '=', '"', 'r', 's', 't', '-', 'v', 'a', 'r', 'i', 'a', 'b', 'l', 'e', '-', 's', 't', 'r', 'i', 'n', 'g', '"', '>']
def sigClose : List Char :=
  ['<', '/', 's', 'p', 'a', 'n', '>', '<', 's', 'p', 'a', 'n', ' ', 'c', 'l', 'a', 's', 's', '=', '"', 'r', 's', 't', '-', 'v', 'a', 'r', 'i', 'a', 'b', 'l', 'e', '-', 'q', 'u', 'o', 't', 'e', '"', '>', '\'', '<', '/', 's', 'p', 'a', 'n', '>', ')']
def sigBroken : List Char := ['(', '.', '.', '.', ')']

/-- `flatten(format_signature(f))` for `def f(a=<the one-line string s>)`: the colorizer writes the
escaped string as a docutils text node between two constant quote spans, the translator `encode`s
it, `html2stan` re-parses the HTML (`(...)` when that raises), the flattener writes the text.
The constant spans are well-formed, so the re-parse succeeds iff the text part reads. -/
def formatSigDefault (s : List Char) : List Char :=
  match html2stanText (encode (strEscape s)) with
  | some t => sigOpen ++ escapeForContent t ++ sigClose
  | none => sigBroken

/-! ### 7b. URLs (`Documentable.url`, `urllib.parse.quote`, `linker.taglink`) -/

/-- `urllib.parse.quote` default safe set: `_.-~` letters digits and `/` -/
def quoteSafe (c : Char) : Bool :=
  isLetter c || isDigit c || c = '_' || c = '.' || c = '-' || c = '~' || c = '/'

def hexUp (n : Nat) : Char := if n < 10 then Char.ofNat (48 + n) else Char.ofNat (55 + n)

/-- UTF-8 encoding of a code point -/
def utf8Bytes (n : Nat) : List Nat :=
  if n < 0x80 then [n]
  else if n < 0x800 then [0xC0 + n / 64, 0x80 + n % 64]
  else if n < 0x10000 then [0xE0 + n / 4096, 0x80 + n / 64 % 64, 0x80 + n % 64]
  else [0xF0 + n / 262144, 0x80 + n / 4096 % 64, 0x80 + n / 64 % 64, 0x80 + n % 64]

def quoteChar (c : Char) : List Char :=
  if quoteSafe c then [c]
  else (utf8Bytes c.toNat).flatMap fun b => ['%', hexUp (b / 16), hexUp (b % 16)]

def quote (s : List Char) : List Char := s.flatMap quoteChar

def dotHtml : List Char := ['.', 'h', 't', 'm', 'l']
def indexHtml : List Char := ['i', 'n', 'd', 'e', 'x', '.', 'h', 't', 'm', 'l']

/-- `Documentable.url`: `isRoot` = the page object is the only root; `anchor` = `some name` when
the object is not its own page -/
def docUrl (isRoot : Bool) (pageFullName : List Char) (anchor : Option (List Char)) : List Char :=
  let page := if isRoot then indexHtml else quote pageFullName ++ dotHtml
  match anchor with
  | none => page
  | some n => page ++ '#' :: quote n

/-- the `href` of `linker.taglink`: same-page links drop the file name -/
def taglinkHref (pageUrl url : List Char) : List Char :=
  if !pageUrl.isEmpty && (pageUrl ++ ['#']).isPrefixOf url then url.drop pageUrl.length else url

/-! ### 7c. `node2stan.HTMLTranslator.starttag` and `_valid_identifier` -/

def rstDash : List Char := ['r', 's', 't', '-']

/-- `if not val.startswith('rst-'): val = f'rst-{val}'` (keys `class`, `id`, `name`) -/
def rstPrefix (v : List Char) : List Char := if rstDash.isPrefixOf v then v else rstDash ++ v

/-- hrefs starting with `#` get the prefix after the `#`; any other href makes the link open in
`_top` -/
def mungeHref (v : List Char) : List Char × Bool :=
  match v with
  | '#' :: h => (if rstDash.isPrefixOf h then v else '#' :: rstDash ++ h, false)
  | _ => (v, true)

/-- `str.split()` -/
def splitWordsGo : List Char → List Char → List (List Char)
  | [], cur => if cur.isEmpty then [] else [cur.reverse]
  | c :: r, cur =>
    if isPySpace c then (if cur.isEmpty then splitWordsGo r [] else cur.reverse :: splitWordsGo r [])
    else splitWordsGo r (c :: cur)

def splitWords (s : List Char) : List (List Char) := splitWordsGo s []

def langDash : List Char := ['l', 'a', 'n', 'g', 'u', 'a', 'g', 'e', '-']

/-- docutils `starttag`: class words, `language-…` words set aside, duplicates dropped -/
def classWords : List (List Char) → List (List Char) → List (List Char)
  | [], acc => acc.reverse
  | w :: r, acc =>
    if langDash.isPrefixOf w then classWords r acc
    else if acc.contains w then classWords r acc else classWords r (w :: acc)

def languages (ws : List (List Char)) : List (List Char) :=
  (ws.filter fun w => langDash.isPrefixOf w).map fun w => w.drop langDash.length

def joinSp : List (List Char) → List Char
  | [] => []
  | [w] => w
  | w :: r => w ++ ' ' :: joinSp r

def isHeadingTag : List Char → Bool
  | 'h' :: d :: ds => (d :: ds).all isDigit
  | _ => false

/-- `HTMLTranslator.starttag({}, tag, '', CLASS=v)` of pydoctor's translator: the value gets the
`rst-` prefix (for headings it is replaced by `heading`), docutils splits it into words, moves `language-x` to `lang`,
drops duplicates, and writes what is left through `attval` -/
def starttagClass (tag v : List Char) : List Char :=
  let v1 := rstPrefix v
  -- for headings the override sets `attributes['class']` from `attributes.get('class', '')`: the value given as
  -- `CLASS=` is not found under that key and docutils' `atts[name.lower()] = value` lets `heading` replace it
  let v2 := if isHeadingTag tag then ['h', 'e', 'a', 'd', 'i', 'n', 'g'] else v1
  let ws := splitWords v2
  let cls := classWords ws []
  let langs := languages ws
  '<' :: tag ++
    (if cls.isEmpty then [] else ' ' :: starttagAttr ['c', 'l', 'a', 's', 's'] (joinSp cls)) ++
    (match langs with | [] => [] | l :: _ => ' ' :: starttagAttr ['l', 'a', 'n', 'g'] l) ++ ['>']

/-- `HTMLTranslator.starttag({}, 'a', '', href=v)` -/
def starttagHref (v : List Char) : List Char :=
  let (h, top) := mungeHref v
  ['<', 'a', ' '] ++ starttagAttr ['h', 'r', 'e', 'f'] h ++
    (if top then ' ' :: starttagAttr ['t', 'a', 'r', 'g', 'e', 't'] ['_', 't', 'o', 'p'] else []) ++ ['>']

/-- `_valid_identifier`: `re.sub('[^0-9a-zA-Z_]', '', s)` -/
def validIdentifierCss (s : List Char) : List Char :=
  s.filter fun c => isLetter c || isDigit c || c = '_'


/-! ### 7d. the math filter (`node2stan.HTMLTranslator._is_math_html` / `visit_math`, commit 9d87f54) -/

/-- `_MATH_TAGS` -/
def mathTags : List (List Char) :=
  [['s', 'p', 'a', 'n'], ['d', 'i', 'v'], ['i'], ['b'], ['s', 'u', 'b'], ['s', 'u', 'p'], ['h', 'r'], ['a'], ['b', 'r'],
   ['t', 't'], ['u'], ['b', 'i', 'g'], ['s', 'm', 'a', 'l', 'l'], ['t', 'a', 'b', 'l', 'e'], ['t', 'b', 'o', 'd', 'y'],
   ['t', 'r'], ['t', 'd']]

/-- `_MATH_ATTRS` -/
def mathAttrs : List (List Char) :=
  [['c', 'l', 'a', 's', 's'], ['s', 't', 'y', 'l', 'e'], ['h', 'r', 'e', 'f'], ['n', 'a', 'm', 'e']]

/-- `str.lower` on ASCII (no other character lower-cases to a letter of the three scheme names) -/
def asciiLower (c : Char) : Char :=
  if 65 ≤ c.toNat ∧ c.toNat ≤ 90 then Char.ofNat (c.toNat + 32) else c

/-- `str.strip()` -/
def pyStrip (s : List Char) : List Char := rstrip isPySpace (s.dropWhile isPySpace)

/-- `href.strip().lower().startswith(('javascript:', 'data:', 'vbscript:'))` -/
def scriptHref (v : List Char) : Bool :=
  let h := (pyStrip v).map asciiLower
  ['j', 'a', 'v', 'a', 's', 'c', 'r', 'i', 'p', 't', ':'].isPrefixOf h || ['d', 'a', 't', 'a', ':'].isPrefixOf h ||
    ['v', 'b', 's', 'c', 'r', 'i', 'p', 't', ':'].isPrefixOf h

/-- `dict.get('href', '')` -/
def hrefOf : List (List Char × List Char) → List Char
  | [] => []
  | (k, v) :: r => if k = ['h', 'r', 'e', 'f'] then v else hrefOf r

mutual
/-- the walk of `_is_math_html` over the parsed fragment (as of commit 00f0a02): every element is
one of math2html's own, carries only math2html's attributes, no `href` is a script URL, and every
other child is text — a comment or a CDATA section is refused (a transparent tag is the fragment's
root / dissolves when flattened: only its children count; a character reference is text once the
fragment is parsed) -/
def isMathHtml : Stan → Bool
  | .tag name attrs children =>
    if name.isEmpty then isMathHtmlList children
    else mathTags.contains name && attrs.all (fun kv => mathAttrs.contains kv.1) &&
      !scriptHref (hrefOf attrs) && isMathHtmlList children
  | .text _ => true
  | .charref _ => true
  | .comment _ => false
  | .cdata _ => false
def isMathHtmlList : List Stan → Bool
  | [] => true
  | t :: ts => isMathHtml t && isMathHtmlList ts
end

mutual
/-- the walk before 00f0a02 (9d87f54): children that are not elements were not looked at -/
def isMathHtmlOld : Stan → Bool
  | .tag name attrs children =>
    if name.isEmpty then isMathHtmlOldList children
    else mathTags.contains name && attrs.all (fun kv => mathAttrs.contains kv.1) &&
      !scriptHref (hrefOf attrs) && isMathHtmlOldList children
  | _ => true
def isMathHtmlOldList : List Stan → Bool
  | [] => true
  | t :: ts => isMathHtmlOld t && isMathHtmlOldList ts
end

/-- `visit_math`: `html` is what docutils' math2html wrote (a parameter), `parsed` its `html2stan`
parse (`none` = it raised); the formula's HTML is kept only when the walk accepts it, otherwise the
LaTeX source is written, `encode`d, in `<tt class="…math">` / `<pre class="…math">` -/
def visitMath (html : List Char) (parsed : Option Stan) (src : List Char) (isBlock : Bool) : List Char :=
  let ok := match parsed with
    | some t => isMathHtml t
    | none => false
  if ok then html
  else
    let tag := if isBlock then ['p', 'r', 'e'] else ['t', 't']
    starttagClass tag ['m', 'a', 't', 'h'] ++ encode src ++ ['<', '/'] ++ tag ++ ['>']

/-! ### 7e. the signature of an introspected function (`model._escaped_signature`, commit cac0f25) -/

/-- `flatten(format_signature(f))` for an introspected `f(a=<value>)`: `reprText` is `repr(value)`
(CPython, a parameter); `_EscapedRepr.__repr__` is `html.escape(repr, quote=False)` — `&`, `<`, `>`
in this order, the same function as `escapeForContent` — and `str(signature)` puts it after `(a=` -/
def formatSigIntrospected (reprText : List Char) : List Char :=
  match html2stanText (escapeForContent reprText) with
  | some t => ['(', 'a', '='] ++ escapeForContent t ++ [')']
  | none => sigBroken

/-- before cac0f25 the repr was handed to the XML parser as it was -/
def formatSigIntrospectedOld (reprText : List Char) : Option (List Char) :=
  html2stanText reprText

/-! ### 7f. `stanutils._refuse_template_directives` (commit 8cc9d33) -/

/-- what the walk distinguishes in a tree loaded by twisted's template loader -/
inductive TNode where
  | text                         -- `str`
  | other                        -- comment, CDATA: not looked at
  | slot                         -- `twisted.web.template.slot`
  | tag (name : List Char) (hasRender : Bool) (attrsAreText : Bool) (children : List TNode)
  deriving Repr

mutual
/-- `true` = the function returns, `false` = it raises `ValueError`: no renderer, no transparent
tag, only text attribute values, no slot — anywhere in the tree -/
def directiveFree : TNode → Bool
  | .tag name r a children => !r && !name.isEmpty && a && directiveFreeList children
  | .slot => false
  | _ => true
def directiveFreeList : List TNode → Bool
  | [] => true
  | t :: ts => directiveFree t && directiveFreeList ts
end

end Escape
