import PdModel.Pyval
import PdModel.Proto
import Generated.Tables
/-! Line protocol for the Pyval model.

`pyval render <linelen> <maxlines> <lb> <expr…>` → `ok <is_complete> <u:text>` | `raise <Exc>`
`pyval parse <doc…>`                              → `ok <u:flattened text> <ast…>` | `none <u:text>`

Expressions in prefix notation:
  `n <u:>` name · `d <k> <u:>×k` dotted · `i <hex>` int · `f <u:>` float/complex text · `s <u:>` str ·
  `b <n,n,…|->` bytes · `N`/`T`/`F` None/True/False · `E` ellipsis · `U <Op> e` · `B <Op> e e` ·
  `L <Op> <k> e×k` · `tu|li|se <k> e×k` · `di <k> (key val)×k` (key `ab` = `**`) ·
  `ca f <na> e×na <nk> (<u:name>|- e)×nk` · `su e e` · `st e` · `A a` (astor fragment) · `o <u:one-line> <u:wrapped>` opaque ·
  `un` (astor raised) · `ab` · `ul e` (node reached without a parent link).
Astor fragment: `n <u:>` · `U <Op> a` · `B <Op> a a` · `L <Op> <k> a×k` · `C a <k> (<Op> a)×k` · `I a a a`.
Operators are the `ast` class names. -/
namespace Pyval

open Generated.PyvalPrec in
/-- the precedence table of the astor installed next to the code under test -/
def liveTable : PrecTable where
  unary := fun | .invert => op_Invert | .not => op_Not | .uadd => op_UAdd | .usub => op_USub
  bin := fun
    | .add => op_Add | .sub => op_Sub | .mult => op_Mult | .matMult => op_MatMult | .div => op_Div
    | .mod => op_Mod | .pow => op_Pow | .lShift => op_LShift | .rShift => op_RShift
    | .bitOr => op_BitOr | .bitXor => op_BitXor | .bitAnd => op_BitAnd | .floorDiv => op_FloorDiv
  bool := fun | .and => op_And | .or => op_Or
  cmp := fun
    | .eq => op_Eq | .notEq => op_NotEq | .lt => op_Lt | .ltE => op_LtE | .gt => op_Gt
    | .gtE => op_GtE | .is => op_Is | .isNot => op_IsNot | .in => op_In | .notIn => op_NotIn
  ifExp := node_IfExp
  comma := prec_Comma
  powRHS := prec_PowRHS
  highest := prec_highest
  infExp := inf_exponent

def parseUOp (s : String) : Option UOp := UOp.all.find? (·.name == s)
def parseBOp (s : String) : Option BOp := BOp.all.find? (·.name == s)
def parseLOp (s : String) : Option LOp := LOp.all.find? (·.name == s)
def parseCOp (s : String) : Option COp := COp.all.find? (·.name == s)

def hexVal (c : Char) : Option Nat :=
  if '0' ≤ c ∧ c ≤ '9' then some (c.toNat - 48)
  else if 'a' ≤ c ∧ c ≤ 'f' then some (c.toNat - 87)
  else none

def parseHex (s : String) : Option Nat :=
  if s.isEmpty then none else
  s.toList.foldl (fun acc c => do let a ← acc; let d ← hexVal c; pure (a * 16 + d)) (some 0)

/-- run `p` `k` times -/
def many {α} (p : List String → Option (α × List String)) : Nat → List String → Option (List α × List String)
  | 0, toks => some ([], toks)
  | k + 1, toks => do
    let (x, rest) ← p toks
    let (xs, rest') ← many p k rest
    some (x :: xs, rest')

def parseA : Nat → List String → Option (AExpr × List String)
  | 0, _ => none
  | fuel + 1, toks =>
    match toks with
    | "n" :: s :: rest => do some (.name (← Proto.decodeStr s), rest)
    | "U" :: op :: rest => do
      let o ← parseUOp op
      let (x, rest) ← parseA fuel rest
      some (.unary o x, rest)
    | "B" :: op :: rest => do
      let o ← parseBOp op
      let (l, rest) ← parseA fuel rest
      let (r, rest) ← parseA fuel rest
      some (.binary o l r, rest)
    | "L" :: op :: k :: rest => do
      let o ← parseLOp op
      let (xs, rest) ← many (parseA fuel) (← k.toNat?) rest
      some (.boolop o xs, rest)
    | "C" :: rest => do
      let (l, rest) ← parseA fuel rest
      match rest with
      | k :: rest =>
        let arm : List String → Option ((COp × AExpr) × List String) := fun toks =>
          match toks with
          | op :: rest => do
            let o ← parseCOp op
            let (x, rest) ← parseA fuel rest
            some ((o, x), rest)
          | [] => none
        let (arms, rest) ← many arm (← k.toNat?) rest
        some (.compare l (arms.map (·.1)) (arms.map (·.2)), rest)
      | [] => none
    | "I" :: rest => do
      let (b, rest) ← parseA fuel rest
      let (t, rest) ← parseA fuel rest
      let (o, rest) ← parseA fuel rest
      some (.ifExp b t o, rest)
    | _ => none

def parseE : Nat → List String → Option (Expr × List String)
  | 0, _ => none
  | fuel + 1, toks =>
    match toks with
    | "n" :: s :: rest => do some (.name (← Proto.decodeStr s), rest)
    | "d" :: k :: rest => do
      let (ps, rest) ← many (fun toks => match toks with
        | s :: r => do some ((← Proto.decodeStr s), r)
        | [] => none) (← k.toNat?) rest
      some (.dotted ps, rest)
    | "i" :: h :: rest => do some (.constInt (← parseHex h), rest)
    | "f" :: s :: rest => do some (.constNum (← Proto.decodeStr s), rest)
    | "s" :: s :: rest => do some (.constStr (← Proto.decodeStr s), rest)
    | "b" :: s :: rest => do some (.constBytes (← Proto.natList s), rest)
    | "N" :: rest => some (.constName .none, rest)
    | "T" :: rest => some (.constName .true, rest)
    | "F" :: rest => some (.constName .false, rest)
    | "E" :: rest => some (.ellipsis, rest)
    | "ab" :: rest => some (.absent, rest)
    | "un" :: rest => some (.unknown, rest)
    | "o" :: s :: w :: rest => do some (.opaque (← Proto.decodeStr s) (← Proto.decodeStr w), rest)
    | "A" :: rest => do
      let (a, rest) ← parseA fuel rest
      some (.astor a, rest)
    | "U" :: op :: rest => do
      let o ← parseUOp op
      let (x, rest) ← parseE fuel rest
      some (.unary o x, rest)
    | "B" :: op :: rest => do
      let o ← parseBOp op
      let (l, rest) ← parseE fuel rest
      let (r, rest) ← parseE fuel rest
      some (.binary o l r, rest)
    | "L" :: op :: k :: rest => do
      let o ← parseLOp op
      let (xs, rest) ← many (parseE fuel) (← k.toNat?) rest
      some (.boolop o xs, rest)
    | "tu" :: k :: rest => do
      let (xs, rest) ← many (parseE fuel) (← k.toNat?) rest
      some (.tuple xs, rest)
    | "li" :: k :: rest => do
      let (xs, rest) ← many (parseE fuel) (← k.toNat?) rest
      some (.list xs, rest)
    | "se" :: k :: rest => do
      let (xs, rest) ← many (parseE fuel) (← k.toNat?) rest
      some (.set xs, rest)
    | "di" :: k :: rest => do
      let pair : List String → Option ((Expr × Expr) × List String) := fun toks => do
        let (a, rest) ← parseE fuel toks
        let (b, rest) ← parseE fuel rest
        some ((a, b), rest)
      let (kvs, rest) ← many pair (← k.toNat?) rest
      some (.dict (kvs.map (·.1)) (kvs.map (·.2)), rest)
    | "ca" :: rest => do
      let (f, rest) ← parseE fuel rest
      match rest with
      | na :: rest =>
        let (args, rest) ← many (parseE fuel) (← na.toNat?) rest
        match rest with
        | nk :: rest =>
          let kw : List String → Option ((Option (List Char) × Expr) × List String) := fun toks =>
            match toks with
            | nm :: rest => do
              let name ← (if nm == "-" then some none else (Proto.decodeStr nm).map some)
              let (v, rest) ← parseE fuel rest
              some ((name, v), rest)
            | [] => none
          let (kws, rest) ← many kw (← nk.toNat?) rest
          some (.call f args (kws.map fun kw => .keyword kw.1 kw.2), rest)
        | [] => none
      | [] => none
    | "su" :: rest => do
      let (v, rest) ← parseE fuel rest
      let (s, rest) ← parseE fuel rest
      some (.subscript v s, rest)
    | "st" :: rest => do
      let (x, rest) ← parseE fuel rest
      some (.starred x, rest)
    | "ul" :: rest => do
      let (x, rest) ← parseE fuel rest
      some (.unlinked x, rest)
    | _ => none

/-- concrete syntax trees: `a <u:>` · `g d` · `U <Op> d` · `B <0|1> <Op> l r` · `L <Op> <k> d×k` ·
`C l <k> (<Op> d)×k` · `I b t o` · `tu <0|1> <k> d×k` · `ba <k> d×k` · `li <k> d×k` · `sc <k> d×k` ·
`di <k> (key val)×k` · `ca f <na> d×na <nk> (<u:>|- d)×nk` · `su v idx` · `st d` · `ab` · `j <u:>` -/
def parseD : Nat → List String → Option (Doc × List String)
  | 0, _ => none
  | fuel + 1, toks =>
    match toks with
    | "a" :: s :: rest => do some (.atom (← Proto.decodeStr s), rest)
    | "j" :: s :: rest => do some (.junk (← Proto.decodeStr s), rest)
    | "ab" :: rest => some (.absent, rest)
    | "g" :: rest => do
      let (d, rest) ← parseD fuel rest
      some (.group d, rest)
    | "U" :: op :: rest => do
      let o ← parseUOp op
      let (x, rest) ← parseD fuel rest
      some (.unary o x, rest)
    | "B" :: sp :: op :: rest => do
      let o ← parseBOp op
      let (l, rest) ← parseD fuel rest
      let (r, rest) ← parseD fuel rest
      some (.binary (sp == "1") o l r, rest)
    | "L" :: op :: k :: rest => do
      let o ← parseLOp op
      let (xs, rest) ← many (parseD fuel) (← k.toNat?) rest
      some (.boolop o xs, rest)
    | "C" :: rest => do
      let (l, rest) ← parseD fuel rest
      match rest with
      | k :: rest =>
        let arm : List String → Option ((COp × Doc) × List String) := fun toks =>
          match toks with
          | op :: rest => do
            let o ← parseCOp op
            let (x, rest) ← parseD fuel rest
            some ((o, x), rest)
          | [] => none
        let (arms, rest) ← many arm (← k.toNat?) rest
        some (.compare l (arms.map (·.1)) (arms.map (·.2)), rest)
      | [] => none
    | "I" :: rest => do
      let (b, rest) ← parseD fuel rest
      let (t, rest) ← parseD fuel rest
      let (o, rest) ← parseD fuel rest
      some (.ifExp b t o, rest)
    | "tu" :: tr :: k :: rest => do
      let (xs, rest) ← many (parseD fuel) (← k.toNat?) rest
      some (.tuple xs (tr == "1"), rest)
    | "ba" :: k :: rest => do
      let (xs, rest) ← many (parseD fuel) (← k.toNat?) rest
      some (.bare xs, rest)
    | "li" :: k :: rest => do
      let (xs, rest) ← many (parseD fuel) (← k.toNat?) rest
      some (.list xs, rest)
    | "sc" :: k :: rest => do
      let (xs, rest) ← many (parseD fuel) (← k.toNat?) rest
      some (.setCall xs, rest)
    | "di" :: k :: rest => do
      let pair : List String → Option ((Doc × Doc) × List String) := fun toks => do
        let (a, rest) ← parseD fuel toks
        let (b, rest) ← parseD fuel rest
        some ((a, b), rest)
      let (kvs, rest) ← many pair (← k.toNat?) rest
      some (.dict (kvs.map (·.1)) (kvs.map (·.2)), rest)
    | "ca" :: rest => do
      let (f, rest) ← parseD fuel rest
      match rest with
      | na :: rest =>
        let (args, rest) ← many (parseD fuel) (← na.toNat?) rest
        match rest with
        | nk :: rest =>
          let kw : List String → Option ((Option (List Char) × Doc) × List String) := fun toks =>
            match toks with
            | nm :: rest => do
              let name ← (if nm == "-" then some none else (Proto.decodeStr nm).map some)
              let (v, rest) ← parseD fuel rest
              some ((name, v), rest)
            | [] => none
          let (kws, rest) ← many kw (← nk.toNat?) rest
          some (.call f (args ++ kws.map fun kw => .keyword kw.1 kw.2), rest)
        | [] => none
      | [] => none
    | "su" :: rest => do
      let (v, rest) ← parseD fuel rest
      let (s, rest) ← parseD fuel rest
      some (.subscript v s, rest)
    | "st" :: rest => do
      let (x, rest) ← parseD fuel rest
      some (.starred x, rest)
    | _ => none

mutual
partial def showDoc : Doc → String
  | .atom s => "a " ++ Proto.encodeStr s
  | .junk s => "j " ++ Proto.encodeStr s
  | .absent => "ab"
  | .group d => "g " ++ showDoc d
  | .unary op d => "U " ++ op.name ++ " " ++ showDoc d
  | .binary sp op l r => "B " ++ (if sp then "1 " else "0 ") ++ op.name ++ " " ++ showDoc l ++ " " ++ showDoc r
  | .boolop op ds => "L " ++ op.name ++ " " ++ showDocs ds
  | .compare l ops rs =>
    "C " ++ showDoc l ++ " " ++ toString ops.length ++
      String.join ((ops.zip rs).map fun (o, r) => " " ++ o.name ++ " " ++ showDoc r)
  | .ifExp b t o => "I " ++ showDoc b ++ " " ++ showDoc t ++ " " ++ showDoc o
  | .tuple ds tr => "tu " ++ (if tr then "1 " else "0 ") ++ showDocs ds
  | .bare ds => "ba " ++ showDocs ds
  | .list ds => "li " ++ showDocs ds
  | .setCall ds => "sc " ++ showDocs ds
  | .dict ks vs =>
    "di " ++ toString ks.length ++ String.join ((ks.zip vs).map fun (k, v) => " " ++ showDoc k ++ " " ++ showDoc v)
  | .call f args =>
    let pos := args.filter (!·.isKeyword)
    let kws := args.filter (·.isKeyword)
    "ca " ++ showDoc f ++ " " ++ showDocs pos ++ " " ++ toString kws.length ++
      String.join (kws.map fun k => " " ++ showDoc k)
  | .keyword n v => (match n with | some a => Proto.encodeStr a | none => "-") ++ " " ++ showDoc v
  | .subscript v i => "su " ++ showDoc v ++ " " ++ showDoc i
  | .starred d => "st " ++ showDoc d
partial def showDocs (ds : List Doc) : String :=
  toString ds.length ++ String.join (ds.map fun d => " " ++ showDoc d)
end

def showExc : Exc → String
  | .maxlines => "_Maxlines" | .linebreak => "_Linebreak" | .valueError => "ValueError"
  | .indexError => "IndexError" | .fuel => "Fuel" | .recursion => "RecursionError"

def handle (args : List String) : String :=
  match args with
  | "render" :: ll :: ml :: lb :: toks =>
    match ll.toNat?, ml.toNat?, parseE (toks.length + 1) toks with
    | some ll, some ml, some (e, []) =>
      match colorize liveTable (Cfg.make ll ml (lb == "1")) e with
      | .ok r => "ok " ++ (if r.isComplete then "1 " else "0 ") ++ Proto.encodeStr (itemsText r.items)
      | .error x => "raise " ++ showExc x
    | _, _, _ => "bad-op"
  | ["relit", ins, vb, cp] =>
    match cp.toNat? with
    | some n => "ok " ++ Proto.encodeStr (reLiteral (ins == "1") (vb == "1") (Char.ofNat n))
    | none => "bad-op"
  | ["reref", n, nx] =>
    match n.toNat?, (if nx == "-" then some none else nx.toNat?.map (fun k => some (Char.ofNat k))) with
    | some n, some next => "ok " ++ Proto.encodeStr (reGroupRef n next)
    | _, _ => "bad-op"
  | "aug" :: ll :: ml :: lb :: k :: toks =>
    -- `pyval aug <linelen> <maxlines> <lb> <k> (<Op>|= e)×k`: the statements of one variable, then its display
    let stmt : List String → Option ((Option BOp × Expr) × List String) := fun toks =>
      match toks with
      | op :: rest => do
        let o ← (if op == "=" then some none else (parseBOp op).map some)
        let (e, rest) ← parseE (rest.length + 1) rest
        some ((o, e), rest)
      | [] => none
    match ll.toNat?, ml.toNat?, k.toNat? with
    | some ll, some ml, some k =>
      match many stmt k toks with
      | some (stmts, []) =>
        match storeAll none stmts with
        | some e =>
          match colorize liveTable (Cfg.make ll ml (lb == "1")) e with
          | .ok r => "ok " ++ (if r.isComplete then "1 " else "0 ") ++ Proto.encodeStr (itemsText r.items)
          | .error x => "raise " ++ showExc x
        | none => "novalue"
      | _ => "bad-op"
    | _, _, _ => "bad-op"
  | "parse" :: toks =>
    match parseD (toks.length + 1) toks with
    | some (d, []) =>
      match parseDoc 1 d with
      | some t => "ok " ++ Proto.encodeStr d.flatten ++ " " ++ showDoc t
      | none => "none " ++ Proto.encodeStr d.flatten
    | _ => "bad-op"
  | _ => "bad-op"

end Pyval
