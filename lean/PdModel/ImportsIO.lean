import PdModel.Imports
import PdModel.PyImp
import PdModel.NamesIO
/-! Line protocol for the two sides of the abstract-project models.

`imports build <project> ? <queries>`   pydoctor side (`Imports.run`)
`pyimp run <project> ? <queries>`       CPython side  (`PyImp.run`)

project tokens:
  `M|<path>|<P or M>`                     start of a module / package (`path`: u:… dotted)
  `I|<path>|<as or ->`                    import a.b.c [as x]
  `F|<level>|<path or ->|<name>|<as or ->`  from M import n [as x]
  `S|<level>|<path or ->`                 from M import *
  `C|<name>|<base,base or ->` … `}`       class with its body
  `D|<name>`   `A|<name>|<int>`   `L|<name,name or ->`     def, assignment, __all__
  `O|<ids or ->`                          processing / import order
queries:
  `R|<module id>|<class chain, dotted, or ->|<dotted name>`

answers (imports):  `ok bad=<b> | <object lines sorted> | <answers>`
  object line: `<path>;<cls>;<contents names sorted, comma>;<alias k=v sorted, comma>`
  answer: `m:<path>` / `d:<path>` / `None`
answers (pyimp):    `ok err=<b> | <scope lines sorted> | <answers>`
  scope line: `<scope path>;<name=ident sorted, comma>`
-/
namespace Imports
open Registry

def decName (tok : String) : Option Name := Proto.decodeStr tok

def decOptName (tok : String) : Option (Option Name) :=
  if tok == "-" then some none else (Proto.decodeStr tok).map some

def decOptPath (tok : String) : Option Path :=
  if tok == "-" then some [] else Names.decodePath tok

def decList {α : Type} (f : String → Option α) (tok : String) : Option (List α) :=
  if tok == "-" then some [] else (tok.splitOn ",").mapM f

/-- statements up to (and consuming) the closing `}` or the end of the module -/
def parseStmts : Nat → List String → List Stmt → Option (List Stmt × List String)
  | 0, _, _ => none
  | _, [], acc => some (acc.reverse, [])
  | f+1, t :: ts, acc =>
    if t == "}" then some (acc.reverse, ts)
    else if t.startsWith "M|" || t.startsWith "O|" then some (acc.reverse, t :: ts)
    else
      match t.splitOn "|" with
      | ["I", p, a] => do
        let p ← Names.decodePath p
        let a ← decOptName a
        parseStmts f ts (.importMod p a :: acc)
      | ["F", l, p, n, a] => do
        let l ← l.toNat?
        let p ← decOptPath p
        let n ← decName n
        let a ← decOptName a
        parseStmts f ts (.importFrom l p n a :: acc)
      | ["S", l, p] => do
        let l ← l.toNat?
        let p ← decOptPath p
        parseStmts f ts (.importStar l p :: acc)
      | ["C", n, bs] => do
        let n ← decName n
        let bs ← decList Names.decodePath bs
        let (body, rest) ← parseStmts f ts []
        parseStmts f rest (.classDef n bs body :: acc)
      | ["D", n] => do
        let n ← decName n
        parseStmts f ts (.funcDef n :: acc)
      | ["A", n, v] => do
        let n ← decName n
        let v ← v.toNat?
        parseStmts f ts (.assign n v :: acc)
      | ["L", ns] => do
        let ns ← decList decName ns
        parseStmts f ts (.allAssign ns :: acc)
      | _ => none

def parseProject : Nat → List String → List Module → List Nat → Option (Project × List Nat)
  | 0, _, _, _ => none
  | _, [], acc, ord => some (acc.reverse, ord)
  | f+1, t :: ts, acc, ord =>
    match t.splitOn "|" with
    | ["M", p, k] => do
      let p ← Names.decodePath p
      let (body, rest) ← parseStmts (ts.length + 1) ts []
      parseProject f rest (⟨p, k == "P", body⟩ :: acc) ord
    | ["O", ids] => do
      let ids ← Proto.natList ids
      parseProject f ts acc ids
    | _ => none

structure Query where
  m : Nat
  cp : List Name
  name : Path

def parseQuery (tok : String) : Option Query :=
  match tok.splitOn "|" with
  | ["R", m, cp, n] => do
    let m ← m.toNat?
    let cp ← decOptPath cp
    let n ← Names.decodePath n
    some ⟨m, cp, n⟩
  | _ => none

def showIdent : Option Ident → String
  | some (.mod p) => "m:" ++ showPath p
  | some (.dfn p) => "d:" ++ showPath p
  | none => "None"

def sortStrs (l : List String) : List String := l.mergeSort (fun a b => a ≤ b)

def objLine (st : State) (k : Path) (i : Nat) : String :=
  match getObj st i with
  | none => showPath k ++ ";?"
  | some o =>
    showPath k ++ ";" ++ showCls o.cls ++ ";"
      ++ ",".intercalate (sortStrs (o.contents.map fun e => Proto.encodeStr e.1)) ++ ";"
      ++ ",".intercalate (sortStrs (o.aliases.map fun e => Proto.encodeStr e.1 ++ "=" ++ showPath e.2))

def dumpPd (s : St) : String :=
  " ".intercalate (sortStrs (s.reg.all.map fun e => objLine s.reg e.1 e.2))

def splitArgs (args : List String) : List String × List String :=
  (args.takeWhile (· ≠ "?"), (args.dropWhile (· ≠ "?")).drop 1)

/-- a topological index computed from the import statements (`n` rounds of `rank m = 1 + max rank of the targets`);
on an acyclic project it satisfies `importsOk` -/
def autoRank (proj : Project) : List Nat :=
  let tg (m : Nat) : List Nat :=
    let rec go : List Name → List Stmt → List Nat
      | _, [] => []
      | cp, .classDef n _ body :: rest => go (cp ++ [n]) body ++ go cp rest
      | cp, st :: rest =>
        (stmtTargets proj m st).filterMap id ++
        (match st with
         | .importFrom lvl M n _ =>
           (match target proj m lvl M with
            | some t => (modIdx proj (pathOf proj t ++ [n])).toList
            | none => [])
         | _ => []) ++ go cp rest
    go [] (bodyOf proj m)
  -- the packages above a target are entered first (`aboveOk`)
  let tgA (m : Nat) : List Nat :=
    (tg m).flatMap fun t => t :: (List.range proj.length).filter fun P =>
      isProperPrefix (pathOf proj P) (pathOf proj t) && P != m
  let step (r : List Nat) : List Nat :=
    (List.range proj.length).map fun m => ((tgA m).map fun t => r.getD t 0 + 1).foldl max 0
  (List.range proj.length).foldl (fun r _ => step r) (List.replicate proj.length 0)

def handle (args : List String) : String :=
  match args with
  | "build" :: rest =>
    let (ptoks, qtoks) := splitArgs rest
    match parseProject (ptoks.length + 1) ptoks [] [], qtoks.mapM parseQuery with
    | some (proj, ord), some qs =>
      let s := run proj ord
      "ok bad=" ++ toString s.bad ++ " | " ++ dumpPd s ++ " | "
        ++ " ".intercalate (qs.map fun q =>
            match walk s.reg q.m q.cp with
            | none => "NoScope"
            | some i =>
              match Names.expandName (finalEnv s) i q.name with
              | none => "Crash"
              | some _ => showIdent (resolveIn s q.m q.cp q.name))
    | _, _ => "bad-request"
  | "wf" :: rest =>
    -- `imports wf <project> O|<rank of every module>`: the components of `WF`
    match parseProject (rest.length + 1) rest [] [] with
    | some (proj, rank) =>
      let b (x : Bool) : String := if x then "1" else "0"
      "ok wf=" ++ b (WF proj rank) ++ " modules=" ++ b (modulesOk proj) ++ " paths=" ++ b (pathsUnique proj)
        ++ " imports=" ++ b (importsOk proj rank) ++ " once=" ++ b (boundOnce proj rank)
        ++ " nobases=" ++ b (noBases proj) ++ " nostarinclass=" ++ b (noStarInClass proj)
        ++ " noreexport=" ++ b (noReexport proj) ++ " roots=" ++ b (rootsReserved proj)
        ++ " names=" ++ b (namesOk proj) ++ " unique=" ++ b (namesUnique proj) ++ " basesne=" ++ b (basesNonempty proj)
        ++ " classimports=" ++ b (classImportsUnique proj)
    | none => "bad-request"
  | "rsound" :: rest =>
    -- `imports rsound <project> O|<rank> ? <order> <order> …`: the hypothesis `WFr` of the re-export statement and the
    -- bounded search for a counterexample (every dotted name of ≤ 3 components over the project's identifiers, every
    -- scope, every given processing order × the first order and its reverse as Python import orders)
    let (ptoks, otoks) := splitArgs rest
    match parseProject (ptoks.length + 1) ptoks [] [], otoks.mapM Proto.natList with
    | some (proj, rank0), some ords =>
      let rank := if rank0.isEmpty then autoRank proj else rank0
      let b (x : Bool) : String := if x then "1" else "0"
      let pyords := match ords with | o :: _ => [o, o.reverse] | [] => []
      let r := soundViolations proj ords pyords 2
      "ok wfr=" ++ b (WFr proj rank) ++ " shape=" ++ b (reexportShape proj) ++ " reqs=" ++ toString (reexportReqs proj).length
        ++ " checked=" ++ toString r.2 ++ " viol=" ++ toString r.1.length
        ++ (match r.1 with
            | v :: _ => " first=" ++ toString v.1 ++ ";" ++ showPath v.2.1 ++ ";" ++ showPath v.2.2.1 ++ ";"
                ++ showIdent (some v.2.2.2.1) ++ ";" ++ showIdent (some v.2.2.2.2)
            | [] => "")
    | _, _ => "bad-request"
  | _ => "bad-op"

end Imports

namespace PyImp
open Registry Imports

def showVal (proj : Project) (s : St) (v : Val) : String := Imports.showIdent (identOf proj s v)

def nsLine (proj : Project) (s : St) (scope : Path) (ns : Ns) : String :=
  showPath scope ++ ";" ++ ",".intercalate
    (Imports.sortStrs (ns.map fun e => Proto.encodeStr e.1 ++ "=" ++ showVal proj s e.2))

/-- the namespaces of the classes reachable from a namespace through their defining names -/
def classLines (proj : Project) (s : St) : Nat → Path → Ns → List String
  | 0, _, _ => []
  | f+1, scope, ns =>
    ns.flatMap fun e =>
      match e.2 with
      | .cls h =>
        match s.heap[h]? with
        | some co =>
          if pathOf proj co.mod ++ co.cp == scope ++ [e.1] then
            nsLine proj s (scope ++ [e.1]) co.ns :: classLines proj s f (scope ++ [e.1]) co.ns
          else []
        | none => []
      | _ => []

def dumpPy (proj : Project) (s : St) : String :=
  " ".intercalate (Imports.sortStrs (((List.range proj.length).flatMap fun m =>
    nsLine proj s (pathOf proj m) (nsOf s m) :: classLines proj s 8 (pathOf proj m) (nsOf s m))))

def handle (args : List String) : String :=
  match args with
  | "run" :: rest =>
    let (ptoks, qtoks) := Imports.splitArgs rest
    match Imports.parseProject (ptoks.length + 1) ptoks [] [], qtoks.mapM Imports.parseQuery with
    | some (proj, ord), some qs =>
      let s := run proj ord
      if s.err then "ok err=true" else
      "ok err=false | " ++ dumpPy proj s ++ " | "
        ++ " ".intercalate (qs.map fun q => Imports.showIdent (denoteAt proj s q.m q.cp q.name)
            -- `+`: every class step of the name stays in the class's own namespace (`pyOwn`)
            ++ (match walkNs s (nsOf s q.m) q.cp with
                | some ns => if ownIn s ns q.name then "+" else "-"
                | none => "+"))
    | _, _ => "bad-request"
  | _ => "bad-op"

end PyImp
