import PdModel.Names
import PdModel.RegistryIO
/-! Line protocol: `names q <state tokens> ? <query tokens>`
state: `O|cls|name|parent|k=id,…|k=path,…`  (objects in id order; names u:…, paths u:… dotted)
       `K|path|id` (allobjects, in order)  `T|ids`  (roots)  `X|cls|ids` (mro)
query: `E|obj|dotted` expandName · `R|obj|dotted` resolveName · `F|dotted` find_object
`names rel <modpath> <P|M> <level>` relative import base (pydoctor and Python's rule). -/
namespace Names
open Registry

def splitDots (cs : List Char) : Path := cs.splitOn '.'

def decodePath (tok : String) : Option Path := (Proto.decodeStr tok).map splitDots

def parseKV (tok : String) : Option (List (String × String)) :=
  if tok == "" || tok == "-" then some [] else
  (tok.splitOn ",").mapM fun kv =>
    match kv.splitOn "=" with
    | [k, v] => some (k, v)
    | _ => none

def parseObj (tok : String) : Option Obj :=
  match tok.splitOn "|" with
  | ["O", c, n, p, cont, al] => do
    let c ← parseCls c
    let n ← Proto.decodeStr n
    let p ← if p == "-" then some none else (p.toNat?).map some
    let cont ← parseKV cont
    let cont ← cont.mapM fun (k, v) => do
      let k ← Proto.decodeStr k
      let v ← v.toNat?
      some (k, v)
    let al ← parseKV al
    let al ← al.mapM fun (k, v) => do
      let k ← Proto.decodeStr k
      let v ← decodePath v
      some (k, v)
    some ⟨n, p, c, cont, al⟩
  | _ => none

structure Acc where
  objs : List Obj := []
  all : List (Path × Nat) := []
  roots : List Nat := []
  mro : List (Nat × List Nat) := []

def parseState : List String → Acc → Option Acc
  | [], a => some a
  | t :: ts, a =>
    if t.startsWith "O|" then do
      let o ← parseObj t
      parseState ts { a with objs := a.objs ++ [o] }
    else match t.splitOn "|" with
      | ["K", p, i] => do
        let p ← decodePath p
        let i ← i.toNat?
        parseState ts { a with all := a.all ++ [(p, i)] }
      | ["T", ids] => do
        let ids ← Proto.natList ids
        parseState ts { a with roots := ids }
      | ["X", c, ids] => do
        let c ← c.toNat?
        let ids ← Proto.natList ids
        parseState ts { a with mro := a.mro ++ [(c, ids)] }
      | _ => none

def showOptPath : Option Path → String
  | some p => showPath p
  | none => "Crash"

def answer (e : Env) (q : String) : String :=
  match q.splitOn "|" with
  | ["E", o, n] =>
    match o.toNat?, decodePath n with
    | some o, some n => showOptPath (expandName e o n)
    | _, _ => "bad-query"
  | ["R", o, n] =>
    match o.toNat?, decodePath n with
    | some o, some n =>
      match expandName e o n with
      | none => "Crash"
      | some _ => match resolveName e o n with
        | some i => toString i
        | none => "None"
    | _, _ => "bad-query"
  | ["F", n] =>
    match decodePath n with
    | some n =>
      match findObject e n with
      | .obj i => toString i
      | .external => "None"
      | .lookupError => "LookupError"
      | .indexError => "IndexError"
      | .crash => "Crash"
    | none => "bad-query"
  | _ => "bad-query"

def handle (args : List String) : String :=
  match args with
  | "q" :: rest =>
    let st := rest.takeWhile (· ≠ "?")
    let qs := (rest.dropWhile (· ≠ "?")).drop 1
    match parseState st {} with
    | none => "bad-state"
    | some a =>
      let e : Env := ⟨⟨a.objs, a.all, a.roots⟩, a.mro⟩
      "ok " ++ " ".intercalate (qs.map (answer e))
  | ["rel", mp, pk, lvl] =>
    match decodePath mp, lvl.toNat? with
    | some mp, some lvl =>
      "ok " ++ (match relativeBase mp (pk == "P") lvl with | some p => showPath p | none => "too-high")
        ++ " " ++ (match pythonRelativeBase mp (pk == "P") lvl with | some p => showPath p | none => "ImportError")
    | _, _ => "bad-op"
  | _ => "bad-op"

end Names
