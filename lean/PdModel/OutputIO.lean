import PdModel.Output
import PdModel.Proto
/-! Line protocol of the Output model:

`output run <depth> <nosidebar 0|1> <roots natlist> <all natlist> <obj> <obj> …`

obj = `kind|name|parent|privacy|contents|hasdoc|docsource|xrefs|annrefs|bases|basenames|mro|subclasses|sigrefs|ctors|docctx|module|valrefs|ownctx|laterefs`
  kind ∈ P M C F A; name `u:…`; parent / docsource `-` or a number; privacy ∈ H R U;
  lists `-` or comma separated; bases / sigrefs items `x` (None) or a number; basenames items `u:…`.

Answer: `ok wf=<0|1> | <section> <item>… | …`, items sorted and duplicate-free.
file = `I` | `S:<stem>` | `P:<u:fullName>`; href = `<file or ->#<u:fragment or ->`.
Row sections list hyperlinks (and member details); `roottexts` the root rows written without a link. -/
namespace Output

def parseKind : String → Option Kind
  | "P" => some .package | "M" => some .module | "C" => some .cls
  | "F" => some .function | "A" => some .attribute | _ => none

def parseLevel : String → Option Level
  | "H" => some .hidden | "R" => some .priv | "U" => some .pub | _ => none

def parseOptNat (t : String) : Option (Option Nat) :=
  if t == "-" then some none else t.toNat?.map some

def parseOptList (t : String) : Option (List (Option Nat)) :=
  if t == "-" then some [] else (t.splitOn ",").mapM fun x => if x == "x" then some none else x.toNat?.map some

def parseNames (t : String) : Option (List Name) :=
  if t == "-" then some [] else (t.splitOn ",").mapM Proto.decodeStr

def parseObj (tok : String) : Option Obj :=
  match tok.splitOn "|" with
  | [k, nm, par, pr, cont, hd, ds, xr, an, bs, bn, mro, sub, sg, ct, dc, md, vr, oc, lr] => do
    let k ← parseKind k
    let nm ← Proto.decodeStr nm
    let par ← parseOptNat par
    let pr ← parseLevel pr
    let cont ← Proto.natList cont
    let ds ← parseOptNat ds
    let xr ← Proto.natList xr
    let an ← Proto.natList an
    let bs ← parseOptList bs
    let bn ← parseNames bn
    let mro ← Proto.natList mro
    let sub ← Proto.natList sub
    let sg ← parseOptList sg
    let ct ← Proto.natList ct
    let dc ← parseOptNat dc
    let md ← parseOptNat md
    let vr ← Proto.natList vr
    let oc ← parseOptNat oc
    let lr ← Proto.natList lr
    some { name := nm, kind := k, parent := par, privacy := pr, contents := cont, hasDoc := hd == "1",
           docSource := ds, xrefs := xr, annrefs := an, bases := bs, baseNames := bn, mro := mro,
           subclasses := sub, sigrefs := sg, ctors := ct, docCtx := dc, modul := md,
           valrefs := vr, ownCtx := oc, laterefs := lr }
  | _ => none

def optIds : List (Option Nat) → List Nat := fun l => l.filterMap id

/-- every id mentioned is inside the table -/
def idsInRange (s : Sys) : Bool :=
  let ok := fun (i : Nat) => decide (i < s.n)
  s.roots.all ok && s.all.all ok && s.objs.all fun o =>
    (match o.parent with | none => true | some p => ok p) && o.contents.all ok
    && (match o.docSource with | none => true | some p => ok p) && (match o.docCtx with | none => true | some p => ok p)
    && (match o.modul with | none => true | some p => ok p) && o.xrefs.all ok && o.annrefs.all ok && o.valrefs.all ok && o.laterefs.all ok
    && (match o.ownCtx with | none => true | some p => ok p)
    && (optIds o.bases).all ok && o.mro.all ok && o.subclasses.all ok && (optIds o.sigrefs).all ok && o.ctors.all ok

def showSPage : SPage → String
  | .moduleIndex => "moduleIndex" | .classIndex => "classIndex" | .nameIndex => "nameIndex"
  | .undocced => "undoccedSummary" | .allDocuments => "all-documents"

def showFile : File → String
  | .index => "I"
  | .summary p => "S:" ++ showSPage p
  | .page f => "P:" ++ Proto.encodeStr f

def showFrag : Option Name → String
  | none => "-"
  | some n => Proto.encodeStr n

def showHref (h : Href) : String :=
  (match h.file with | none => "-" | some f => showFile f) ++ "#" ++ showFrag h.frag

def showUrl (u : Option Url) : String :=
  match u with
  | none => "AssertionError"
  | some u => showFile u.file ++ "#" ++ showFrag u.frag

def showBool (b : Bool) : String := if b then "1" else "0"

def dedupSorted : List String → List String
  | a :: b :: r => if a == b then dedupSorted (b :: r) else a :: dedupSorted (b :: r)
  | l => l

def canon (l : List String) : String :=
  " ".intercalate (dedupSorted (l.toArray.qsort (· < ·)).toList)

def rowName : Row → String
  | .table => "table" | .initTable => "inittable" | .baseTable => "basetable" | .detail => "detail"
  | .sidebarTitle => "sidebar-title" | .sidebarItem => "sidebar" | .sidebarInherited => "sidebar-inherited"
  | .heading => "heading" | .classSig => "classsig" | .knownSub => "knownsub" | .overrides => "overrides"
  | .overriddenIn => "overriddenin" | .baseName => "basename" | .baseVia => "basevia"
  | .docXref => "docxref" | .fieldXref => "fieldxref" | .annXref => "annxref" | .valXref => "valxref" | .extraInfo => "extra" | .sumCopy => "sumcopy"
  | .modIndexRoot => "modindex-root" | .modIndex => "modindex" | .modIndexSum => "modindex-sum"
  | .classIndex => "classindex" | .classIndexSum => "classindex-sum" | .nameIndex => "nameindex"
  | .undoc => "undoc" | .indexRoots => "indexroots" | .allDocs => "alldocs" | .allDocsSum => "alldocs-sum"

def allRows : List Row :=
  [.table, .initTable, .baseTable, .detail, .sidebarTitle, .sidebarItem, .sidebarInherited, .heading, .classSig,
   .knownSub, .overrides, .overriddenIn, .baseName, .baseVia, .docXref, .fieldXref, .annXref, .valXref, .extraInfo, .sumCopy,
   .modIndexRoot, .modIndex, .modIndexSum, .classIndex, .classIndexSum, .nameIndex, .undoc, .indexRoots,
   .allDocs, .allDocsSum]

def showEmit (s : Sys) (e : Emit) : String :=
  let m := match e.marked with | none => "" | some b => ">" ++ showBool b
  match e.row with
  | .detail => showFile e.page ++ ">" ++ Proto.encodeStr (s.ob e.target).name ++ m
  | .allDocs => Proto.encodeStr (fullName s e.target) ++ ">" ++ showUrl (url s e.target) ++ m
  | .classIndex =>
    -- where the marker sits: on the node `<li>` (`n`), on the row `<div>` alone (`r`), nowhere (`0`)
    showFile e.page ++ ">" ++ (match href s e with | none => "AssertionError" | some h => showHref h) ++ ">" ++
      (if classNodePrivate s s.n e.target then "n" else if e.marked == some true then "r" else "0")
  | _ =>
    showFile e.page ++ ">" ++ (match href s e with | none => "AssertionError" | some h => showHref h) ++ m

/-- `anchorsOf s f` read from a table computed once per written file (instead of once per link) -/
def anchorLookup (s : Sys) (tbl : List (File × List Name)) (f : File) : List Name :=
  match tbl.find? (fun x => x.1 == f) with
  | some x => x.2
  | none => anchorsOf s f

def answer (s : Sys) : String :=
  let es := emits s
  let w := written s
  let tbl := w.eraseDups.map fun f => (f, anchorsOf s f)
  let anch := anchorLookup s tbl
  let sec (name : String) (items : List String) : String := name ++ " " ++ canon items
  let rows := allRows.map fun r => sec (rowName r) ((es.filter fun e => e.row = r && e.linked).map (showEmit s))
  " | ".intercalate (
    [ "ok wf=" ++ showBool (wf s) ++ " hwf=" ++ showBool (hierWf s),
      sec "files" ((written s).map showFile),
      sec "anchors" ((pages s).flatMap fun p => (anchorsOf s (pageFile s p)).map fun a => showFile (pageFile s p) ++ ">" ++ Proto.encodeStr a),
      sec "classanchors" ((anchorsOf s (.summary .classIndex)).map Proto.encodeStr),
      sec "letters" ((letters s).map fun c => Proto.encodeStr [c]),
      sec "letterlinks" ((letterLinks s).map fun (a, b) => Proto.encodeStr [a] ++ ">" ++ Proto.encodeStr [b]),
      sec "classtexts" ((classIndexTexts s).map fun (n, m) => Proto.encodeStr n ++ ">" ++ showBool m),
      sec "search" ((searchDocs s).map fun o => Proto.encodeStr (fullName s o)),
      sec "inventory" ((inventory s).map fun o => Proto.encodeStr (fullName s o) ++ ">" ++ showUrl (url s o)),
      sec "inhierarchy" ((inHierarchy s).map fun (f, n) => showFile f ++ ">" ++ showFile (.summary .classIndex) ++ "#" ++ Proto.encodeStr n),
      sec "roottexts" ((es.filter fun e => !e.linked).map fun e =>
          showFile e.page ++ ">" ++ Proto.encodeStr (s.ob e.target).name ++ ">" ++
            (match e.marked with | none => "-" | some b => showBool b)),
      sec "dead" ((es.filter fun e => !resolvesIn s w anch e).map fun e => rowName e.row ++ ":" ++ showEmit s e),
      sec "hiddenlinks" ((es.filter fun e => !visible s e.target).map fun e => rowName e.row ++ ":" ++ showEmit s e),
      sec "unmarked" ((es.filter fun e => e.row.listing && (s.ob e.target).privacy == .priv && e.marked != some true).map
                        fun e => rowName e.row ++ ":" ++ showEmit s e) ]
    ++ rows)

def handle (args : List String) : String :=
  match args with
  | "run" :: depth :: nosb :: roots :: all :: objToks =>
    match depth.toNat?, Proto.natList roots, Proto.natList all, objToks.mapM parseObj with
    | some d, some r, some a, some objs =>
      let s : Sys := { objs := objs.toArray, all := a, roots := r, depth := d, nosidebar := nosb == "1" }
      if idsInRange s then answer s else "bad-ids"
    | _, _, _, _ => "bad-op"
  | _ => "bad-op"

end Output
