import PdModel.Config
import PdModel.Proto
/-! Line protocol for the Config model (driver keyword `config`).

```
config isq <t|s> <str>                      → True | False                       (is_quoted(text, triple))
config unq <t|s> <str>                      → ok <str> | ValueError | unmodelled  (unquote_str)
config quote <1d|1s|3d|3s|r1d|r1s|r3d|r3s> <str> → <quoted> <isq> <unq…>          (quote1/quote3 or the raw-NUL variants, then both)
config isqold <t|s> <str> / unqold <t|s> <str>  → the recogniser / unquote_str before commits 65e15f6, cada0b1
config inival <basic|none> <0|1> <str>      → skip | str <str> | list <str>* | error:<e> | unmodelled
        (none = the code today, `iniValue`; basic = `iniValueOld basicInterp`, before commit d27392d)
config iniline <str>                        → <str>                               (str.strip)
config space <lo> <hi>                      → code points in [lo,hi) with str.isspace()
config evallist <str>                       → ok <str>* | error | unmodelled
config interp <str>                         → ok <str> | error | unmodelled       (BasicInterpolation)
config tomlitem <tv>                        → str <str> | list <str>* | unmodelled
        tv = s:<str> | i:<int> | b:<0|1> | o | L <scalar>*
config tomlpick <n> <sec>* <m> (<sec> <k>)* → index of the picked section | -
config iniitems <basic|none> <n> <sec>* <m> (<sec> <k> (<key> <raw>)*)* → items | refused | unmodelled
config table <n> <opt>*                     → flags:<0|1> keys:<0|1> nosep:<0|1> | <keys of opt 1> | …
config validate <n> <opt>* <m> <key>*       → keep <key>* | warn <key>*
        opt = <store|append|flag|count> <nflags> <flag>*
config merge <n> <opt>* F <f> (<k> (<key> <val>)*)* C <c> <raw>*
        val = s:<str> | l:<str>,<str>…  (l: alone = empty list)
        → ok argv <raw>* | warn <key>* | eff <eff>*      or  error:<e> | warn <key>*
```
config section <str>                        → ok <str>* | unmodelled             (parse_toml_section_name)
config tomlparse <n> (<k> <str>*)* <node>   → ok (<key> <val>)* | AttributeError | unmodelled   (TomlConfigParser.parse after toml.load)
        node = T <n> (<key> <node>)* | S <str> | I <int> | B <0|1> | L <n> <scalar>* | LX <n> | O
config composite <name|-> <0|1> <0|1> <kinds> → toml | ini | error  | tried <kinds>          (CompositeConfigParser.parse)
config makehtml <g> <t> <m> / template <explicit|-> <base|-> / verbosity <nv> <nq> / sidebar <e> <t>   (Options.from_namespace …)
All `<str>` are `u:` code-point lists (Proto). -/
namespace Config

open Proto

def showStrs (l : List Str) : String := " ".intercalate (l.map encodeStr)

/-- `name w1 w2 …` with single spaces and no trailing blank -/
def sect (name : String) (ws : List String) : String :=
  if ws.isEmpty then name else name ++ " " ++ " ".intercalate ws

def showEval : EvalR → String
  | .ok s => "ok " ++ encodeStr s
  | .valueError => "ValueError"
  | .unmodelled => "unmodelled"

def showIniVal : IniVal → String
  | .skip => "skip"
  | .str s => "str " ++ encodeStr s
  | .list l => sect "list" (l.map encodeStr)
  | .error .interpolation => "error:interpolation"
  | .error .listEval => "error:listEval"
  | .error .unquote => "error:unquote"
  | .unmodelled => "unmodelled"

def showFileVal : FileVal → String
  | .str s => "s:" ++ encodeStr s
  | .list l => "l:" ++ ",".intercalate (l.map encodeStr)

def parseInterp : String → Option (Str → InterpR)
  | "basic" => some basicInterp
  | "none" => some noInterp
  | _ => none

def parseBool01 : String → Option Bool
  | "0" => some false | "1" => some true | _ => none

/-- take `n` decoded strings -/
def takeStrs : Nat → List String → Option (List Str × List String)
  | 0, toks => some ([], toks)
  | n + 1, t :: toks => do
    let s ← decodeStr t
    let (l, rest) ← takeStrs n toks
    some (s :: l, rest)
  | _, [] => none

def parseKind : String → Option Kind
  | "store" => some .store | "append" => some .append | "flag" => some .flag | "count" => some .count
  | _ => none

def takeOpts : Nat → List String → Option (List Opt × List String)
  | 0, toks => some ([], toks)
  | n + 1, k :: nf :: toks => do
    let kind ← parseKind k
    let nfl ← nf.toNat?
    let (flags, rest) ← takeStrs nfl toks
    let (os, rest') ← takeOpts n rest
    some (⟨flags, kind⟩ :: os, rest')
  | _, _ => none

def parseFileVal (tok : String) : Option FileVal :=
  if tok.startsWith "s:" then (decodeStr (tok.drop 2).toString).map .str
  else if tok.startsWith "l:" then
    let body := (tok.drop 2).toString
    if body.isEmpty then some (.list []) else ((body.splitOn ",").mapM decodeStr).map .list
  else none

def takeItems : Nat → List String → Option (List (Str × FileVal) × List String)
  | 0, toks => some ([], toks)
  | n + 1, k :: v :: toks => do
    let key ← decodeStr k
    let val ← parseFileVal v
    let (l, rest) ← takeItems n toks
    some ((key, val) :: l, rest)
  | _, _ => none

def takeFiles : Nat → List String → Option (List (List (Str × FileVal)) × List String)
  | 0, toks => some ([], toks)
  | n + 1, k :: toks => do
    let ni ← k.toNat?
    let (items, rest) ← takeItems ni toks
    let (fs, rest') ← takeFiles n rest
    some (items :: fs, rest')
  | _, _ => none

def takeRawPairs : Nat → List String → Option (List (Str × Str) × List String)
  | 0, toks => some ([], toks)
  | n + 1, k :: v :: toks => do
    let key ← decodeStr k
    let val ← decodeStr v
    let (l, rest) ← takeRawPairs n toks
    some ((key, val) :: l, rest)
  | _, _ => none

def takeIniSections : Nat → List String → Option (List (Str × List (Str × Str)) × List String)
  | 0, toks => some ([], toks)
  | n + 1, s :: k :: toks => do
    let sec ← decodeStr s
    let ni ← k.toNat?
    let (items, rest) ← takeRawPairs ni toks
    let (more, rest') ← takeIniSections n rest
    some ((sec, items) :: more, rest')
  | _, _ => none

def takePresent : Nat → Nat → List String → Option (List (Str × List Nat) × List String)
  | 0, _, toks => some ([], toks)
  | n + 1, idx, s :: k :: toks => do
    let sec ← decodeStr s
    let ni ← k.toNat?
    let (more, rest) ← takePresent n (idx + 1) toks
    some ((sec, List.replicate ni idx) :: more, rest)
  | _, _, _ => none

def parseScalar (tok : String) : Option TomlScalar :=
  if tok.startsWith "s:" then (decodeStr (tok.drop 2).toString).map .str
  else if tok.startsWith "i:-" then ((tok.drop 3).toString.toNat?).map fun n => .int (- (Int.ofNat n))
  else if tok.startsWith "i:" then ((tok.drop 2).toString.toNat?).map fun n => .int (Int.ofNat n)
  else if tok == "b:1" then some (.bool true)
  else if tok == "b:0" then some (.bool false)
  else if tok == "o" then some .other
  else none

def showEff : Eff → String
  | .one none => "one:-"
  | .one (some v) => "one:" ++ encodeStr v
  | .many l => "many:" ++ ",".intercalate (l.map encodeStr)
  | .flag b => "flag:" ++ (if b then "1" else "0")
  | .count n => "count:" ++ toString n
  | .unmodelled => "unmodelled"

def showMergeErr : MergeErr → String
  | .badBool => "badBool" | .listToStore => "listToStore" | .assertion => "assertion"
  | .intValueError => "intValueError" | .noFlags => "noFlags" | .badValue => "badValue"

/-- warnings in the order the files are processed (last file first) -/
def allWarnings (table : List Opt) (files : List (List (Str × FileVal))) : List Str :=
  files.reverse.flatMap fun f => (validate table f).2

/-- warnings issued before the merge stops at an error: files are validated one at a time -/
def warningsUntilError (table : List Opt) (cli : List Arg) : List (List (Str × FileVal)) → List Str
  | [] => []
  | f :: more =>
    -- the validator walks the items in order and stops at the first value it refuses
    (validate table (f.takeWhile fun kv => !itemBad table kv)).2 ++
      (match mergeFile table cli f with
       | .ok args => warningsUntilError table args more
       | .error _ => [])

/-- `T <n> (<key> <node>)* | S <str> | I <int> | B <0|1> | L <n> <scalar>* | LX <n> | O` -/
def parseInt (tok : String) : Option Int :=
  if tok.startsWith "-" then ((tok.drop 1).toString.toNat?).map fun n => - (Int.ofNat n)
  else tok.toNat?.map Int.ofNat

def takeScalars : Nat → List String → Option (List TomlScalar × List String)
  | 0, toks => some ([], toks)
  | n + 1, t :: toks => do
    let s ← parseScalar t
    let (l, rest) ← takeScalars n toks
    some (s :: l, rest)
  | _, [] => none

def parseNode : Nat → List String → Option (TNode × List String)
  | 0, _ => none
  | fuel + 1, toks =>
    match toks with
    | "T" :: n :: rest => do
      let k ← n.toNat?
      let rec kvs (f : Nat) (m : Nat) (ts : List String) : Option (List (Str × TNode) × List String) :=
        match f, m, ts with
        | _, 0, ts => some ([], ts)
        | 0, _, _ => none
        | f + 1, m + 1, key :: ts' => do
          let kk ← decodeStr key
          let (node, ts'') ← parseNode fuel ts'
          let (more, ts''') ← kvs f m ts''
          some ((kk, node) :: more, ts''')
        | _, _, [] => none
      let (l, rest') ← kvs (rest.length + 1) k rest
      some (.table l, rest')
    | "S" :: s :: rest => (decodeStr s).map fun x => (.str x, rest)
    | "I" :: i :: rest => (parseInt i).map fun x => (.int x, rest)
    | "B" :: b :: rest => (parseBool01 b).map fun x => (.bool x, rest)
    | "L" :: n :: rest => do
      let k ← n.toNat?
      let (l, rest') ← takeScalars k rest
      some (.list l true, rest')
    | "LX" :: n :: rest => do
      let k ← n.toNat?
      some (.list (List.replicate k .other) false, rest)
    | "O" :: rest => some (.other, rest)
    | _ => none

def takePaths : Nat → List String → Option (List (List Str) × List String)
  | 0, toks => some ([], toks)
  | n + 1, k :: toks => do
    let m ← k.toNat?
    let (p, rest) ← takeStrs m toks
    let (ps, rest') ← takePaths n rest
    some (p :: ps, rest')
  | _, [] => none

def parseKinds (s : String) : Option (List ParserKind) :=
  if s == "-" then some [] else
  s.toList.mapM fun c => if c = 't' then some .toml else if c = 'i' then some .ini else none

def handle7 (args : List String) : Option String :=
  match args with
  | ["section", s] =>
    (decodeStr s).map fun name =>
      match parseSectionName name with
      | some parts => sect "ok" (parts.map encodeStr)
      | none => "unmodelled"
  | "tomlparse" :: n :: toks => do
    let k ← n.toNat?
    let (paths, rest) ← takePaths k toks
    let (doc, rest') ← parseNode (rest.length + 1) rest
    if !rest'.isEmpty then none else
    match doc with
    | .table kvs =>
      some (match tomlParse paths kvs with
        | .ok items => sect "ok" (items.map fun kv => encodeStr kv.1 ++ " " ++ showFileVal kv.2)
        | .attributeError => "AttributeError"
        | .unmodelled => "unmodelled")
    | _ => none
  | ["composite", name, t, i, kinds] => do
    let nm ← if name == "-" then some none else (decodeStr name).map some
    let tb ← parseBool01 t
    let ib ← parseBool01 i
    let ks ← parseKinds kinds
    let outcome : ParserKind → Option String := fun p =>
      match p with
      | .toml => if tb then some "toml" else none
      | .ini => if ib then some "ini" else none
    let order := compositeOrder nm ks
    let failing := order.takeWhile fun p => (outcome p).isNone
    let tried := order.take (failing.length + 1)
    some ((compositeParse outcome nm ks).getD "error" ++ " | " ++
      sect "tried" (if tried.isEmpty then [] else [String.ofList (tried.map fun p => if p = .toml then 't' else 'i')]))
  | ["makehtml", g, t, m] => do
    let a ← parseBool01 g; let b ← parseBool01 t; let c ← parseBool01 m
    some (if makeHtml a b c then "True" else "False")
  | ["template", e, b] => do
    let ex ← if e == "-" then some none else (decodeStr e).map some
    let ba ← if b == "-" then some none else (decodeStr b).map some
    some (encodeStr (sourceTemplate ex ba))
  | ["verbosity", v, q] => do
    let a ← v.toNat?; let b ← q.toNat?
    some (toString (verbosity a b))
  | ["sidebar", e, t] => do
    let a ← parseInt e; let b ← parseInt t
    some (if sidebarOk a b then "ok" else "error")
  | _ => none

def handle (args : List String) : String :=
  match handle7 args with
  | some r => r
  | none =>
  match args with
  | ["isq", t, s] =>
    match decodeStr s with
    | some text => if isQuoted (t == "t") text then "True" else "False"
    | none => "bad-op"
  | ["isqold", t, s] =>
    match decodeStr s with
    | some text => if isQuotedOld (t == "t") text then "True" else "False"
    | none => "bad-op"
  | ["unqold", t, s] =>
    match decodeStr s with
    | some text => showEval (unquoteStrOld (t == "t") text)
    | none => "bad-op"
  | ["unq", t, s] =>
    match decodeStr s with
    | some text => showEval (unquoteStr (t == "t") text)
    | none => "bad-op"
  | ["quote", form, s] =>
    match decodeStr s with
    | some text =>
      let q? : Option Str := match form with
        | "1d" => some (quote1 '"' text) | "1s" => some (quote1 '\'' text)
        | "3d" => some (quote3 '"' text) | "3s" => some (quote3 '\'' text)
        | "r1d" => some (quote1R '"' text) | "r1s" => some (quote1R '\'' text)
        | "r3d" => some (quote3R '"' text) | "r3s" => some (quote3R '\'' text)
        | _ => none
      match q? with
      | some q => encodeStr q ++ " " ++ (if isQuoted true q then "True" else "False") ++ " " ++ showEval (unquoteStr true q)
      | none => "bad-op"
    | none => "bad-op"
  | ["inival", i, ml, s] =>
    match parseInterp i, parseBool01 ml, decodeStr s with
    | some interp, some b, some raw => showIniVal (iniValueOld interp b raw)   -- `none` = iniValue (the code today)
    | _, _, _ => "bad-op"
  | ["iniline", s] =>
    match decodeStr s with
    | some text => encodeStr (iniLineValue text)
    | none => "bad-op"
  | ["space", lo, hi] =>
    match lo.toNat?, hi.toNat? with
    | some a, some b => showNatList ((List.range (b - a)).map (· + a) |>.filter fun n => isPySpace (Char.ofNat n))
    | _, _ => "bad-op"
  | ["evallist", s] =>
    match decodeStr s with
    | some text => (match evalList text with
      | .ok l => sect "ok" (l.map encodeStr) | .error => "error" | .unmodelled => "unmodelled")
    | none => "bad-op"
  | ["interp", s] =>
    match decodeStr s with
    | some text => (match basicInterp text with
      | .ok r => "ok " ++ encodeStr r | .error => "error" | .unmodelled => "unmodelled")
    | none => "bad-op"
  | "tomlitem" :: "L" :: toks =>
    match toks.mapM parseScalar with
    | some l => (match tomlItem (.list l) with
      | some v => (match v with | .str s => "str " ++ encodeStr s | .list l => sect "list" (l.map encodeStr))
      | none => "unmodelled")
    | none => "bad-op"
  | ["tomlitem", tok] =>
    match parseScalar tok with
    | some v => (match tomlItem (.scalar v) with
      | some (.str s) => "str " ++ encodeStr s
      | some (.list l) => sect "list" (l.map encodeStr)
      | none => "unmodelled")
    | none => "bad-op"
  | "tomlpick" :: n :: toks =>
    match (do
      let no ← n.toNat?
      let (order, rest) ← takeStrs no toks
      match rest with
      | m :: rest' =>
        let np ← m.toNat?
        let (present, rest'') ← takePresent np 0 rest'
        if rest''.isEmpty then some (order, present) else none
      | [] => none) with
    | some (order, present) =>
      match tomlPick order present with
      | i :: _ => toString i
      | [] => "-"
    | none => "bad-op"
  | "iniitems" :: i :: n :: toks =>
    match (do
      let interp ← parseInterp i
      let ns ← n.toNat?
      let (sections, rest) ← takeStrs ns toks
      match rest with
      | m :: rest' =>
        let nf ← m.toNat?
        let (file, rest'') ← takeIniSections nf rest'
        if rest''.isEmpty then some (interp, sections, file) else none
      | [] => none) with
    | some (interp, sections, file) =>
      match iniItemsOld interp true sections file with
      | none => "unmodelled"
      | some none => "refused"
      | some (some d) =>
        if d.isEmpty then "-" else " ".intercalate (d.map fun kv => encodeStr kv.1 ++ " " ++ showFileVal kv.2)
    | none => "bad-op"
  | "table" :: n :: toks =>
    -- the hypotheses of the merge theorems on a concrete table, and the config keys of every option
    match (do
      let no ← n.toNat?
      let (table, rest) ← takeOpts no toks
      if rest.isEmpty then some table else none) with
    | some table =>
      let b := fun (x : Bool) => if x then "1" else "0"
      "flags:" ++ b (flagsDisjointB table) ++ " keys:" ++ b (keysDisjointB table) ++ " nosep:" ++ b (noSepFlagB table) ++
        " | " ++ " | ".intercalate (table.map fun o => showStrs (possibleKeys o))
    | none => "bad-op"
  | "validate" :: n :: toks =>
    match (do
      let no ← n.toNat?
      let (table, rest) ← takeOpts no toks
      match rest with
      | m :: rest' =>
        let nk ← m.toNat?
        let (keys, rest'') ← takeStrs nk rest'
        if rest''.isEmpty then some (table, keys) else none
      | [] => none) with
    | some (table, keys) =>
      let r := validate table (keys.map fun k => (k, FileVal.str []))
      sect "keep" (r.1.map (encodeStr ·.1)) ++ " | " ++ sect "warn" (r.2.map encodeStr)
    | none => "bad-op"
  | "merge" :: n :: toks =>
    match (do
      let no ← n.toNat?
      let (table, rest) ← takeOpts no toks
      match rest with
      | "F" :: f :: rest1 =>
        let nf ← f.toNat?
        let (files, rest2) ← takeFiles nf rest1
        match rest2 with
        | "C" :: c :: rest3 =>
          let nc ← c.toNat?
          let (cli, rest4) ← takeStrs nc rest3
          if rest4.isEmpty then some (table, files, cli) else none
        | _ => none
      | _ => none) with
    | some (table, files, cli) =>
      let cliArgs := cli.map parseArg
      match mergeFiles table cliArgs files with
      | .ok argv =>
        sect "ok argv" (argv.map fun a => encodeStr a.render) ++ " | " ++
          sect "warn" ((allWarnings table files).map encodeStr) ++ " | " ++
          sect "eff" (table.map fun o => showEff (effective o argv))
      | .error e => "error:" ++ showMergeErr e ++ " | " ++
          sect "warn" ((warningsUntilError table cliArgs files.reverse).map encodeStr)
    | none => "bad-op"
  | _ => "bad-op"

end Config
