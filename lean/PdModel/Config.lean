/-
Model of the configuration-file layer of pydoctor (property C20):

  pydoctor/_configparser.py
      `_QUOTED_STR_REGEX`, `_TRIPLE_QUOTED_STR_REGEX`  → `matchSingle`, `matchTriple` (hand-written recognisers of
                                                           exactly the two regular languages, `$` quirk included)
      `is_quoted`, `unquote_str`                        → `isQuoted`, `unquoteStr`
      `IniConfigParser.parse` (value pipeline)          → `iniValue`, `iniItems`  (`iniValueOld`/`iniItemsOld` with an
                                                           interpolation step = the code before commit d27392d)
      `TomlConfigParser.parse` (stringification)        → `tomlItem`, `tomlPick`
      `ValidatorParser.parse`                           → `validate`
  configargparse (third party; a *modelled parameter*, tied to the real module by the correspondence only)
      `get_possible_config_keys`, `already_on_command_line`, `convert_item_to_command_line_arg`,
      `_find_insertion_index`, the config-file loop of `parse_known_args`
                                                        → `possibleKeys`, `alreadyOn`, `convertItem`,
                                                           `insertionIndex`, `mergeOne`, `mergeFiles`
      what argparse then does with the merged argument vector, per option → `effective`
  CPython (parameter, tied by the correspondence): `ast.literal_eval` on a string literal / a list of
      string literals → `pyEval`, `evalList`; `configparser.BasicInterpolation` → `basicInterp` (historical);
      `str.strip` → `pyStrip`.

`quote1` / `quote3` are NOT pydoctor code: they are the quoting function of the property ("what is written
quoted"): the one-line Python string literal with one quote character, and the triple-quoted literal.

Strings are `List Char`.  Exceptions are explicit result constructors; whatever the transcription does
not cover is the explicit outcome `unmodelled` (never a default value).  Import-free, executable.
-/
namespace Config

abbrev Str := List Char

/-! ## 1. The two regular expressions

`_QUOTED_STR_REGEX = (^"(?:\\.|[^"\\])*"$)|(^'(?:\\.|[^'\\])*'$)`   (no flags)

After the opening quote the text is a sequence of units: a backslash followed by any character except
newline (`.` without DOTALL), or one character that is neither the quote nor a backslash (a newline is
allowed here).  The first unescaped quote must be the last character — or be followed by exactly one
final newline, because `$` also matches just before a trailing newline. -/

def singleBody (q : Char) : Str → Bool
  | [] => false
  | c :: rest =>
    if c = '\\' then
      match rest with
      | [] => false
      | d :: rest' => if d = '\n' then false else singleBody q rest'
    else if c = q then
      match rest with
      | [] => true
      | ['\n'] => true
      | _ => false
    else singleBody q rest

def matchSingle (q : Char) : Str → Bool
  | [] => false
  | c :: rest => c = q && singleBody q rest

/-! `_TRIPLE_QUOTED_STR_REGEX` (DOTALL), alternative for quote character `q`:

`^qqq(\s+)?(([^q]|q([^q]|q[^q]))*(qq?)?)?(\s+)?(?:\\.|[^q\\])qqq$`

Between the delimiters: `B · F` where `B = ([^q]|q[^q]|qq[^q])*(q|qq)?` is "no three consecutive `q`"
(the `\s+` groups are subsumed: whitespace is `[^q]`), and `F` is one character other than `q` and
backslash, or a backslash followed by any character.  `$` again tolerates one final newline. -/

def hasTripleQ (q : Char) : Str → Bool
  | [] => false
  | a :: rest =>
    (a = q && (match rest with
               | b :: c :: _ => b = q && c = q
               | _ => false)) || hasTripleQ q rest

/-- the condition on the text between the two `qqq` delimiters -/
def tripleInner (q : Char) (w : Str) : Bool :=
  match w.reverse with
  | [] => false
  | c :: pre =>
    (c ≠ q && c ≠ '\\' && !hasTripleQ q pre.reverse) ||
    (match pre with
     | b :: pre2 => b = '\\' && !hasTripleQ q pre2.reverse
     | [] => false)

/-- `text = qqq ++ w ++ qqq` ↦ `w` -/
def stripTriple (q : Char) : Str → Option Str
  | a :: b :: c :: rest =>
    if a = q && b = q && c = q then
      match rest.reverse with
      | x :: y :: z :: wr => if x = q && y = q && z = q then some wr.reverse else none
      | _ => none
    else none
  | _ => none

/-- drop the one trailing newline `$` tolerates -/
def dropFinalNl (text : Str) : Str :=
  match text.reverse with
  | '\n' :: r => r.reverse
  | _ => text

def matchTriple (q : Char) (text : Str) : Bool :=
  match stripTriple q (dropFinalNl text) with
  | some w => tripleInner q w
  | none => false

/-- HISTORICAL (before /repo commit 65e15f6): `is_quoted` was the two regular expressions alone -/
def isQuotedOld (triple : Bool) (text : Str) : Bool :=
  (matchSingle '"' text || matchSingle '\'' text) ||
  (triple && (matchTriple '"' text || matchTriple '\'' text))

/-- the empty string written with six quote characters (`text in ('""""""', "''''''")`) -/
def isEmptyTriple (text : Str) : Bool :=
  text == ['"', '"', '"', '"', '"', '"'] || text == ['\'', '\'', '\'', '\'', '\'', '\'']

/-- `is_quoted(text, triple)`: the one-line regex, or — with `triple` — the six-quote empty string or the
triple regex -/
def isQuoted (triple : Bool) (text : Str) : Bool :=
  (matchSingle '"' text || matchSingle '\'' text) ||
  (triple && (isEmptyTriple text || (matchTriple '"' text || matchTriple '\'' text)))

/-! ## 2. `ast.literal_eval` on string literals (CPython; parameter of the property)

The tokenizer first translates `\r\n` and `\r` to `\n`, refuses NUL, then scans one string literal:
a backslash always takes the next character with it; a one-line literal ends at the first free quote and
may not contain a raw newline; a triple-quoted literal ends at the first free `qqq`.  The raw body is then
decoded (`decodeEsc`).  Adjacent literals are concatenated. -/

inductive EvalR
  | ok (s : Str)
  | valueError      -- literal_eval raised (SyntaxError/ValueError…); `unquote_str` turns all of them into ValueError
  | unmodelled
  deriving DecidableEq, Repr

def EvalR.cons (c : Char) : EvalR → EvalR
  | .ok s => .ok (c :: s)
  | e => e

def EvalR.append (pre : Str) : EvalR → EvalR
  | .ok s => .ok (pre ++ s)
  | e => e

def translateNewlines : Str → Str
  | [] => []
  | c :: rest =>
    if c = '\r' then
      match rest with
      | '\n' :: _ => translateNewlines rest
      | _ => '\n' :: translateNewlines rest
    else c :: translateNewlines rest

/-- raw body and leftover of a one-line literal whose opening quote has been consumed; `none` = the
tokenizer fails (unterminated) -/
def scanSingle (q : Char) : Str → Option (Str × Str)
  | [] => none
  | c :: rest =>
    if c = '\\' then
      match rest with
      | [] => none
      | d :: rest' => (scanSingle q rest').map fun p => ('\\' :: d :: p.1, p.2)
    else if c = q then some ([], rest)
    else if c = '\n' then none
    else (scanSingle q rest).map fun p => (c :: p.1, p.2)

def scanTriple (q : Char) : Str → Option (Str × Str)
  | [] => none
  | c :: rest =>
    if c = '\\' then
      match rest with
      | [] => none
      | d :: rest' => (scanTriple q rest').map fun p => ('\\' :: d :: p.1, p.2)
    else if c = q then
      match rest with
      | c2 :: c3 :: rest' =>
        if c2 = q && c3 = q then some ([], rest')
        else (scanTriple q rest).map fun p => (c :: p.1, p.2)
      | _ => (scanTriple q rest).map fun p => (c :: p.1, p.2)
    else (scanTriple q rest).map fun p => (c :: p.1, p.2)

def isQuoteChar (c : Char) : Bool := c = '"' || c = '\''

/-- one string literal at the head of the input: raw body and leftover -/
def scanLiteral : Str → Option (Str × Str)
  | [] => none
  | q :: rest =>
    if isQuoteChar q then
      match rest with
      | c2 :: c3 :: rest' => if c2 = q && c3 = q then scanTriple q rest' else scanSingle q rest
      | _ => scanSingle q rest
    else none

def hexVal (c : Char) : Option Nat :=
  if '0' ≤ c ∧ c ≤ '9' then some (c.toNat - 48)
  else if 'a' ≤ c ∧ c ≤ 'f' then some (c.toNat - 87)
  else if 'A' ≤ c ∧ c ≤ 'F' then some (c.toNat - 55)
  else none

def octVal (c : Char) : Option Nat :=
  if '0' ≤ c ∧ c ≤ '7' then some (c.toNat - 48) else none

/-- escape decoding of a (non-bytes, non-raw) string literal body -/
def decodeEsc : Str → EvalR
  | [] => .ok []
  | c :: rest =>
    if c ≠ '\\' then (decodeEsc rest).cons c
    else
      match rest with
      | [] => .valueError
      | d :: rest' =>
        if d = '\n' then decodeEsc rest'                       -- line continuation
        else if d = '\\' then (decodeEsc rest').cons '\\'
        else if d = '\'' then (decodeEsc rest').cons '\''
        else if d = '"' then (decodeEsc rest').cons '"'
        else if d = 'a' then (decodeEsc rest').cons (Char.ofNat 7)
        else if d = 'b' then (decodeEsc rest').cons (Char.ofNat 8)
        else if d = 'f' then (decodeEsc rest').cons (Char.ofNat 12)
        else if d = 'n' then (decodeEsc rest').cons '\n'
        else if d = 'r' then (decodeEsc rest').cons '\r'
        else if d = 't' then (decodeEsc rest').cons '\t'
        else if d = 'v' then (decodeEsc rest').cons (Char.ofNat 11)
        else if d = 'x' then
          match rest' with
          | h1 :: h2 :: rest2 =>
            match hexVal h1, hexVal h2 with
            | some a, some b => (decodeEsc rest2).cons (Char.ofNat (a * 16 + b))
            | _, _ => .valueError
          | _ => .valueError
        else if d = 'N' || d = 'u' || d = 'U' then .unmodelled
        else if (octVal d).isSome then .unmodelled               -- octal escapes: not transcribed
        else (decodeEsc rest').append ['\\', d]                   -- unknown escape: kept (SyntaxWarning)

def isInlineWs (c : Char) : Bool := c = ' ' || c = '\t' || c = Char.ofNat 12

/-- what may follow the last literal of an `eval`-mode expression: nothing but blanks / blank lines.
`some true` = fine, `none` = not covered here (comments, operators, …). -/
def trailerOk (l : Str) : Option Bool :=
  if l.all (fun c => isInlineWs c || c = '\n') then some true else none

/-- adjacent string literals, concatenated (`fuel` bounds the number of literals) -/
def evalConcat : Nat → Str → EvalR
  | 0, _ => .unmodelled
  | fuel + 1, t =>
    match scanLiteral t with
    | none => .valueError
    | some (body, rest) =>
      match decodeEsc body with
      | .ok s =>
        let rest' := rest.dropWhile isInlineWs
        match rest' with
        | [] => .ok s
        | c :: _ =>
          if isQuoteChar c then (evalConcat fuel rest').append s
          else match trailerOk rest' with
            | some _ => .ok s
            | none => .unmodelled
      | e => e

/-- `literal_eval(text)` for a text that starts with a quote character -/
def pyEval (text : Str) : EvalR :=
  let t := translateNewlines (text.dropWhile (fun c => c = ' ' || c = '\t'))
  if t.contains (Char.ofNat 0) then .valueError
  else evalConcat (t.length + 1) t

/-- `text.replace('\x00', '\\x00')`: a raw NUL becomes its four-character escape -/
def nulEscape (text : Str) : Str :=
  text.flatMap fun c => if c = Char.ofNat 0 then ['\\', 'x', '0', '0'] else [c]

/-- `unquote_str(text, triple)`: `.valueError` is the documented `ValueError`.  Since /repo commit cada0b1 the
text is evaluated with every raw NUL replaced by its escape. -/
def unquoteStr (triple : Bool) (text : Str) : EvalR :=
  if isQuoted triple text then pyEval (nulEscape text) else .ok text

/-- HISTORICAL (before commits 65e15f6 and cada0b1): old recogniser, `literal_eval(text)` on the text as it is -/
def unquoteStrOld (triple : Bool) (text : Str) : EvalR :=
  if isQuotedOld triple text then pyEval text else .ok text

/-! ## 3. The quoting function of the property -/

/-- escapes shared by all quoted forms: backslash, the quote character, CR (the tokenizer would turn a
raw one into a newline) and NUL (refused raw by the tokenizer) -/
def escChar (q : Char) (c : Char) : Str :=
  if c = '\\' then ['\\', '\\']
  else if c = q then ['\\', q]
  else if c = '\r' then ['\\', 'r']
  else if c = Char.ofNat 0 then ['\\', 'x', '0', '0']
  else [c]

/-- one-line form additionally escapes the newline -/
def esc1 (q : Char) (c : Char) : Str :=
  if c = '\n' then ['\\', 'n'] else escChar q c

/-- `"…"` / `'…'` -/
def quote1 (q : Char) (s : Str) : Str := q :: (s.flatMap (esc1 q) ++ [q])

/-- `"""…"""` / `'''…'''` (newlines stay raw) -/
def quote3 (q : Char) (s : Str) : Str := q :: q :: q :: (s.flatMap (escChar q) ++ [q, q, q])

/-- the same quoted forms with a NUL character left raw (what a tool that does not know Python's source
rules writes; readable since commit cada0b1) -/
def escCharR (q : Char) (c : Char) : Str := if c = Char.ofNat 0 then [c] else escChar q c
def esc1R (q : Char) (c : Char) : Str := if c = Char.ofNat 0 then [c] else esc1 q c
def quote1R (q : Char) (s : Str) : Str := q :: (s.flatMap (esc1R q) ++ [q])
def quote3R (q : Char) (s : Str) : Str := q :: q :: q :: (s.flatMap (escCharR q) ++ [q, q, q])

/-! ## 4. INI value pipeline (`IniConfigParser.parse`) -/

/-- Python `str.isspace()` characters (what `str.strip()` removes) -/
def isPySpace (c : Char) : Bool :=
  let n := c.toNat
  (9 ≤ n && n ≤ 13) || (28 ≤ n && n ≤ 32) || n = 0x85 || n = 0xa0 || n = 0x1680 ||
  (0x2000 ≤ n && n ≤ 0x200a) || n = 0x2028 || n = 0x2029 || n = 0x202f || n = 0x205f || n = 0x3000

def pyStrip (s : Str) : Str := ((s.dropWhile isPySpace).reverse.dropWhile isPySpace).reverse

inductive InterpR
  | ok (s : Str)
  | error          -- configparser.InterpolationSyntaxError
  | unmodelled     -- `%(name)s` references (depend on the other keys of the section)
  deriving DecidableEq, Repr

def InterpR.cons (c : Char) : InterpR → InterpR
  | .ok s => .ok (c :: s)
  | e => e

/-- `configparser.BasicInterpolation.before_get` (the default of `ConfigParser()`): `%%` is `%`,
`%(` starts a reference, any other `%` raises -/
def basicInterp : Str → InterpR
  | [] => .ok []
  | c :: rest =>
    if c ≠ '%' then (basicInterp rest).cons c
    else
      match rest with
      | '%' :: rest' => (basicInterp rest').cons '%'
      | '(' :: _ => .unmodelled
      | _ => .error

/-- `ConfigParser(interpolation=None)` -/
def noInterp (s : Str) : InterpR := .ok s

inductive ListR
  | ok (l : List Str)
  | error           -- literal_eval raised, or the value is not a list
  | unmodelled
  deriving DecidableEq, Repr

def ListR.cons (s : Str) : ListR → ListR
  | .ok l => .ok (s :: l)
  | e => e

def isListWs (c : Char) : Bool := isInlineWs c || c = '\n'

/-- characters that cannot start or follow an item of a list display, whatever comes after -/
def isSurelyBad (c : Char) : Bool := c = '=' || c = ';' || c = '%' || c = '$' || c = '?' || c = '!'

def isIdentStart (c : Char) : Bool := ('a' ≤ c && c ≤ 'z') || ('A' ≤ c && c ≤ 'Z') || c = '_'
def isIdentChar (c : Char) : Bool := isIdentStart c || ('0' ≤ c && c ≤ '9')

/-- items of a list display after `[`; `afterItem` = an item was just read (a comma or `]` must follow) -/
def evalItems : Nat → Bool → Str → ListR
  | 0, _, _ => .unmodelled
  | fuel + 1, afterItem, t =>
    match t.dropWhile isListWs with
    | [] => .error                                              -- `[` never closed
    | c :: rest =>
      if c = ']' then
        (if rest.all isListWs then .ok [] else .unmodelled)       -- something follows the list
      else if afterItem then
        (if c = ',' then evalItems fuel false rest
         else if isSurelyBad c then .error else .unmodelled)
      else if isQuoteChar c then
        -- one item: adjacent literals concatenated
        match scanLiteral (c :: rest) with
        | none => .error
        | some (body, rest1) =>
          match decodeEsc body with
          | .ok s =>
            -- further adjacent literals
            let rec more (f : Nat) (acc : Str) (r : Str) : Option (Option (Str × Str)) :=
              match f with
              | 0 => none
              | f + 1 =>
                match r.dropWhile isListWs with
                | c2 :: r2 =>
                  if isQuoteChar c2 then
                    match scanLiteral (c2 :: r2) with
                    | none => some none
                    | some (b2, r3) =>
                      match decodeEsc b2 with
                      | .ok s2 => more f (acc ++ s2) r3
                      | .valueError => some none
                      | .unmodelled => none
                  else some (some (acc, c2 :: r2))
                | [] => some (some (acc, []))
            match more fuel s rest1 with
            | none => .unmodelled
            | some none => .error
            | some (some (item, rest2)) => (evalItems fuel true rest2).cons item
          | .valueError => .error
          | .unmodelled => .unmodelled
      else if c = ',' || isSurelyBad c then .error
      else if isIdentStart c then
        -- a name: `True`/`False`/`None` and string prefixes (`b'…'`, `r"…"`) are not transcribed; any other name makes
        -- literal_eval refuse the expression ("malformed node or string"), or the parser before it
        let ident := (c :: rest).takeWhile isIdentChar
        let after := (c :: rest).dropWhile isIdentChar
        if ident == "True".toList || ident == "False".toList || ident == "None".toList then .unmodelled
        else match after with
          | q :: _ => if isQuoteChar q then .unmodelled else .error
          | [] => .error
      else .unmodelled

/-- `literal_eval(value)` + `isinstance(l, list)` + `[str(i) for i in l]` for a value that starts with `[` -/
def evalList (value : Str) : ListR :=
  let t := translateNewlines value
  if t.contains (Char.ofNat 0) then .error
  else match t with
    | '[' :: rest => evalItems (t.length + 1) false rest
    | _ => .unmodelled

inductive IniErr | interpolation | listEval | unquote
  deriving DecidableEq, Repr

inductive IniVal
  | skip                      -- empty value, ignored (`split_ml_text_to_list`)
  | str (s : Str)
  | list (l : List Str)
  | error (e : IniErr)        -- the file is refused (`ConfigFileParserException` → `parser.error`, exit 2)
  | unmodelled
  deriving DecidableEq, Repr

def rstripNl (s : Str) : Str := (s.reverse.dropWhile (· = '\n')).reverse

/-- HISTORICAL (before /repo commit d27392d): one `(key, value)` of `config[section].items()` when the parser
was built as `configparser.ConfigParser()`; `raw` is the value configparser stored (stripped), `interp` the
interpolation `config[section]` applied when the item was read (`basicInterp`).  With `noInterp` this is the
pipeline of the code today (`iniValue`). -/
def iniValueOld (interp : Str → InterpR) (splitMl : Bool) (raw : Str) : IniVal :=
  match interp raw with
  | .error => .error .interpolation
  | .unmodelled => .unmodelled
  | .ok value =>
    if value.isEmpty && splitMl then .skip
    else if value.head? = some '[' && value.getLast? = some ']' then
      match evalList value with
      | .ok l => .list l
      | .error => .error .listEval
      | .unmodelled => .unmodelled
    else if isQuoted true value then
      match unquoteStr true value with
      | .ok s => .str s
      | .valueError => .error .unquote
      | .unmodelled => .unmodelled
    else if splitMl && (rstripNl value).contains '\n' then
      .list ((value.splitOn '\n').filter (fun i => !i.isEmpty))
    else .str value

/-- one `(key, value)` of `config[section].items()` — the code today: `ConfigParser(interpolation=None)`, the
stored (stripped) value is handed over as it is: empty value skipped with `split_ml_text_to_list`, `[…]`
evaluated as a list, quoted string unquoted, multi-line text split, anything else kept. -/
def iniValue (splitMl : Bool) (raw : Str) : IniVal := iniValueOld noInterp splitMl raw

/-- the value configparser stores for the one-line entry `key = <text>` -/
def iniLineValue (text : Str) : Str := pyStrip text

/-! ## 5. File values, TOML stringification -/

inductive FileVal
  | str (s : Str)
  | list (l : List Str)
  deriving DecidableEq, Repr

inductive TomlScalar
  | str (s : Str)
  | int (i : Int)
  | bool (b : Bool)
  | other                      -- float, date, table, nested array: `str()` of those is not modelled
  deriving DecidableEq, Repr

inductive TomlVal
  | scalar (v : TomlScalar)
  | list (l : List TomlScalar)
  deriving DecidableEq, Repr

/-- Python `str(value)` -/
def tomlStr : TomlScalar → Option Str
  | .str s => some s
  | .int i => some (toString i).toList
  | .bool true => some "True".toList
  | .bool false => some "False".toList
  | .other => none

/-- the text of a scalar value of a key (since /repo commit 67194dc a boolean is `str(value).lower()`: the word an
INI file or the command line would carry; inside an array `str(i)` still gives `True`/`False`) -/
def tomlScalarText : TomlScalar → Option Str
  | .bool true => some "true".toList
  | .bool false => some "false".toList
  | v => tomlStr v

/-- `result[key] = [str(i) for i in value]` / `str(value)` (booleans lower-cased); `none` = not modelled -/
def tomlItem : TomlVal → Option FileVal
  | .scalar v => (tomlScalarText v).map .str
  | .list l => (l.mapM tomlStr).map .list

/-- HISTORICAL (before 67194dc): `str(value)` for booleans too -/
def tomlItemOld : TomlVal → Option FileVal
  | .scalar v => (tomlStr v).map .str
  | .list l => (l.mapM tomlStr).map .list

/-- `for section in self.sections: data = get_toml_section(…); if data: …; break` — the first section of
`order` that is present and non-empty -/
def tomlPick {α : Type} (order : List Str) (present : List (Str × List α)) : List α :=
  match order with
  | [] => []
  | s :: more =>
    match present.find? (fun p => p.1 == s) with
    | some (_, items) => if items.isEmpty then tomlPick more present else items
    | none => tomlPick more present

/-- `OrderedDict` assignment `result[k] = v` -/
def dictSet {α : Type} (d : List (Str × α)) (k : Str) (v : α) : List (Str × α) :=
  if d.any (fun p => p.1 == k) then d.map (fun p => if p.1 == k then (k, v) else p) else d ++ [(k, v)]

def defaultSect : Str := "DEFAULT".toList

/-- `config[section].items()`: the section's own keys, then the keys of `[DEFAULT]` the section does not set
(configparser hands the `[DEFAULT]` entries to every section) -/
def sectionItems (defaults : List (Str × Str)) (own : List (Str × Str)) : List (Str × Str) :=
  own ++ defaults.filter fun d => !(own.any fun o => o.1 == d.1)

/-- `IniConfigParser.parse` over the sections of the file (in file order, `[DEFAULT]` last): every section named
in `sections` contributes (with the `[DEFAULT]` entries it inherits), later ones overwrite; a refused value
refuses the file.  `file` lists the sections as written; the one called `DEFAULT` is configparser's default section. -/
def iniItemsOld (interp : Str → InterpR) (splitMl : Bool) (sections : List Str)
    (file : List (Str × List (Str × Str))) : Option (Option (List (Str × FileVal))) :=
  -- none = unmodelled, some none = refused
  let defaults := (file.filter (fun s => s.1 == defaultSect)).flatMap (·.2)
  let named := file.filter (fun s => s.1 != defaultSect && sections.contains s.1)
  let entries := named.flatMap (fun s => sectionItems defaults s.2) ++
    (if sections.contains defaultSect then defaults else [])
  entries.foldl (fun acc kv =>
    match acc with
    | some (some d) =>
      match iniValueOld interp splitMl kv.2 with
      | .skip => some (some d)
      | .str s => some (some (dictSet d kv.1 (.str s)))
      | .list l => some (some (dictSet d kv.1 (.list l)))
      | .error _ => some none
      | .unmodelled => none
    | other => other) (some (some []))

/-- the code today (no interpolation step) -/
def iniItems (splitMl : Bool) (sections : List Str) (file : List (Str × List (Str × Str))) :
    Option (Option (List (Str × FileVal))) := iniItemsOld noInterp splitMl sections file

/-! ## 6. Options, `ValidatorParser`, configargparse merge -/

inductive Kind
  | store | append
  | flag         -- store_true / store_false / store_const / append_const: no value
  | count
  deriving DecidableEq, Repr

structure Opt where
  flags : List Str             -- `action.option_strings`
  kind : Kind
  deriving DecidableEq, Repr

/-- one element of the argument vector: `name` alone, or `name=value` (split as
`already_on_command_line` does: only when the string starts with `-` and contains `=`) -/
structure Arg where
  name : Str
  value : Option Str
  deriving DecidableEq, Repr

def startsWithDash : Str → Bool
  | '-' :: _ => true
  | _ => false

def parseArg (raw : Str) : Arg :=
  if startsWithDash raw && raw.contains '=' then
    ⟨raw.takeWhile (· ≠ '='), some ((raw.dropWhile (· ≠ '=')).drop 1)⟩
  else ⟨raw, none⟩

def Arg.render (a : Arg) : Str :=
  match a.value with
  | some v => a.name ++ '=' :: v
  | none => a.name

/-- `ArgumentParser.get_possible_config_keys(action)` -/
def possibleKeys (o : Opt) : List Str :=
  o.flags.flatMap fun f =>
    match f with
    | '-' :: '-' :: k => [k, f]
    | _ => []

/-- the action a config key maps to: `{key: action for action in actions for key in keys}` — the last
action claiming the key -/
def lookupKey (table : List Opt) (key : Str) : Option Opt :=
  table.reverse.find? (fun o => (possibleKeys o).contains key)

def isKnown (table : List Opt) (key : Str) : Bool := (lookupKey table key).isSome

/-- what argparse guarantees about an option table (conflicting option strings are refused), as an
executable check: no option string and no config key shared by two options, `--` is not an option string -/
def flagsDisjointB (T : List Opt) : Bool :=
  T.all fun a => T.all fun b => a.flags.all fun f => !(b.flags.contains f) || a == b
def keysDisjointB (T : List Opt) : Bool :=
  T.all fun a => T.all fun b => (possibleKeys a).all fun k => !((possibleKeys b).contains k) || a == b
def noSepFlagB (T : List Opt) : Bool := T.all fun o => !(o.flags.contains ['-', '-'])

/-- `ValidatorParser.parse`: known items in order, and the keys warned about
(`warnings.warn("No such config option: …")`), in order.  Never raises. -/
def validate (table : List Opt) (data : List (Str × FileVal)) : List (Str × FileVal) × List Str :=
  (data.filter (fun kv => isKnown table kv.1),
   (data.filter (fun kv => !isKnown table kv.1)).map (·.1))

/-- `already_on_command_line(args, option_strings, prefix_chars)` -/
def alreadyOn (args : List Arg) (flags : List Str) : Bool :=
  flags.any fun f => args.any fun a => a.name == f

inductive MergeErr
  | badBool          -- `parser.error("Unexpected value for …")`, exit 2
  | listToStore      -- `parser.error("… can't be set to a list …")`, exit 2
  | assertion        -- `assert isinstance(value, str)` for a flag given a list: AssertionError escapes
  | intValueError    -- `int(value)` for a count action: ValueError escapes
  | noFlags          -- `option_strings[-1]` on an action without option strings: IndexError
  | badValue         -- `ValidatorParser` (commit ae278e0): a list for a flag/count, a non-number for a count → exit 2
  deriving DecidableEq, Repr

inductive MergeR (α : Type)
  | ok (a : α)
  | error (e : MergeErr)
  deriving Repr

def lowerAscii (s : Str) : Str := s.map fun c => if 'A' ≤ c ∧ c ≤ 'Z' then Char.ofNat (c.toNat + 32) else c

def trueWords : List Str := ["true".toList, "yes".toList, "on".toList, "1".toList]
def falseWords : List Str := ["false".toList, "no".toList, "off".toList, "0".toList]

/-! `int(value)` for ASCII text (sign, digits, single underscores; surrounding ASCII whitespace) -/

def isAsciiSpace (c : Char) : Bool :=
  c = ' ' || c = '\t' || c = '\n' || c = Char.ofNat 0x0b || c = Char.ofNat 0x0c || c = '\r'

def digitsAux : Str → Bool → Option (List Nat)
  | [], prev => if prev then some [] else none
  | c :: cs, prev =>
    if c.isDigit then (digitsAux cs true).map (fun ds => (c.toNat - 48) :: ds)
    else if c = '_' && prev then
      (match cs with
       | [] => none
       | _ :: _ => digitsAux cs false)
    else none

def pyInt (s : Str) : Option Int :=
  let t := ((s.dropWhile isAsciiSpace).reverse.dropWhile isAsciiSpace).reverse
  let (neg, body) : Bool × Str := match t with
    | '-' :: r => (true, r)
    | '+' :: r => (false, r)
    | r => (false, r)
  match digitsAux body false with
  | none => none
  | some ds =>
    let n := ds.foldl (fun acc d => acc * 10 + d) 0
    some (if neg then - (Int.ofNat n) else Int.ofNat n)

/-- `convert_item_to_command_line_arg(action, key, value)` for a known action -/
def convertItem (o : Opt) (v : FileVal) : MergeR (List Arg) :=
  match o.flags.getLast? with
  | none => .error .noFlags
  | some last =>
    match o.kind with
    | .flag | .count =>
      match v with
      | .list _ => .error .assertion
      | .str s =>
        if trueWords.contains (lowerAscii s) then .ok [⟨last, none⟩]
        else if falseWords.contains (lowerAscii s) then .ok []
        else if o.kind = .count then
          match pyInt s with
          | some n => .ok (List.replicate n.toNat ⟨o.flags.head?.getD last, none⟩)
          | none => .error .intValueError
        else .error .badBool
    | .append =>
      match v with
      | .list l => .ok (l.map fun e => ⟨last, some e⟩)
      | .str s => .ok [⟨last, some s⟩]
    | .store =>
      match v with
      | .list _ => .error .listToStore
      | .str s => .ok [⟨last, some s⟩]

/-- `key.strip('-')` prefixed with `--` (`get_command_line_key_for_unknown_config_file_setting`) -/
def unknownKeyFlag (key : Str) : Str :=
  '-' :: '-' :: ((key.dropWhile (· = '-')).reverse.dropWhile (· = '-')).reverse

/-- the arguments one config item contributes, given the argument vector so far -/
def itemArgs (table : List Opt) (args : List Arg) (kv : Str × FileVal) : MergeR (List Arg) :=
  match lookupKey table kv.1 with
  | some o => if alreadyOn args o.flags then .ok [] else convertItem o kv.2
  | none =>
    -- not reachable behind `ValidatorParser`; configargparse would pass the setting on as `--key=value`
    let f := unknownKeyFlag kv.1
    if alreadyOn args [f] then .ok []
    else match kv.2 with
      | .str s => .ok [⟨f, some s⟩]
      | .list l => .ok (l.map fun e => ⟨f, some e⟩)

def configArgs (table : List Opt) (args : List Arg) : List (Str × FileVal) → MergeR (List Arg)
  | [] => .ok []
  | kv :: more =>
    match itemArgs table args kv with
    | .error e => .error e
    | .ok a =>
      match configArgs table args more with
      | .error e => .error e
      | .ok b => .ok (a ++ b)

def isSep (a : Arg) : Bool := a.name == ['-', '-'] && a.value.isNone

/-- `list.index`-style search: position of the first element satisfying `p` -/
def firstIdx (p : Arg → Bool) : List Arg → Option Nat
  | [] => none
  | a :: rest => if p a then some 0 else (firstIdx p rest).map (· + 1)

/-- `_find_insertion_index` (no sub-commands, no REMAINDER positional): before `--`, else before the
first argument that starts with `-`, else at the end -/
def insertionIndex (args : List Arg) : Nat :=
  match firstIdx isSep args with
  | some i => i
  | none =>
    match firstIdx (fun a => startsWithDash a.name) args with
    | some i => i
    | none => args.length

/-- one config file: its items become arguments inserted into the vector -/
def mergeOne (table : List Opt) (args : List Arg) (items : List (Str × FileVal)) : MergeR (List Arg) :=
  match configArgs table args items with
  | .error e => .error e
  | .ok extra =>
    let idx := insertionIndex args
    .ok (args.take idx ++ extra ++ args.drop idx)

/-- `ValidatorParser` (since commit ae278e0) refuses a value its action cannot take: a list for a flag or count
action, and for a count action a text that is neither one of the true/false words nor accepted by `int()` -/
def badValue (o : Opt) (v : FileVal) : Bool :=
  match o.kind with
  | .flag | .count =>
    (match v with
     | .list _ => true
     | .str s =>
       o.kind = .count && !(trueWords.contains (lowerAscii s) || falseWords.contains (lowerAscii s)) &&
         (pyInt s).isNone)
  | _ => false

def itemBad (table : List Opt) (kv : Str × FileVal) : Bool :=
  match lookupKey table kv.1 with
  | some o => badValue o kv.2
  | none => false

def valuesBad (table : List Opt) (data : List (Str × FileVal)) : Bool := data.any (itemBad table)

/-- HISTORICAL (before ae278e0): no value check, bad values reached configargparse (`.assertion`, `.intValueError`) -/
def mergeFileOld (table : List Opt) (args : List Arg) (data : List (Str × FileVal)) : MergeR (List Arg) :=
  mergeOne table args (validate table data).1

/-- one config file behind `ValidatorParser`: refused (`ConfigFileParserException` → `parser.error`, exit 2) when a
value cannot be taken, else the known items are merged -/
def mergeFile (table : List Opt) (args : List Arg) (data : List (Str × FileVal)) : MergeR (List Arg) :=
  if valuesBad table data then .error .badValue else mergeOne table args (validate table data).1

/-- all config files: `for stream in reversed(config_streams)` -/
def mergeFiles (table : List Opt) (cli : List Arg) (files : List (List (Str × FileVal))) : MergeR (List Arg) :=
  files.reverse.foldl (fun acc f =>
    match acc with
    | .ok args => mergeFile table args f
    | e => e) (.ok cli)

/-- what argparse makes of an option given the final vector (arguments after `--` are positional) -/
inductive Eff
  | one (v : Option Str)        -- store: the last value, `none` = default kept
  | many (l : List Str)         -- append: appended to the default, in order
  | flag (present : Bool)
  | count (n : Nat)
  | unmodelled                  -- a valued option without `=value` (two-token form)
  deriving DecidableEq, Repr

def live (args : List Arg) : List Arg := args.takeWhile (fun a => !isSep a)

def occurrences (o : Opt) (args : List Arg) : List Arg :=
  (live args).filter fun a => o.flags.contains a.name

def effective (o : Opt) (args : List Arg) : Eff :=
  let occ := occurrences o args
  match o.kind with
  | .flag => .flag (!occ.isEmpty)
  | .count => .count occ.length
  | .store =>
    match occ.getLast? with
    | none => .one none
    | some a => match a.value with
      | some v => .one (some v)
      | none => .unmodelled
  | .append =>
    match occ.mapM (·.value) with
    | some vs => .many vs
    | none => .unmodelled

/-! ## 7. Section names, TOML section lookup, the composite parser, `Options.from_namespace` (round 3)

Literal transcriptions of further pydoctor decision logic the property goes through:
`parse_toml_section_name` (with the `csv.reader` state machine it calls), `get_toml_section`,
`TomlConfigParser.parse` on a parsed TOML document, `CompositeConfigParser.parse` (order of the parsers,
the by-extension rule of commit fd24ad4, fall-back), `options.parse_args` (`verbosity -= quietness`),
`Options.from_namespace` (`--make-html` default, view-source template detection, `sourcepath` extension by
`--add-package`), `Options.__attrs_post_init__` (sidebar depth checks). -/

/-- `csv.reader([line], delimiter='.')` (default dialect: quotechar `"`, doublequote, not strict, no
skipinitialspace) on ONE line without `\r`/`\n`: the fields of the row (`[]` for the empty line) -/
inductive CsvState | startField | inField | inQuoted | quoteInQuoted
  deriving DecidableEq, Repr

def csvGo : CsvState → Str → Str → List Str
  -- state, current field (reversed), rest ↦ remaining fields (current one included)
  | _, cur, [] => [cur.reverse]
  | .startField, cur, c :: rest =>
    if c = '"' then csvGo .inQuoted cur rest
    else if c = '.' then cur.reverse :: csvGo .startField [] rest
    else csvGo .inField (c :: cur) rest
  | .inField, cur, c :: rest =>
    if c = '.' then cur.reverse :: csvGo .startField [] rest
    else csvGo .inField (c :: cur) rest
  | .inQuoted, cur, c :: rest =>
    if c = '"' then csvGo .quoteInQuoted cur rest
    else csvGo .inQuoted (c :: cur) rest
  | .quoteInQuoted, cur, c :: rest =>
    if c = '"' then csvGo .inQuoted ('"' :: cur) rest
    else if c = '.' then cur.reverse :: csvGo .startField [] rest
    else csvGo .inField (c :: cur) rest

def csvRow (line : Str) : List Str :=
  if line.isEmpty then [] else csvGo .startField [] line

/-- `parse_toml_section_name(section_name)`: csv fields, stripped, unquoted with `triple=False`.
`none` = not modelled (line breaks in the name) or `unquote_str` raised. -/
def parseSectionName (name : Str) : Option (List Str) :=
  if name.any (fun c => c = '\n' || c = '\r') then none
  else (csvRow name).mapM fun a =>
    match unquoteStr false (pyStrip a) with
    | .ok s => some s
    | _ => none

/-- a parsed TOML document as far as the section lookup looks at it -/
inductive TNode
  | table (kvs : List (Str × TNode))
  | str (s : Str)
  | int (i : Int)
  | bool (b : Bool)
  | list (l : List TomlScalar) (allScalar : Bool)      -- an array; `allScalar = false`: nested arrays/tables inside
  | other                                                -- float, date, …

/-- Python truthiness of a TOML value (`if not itemdata`) -/
def TNode.truthy : TNode → Bool
  | .table kvs => !kvs.isEmpty
  | .str s => !s.isEmpty
  | .int i => i != 0
  | .bool b => b
  | .list l _ => !l.isEmpty
  | .other => true

def lookupNode (kvs : List (Str × TNode)) (k : Str) : Option TNode :=
  (kvs.find? (fun p => p.1 == k)).map (·.2)

inductive SecR
  | found (kvs : List (Str × TNode))
  | notFound                  -- `None`
  | attributeError            -- `.get` on a value that is not a table (`tool = "x"`)
  | indexError                -- `sections[0]` of an empty name

/-- `get_toml_section(data, sections)` -/
def getTomlSection : List (Str × TNode) → List Str → SecR
  | _, [] => .indexError
  | data, s :: rest =>
    match lookupNode data s with
    | none => .notFound
    | some item =>
      if !item.truthy then .notFound
      else match rest with
        | [] => (match item with
                 | .table kvs => .found kvs
                 | _ => .notFound)
        | _ :: _ => (match item with
                 | .table kvs => getTomlSection kvs rest
                 | _ => .attributeError)

/-- value of one key: `[str(i) for i in value]` / `str(value)`; `none` = `str()` of that value is not modelled -/
def tnodeItem : TNode → Option (Option FileVal)
  | .str s => some (some (.str s))
  | .int i => some (some (.str (toString i).toList))
  | .bool true => some (some (.str "true".toList))       -- `str(value).lower()` since commit 67194dc
  | .bool false => some (some (.str "false".toList))
  | .list l true => (l.mapM tomlStr).map fun x => some (.list x)
  | .list _ false => none
  | .table _ => none
  | .other => none

inductive TomlParseR
  | ok (items : List (Str × FileVal))
  | attributeError
  | unmodelled

/-- `TomlConfigParser.parse` after `toml.load`: the first section of `sections` (already split into paths)
that exists and is non-empty gives the items; every key of it is kept (later duplicates cannot exist) -/
def tomlParse (sections : List (List Str)) (doc : List (Str × TNode)) : TomlParseR :=
  match sections with
  | [] => .ok []
  | path :: more =>
    match getTomlSection doc path with
    | .found kvs =>
      (match kvs.mapM (fun kv => (tnodeItem kv.2).map fun v => (kv.1, v)) with
       | none => .unmodelled
       | some l => .ok (l.filterMap fun kv => kv.2.map fun v => (kv.1, v)))
    | .notFound => tomlParse more doc
    | .attributeError => .attributeError
    | .indexError => .unmodelled

/-! ### `CompositeConfigParser.parse` -/

inductive ParserKind | toml | ini
  deriving DecidableEq, Repr

def endsWith (s suffix : Str) : Bool := suffix.isSuffixOf s

/-- the order in which the parsers are tried for a stream called `name` (`none`: the stream has no `name`
attribute or it is not a `str`): for `*.ini` / `*.cfg` the INI parsers first (`sorted` is stable) -/
def compositeOrder (name : Option Str) (parsers : List ParserKind) : List ParserKind :=
  match name with
  | some n =>
    if endsWith n ".ini".toList || endsWith n ".cfg".toList then
      parsers.filter (· = .ini) ++ parsers.filter (· ≠ .ini)
    else parsers
  | none => parsers

/-- try them in order: the first one that does not raise wins; `none` = all raised
(`ConfigFileParserException("Error parsing config: …")`) -/
def firstSuccess {α : Type} (outcome : ParserKind → Option α) : List ParserKind → Option α
  | [] => none
  | p :: more =>
    match outcome p with
    | some r => some r
    | none => firstSuccess outcome more

def compositeParse {α : Type} (outcome : ParserKind → Option α) (name : Option Str) (parsers : List ParserKind) :
    Option α :=
  firstSuccess outcome (compositeOrder name parsers)

/-- `PydoctorConfigParser = CompositeConfigParser([TomlConfigParser(…), IniConfigParser(…)])` -/
def pydoctorParsers : List ParserKind := [.toml, .ini]

/-! ### `parse_args`, `Options.from_namespace`, `Options.__attrs_post_init__` -/

/-- `options.verbosity -= options.quietness` -/
def verbosity (nVerbose nQuiet : Nat) : Int := Int.ofNat nVerbose - Int.ofNat nQuiet

/-- `makehtml`: `--make-html` given → True; otherwise (the sentinel default) True unless `--testing` or
`--make-intersphinx` -/
def makeHtml (given testing makeintersphinx : Bool) : Bool :=
  if given then true else !testing && !makeintersphinx

def startsWithStr (p s : Str) : Bool := p.isPrefixOf s

def tmplL : Str := "{mod_source_href}#L{lineno}".toList
def tmplSf : Str := "{mod_source_href}#l{lineno}".toList
def tmplBb : Str := "{mod_source_href}#lines-{lineno}".toList

/-- `_get_viewsource_template(sourcebase)` (`re.match` of `^https?://sourceforge\.net/`, `^https?://bitbucket\.org/`,
then the catch-all) -/
def viewsourceTemplate (base : Option Str) : Str :=
  match base with
  | none => tmplL
  | some b =>
    if b.isEmpty then tmplL
    else if startsWithStr "http://sourceforge.net/".toList b || startsWithStr "https://sourceforge.net/".toList b then tmplSf
    else if startsWithStr "http://bitbucket.org/".toList b || startsWithStr "https://bitbucket.org/".toList b then tmplBb
    else tmplL

/-- `htmlsourcetemplate`: an explicit `--html-viewsource-template` is kept, the sentinel default is replaced -/
def sourceTemplate (explicit : Option Str) (base : Option Str) : Str :=
  match explicit with
  | some t => t
  | none => viewsourceTemplate base

/-- `argsdict['sourcepath'].extend(map(parse_path, argsdict.pop('packages')))`: positionals first -/
def finalSourcepath {α : Type} (positional packages : List α) : List α := positional ++ packages

/-- `__attrs_post_init__`: `true` = accepted, `false` = `error(...)` (exit 1) -/
def sidebarOk (expandDepth tocDepth : Int) : Bool := !(expandDepth < 1) && !(tocDepth < 0)

end Config
