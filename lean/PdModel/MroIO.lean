import PdModel.Mro
import PdModel.Proto
/-! Line protocol for the Mro / PyMro models.

A hierarchy `H` is one token: the base lists of classes 0,1,2,… separated by `;`, each a comma
separated list of class numbers or `-` (no bases).  Class 0 is reserved for `object` (always `-`
and never named as a base).  A list of lists `L` uses the same syntax.

```
mro merge  L            ->  ok 1,2,3 | reject          (pydoctor  mro._merge)
mro pmerge L            ->  ok 1,2,3 | reject          (CPython   pmerge)
mro pd H                ->  answers for classes 1..n-1 joined by `|`:  1,2 or reject   (mro.mro)
mro py H                ->  same, CPython `mro_implementation` with the implicit `object` (= 0)
mro full H SUB EXT OWN DOC EMPTY ->  per class 1..n-1 not in EXT:
                            <_mro>:<number of 'mro' reports>:<find('m') owner or ->:<doc source, - (none) or x (class has no m)>
mro pyfull H SUB EXT OWN DOC EMPTY ->  per class 1..n-1: <__mro__ or reject>:<lookup owner or ->:<doc source, - (none) or x (class has no m)>:<inspect.getdoc source>
```
mro uses H SUB EXT STD CONT FUNC HID ORDER PH PV -> per class not in EXT, fields joined by `:`:
                            mro(False,True) : mro(True,False) : mro(False,False) : mro(True) while _mro is None :
                            mro(include_self=False) while _mro is None : is_exception : _find_dunder_constructor
                            (owner.name, names 0=m 1=__new__ 2=__init__) : overrides(m) : overriding_subclasses(m) :
                            inherited_members (owner.name,…).  STD = external ids named in _STD_LIB_EXCEPTIONS, CONT/FUNC =
                            per class names in contents / names that are Functions, HID = hidden classes, PH = classes whose member 0 is a hidden phantom
                            Attribute made from a docstring `@type` field (in CONT, not visible), PV = names that are class-private (`__x`), FUNC also carries `name+100` for a member that has a docstring, ORDER = the
                            order in which defaultPostProcess visits the classes
mro earlyfind H EXT OWN -> per class not in EXT: <owner Class.find gives during the visit (_mro is None)>:<owner after post-processing>
mro second SC RAW INIT EXP RES TRIG -> `_finalbaseobjects` per class (N = not set; 0 = None, k+1 = class k) after
                            `_init_mro` ran for the classes TRIG: SC scope per class, RAW base names per class,
                            INIT `_initialbaseobjects` (0 = None), EXP what `_initialbases` denote (0 = no class), RES triples scope,name,class
SUB = per class, per base: 1 if the base is written as a subscript (`A[T]`), else 0;
EXT = classes that are external (unresolved string bases such as `typing.Generic`), OWN = classes
defining member `m`, DOC = classes whose `m` has a docstring (`__doc__ is not None`), EMPTY = those of DOC whose
docstring is empty or blank (inspect.getdoc then returns '' and its source cannot be read off: shown as `e`). -/
namespace Mro

def parseLists (tok : String) : Option (List (List Nat)) :=
  (tok.splitOn ";").mapM Proto.natList

def showRes : Option (List Nat) → String
  | some l => Proto.showNatList l
  | none => "reject"

def showOpt : Option Nat → String
  | some n => toString n
  | none => "-"

def basesOf (h : List (List Nat)) (c : Nat) : List Nat := h.getD c []

/-- raw bases of class `c`: the base and whether it is written as a subscript (SUB: 0/1 lists shaped like H) -/
def rawOf (h sb : List (List Nat)) (c : Nat) : List (Nat × Bool) :=
  List.zipWith (fun b f => (b, f != 0)) (h.getD c []) (sb.getD c [])

def classesOf (h : List (List Nat)) : List Nat := (List.range h.length).drop 1

def handle (args : List String) : String :=
  match args with
  | ["merge", l] =>
    match parseLists l with
    | some ls => (match merge ls with | some r => "ok " ++ Proto.showNatList r | none => "reject")
    | none => "bad-op"
  | ["pmerge", l] =>
    match parseLists l with
    | some ls => (match PyMro.pmerge ls with | some r => "ok " ++ Proto.showNatList r | none => "reject")
    | none => "bad-op"
  | ["pd", h] =>
    match parseLists h with
    | some hs => "|".intercalate ((classesOf hs).map fun c => showRes (mro (basesOf hs) c))
    | none => "bad-op"
  | ["py", h] =>
    match parseLists h with
    | some hs =>
      "|".intercalate ((classesOf hs).map fun c => showRes (PyMro.mro (PyMro.withObject (basesOf hs)) c))
    | none => "bad-op"
  | ["full", h, sb, e, o, d, _em] =>
    match parseLists h, parseLists sb, Proto.natList e, Proto.natList o, Proto.natList d with
    | some hs, some sbs, some es, some os, some ds =>
      let ext := fun c => es.contains c
      let bases := fun c => localBases ext (rawOf hs sbs c)
      let owns := fun c (_ : Nat) => os.contains c
      let hasDoc := fun c (_ : Nat) => ds.contains c
      "|".intercalate (((classesOf hs).filter (fun c => !ext c)).map fun c =>
        let r := initMro bases ext c
        Proto.showNatList r.1 ++ ":" ++ toString r.2.length ++ ":" ++ showOpt (find bases ext owns c 0)
          ++ ":" ++ (if owns c 0 then showOpt (getDocstring bases ext (fun _ => false) owns hasDoc c 0) else "x"))
    | _, _, _, _, _ => "bad-op"
  | ["pyfull", h, sb, e, o, d, em] =>
    match parseLists h, parseLists sb, Proto.natList e, Proto.natList o, Proto.natList d, Proto.natList em with
    | some hs, some sbs, some es, some os, some ds, some ems =>
      let bases := PyMro.withObject (fun c => PyMro.mroEntries (fun b => es.contains b) (rawOf hs sbs c))
      let owns := fun c (_ : Nat) => os.contains c
      let hasDoc := fun c (_ : Nat) => ds.contains c
      "|".intercalate ((classesOf hs).map fun c =>
        match PyMro.mro bases c with
        | none => "reject"
        | some l => Proto.showNatList l ++ ":" ++ showOpt (PyMro.lookup bases owns c 0)
          ++ ":" ++ (if owns c 0 then showOpt (PyMro.docSource bases owns hasDoc c 0) else "x")
          ++ ":" ++ (if owns c 0 then
              (match PyMro.inspectGetdoc bases owns hasDoc c 0 with
               | some o => if ems.contains o then "e" else toString o     -- the text is empty: its source is not observable
               | none => "-")
            else "x"))
    | _, _, _, _, _, _ => "bad-op"
  | ["uses", h, sb, e, st, ct, fn, hd, od, ph, pv] =>
    match parseLists h, parseLists sb, Proto.natList e, Proto.natList st, parseLists ct, parseLists fn,
        Proto.natList hd, Proto.natList od, Proto.natList ph, Proto.natList pv with
    | some hs, some sbs, some es, some sts, some cts, some fns, some hds, some ods, some phs, some pvs =>
      let priv := fun n => pvs.contains n
      let ext := fun c => es.contains c
      let std := fun c => sts.contains c
      let bases := fun c => localBases ext (rawOf hs sbs c)
      let rawIds := fun c => (rawOf hs sbs c).map (·.1)
      let contents := fun c => cts.getD c []
      let owns := fun c n => (contents c).contains n
      let isFunc := fun c n => (fns.getD c []).contains n
      let visC := fun c => !hds.contains c
      let visM := fun c (n : Nat) => !hds.contains c && !(n == 0 && phs.contains c)
      let pair := fun (p : Nat × Nat) => toString p.1 ++ "." ++ toString p.2
      let pairs := fun (l : List (Nat × Nat)) => if l.isEmpty then "-" else ",".intercalate (l.map pair)
      "|".intercalate (((classesOf hs).filter (fun c => !ext c)).map fun c =>
        ":".intercalate [
          Proto.showNatList (classMro bases ext c false true),
          Proto.showNatList (classMro bases ext c true false),
          Proto.showNatList (classMro bases ext c false false),
          Proto.showNatList (classMroEarly rawIds ext c true),
          Proto.showNatList (classMroEarly rawIds ext c false),
          (if isException bases ext std c then "1" else "0"),
          (match findDunderConstructor bases ext owns isFunc c 1 2 with | some p => pair p | none => "-"),
          showOpt (overrides bases ext priv owns c 0),
          Proto.showNatList (overridingSubclasses rawIds ods owns visC c 0),
          pairs (inheritedMembers contents visM priv (classMro bases ext c)),
          -- the class-private member 3 (`__p`): what get_override_info shows for it, and its docstring source
          (if owns c 3 then showOpt (overrides bases ext priv owns c 3) ++ ";" ++
             Proto.showNatList (overriddenIn rawIds ods owns visC priv c 3) ++ ";" ++
             showOpt (getDocstring bases ext priv owns (fun k n => (fns.getD k []).contains (n + 100)) c 3) else "x")])
    | _, _, _, _, _, _, _, _, _, _ => "bad-op"
  | ["earlyfind", h, e, o] =>
    match parseLists h, Proto.natList e, Proto.natList o with
    | some hs, some es, some os =>
      let ext := fun c => es.contains c
      let owns := fun c (_ : Nat) => os.contains c
      "|".intercalate (((classesOf hs).filter (fun c => !ext c)).map fun c =>
        showOpt (findEarly (basesOf hs) ext owns c 0) ++ ":" ++ showOpt (find (basesOf hs) ext owns c 0))
    | _, _, _ => "bad-op"
  | ["second", sc, raw, ini, ex, res, trig] =>
    match Proto.natList sc, parseLists raw, parseLists ini, parseLists ex, parseLists res, Proto.natList trig with
    | some scs, some raws, some inis, some exs, some ress, some trigs =>
      let d : Decls := {
        scope := fun o => scs.getD o 0
        raw := fun o => raws.getD o []
        initial := fun o => (inis.getD o []).map fun v => if v = 0 then none else some (v - 1)
        expanded := fun o => (exs.getD o []).map fun v => if v = 0 then none else some (v - 1)
        resolve := fun s n => (ress.find? fun t => t.length == 3 && t.getD 0 0 == s && t.getD 1 0 == n).map (·.getD 2 0) }
      let c := secondPass d (fun _ o => d.scope o) (scs.length + 1) trigs
      "|".intercalate ((List.range scs.length).map fun o =>
        match c.get o with
        | none => "N"
        | some fb => Proto.showNatList (fb.map fun b => match b with | some k => k + 1 | none => 0))
    | _, _, _, _, _, _ => "bad-op"
  | _ => "bad-op"

end Mro
