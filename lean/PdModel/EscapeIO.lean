import PdModel.Escape
import PdModel.Proto
/-! Line protocol for the Escape model (`escape <op> …`); strings travel as `u:<code points>`.

* `content|attr|cdata|comment|encode|attval|neutralise s`      → `ok <s'>`
* `starttag tag name value` (docutils start tag with one attribute)   → `ok <s'>`
* `sigdefault s` (`flatten(format_signature(f))` for `def f(a=<str s>)`), `quote s`, `url <0|1> page (anchor|-)`,
  `taglinkhref page url`, `starttagclass tag v`, `starttaghref v`, `valididcss s`   → `ok <s'>`
* `ismath <tree>` (`_is_math_html` on the parsed fragment; `ismathold` = before 00f0a02) → `true|false`;
* `directivefree <tnode>` (`_refuse_template_directives`) → `ok` | `ValueError`; `sigintrospected repr` → `ok <s'>`
* `unescape s`                                                 → `ok <s'>` | `malformed`
* `html2stan s`  (markup-free html → `flatten(html2stan(s))`)  → `ok <s'>` | `SAXParseException`
* `doublepath s` (text → docutils `encode` → `html2stan` → flatten) → `ok <s'>` | `SAXParseException`
* `flatten <tree>`                                             → `ok <s'>` | `UnicodeEncodeError`
* `tofile doctype <tree>` (`writer.flattenToFile`: bytes on disk)   → `ok <s'>` | `UnicodeEncodeError`
* `holds <tree>`    → `valid=<b> nested=<b> safe=<b> render=<b> text=<decoded text|->`
* `validid s xs xc`                                            → `true|false`
* `deprtext name pkg ver (repl|-) xs xc`                       → `ok <text>` | `ValueError`
* `sanitise r` (the replacement sanitiser, `.rstrip('\\ ')`) / `sanitiseold r` (`.rstrip('\\')`, before 782581b) → `ok <s'>`
* `literal r'`                                                 → `broken` | `nolit` | `lit <t>`
* `guard r xs xc`   → `id` | `wrapped safe=<b> held=<b>`  (the model's `holds` for the identifier guard)

tree: `T s` text, `C s` comment, `D s` cdata, `R n` charref, `( name k v k v … | child … )`. -/
namespace Escape

def showB (b : Bool) : String := if b then "true" else "false"

def okStr (s : List Char) : String := "ok " ++ Proto.encodeStr s

/-- attributes up to the `|` token -/
def parseAttrs : List String → List (List Char × List Char) → Option (List (List Char × List Char) × List String)
  | "|" :: rest, acc => some (acc.reverse, rest)
  | k :: v :: rest, acc => do
    let k' ← Proto.decodeStr k
    let v' ← Proto.decodeStr v
    parseAttrs rest ((k', v') :: acc)
  | _, _ => none

def parseTree : Nat → List String → Option (Stan × List String)
  | 0, _ => none
  | _+1, "T" :: s :: rest => do some (.text (← Proto.decodeStr s), rest)
  | _+1, "C" :: s :: rest => do some (.comment (← Proto.decodeStr s), rest)
  | _+1, "D" :: s :: rest => do some (.cdata (← Proto.decodeStr s), rest)
  | _+1, "R" :: n :: rest => do some (.charref (← n.toNat?), rest)
  | fuel+1, "(" :: name :: rest => do
    let nm ← Proto.decodeStr name
    let (attrs, rest1) ← parseAttrs rest []
    let rec kids (f : Nat) (toks : List String) (acc : List Stan) : Option (List Stan × List String) :=
      match f, toks with
      | 0, _ => none
      | _, ")" :: rest => some (acc.reverse, rest)
      | f+1, toks => do
        let (t, rest) ← parseTree fuel toks
        kids f rest (t :: acc)
    let (cs, rest2) ← kids (rest1.length + 1) rest1 []
    some (.tag nm attrs cs, rest2)
  | _, _ => none

/-- `t` text, `o` other, `s` slot, `( name <0|1 render> <0|1 text attrs> child… )` -/
def parseTNode : Nat → List String → Option (TNode × List String)
  | 0, _ => none
  | _+1, "t" :: rest => some (.text, rest)
  | _+1, "o" :: rest => some (.other, rest)
  | _+1, "s" :: rest => some (.slot, rest)
  | fuel+1, "(" :: name :: r :: a :: rest => do
    let nm ← Proto.decodeStr name
    let rec kids (f : Nat) (toks : List String) (acc : List TNode) : Option (List TNode × List String) :=
      match f, toks with
      | 0, _ => none
      | _, ")" :: rest => some (acc.reverse, rest)
      | f+1, toks => do
        let (t, rest) ← parseTNode fuel toks
        kids f rest (t :: acc)
    let (cs, rest2) ← kids (rest.length + 1) rest []
    some (.tag nm (r == "1") (a == "1") cs, rest2)
  | _, _ => none

def str1 (f : List Char → String) : List String → String
  | [s] => match Proto.decodeStr s with
    | some cs => f cs
    | none => "bad-op"
  | _ => "bad-op"

def handle (args : List String) : String :=
  match args with
  | "content" :: r => str1 (fun s => okStr (escapeForContent s)) r
  | "attr" :: r => str1 (fun s => okStr (escapeAttr s)) r
  | "cdata" :: r => str1 (fun s => okStr (escapedCDATA s)) r
  | "comment" :: r => str1 (fun s => okStr (escapedComment s)) r
  | "encode" :: r => str1 (fun s => okStr (encode s)) r
  | "attval" :: r => str1 (fun s => okStr (attval s)) r
  | ["starttag", t, k, v] =>
    match Proto.decodeStr t, Proto.decodeStr k, Proto.decodeStr v with
    | some t, some k, some v => okStr (starttag1 t k v)
    | _, _, _ => "bad-op"
  | "neutralise" :: r => str1 (fun s => okStr (neutralise s)) r
  | "unescape" :: r => str1 (fun s => match unescape s with
      | some t => okStr t
      | none => "malformed") r
  | "html2stan" :: r => str1 (fun s => match html2stanText s with
      | some t => okStr (escapeForContent t)
      | none => "SAXParseException") r
  | "doublepath" :: r => str1 (fun s => match html2stanText (encode s) with
      | some t => okStr (escapeForContent t)
      | none => "SAXParseException") r
  | "flatten" :: toks =>
    match parseTree (toks.length + 1) toks with
    | some (t, []) => match flattenStr t with
      | .ok s => okStr s
      | .error _ => "UnicodeEncodeError"
    | _ => "bad-op"
  | "tofile" :: dt :: toks =>
    match Proto.decodeStr dt, parseTree (toks.length + 1) toks with
    | some d, some (t, []) => match flattenToFile d t with
      | .ok s => okStr s
      | .error _ => "UnicodeEncodeError"
    | _, _ => "bad-op"
  | "holds" :: toks =>
    match parseTree (toks.length + 1) toks with
    | some (t, []) =>
      let ts := Escape.toks t
      let rend := match flattenStr t with
        | .ok s => s == render ts
        | .error _ => false
      "valid=" ++ showB (namesValid t) ++ " nested=" ++ showB (nested [] false ts) ++
      " safe=" ++ showB (ts.all tokSafe) ++ " render=" ++ showB rend ++ " text=" ++
      (match decodeToks ts with | some s => Proto.encodeStr s | none => "-")
    | _ => "bad-op"
  | ["validid", s, xs, xc] =>
    match Proto.decodeStr s, Proto.decodeStr xs, Proto.decodeStr xc with
    | some s, some xs, some xc => showB (validateIdentifier (tablesOf xs xc) s)
    | _, _, _ => "bad-op"
  | ["deprtext", name, pkg, ver, repl, xs, xc] =>
    match Proto.decodeStr name, Proto.decodeStr pkg, Proto.decodeStr ver,
          (if repl == "-" then some none else (Proto.decodeStr repl).map some),
          Proto.decodeStr xs, Proto.decodeStr xc with
    | some n, some p, some v, some r, some xs, some xc =>
      match deprecationText (tablesOf xs xc) n p v r with
      | .ok t => okStr t
      | .error _ => "ValueError"
    | _, _, _, _, _, _ => "bad-op"
  | "sigdefault" :: r => str1 (fun s => okStr (formatSigDefault s)) r
  | "quote" :: r => str1 (fun s => okStr (quote s)) r
  | ["url", root, page, anchor] =>
    match Proto.decodeStr page, (if anchor == "-" then some none else (Proto.decodeStr anchor).map some) with
    | some p, some a => okStr (docUrl (root == "1") p a)
    | _, _ => "bad-op"
  | ["taglinkhref", page, url] =>
    match Proto.decodeStr page, Proto.decodeStr url with
    | some p, some u => okStr (taglinkHref p u)
    | _, _ => "bad-op"
  | ["starttagclass", t, v] =>
    match Proto.decodeStr t, Proto.decodeStr v with
    | some t, some v => okStr (starttagClass t v)
    | _, _ => "bad-op"
  | "starttaghref" :: r => str1 (fun s => okStr (starttagHref s)) r
  | "valididcss" :: r => str1 (fun s => okStr (validIdentifierCss s)) r
  | "ismath" :: toks =>
    match parseTree (toks.length + 1) toks with
    | some (t, []) => showB (isMathHtml t)
    | _ => "bad-op"
  | "ismathold" :: toks =>
    match parseTree (toks.length + 1) toks with
    | some (t, []) => showB (isMathHtmlOld t)
    | _ => "bad-op"
  | "directivefree" :: toks =>
    match parseTNode (toks.length + 1) toks with
    | some (t, []) => if directiveFree t then "ok" else "ValueError"
    | _ => "bad-op"
  | "sigintrospected" :: r => str1 (fun s => okStr (formatSigIntrospected s)) r
  | "sanitise" :: r => str1 (fun s => okStr (sanitise true s)) r
  | "sanitiseold" :: r => str1 (fun s => okStr (sanitise false s)) r
  | "literal" :: r => str1 (fun s => match interpolatedLiteral s with
      | .broken => "broken"
      | .nolit => "nolit"
      | .lit t _ => "lit " ++ Proto.encodeStr t) r
  | ["guard", s, xs, xc] =>
    match Proto.decodeStr s, Proto.decodeStr xs, Proto.decodeStr xc with
    | some s, some xs, some xc =>
      if validateIdentifier (tablesOf xs xc) s then "id"
      else
        let r' := sanitise true s
        "wrapped safe=" ++ showB (literalSafe r') ++ " held=" ++
          showB (interpolatedLiteral r' == .lit r' [' ', 'i', 'n', 's', 't', 'e', 'a', 'd', '.'])
    | _, _, _ => "bad-op"
  | _ => "bad-op"

end Escape
