/-
Model of pydoctor/sphinx.py — the Sphinx inventory codec:

  writer   `SphinxInventoryWriter._generateLine / _generateContent / _generateHeader / generate`
           with `Documentable.fullName / url / page_object / isVisible` (model.py)
  reader   `SphinxInventory.update / _getPayload / _parseInventory / getLink`,
           module function `_parseInventoryLine`

Strings are `List Char`, byte strings `List Nat`.  Python indexing is explicit: `parts[i]` on a
too-short list is the outcome `.raised .indexError`, never a default.  Third-party pieces are
parameters: `toInt` (Python's `int(str)`; a concrete ASCII transcription `pyInt` is given),
zlib (de)compression and UTF-8 decoding (functions that succeed or fail).

Import-free, executable.  The model says what the code DOES today (after /repo commit f721ca9,
which turned the `IndexError` on a priority-last line into a `ValueError`; the pre-fix parser is
kept as `parsePartsOld`; 96f18c4: columns split at runs of whitespace, old splitter kept in `parseLineSp`;
2626e70: header fields whitespace-collapsed, old header kept as `headerTextOld`; df39b19: `_getPayload` keeps the
complete lines of a stream that ends early and the decodable lines of a partly undecodable text, old version `getPayloadOld`).
-/
namespace Inventory

abbrev Str := List Char
abbrev Bytes := List Nat

/-- the exception classes the modelled code can raise -/
inductive PyErr | valueError | indexError | assertionError | keyError | typeError | osError
  | invalidMaxAge | lookupError | baseException
  deriving DecidableEq, Repr, Inhabited

/-- result of a Python call: returns a value or raises -/
inductive Outcome (α : Type) | ok (a : α) | raised (e : PyErr)
  deriving DecidableEq, Repr

/-! ## Python string primitives -/

/-- `s.split(' ')` (single-character separator: never returns the empty list) -/
def pySplit (s : Str) : List Str := s.splitOn ' '

/-- `' '.join(ws)` -/
def pyJoin (ws : List Str) : Str := [' '].intercalate ws

/-- `str.isspace()` for one character = what `str.split()` separates at and regex `\s` matches -/
def isReSpace (c : Char) : Bool :=
  [' ', '\t', '\n', '\r', Char.ofNat 0x0b, Char.ofNat 0x0c, Char.ofNat 0x1c, Char.ofNat 0x1d, Char.ofNat 0x1e,
   Char.ofNat 0x1f, Char.ofNat 0x85, Char.ofNat 0xa0, Char.ofNat 0x1680, Char.ofNat 0x2000, Char.ofNat 0x2001,
   Char.ofNat 0x2002, Char.ofNat 0x2003, Char.ofNat 0x2004, Char.ofNat 0x2005, Char.ofNat 0x2006, Char.ofNat 0x2007,
   Char.ofNat 0x2008, Char.ofNat 0x2009, Char.ofNat 0x200a, Char.ofNat 0x2028, Char.ofNat 0x2029, Char.ofNat 0x202f,
   Char.ofNat 0x205f, Char.ofNat 0x3000].contains c

/-- `s.split()` with the current (reversed) token as accumulator: runs of whitespace separate,
no empty strings -/
def splitWsAux : Str → Str → List Str
  | [], cur => if cur = [] then [] else [cur.reverse]
  | c :: cs, cur =>
    if isReSpace c then (if cur = [] then splitWsAux cs [] else cur.reverse :: splitWsAux cs [])
    else splitWsAux cs (c :: cur)

/-- `s.split()` -/
def pySplitWs (s : Str) : List Str := splitWsAux s []

/-- `re.sub(r'\s+', ' ', s)`; `prev` = the previous character was whitespace -/
def collapseAux : Bool → Str → Str
  | _, [] => []
  | prev, c :: cs =>
    if isReSpace c then (if prev then collapseAux true cs else ' ' :: collapseAux true cs)
    else c :: collapseAux false cs

def collapseWs (s : Str) : Str := collapseAux false s

/-- the characters `str.splitlines()` breaks at -/
def isLineBreak (c : Char) : Bool :=
  c = '\n' || c = '\r' || c = Char.ofNat 0x0b || c = Char.ofNat 0x0c || c = Char.ofNat 0x1c ||
  c = Char.ofNat 0x1d || c = Char.ofNat 0x1e || c = Char.ofNat 0x85 ||
  c = Char.ofNat 0x2028 || c = Char.ofNat 0x2029

/-- `s.splitlines()`: break at every line boundary (`\r\n` counts once), no trailing empty line. -/
def splitlines : Str → List Str
  | [] => []
  | c :: cs =>
    if c = '\r' && cs.head? == some '\n' then splitlines cs      -- the `\n` that follows ends the line
    else if isLineBreak c then [] :: splitlines cs
    else match splitlines cs with
      | [] => [[c]]
      | l :: ls => (c :: l) :: ls

/-- `s.startswith(p)` -/
def startsWith : Str → Str → Bool
  | [], _ => true
  | _ :: _, [] => false
  | p :: ps, c :: cs => p = c && startsWith ps cs

/-! ## `int(token)` for ASCII tokens

`int` strips ASCII whitespace, takes an optional sign, then decimal digits with single
underscores between digits; more than 4300 digits raise `ValueError` (CPython's
`int_max_str_digits` default).  Tokens containing non-ASCII *decimal digits or whitespace*
(which `int` also accepts) are outside this transcription; every other token is covered. -/

def isPySpace (c : Char) : Bool :=
  c = ' ' || c = '\t' || c = '\n' || c = Char.ofNat 0x0b || c = Char.ofNat 0x0c || c = '\r'

def maxStrDigits : Nat := 4300

/-- digits of `d(_?d)*`; `prev` = the previous character was a digit -/
def digitsAux : Str → Bool → Option (List Nat)
  | [], prev => if prev then some [] else none
  | c :: cs, prev =>
    if c.isDigit then (digitsAux cs true).map (fun ds => (c.toNat - 48) :: ds)
    else if c = '_' && prev then
      (match cs with
       | [] => none
       | _ :: _ => digitsAux cs false)
    else none

def natOfDigits (ds : List Nat) : Nat := ds.foldl (fun acc d => acc * 10 + d) 0

def strip (s : Str) : Str := ((s.dropWhile isPySpace).reverse.dropWhile isPySpace).reverse

/-- `int(s)`: `some v`, or `none` for `ValueError` -/
def pyInt (s : Str) : Option Int :=
  let t := strip s
  let (neg, body) : Bool × Str := match t with
    | '-' :: r => (true, r)
    | '+' :: r => (false, r)
    | r => (false, r)
  match digitsAux body false with
  | none => none
  | some ds =>
    if ds.length > maxStrDigits then none
    else some (if neg then - (Int.ofNat (natOfDigits ds)) else Int.ofNat (natOfDigits ds))

/-! ## `_parseInventoryLine` -/

structure Entry where
  name : Str
  typ : Str
  prio : Int
  location : Str
  display : Str
  deriving DecidableEq, Repr

/-- `parts[i]` for `i ≥ 0` -/
def getIdx (parts : List Str) (i : Nat) : Outcome Str :=
  match parts[i]? with
  | some x => .ok x
  | none => .raised .indexError

/-- The `while True: try: prio = int(parts[prio_idx]); break; except ValueError: prio_idx += 1`
loop inside `try … except IndexError: raise ValueError`.  First argument is `parts[prio_idx:]`:
when it is empty `parts[prio_idx]` raises `IndexError`, which is converted to `ValueError`. -/
def scanPrio (toInt : Str → Option Int) : List Str → Nat → Outcome (Nat × Int)
  | [], _ => .raised .valueError
  | p :: rest, i =>
    match toInt p with
    | some v => .ok (i, v)
    | none => scanPrio toInt rest (i + 1)

/-- body of `_parseInventoryLine` after `parts = line.split()`.
`prio_idx ≥ 2` always, so `prio_idx - 1` is never a negative (wrap-around) index. -/
def parseParts (toInt : Str → Option Int) (parts : List Str) : Outcome Entry :=
  match scanPrio toInt (parts.drop 2) 2 with
  | .raised e => .raised e
  | .ok (i, prio) =>
    let name := pyJoin (parts.take (i - 1))            -- ' '.join(parts[: prio_idx - 1])
    match getIdx parts (i - 1) with                     -- typ = parts[prio_idx - 1]
    | .raised e => .raised e
    | .ok typ =>
      if i + 1 ≥ parts.length then .raised .valueError  -- "Location column is missing" (fix f721ca9)
      else
        match getIdx parts (i + 1) with                 -- location = parts[prio_idx + 1]
        | .raised e => .raised e
        | .ok location =>
          let display := pyJoin (parts.drop (i + 2))    -- ' '.join(parts[prio_idx + 2 :])
          if display = [] then .raised .valueError      -- "Display name column cannot be empty"
          else .ok ⟨name, typ, prio, location, display⟩

/-- `_parseInventoryLine(line)`: columns are separated by runs of whitespace (`line.split()`,
/repo commit 96f18c4) -/
def parseLine (toInt : Str → Option Int) (line : Str) : Outcome Entry :=
  parseParts toInt (pySplitWs line)

/-- PRE-96f18c4 `_parseInventoryLine` (columns split at single spaces, `line.split(' ')`), kept for
the historical `old_double_space_wrong_key` -/
def parseLineSp (toInt : Str → Option Int) (line : Str) : Outcome Entry :=
  parseParts toInt (pySplit line)

/-- PRE-FIX code (before /repo commit f721ca9), kept only for the historical `old_…` theorems:
`location = parts[prio_idx + 1]` was indexed without a length test. -/
def parsePartsOld (toInt : Str → Option Int) (parts : List Str) : Outcome Entry :=
  match scanPrio toInt (parts.drop 2) 2 with
  | .raised e => .raised e
  | .ok (i, prio) =>
    let name := pyJoin (parts.take (i - 1))
    match getIdx parts (i - 1) with
    | .raised e => .raised e
    | .ok typ =>
      match getIdx parts (i + 1) with
      | .raised e => .raised e
      | .ok location =>
        let display := pyJoin (parts.drop (i + 2))
        if display = [] then .raised .valueError
        else .ok ⟨name, typ, prio, location, display⟩

/-- PRE-FIX `_parseInventoryLine` (before f721ca9; split at single spaces) -/
def parseLineOld (toInt : Str → Option Int) (line : Str) : Outcome Entry :=
  parsePartsOld toInt (pySplit line)

/-- the priority column is the last column (decidable description of the inputs on which the
pre-fix `parts[prio_idx + 1]` raised `IndexError`; now rejected with `ValueError`) -/
def prioIsLast (toInt : Str → Option Int) (parts : List Str) : Bool :=
  match scanPrio toInt (parts.drop 2) 2 with
  | .ok (i, _) => parts.length == i + 1
  | .raised _ => false

/-! ## dict with Python's insertion order and overwrite semantics -/

abbrev Link := Str × Str                     -- (base_url, relative location)
abbrev Dict := List (Str × Link)

def Dict.get (d : Dict) (k : Str) : Option Link := List.lookup k d

/-- `d[k] = v` -/
def Dict.set : Dict → Str → Link → Dict
  | [], k, v => [(k, v)]
  | (k', v') :: d, k, v => if k' = k then (k', v) :: d else (k', v') :: Dict.set d k v

/-- `d.update(other)` / building a dict by successive assignment -/
def Dict.update (d : Dict) (other : List (Str × Link)) : Dict :=
  other.foldl (fun acc kv => Dict.set acc kv.1 kv.2) d

/-! ## `_parseInventory`, `_getPayload`, `update`, `getLink` -/

/-- what `SphinxInventory.error` is called with (`thresh=-1`, section 'sphinx') -/
inductive LogMsg
  | noBaseUrl (url : Str)            -- 'Failed to get remote base url for %s'
  | noData (url : Str)               -- 'Failed to get object inventory from %s'
  | uncompress (base : Str)          -- 'Failed to uncompress inventory from %s'
  | decode (base : Str)              -- 'Failed to decode inventory from %s'
  | badLine (line base : Str)        -- 'Failed to parse line "%s" for %s'
  deriving DecidableEq, Repr

def pyPrefix : Str := ['p', 'y', ':']

/-- the `for line in payload.splitlines()` loop of `_parseInventory`: `ValueError` is caught,
logged and the line skipped; any other exception would propagate (messages logged so far stay
logged; `PdProps.C17.parse_total` shows the line parser raises nothing else).  `d` is `result`. -/
def parseLines (toInt : Str → Option Int) (base : Str) :
    List Str → Dict → List LogMsg → List LogMsg × Outcome Dict
  | [], d, log => (log, .ok d)
  | l :: ls, d, log =>
    match parseLine toInt l with
    | .raised .valueError => parseLines toInt base ls d (log ++ [.badLine l base])
    | .raised e => (log, .raised e)
    | .ok e =>
      if startsWith pyPrefix e.typ then parseLines toInt base ls (d.set e.name (base, e.location)) log
      else parseLines toInt base ls d log           -- non-Python references are ignored

def parseInventory (toInt : Str → Option Int) (base payload : Str) : List LogMsg × Outcome Dict :=
  parseLines toInt base (splitlines payload) [] []

/-- `data.split(b'\n', 1)`: `none` when there is no newline (`len(parts) != 2`) -/
def splitFirstNL : Bytes → Option (Bytes × Bytes)
  | [] => none
  | b :: bs =>
    if b = 10 then some ([], bs)
    else match splitFirstNL bs with
      | none => none
      | some (first, rest) => some (b :: first, rest)

/-- the comment-stripping `while True` loop of `_getPayload`, with fuel (`none` = fuel exhausted;
`stripComments_terminates` shows `data.length + 1` always suffices) -/
def stripComments : Nat → Bytes → Option Bytes
  | 0, _ => none
  | fuel + 1, data =>
    match splitFirstNL data with
    | none => some data                                   -- len(parts) != 2
    | some (first, rest) =>
      if first.head? = some 35 then stripComments fuel rest   -- parts[0].startswith(b'#')
      else some data

/-- the payload handed to `zlib.decompress` (the `none` branch is unreachable, see
`PdProps.C17.payload_terminates`) -/
def strippedPayload (data : Bytes) : Bytes :=
  match stripComments (data.length + 1) data with
  | some p => p
  | none => data

/-- what `zlib.decompressobj().decompress(payload)` does: raises `zlib.error` (bad header, invalid
data, failed Adler-32 check), or returns what it inflated together with `eof` (false: the stream
ends before its end marker — an interrupted download; what came out is a correct prefix) -/
inductive Inflate
  | rejected
  | done (out : Bytes) (eof : Bool)
  deriving DecidableEq, Repr

/-- `b[: b.rfind(b'\n') + 1]`: everything through the last newline ('' when there is none) -/
def cutLastLine (b : Bytes) : Bytes :=
  (b.reverse.dropWhile (· ≠ 10)).reverse

/-- `b.split(b'\n')` -/
def splitNL (b : Bytes) : List Bytes := b.splitOn 10

/-- `'\n'.join(lines)` -/
def joinNL (ls : List Str) : Str := ['\n'].intercalate ls

/-- `_getPayload` (after /repo commit df39b19): the clear text and what was logged.
A rejected stream yields nothing; a stream that ends early is reported and its complete lines are
used; if the text is not UTF-8 as a whole that is reported and the lines that decode are kept. -/
def getPayload (inflate : Bytes → Inflate) (decode : Bytes → Option Str) (base : Str) (data : Bytes) :
    List LogMsg × Str :=
  match inflate (strippedPayload data) with
  | .rejected => ([.uncompress base], [])
  | .done out eof =>
    let log1 : List LogMsg := if eof then [] else [.uncompress base]
    let out' := if eof then out else cutLastLine out
    match decode out' with
    | some text => (log1, text)
    | none => (log1 ++ [.decode base], joinNL ((splitNL out').filterMap decode))

/-- PRE-df39b19 `_getPayload`: `zlib.decompress` and a strict decode of the whole payload, each
all-or-nothing (historical) -/
def getPayloadOld (unzip : Bytes → Option Bytes) (decode : Bytes → Option Str) (base : Str) (data : Bytes) :
    List LogMsg × Str :=
  match unzip (strippedPayload data) with
  | none => ([.uncompress base], [])
  | some raw =>
    match decode raw with
    | none => ([.decode base], [])
    | some text => ([], text)

/-- strict UTF-8 decoding (`bytes.decode('utf-8')`): `none` = UnicodeDecodeError.  Rejects
continuation bytes out of place, overlong forms, surrogates, values above U+10FFFF and cut
sequences, like CPython. -/
def utf8Decode : Bytes → Option Str
  | [] => some []
  | b0 :: rest =>
    let cont (b : Nat) : Bool := 0x80 ≤ b && b ≤ 0xBF
    if b0 < 0x80 then (utf8Decode rest).map (Char.ofNat b0 :: ·)
    else if 0xC2 ≤ b0 && b0 ≤ 0xDF then
      match rest with
      | b1 :: r => if cont b1 then (utf8Decode r).map (Char.ofNat ((b0 - 0xC0) * 64 + (b1 - 0x80)) :: ·) else none
      | _ => none
    else if 0xE0 ≤ b0 && b0 ≤ 0xEF then
      match rest with
      | b1 :: b2 :: r =>
        let lo := if b0 = 0xE0 then 0xA0 else 0x80
        let hi := if b0 = 0xED then 0x9F else 0xBF
        if lo ≤ b1 && b1 ≤ hi && cont b2 then
          (utf8Decode r).map (Char.ofNat ((b0 - 0xE0) * 4096 + (b1 - 0x80) * 64 + (b2 - 0x80)) :: ·)
        else none
      | _ => none
    else if 0xF0 ≤ b0 && b0 ≤ 0xF4 then
      match rest with
      | b1 :: b2 :: b3 :: r =>
        let lo := if b0 = 0xF0 then 0x90 else 0x80
        let hi := if b0 = 0xF4 then 0x8F else 0xBF
        if lo ≤ b1 && b1 ≤ hi && cont b2 && cont b3 then
          (utf8Decode r).map
            (Char.ofNat ((b0 - 0xF0) * 262144 + (b1 - 0x80) * 4096 + (b2 - 0x80) * 64 + (b3 - 0x80)) :: ·)
        else none
      | _ => none
    else none

/-- `url.rsplit('/', 1)`: `none` when there is no '/', else the part before the last '/' -/
def rsplitSlash (url : Str) : Option Str :=
  match (url.reverse.dropWhile (· ≠ '/')) with
  | [] => none
  | _ :: before => some before.reverse

structure State where
  links : Dict
  log : List LogMsg
  deriving DecidableEq, Repr

/-- `SphinxInventory.update(cache, url)` with `data = cache.get(url)`.  When `_parseInventory`
raises, `_links` is unchanged and the exception reaches the caller (second component). -/
def update (unzip : Bytes → Inflate) (decode : Bytes → Option Str) (toInt : Str → Option Int)
    (st : State) (url : Str) (data : Option Bytes) : State × Outcome Unit :=
  match rsplitSlash url with
  | none => ({ st with log := st.log ++ [.noBaseUrl url] }, .ok ())
  | some base =>
    match data with
    | none => ({ st with log := st.log ++ [.noData url] }, .ok ())
    | some [] => ({ st with log := st.log ++ [.noData url] }, .ok ())      -- `if not data`
    | some (b :: bs) =>
      let (log1, text) := getPayload unzip decode base (b :: bs)
      let (log2, res) := parseInventory toInt base text
      match res with
      | .raised e => ({ st with log := st.log ++ log1 ++ log2 }, .raised e)
      | .ok d => ({ links := st.links.update d, log := st.log ++ log1 ++ log2 }, .ok ())

/-- `SphinxInventory.getLink(name)` -/
def getLink (links : Dict) (name : Str) : Option Str :=
  match links.get name with
  | none => none
  | some (base, rel) =>
    if rel = [] then none                       -- `if not relative_link`
    else
      let rel' := if rel.getLast? = some '$' then rel.dropLast ++ name else rel
      some (base ++ '/' :: rel')

/-! ## one reader used over time: a sequence of `update` and `getLink` calls -/

/-- a call on one `SphinxInventory`: `update(cache, url)` (with what the cache, zlib and the
decoder do for it) or `getLink(name)` -/
inductive Step
  | upd (unzip : Bytes → Inflate) (decode : Bytes → Option Str) (url : Str) (data : Option Bytes)
  | ask (name : Str)

def Step.isUpd : Step → Bool
  | .upd .. => true
  | .ask _ => false

/-- one call: new reader state and what the call returned (`getLink`'s answer, or for `update`
whether it returned or raised).  `getLink` reads `_links` and nothing else; the reader keeps no
other state. -/
def step (toInt : Str → Option Int) (st : State) : Step → State × (Outcome Unit ⊕ Option Str)
  | .upd unzip decode url data =>
    let r := update unzip decode toInt st url data
    (r.1, .inl r.2)
  | .ask name => (st, .inr (getLink st.links name))

/-- the calls in order; returns the final state and every call's result -/
def runSteps (toInt : Str → Option Int) : State → List Step → State × List (Outcome Unit ⊕ Option Str)
  | st, [] => (st, [])
  | st, s :: ss =>
    let r := step toInt st s
    let rest := runSteps toInt r.1 ss
    (rest.1, r.2 :: rest.2)

/-! ## writer -/

/-- the `isinstance` chain of `_generateLine` (`package` is a `Module`; `method` is a `Function`
whose kind is not FUNCTION; `other` is any other Documentable) -/
inductive Kind | module | package | klass | function | method | attribute | other
  deriving DecidableEq, Repr, Inhabited

/-- an object with its own privacy verdict (`hidden` ⇔ `privacyClass is HIDDEN`) and `contents` -/
inductive Tree | node (name : Str) (kind : Kind) (hidden : Bool) (children : List Tree)
  deriving Repr, Inhabited

def Tree.name : Tree → Str | .node n _ _ _ => n

/-- `documentation_location is OWN_PAGE` (Documentable default; `Inheritable` is PARENT_PAGE) -/
def Kind.ownPage : Kind → Bool
  | .function | .method | .attribute => false
  | _ => true

def Kind.domain : Kind → Str
  | .module | .package => ['m','o','d','u','l','e']
  | .klass => ['c','l','a','s','s']
  | .function => ['f','u','n','c','t','i','o','n']
  | .method => ['m','e','t','h','o','d']
  | .attribute => ['a','t','t','r','i','b','u','t','e']
  | .other => ['o','b','j']

/-- UTF-8 encoding of one character -/
def utf8 (c : Char) : Bytes :=
  let v := c.toNat
  if v < 0x80 then [v]
  else if v < 0x800 then [0xC0 + v / 64, 0x80 + v % 64]
  else if v < 0x10000 then [0xE0 + v / 4096, 0x80 + (v / 64) % 64, 0x80 + v % 64]
  else [0xF0 + v / 262144, 0x80 + (v / 4096) % 64, 0x80 + (v / 64) % 64, 0x80 + v % 64]

def encodeUtf8 (s : Str) : Bytes := s.flatMap utf8

def hexDigit (n : Nat) : Char := if n < 10 then Char.ofNat (48 + n) else Char.ofNat (55 + n)

/-- `urllib.parse.quote` leaves these alone (`_ALWAYS_SAFE` plus the default `safe='/'`) -/
def isSafeChar (c : Char) : Bool :=
  c.isAlphanum || c = '_' || c = '.' || c = '-' || c = '~' || c = '/'

def pct (b : Nat) : Str := ['%', hexDigit (b / 16 % 16), hexDigit (b % 16)]

/-- `urllib.parse.quote(s)`: safe ASCII characters stay, every other character becomes the
`%XX` escapes of its UTF-8 bytes -/
def quote (s : Str) : Str := s.flatMap fun c => if isSafeChar c then [c] else (utf8 c).flatMap pct

def dotHtml : Str := ['.','h','t','m','l']
def indexHtml : Str := ['i','n','d','e','x','.','h','t','m','l']

/-- `fullName()` -/
def fullNameOf (parent : Option Str) (name : Str) : Str :=
  match parent with
  | none => name
  | some p => p ++ '.' :: name

/-- `page_url` in `Documentable.url`; `rootNames` = `system.root_names` (a set) -/
def pageUrl (rootNames : List Str) (full : Str) : Str :=
  if rootNames = [full] then indexHtml else quote full ++ dotHtml

/-- `Documentable.url`; `parent` is the parent's full name.  `page_object` asserts that an
object documented on its parent's page has a parent. -/
def urlOf (rootNames : List Str) (parent : Option Str) (name : Str) (kind : Kind) : Outcome Str :=
  if kind.ownPage then .ok (pageUrl rootNames (fullNameOf parent name))
  else match parent with
    | none => .raised .assertionError
    | some p => .ok (pageUrl rootNames p ++ '#' :: quote name)

/-- the line without its final newline: `f'{full_name} py:{domainname} -1 {url} {display}'` -/
def lineText (full : Str) (kind : Kind) (url : Str) : Str :=
  full ++ ' ' :: (pyPrefix ++ kind.domain) ++ ' ' :: '-' :: '1' :: ' ' :: url ++ [' ', '-']

/-- `_generateLine` -/
def genLine (rootNames : List Str) (parent : Option Str) (name : Str) (kind : Kind) : Outcome Str :=
  match urlOf rootNames parent name kind with
  | .raised e => .raised e
  | .ok url => .ok (lineText (fullNameOf parent name) kind url ++ ['\n'])

mutual
/-- one iteration of the loop in `_generateContent`.  `isVisible` is "own privacy is not HIDDEN
and the parent is visible"; the recursion only enters the contents of visible objects, so for an
object reached from the roots the second conjunct is true and `isVisible = !hidden`. -/
def genTree (rootNames : List Str) (parent : Option Str) : Tree → Outcome Str
  | .node name kind hidden cs =>
    if hidden then .ok []                                  -- `if not obj.isVisible: continue`
    else
      match genLine rootNames parent name kind with
      | .raised e => .raised e
      | .ok line =>
        match genList rootNames (some (fullNameOf parent name)) cs with
        | .raised e => .raised e
        | .ok rest => .ok (line ++ rest)
/-- `_generateContent(subjects)` -/
def genList (rootNames : List Str) (parent : Option Str) : List Tree → Outcome Str
  | [] => .ok []
  | t :: ts =>
    match genTree rootNames parent t with
    | .raised e => .raised e
    | .ok a =>
      match genList rootNames parent ts with
      | .raised e => .raised e
      | .ok b => .ok (a ++ b)
end

/-- `system.root_names`: the set of root object names (as a duplicate-free list) -/
def rootNamesOf (roots : List Tree) : List Str := (roots.map Tree.name).eraseDups

/-- `_generateContent(system.rootobjects)` (text before `.encode('utf-8')`) -/
def generateContent (roots : List Tree) : Outcome Str := genList (rootNamesOf roots) none roots

mutual
/-- full names of the visible objects of unknown type, for which `_generateLine` logs
"Unknown type … for <full_name>." -/
def unknownTree (parent : Option Str) : Tree → List Str
  | .node name kind hidden cs =>
    if hidden then []
    else (if kind = .other then [fullNameOf parent name] else []) ++
      unknownList (some (fullNameOf parent name)) cs
def unknownList (parent : Option Str) : List Tree → List Str
  | [] => []
  | t :: ts => unknownTree parent t ++ unknownList parent ts
end

/-- the four comment lines of `_generateHeader` (without the leading `#` and the newline); since
/repo commit 2626e70 whitespace runs in the project name and version are collapsed to one space -/
def headerLines (project version : Str) : List Str :=
  [" Sphinx inventory version 2".toList, " Project: ".toList ++ collapseWs project,
   " Version: ".toList ++ collapseWs version, " The rest of this file is compressed with zlib.".toList]

/-- `_generateHeader` (text before `.encode('utf-8')`) -/
def headerText (project version : Str) : Str :=
  (headerLines project version).flatMap fun l => '#' :: l ++ ['\n']

/-- PRE-2626e70 header: project name and version written verbatim (historical counterexample) -/
def headerTextOld (project version : Str) : Str :=
  ([" Sphinx inventory version 2".toList, " Project: ".toList ++ project, " Version: ".toList ++ version,
    " The rest of this file is compressed with zlib.".toList] : List Str).flatMap fun l => '#' :: l ++ ['\n']

/-- PRE-2626e70 `generate` -/
def generateFileOld (zip : Bytes → Bytes) (project version : Str) (roots : List Tree) : Outcome Bytes :=
  match generateContent roots with
  | .raised e => .raised e
  | .ok content => .ok (encodeUtf8 (headerTextOld project version) ++ zip (encodeUtf8 content))

/-- the bytes `generate` writes to `objects.inv` -/
def generateFile (zip : Bytes → Bytes) (project version : Str) (roots : List Tree) : Outcome Bytes :=
  match generateContent roots with
  | .raised e => .raised e
  | .ok content => .ok (encodeUtf8 (headerText project version) ++ zip (encodeUtf8 content))

/-! ## the intersphinx cache: `parseMaxAge`, `prepareCache`, `IntersphinxCache.get`,
`System.fetchIntersphinxInventories` -/

/-- `try: body  except (errs): handler` -/
def tryExcept {α : Type} (body : Outcome α) (errs : List PyErr) (handler : Outcome α) : Outcome α :=
  match body with
  | .ok a => .ok a
  | .raised e => if errs.contains e then handler else .raised e

/-- `_maxAgeUnits[c]`: (timedelta keyword, minimum inclusive, maximum exclusive); `none` = KeyError -/
def maxAgeUnit (c : Char) : Option (Str × Int × Int) :=
  if c = 's' then some ("seconds".toList, 1, 2 ^ 32 - 1)
  else if c = 'm' then some ("minutes".toList, 1, 2 ^ 32 - 1)
  else if c = 'h' then some ("hours".toList, 1, 2 ^ 32 - 1)
  else if c = 'd' then some ("days".toList, 1, 999999999 + 1)
  else if c = 'w' then some ("weeks".toList, 1, (999999999 + 1) / 7)
  else none

/-- `parseMaxAge(maxAge)`: returns `{unit.name: amount}` or raises -/
def parseMaxAge (toInt : Str → Option Int) (maxAge : Str) : Outcome (Str × Int) :=
  -- try: amount = int(maxAge[:-1])  except (ValueError, TypeError): raise InvalidMaxAge
  let amountR : Outcome Int := tryExcept
    (match toInt maxAge.dropLast with | some v => .ok v | none => .raised .valueError)
    [.valueError, .typeError] (.raised .invalidMaxAge)
  match amountR with
  | .raised e => .raised e
  | .ok amount =>
    -- try: unit = _maxAgeUnits[maxAge[-1]]  except (IndexError, KeyError): raise InvalidMaxAge
    let unitR : Outcome (Str × Int × Int) := tryExcept
      (match maxAge.getLast? with
       | none => .raised .indexError
       | some c => match maxAgeUnit c with | some u => .ok u | none => .raised .keyError)
      [.indexError, .keyError] (.raised .invalidMaxAge)
    match unitR with
    | .raised e => .raised e
    | .ok (name, lo, hi) =>
      if ¬ (lo ≤ amount ∧ amount < hi) then .raised .invalidMaxAge
      else .ok (name, amount)

/-- seconds in one unit (to compare with the `timedelta` the real cache heuristic is built with) -/
def unitSeconds (name : Str) : Int :=
  if name = "seconds".toList then 1 else if name = "minutes".toList then 60
  else if name = "hours".toList then 3600 else if name = "days".toList then 86400
  else if name = "weeks".toList then 604800 else 0

/-- what `prepareCache` hands back -/
inductive CacheKind
  | caching (unit : Str) (amount : Int)      -- CacheControl session with ExpiresAfter(**{unit: amount})
  | plain                                     -- bare session, no cache
  deriving DecidableEq, Repr

/-- what `shutil.rmtree(cachePath)` does -/
inductive RmResult
  | removed            -- the directory existed and is gone
  | missing            -- FileNotFoundError: there was no such directory
  | otherError         -- any other OSError (permissions, not a directory, …)
  deriving DecidableEq, Repr

/-- `prepareCache(clearCache, enableCache, cachePath, maxAge)` (after /repo commit f96af79:
`FileNotFoundError` from `shutil.rmtree` is swallowed — nothing to clear) -/
def prepareCache (toInt : Str → Option Int) (clearCache enableCache : Bool) (rm : RmResult) (maxAge : Str) :
    Outcome CacheKind :=
  -- if clearCache: try: shutil.rmtree(cachePath)  except FileNotFoundError: pass
  let cleared : Outcome Unit :=
    if clearCache then
      match rm with
      | .removed => .ok ()
      | .missing => .ok ()
      | .otherError => .raised .osError
    else .ok ()
  match cleared with
  | .raised e => .raised e
  | .ok () =>
    if enableCache then
      match parseMaxAge toInt maxAge with
      | .raised e => .raised e
      | .ok (u, n) => .ok (.caching u n)
    else .ok .plain

/-- PRE-FIX `prepareCache` (before f96af79): every error of `shutil.rmtree`, a missing directory
included, reached the caller.  Kept only for the historical counterexample. -/
def prepareCacheOld (toInt : Str → Option Int) (clearCache enableCache : Bool) (rm : RmResult) (maxAge : Str) :
    Outcome CacheKind :=
  if clearCache && rm != .removed then .raised .osError
  else if enableCache then
    match parseMaxAge toInt maxAge with
    | .raised e => .raised e
    | .ok (u, n) => .ok (.caching u n)
  else .ok .plain

/-- what `self._session.get(url).content` does -/
inductive SessionResult
  | content (b : Bytes)
  | exception                -- any `Exception` subclass (connection refused, timeout, bad URL, …)
  | baseException            -- KeyboardInterrupt / SystemExit: not caught by `except Exception`
  deriving DecidableEq, Repr

/-- `IntersphinxCache.get(url)`: body, or `None` after logging (python `logging`, not `system.msg`) -/
def cacheGet : SessionResult → Outcome (Option Bytes)
  | .content b => .ok (some b)
  | .exception => .ok none
  | .baseException => .raised .baseException

/-- one `--intersphinx` URL: what the session, zlib and the decoder do for it -/
structure Fetch where
  url : Str
  session : SessionResult
  unzip : Bytes → Inflate
  decode : Bytes → Option Str

/-- `System.fetchIntersphinxInventories(cache)`: `for url in options.intersphinx: update(cache, url)` -/
def fetchAll (toInt : Str → Option Int) : State → List Fetch → State × Outcome Unit
  | st, [] => (st, .ok ())
  | st, f :: fs =>
    match cacheGet f.session with
    | .raised e => (st, .raised e)
    | .ok data =>
      match update f.unzip f.decode toInt st f.url data with
      | (st', .raised e) => (st', .raised e)
      | (st', .ok ()) => fetchAll toInt st' fs

/-! ## the linker's use of the inventory: `_EpydocLinker._resolve_identifier_xref`, `link_to` -/

/-- where a cross reference ends up -/
inductive XrefTarget
  | internal (fullName : Str)        -- a Documentable of this system
  | external (url : Str)             -- an intersphinx URL
  | unresolved                       -- `LookupError` (`link_xref`) / plain label (`link_to`)
  deriving DecidableEq, Repr

/-- Python truthiness of an `Optional[str]` -/
def truthy : Option Str → Bool
  | none => false
  | some s => !s.isEmpty

/-- decision order of `_resolve_identifier_xref(identifier)`.  Parameters (name resolution is not
this layer's business): `objFor` = `system.objForFullName`, `expand` = `self.obj.expandName`,
`context` = outcome of everything after the intersphinx test (the walk up the parents with
`resolveName`, the "uncle" search, the all-modules search; `none` = LookupError). -/
def resolveXref (objFor : Str → Option Str) (expand : Str → Str) (links : Dict)
    (context : Option Str) (identifier : Str) : XrefTarget :=
  match objFor identifier with
  | some o => .internal o
  | none =>
    let fullID := expand identifier
    let url1 := getLink links fullID
    let url := if !truthy url1 then getLink links identifier else url1
    if truthy url then
      (match url with | some u => .external u | none => .unresolved)
    else
      match context with
      | some o => .internal o
      | none => .unresolved

/-- decision order of `link_to(identifier, label)` (annotations, signatures): `resolved` =
`self.obj.resolveName(identifier)`, then intersphinx by the expanded name only -/
def linkTo (resolved : Option Str) (expand : Str → Str) (links : Dict) (identifier : Str) : XrefTarget :=
  match resolved with
  | some o => .internal o
  | none =>
    match getLink links (expand identifier) with
    | some u => .external u
    | none => .unresolved

/-! ## which role every `DocumentableKind` gets -/

/-- `model.DocumentableKind` -/
inductive DocKind
  | package | module | klass | interface | exception | classMethod | staticMethod | method | function
  | constant | typeVariable | typeAlias | classVariable | schemaField | attribute | instanceVariable
  | property | variable
  deriving DecidableEq, Repr

def DocKind.all : List DocKind :=
  [.package, .module, .klass, .interface, .exception, .classMethod, .staticMethod, .method, .function,
   .constant, .typeVariable, .typeAlias, .classVariable, .schemaField, .attribute, .instanceVariable,
   .property, .variable]

/-- the model class (branch of `_generateLine`'s isinstance chain) objects of each kind belong to:
packages/modules are `Module`s, classes/interfaces/exceptions `Class`es, FUNCTION a `Function` of kind
FUNCTION, the three method kinds `Function`s of another kind, everything else an `Attribute` -/
def DocKind.cls : DocKind → Kind
  | .package => .package
  | .module => .module
  | .klass | .interface | .exception => .klass
  | .function => .function
  | .classMethod | .staticMethod | .method => .method
  | _ => .attribute

/-- the `domain:type` column written for an object of the given kind -/
def DocKind.role (k : DocKind) : Str := pyPrefix ++ k.cls.domain

/-! ## which objects `driver.make` hands to the page writer and to the inventory writer -/

/-- a selection of subjects -/
inductive Subjects
  | roots                       -- `system.rootobjects`: everything
  | nothing                     -- `()`
  | named (names : List Str)    -- `[system.allobjects[fn] for fn in options.htmlsubjects]`
  deriving DecidableEq, Repr

/-- the `subjects` passed to `writer.writeIndividualFiles` when `--make-html` is on -/
def htmlSubjects (htmlsubjects : List Str) (summaryPagesOnly : Bool) : Subjects :=
  if htmlsubjects ≠ [] then .named htmlsubjects          -- `if options.htmlsubjects:`
  else if summaryPagesOnly then .nothing                 -- summary pages written, `subjects` stays `()`
  else .roots

/-- the `subjects` passed to `SphinxInventoryWriter.generate` (`makehtml` implies `makeintersphinx`);
`none`: no inventory is written -/
def inventorySubjects (makehtml makeintersphinx : Bool) (htmlsubjects : List Str) (summaryPagesOnly : Bool) :
    Option Subjects :=
  if makehtml then some (htmlSubjects htmlsubjects summaryPagesOnly)
  else if makeintersphinx then some .roots               -- `if not options.makehtml: subjects = system.rootobjects`
  else none

/-! ## specification side: the visible reachable objects with their documented location -/

/-- `url` for objects that have a parent or their own page (total version used in statements) -/
def urlPure (rootNames : List Str) (parent : Option Str) (name : Str) (kind : Kind) : Str :=
  if kind.ownPage then pageUrl rootNames (fullNameOf parent name)
  else pageUrl rootNames (parent.getD []) ++ '#' :: quote name

structure Obj where
  full : Str
  kind : Kind
  url : Str
  deriving DecidableEq, Repr

mutual
/-- the visible objects reachable from the roots through visible parents, in document order -/
def visTree (rootNames : List Str) (parent : Option Str) : Tree → List Obj
  | .node name kind hidden cs =>
    if hidden then []
    else ⟨fullNameOf parent name, kind, urlPure rootNames parent name kind⟩ ::
      visList rootNames (some (fullNameOf parent name)) cs
def visList (rootNames : List Str) (parent : Option Str) : List Tree → List Obj
  | [] => []
  | t :: ts => visTree rootNames parent t ++ visList rootNames parent ts
end

def visibleObjects (roots : List Tree) : List Obj := visList (rootNamesOf roots) none roots

end Inventory
