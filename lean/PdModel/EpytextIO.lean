import PdModel.Epytext
import PdModel.Proto
import Generated.Tables
/-! Line protocol for the Epytext / Doctest / Fields models (driver keyword `epytext`):

* `epytext colorize <u:text> <u:wordExtra>` → `<tree> | <errors>`; tree = `( tag child* )`, leaves `u:…`;
  errors = `kind@charnum,…` or `-`
* `epytext visible <u:text> <u:wordExtra>` → `error` | `raises` | `ok <u:visible text> <u:strip>`
* `epytext strip <u:text>` → `<u:strip text>`
* `epytext target <u:s>` → `none` | `some <u:text> <u:target>`            (`_TARGET_RE.match(s).groups()`)
* `epytext literal <start> <indent> <u:line>*` → `<u:contents> <linenum>`  (`_tokenize_literal`)
* `epytext doctest <start> <indent> <u:line>*` → `<u:contents> <linenum> <error lines>`
* `epytext codeblock <u:s> <matches>` → pieces | `AssertionError`;  matches = `start-stop-kind,…` or `-`
* `epytext doctestbody <u:s> (<start> <srcEnd> <stop> <0|1> <matches>)*` → pieces | `AssertionError`
* `epytext plaintext <u:s>` → `<u:child>`
* `epytext field <tag> <fn> <kind> <hasArg> <paramExists> <attrKnown>` → `heading=… attr=0|shown|hidden reported=… modelled=…`
* `epytext itemliteral <bullet_indent> <para_start> <bullet flags 0/1 per line> <u:line>*` → `none` | `some <u:contents> <indent>`
  (`_tokenize_listart` + the literal block `_tokenize` starts after the item's first paragraph)
* `epytext rstsep <u:text>` → `<u:text after the separator>`   (consolidated reST bullet entry)
* `epytext params <id[:ann],…|-> <kwargs id|-> <self id|-> (P|K|T)<name>.<text>*` → `rows name/body/type … | reports kind:name …`
* `epytext extract <existing ids|-> (i|c|v|t|o).<name|->.<text>*` → `attrs name/doc/type/shown|hidden … | missing …`   (`extract_fields`)
* `epytext showntype <parsed_type|-> <own type fields|-> <annotation|->` → `<text|->`   (`get_parsed_type`)
* `epytext dedent <u:line>*` → `<min indent> <initial indent> <u:dedented line>*`   (napoleon `_get_min_indent`, `_get_initial_indent`, `_dedent`)
* `epytext property <0|1> (r|t|o).<text>.<0|1>*` → `desc=… type=… other=…`   (`_handlePropertyDef`)
* `epytext heading <u:contents[0]> [<u:contents[1]>]` → `heading <level>` | `typo` | `para`   (`_tokenize_para`)
* `epytext pair (d<n>|t<n>)*` → `absent` | `body=… type=…`   (return/rtype, yield/ytype handlers in source order)
* `epytext spaces` → code points below 0x3100 for which `pyIsSpace`
`wordExtra` lists the non-ASCII characters of the text that Python's `\w` accepts. -/
namespace Epytext

/-- the tables of the repository under test (`Generated.Tables`) -/
def liveCfg (wordExtra : List Char) : Cfg :=
  ⟨Generated.Epytext.symbols, Generated.Epytext.codepoints, fun c => wordExtra.contains c⟩

def Tag.show : Tag → String
  | .para => "para" | .code => "code" | .math => "math" | .italic => "italic" | .bold => "bold"
  | .uri => "uri" | .link => "link" | .escape => "escape" | .symbol => "symbol" | .unknown => "unknown"
  | .litbrace => "litbrace" | .name => "name" | .target => "target"

mutual
def showInl : Inl → String
  | .text s => Proto.encodeStr s
  | .elem t cs => "( " ++ t.show ++ " " ++ showInls cs ++ ")"
def showInls : List Inl → String
  | [] => ""
  | c :: cs => showInl c ++ " " ++ showInls cs
end

def ErrKind.show : ErrKind → String
  | .unknownTag => "unknown-tag" | .unbalancedClose => "unbalanced-close" | .invalidSymbol => "invalid-symbol"
  | .invalidEscape => "invalid-escape" | .badTarget => "bad-target" | .badLinkTarget => "bad-target"
  | .unbalancedOpen => "unbalanced-open"

def showErrs (es : List Err) : String :=
  if es.isEmpty then "-" else ",".intercalate (es.map fun e => e.kind.show ++ "@" ++ toString e.charnum)

end Epytext

namespace Doctest
open Epytext (asciiWord pyIsSpace)

def Cls.show : Cls → String
  | .prompt => "py-prompt" | .more => "py-more" | .keyword => "py-keyword" | .builtin => "py-builtin"
  | .comment => "py-comment" | .string => "py-string" | .defname => "py-defname" | .output => "py-output"
  | .except_ => "py-except"

def showPieces (ps : List Piece) : String :=
  if ps.isEmpty then "-" else
  " ".intercalate (ps.map fun
    | .raw s => "raw:" ++ Proto.encodeStr s
    | .span c s => c.show ++ ":" ++ Proto.encodeStr s)

/-- `PROMPT2_RE.match(line)` on one line: `^[ \t]*\.\.\.(?:[ \t]|$)` -/
def promptEndRe (line : List Char) : Option Nat :=
  let ws := line.takeWhile fun c => c == ' ' || c == '\t'
  let r := line.drop ws.length
  if r.take 3 = ['.', '.', '.'] then
    match r.drop 3 with
    | [] => some (ws.length + 3)
    | c :: _ => if c == ' ' || c == '\t' then some (ws.length + 4) else none
  else none

/-- `DEFINE_FUNC_RE.match(text)`: `(?P<def>\w+)(?P<space>\s+)(?P<name>\w+)` (ASCII `\w`) -/
def defineGroupsRe (text : List Char) : Option (List Char × List Char × List Char) :=
  let d := text.takeWhile asciiWord
  let r := text.drop d.length
  let sp := r.takeWhile pyIsSpace
  let n := (r.drop sp.length).takeWhile asciiWord
  if d.isEmpty || sp.isEmpty || n.isEmpty then none else some (d, sp, n)

def reParams : Params := ⟨promptEndRe, defineGroupsRe⟩

def parseKind : String → Option MKind
  | "PROMPT1" => some .prompt1 | "PROMPT2" => some .prompt2 | "KEYWORD" => some .keyword
  | "BUILTIN" => some .builtin | "COMMENT" => some .comment | "STRING" => some .string
  | "DEFINE" => some .define | "EOS" => some .eos | _ => none

def parseMatches (tok : String) : Option (List Match) :=
  if tok == "-" then some [] else
  (tok.splitOn ",").mapM fun m =>
    match m.splitOn "-" with
    | [a, b, k] => do some ⟨← a.toNat?, ← b.toNat?, ← parseKind k⟩
    | _ => none

def parseExamples : List String → Option (List Example)
  | [] => some []
  | a :: b :: c :: x :: ms :: rest => do
    let tl ← parseExamples rest
    some (⟨← a.toNat?, ← b.toNat?, ← c.toNat?, ← parseMatches ms, x == "1"⟩ :: tl)
  | _ => none

def showResult : Except Error (List Piece) → String
  | .ok ps => showPieces ps
  | .error _ => "AssertionError"

end Doctest

namespace Fields

def parseKind : String → Option ObjKind
  | "module" => some .module | "class" => some .cls | "function" => some .function
  | "attribute" => some .attr | _ => none

def showOutcome (o : Outcome) : String :=
  "heading=" ++ (match o.heading with | some h => h.replace " " "_" | none => "-") ++
  " attr=" ++ (if o.toAttr then (if o.attrShown then "shown" else "hidden") else "0") ++
  " reported=" ++ (if o.reported then "1" else "0") ++
  " modelled=" ++ (if o.modelled then "1" else "0")

def parseEvent (tok : String) : Option PairEvent :=
  if tok.startsWith "d" then ((tok.drop 1).toString.toNat?).map PairEvent.desc
  else if tok.startsWith "t" then ((tok.drop 1).toString.toNat?).map PairEvent.type
  else none

def showPair : Option PairDesc → String
  | none => "absent"
  | some d => "body=" ++ (match d.body with | some n => toString n | none => "-") ++
              " type=" ++ (match d.type with | some n => toString n | none => "-")

end Fields


namespace Params

def optNat (s : String) : Option (Option Nat) := if s == "-" then some none else s.toNat?.map some

/-- `id` or `id:ann` joined by `,` ; `-` for no parameter -/
def parseSigParams (tok : String) : Option (List (Nat × Option Nat)) :=
  if tok == "-" then some [] else
  (tok.splitOn ",").mapM fun p =>
    match p.splitOn ":" with
    | [a] => a.toNat?.map fun n => (n, none)
    | [a, b] => do some (← a.toNat?, some (← b.toNat?))
    | _ => none

def parseEvent (tok : String) : Option Event :=
  match (tok.drop 1).toString.splitOn "." with
  | [a, b] => do
    let n ← a.toNat?
    let t ← b.toNat?
    if tok.startsWith "P" then some (.param n t)
    else if tok.startsWith "K" then some (.keyword n t)
    else if tok.startsWith "T" then some (.type n t)
    else none
  | _ => none

def showOpt : Option Nat → String
  | some n => toString n
  | none => "-"

/-- text 0 stands for an empty field body (a `Tag` without text: nothing to read back from the page) -/
def showDesc (d : Desc) : String :=
  toString d.name ++ "/" ++ (if d.body == some 0 then "-" else showOpt d.body) ++ "/" ++ showOpt d.type

def showReport (r : ReportKind × Nat) : String :=
  (match r.1 with | .duplicate => "dup" | .notFound => "notfound" | .asKeyword => "askw" | .duplicateType => "duptype") ++ ":" ++ toString r.2

end Params

namespace Property

def parseField (tok : String) : Option PField :=
  match tok.splitOn "." with
  | [k, t, b] => do
    let tag ← (match k with | "r" => some PTag.ret | "t" => some PTag.rtype | "o" => some PTag.other | _ => none)
    some ⟨tag, ← t.toNat?, b == "1"⟩
  | _ => none

def showState (st : PState) : String :=
  "desc=" ++ Params.showOpt st.description ++ " type=" ++ Params.showOpt st.parsedType ++
  " other=" ++ (if st.otherFields.isEmpty then "-" else ",".intercalate (st.otherFields.map fun f => toString f.text))

end Property

namespace Attrs

def parseField (tok : String) : Option AField :=
  match tok.splitOn "." with
  | [k, n, t] => do
    let tag ← (match k with | "i" => some VTag.ivar | "c" => some VTag.cvar | "v" => some VTag.var | "t" => some VTag.type
                              | "o" => some VTag.other | _ => none)
    let name ← Params.optNat n
    some ⟨tag, name, ← t.toNat?⟩
  | _ => none

def showAttr (p : Nat × AttrV) : String :=
  toString p.1 ++ "/" ++ Params.showOpt p.2.doc ++ "/" ++ Params.showOpt p.2.type ++ "/" ++ (if p.2.hasKind then "shown" else "hidden")

end Attrs

namespace Epytext

def showHead : HeadOutcome → String
  | .heading l => "heading " ++ toString l
  | .typo => "typo"
  | .para => "para"
  | .indexError => "IndexError"

def handle (args : List String) : String :=
  match args with
  | ["colorize", t, w] =>
    match Proto.decodeStr t, Proto.decodeStr w with
    | some text, some extra =>
      let r := colorize (liveCfg extra) text
      showInl r.tree ++ " | " ++ showErrs r.errs
    | _, _ => "bad-op"
  | ["visible", t, w] =>
    match Proto.decodeStr t, Proto.decodeStr w with
    | some text, some extra =>
      let T := liveCfg extra
      let r := colorize T text
      if !r.errs.isEmpty then "error" else
      match visible T r.tree with
      | some v => "ok " ++ Proto.encodeStr v ++ " " ++ Proto.encodeStr (strip T text)
      | none => "raises"
    | _, _ => "bad-op"
  | ["strip", t] =>
    match Proto.decodeStr t with
    | some text => Proto.encodeStr (strip (liveCfg []) text)
    | none => "bad-op"
  | ["target", t] =>
    match Proto.decodeStr t with
    | some s =>
      match splitTarget s with
      | some (a, b) => "some " ++ Proto.encodeStr a ++ " " ++ Proto.encodeStr b
      | none => "none"
    | none => "bad-op"
  | "literal" :: st :: ind :: ls =>
    match st.toNat?, ind.toNat?, ls.mapM Proto.decodeStr with
    | some start, some bi, some lines =>
      let r := tokenizeLiteral lines start bi
      Proto.encodeStr r.1 ++ " " ++ toString r.2
    | _, _, _ => "bad-op"
  | "doctest" :: st :: ind :: ls =>
    match st.toNat?, ind.toNat?, ls.mapM Proto.decodeStr with
    | some start, some bi, some lines =>
      let r := tokenizeDoctest lines start bi
      Proto.encodeStr r.1 ++ " " ++ toString r.2.1 ++ " " ++ Proto.showNatList r.2.2
    | _, _, _ => "bad-op"
  | ["codeblock", t, ms] =>
    match Proto.decodeStr t, Doctest.parseMatches ms with
    | some s, some mts => Doctest.showResult (Doctest.codeblockBody Doctest.reParams s mts 0)
    | _, _ => "bad-op"
  | "doctestbody" :: t :: exs =>
    match Proto.decodeStr t, Doctest.parseExamples exs with
    | some s, some examples => Doctest.showResult (Doctest.doctestBody Doctest.reParams s examples 0)
    | _, _ => "bad-op"
  | ["plaintext", t] =>
    match Proto.decodeStr t with
    | some s => " ".intercalate ((plaintextToStan s).map Proto.encodeStr)
    | none => "bad-op"
  | ["field", tag, fn, kind, hasArg, ex, known] =>
    match Fields.parseKind kind with
    | some k => Fields.showOutcome (Fields.outcome tag fn k ⟨hasArg == "1", ex == "1", known == "1"⟩)
    | none => "bad-op"
  | "itemliteral" :: bi :: ps :: bl :: ls =>
    match bi.toNat?, ps.toNat?, ls.mapM Proto.decodeStr with
    | some b, some pstart, some lines =>
      match itemLiteral lines (bl.toList.map (· == '1')) 0 b pstart with
      | some (c, ind) => "some " ++ Proto.encodeStr c ++ " " ++ toString ind
      | none => "none"
    | _, _, _ => "bad-op"
  | ["rstsep", t] =>
    match Proto.decodeStr t with
    | some text => Proto.encodeStr (Rst.stripSeparator text)
    | none => "bad-op"
  | "params" :: ps :: kw :: slf :: evs =>
    match Params.parseSigParams ps, Params.optNat kw, Params.optNat slf, evs.mapM Params.parseEvent with
    | some params, some kwn, some sn, some es =>
      let sg : Params.Sig := ⟨params, kwn, sn⟩
      let fh := Params.run sg es
      let rs := Params.rows sg fh
      "rows " ++ (if rs.isEmpty then "-" else " ".intercalate (rs.map Params.showDesc)) ++
      " | reports " ++ (if fh.reports.isEmpty then "-" else " ".intercalate (fh.reports.map Params.showReport))
    | _, _, _, _ => "bad-op"
  | "extract" :: ex :: fs =>
    match (if ex == "-" then some [] else (ex.splitOn ",").mapM String.toNat?), fs.mapM Attrs.parseField with
    | some existing, some fields =>
      let st := Attrs.extract (existing.map fun n => (n, ⟨none, none, true⟩)) fields
      "attrs " ++ (if st.attrs.isEmpty then "-" else " ".intercalate (st.attrs.map Attrs.showAttr)) ++
      " | missing " ++ Proto.showNatList st.missing ++ " | dup " ++ Proto.showNatList st.duplicates
    | _, _ => "bad-op"
  | ["showntype", a, b, c] =>
    match Params.optNat a, Proto.natList b, Params.optNat c with
    | some pt, some own, some ann => Params.showOpt (Attrs.shownType pt own ann)
    | _, _, _ => "bad-op"
  | "dedent" :: ls =>
    match ls.mapM Proto.decodeStr with
    | some lines => toString (Napoleon.getMinIndent lines) ++ " " ++ toString (Napoleon.getInitialIndent lines) ++ " " ++
        " ".intercalate ((Napoleon.dedent lines).map Proto.encodeStr)
    | none => "bad-op"
  | "inherited" :: hb :: fs =>
    match fs.mapM Property.parseField with
    | some fields => Property.showState (Property.inheritedView (hb == "1") fields)
    | none => "bad-op"
  | "property" :: hb :: fs =>
    match fs.mapM Property.parseField with
    | some fields => Property.showState (Property.handle (hb == "1") fields)
    | none => "bad-op"
  | ["heading", a] =>
    match Proto.decodeStr a with
    | some c0 => showHead (headingOf c0 none)
    | none => "bad-op"
  | ["heading", a, b] =>
    match Proto.decodeStr a, Proto.decodeStr b with
    | some c0, some c1 => showHead (headingOf c0 (some c1))
    | _, _ => "bad-op"
  | "pair" :: evs =>
    match evs.mapM Fields.parseEvent with
    | some es => Fields.showPair (Fields.runPair none es) ++ " dups=" ++ toString (Fields.pairDupCount none es)
    | none => "bad-op"
  | ["spaces"] =>
    Proto.showNatList ((List.range 0x3100).filter fun n => pyIsSpace (Char.ofNat n))
  | _ => "bad-op"

end Epytext
