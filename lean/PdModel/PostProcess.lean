/-!
# PostProcess — `model.defaultPostProcess`

Two loops of pydoctor's post-processing, transcribed:

* `for b in cls.baseobjects: if b is not None: b.subclasses.append(cls)` over the classes in registry
  order (`subclasses`);
* `_inherits_instance_variable_kind(attrib)` over the attributes in registry order: a class variable
  becomes an instance variable as soon as one of the members of the same name found along the
  linearisation of its class (`Inheritable.docsources`, the class itself excluded) is an instance
  variable *at that moment* (`kindPass`).

Import-free, executable.
-/
namespace PostProcess

/-! ## subclasses -/

/-- `b.subclasses` after the loop: the classes (in registry order) that list `b` among their resolved
bases, once per occurrence -/
def subclasses (classes : List (Nat × List (Option Nat))) (b : Nat) : List Nat :=
  classes.flatMap fun (c, bases) => (bases.filter (· == some b)).map fun _ => c

/-! ## interface back-references (`extensions.zopeinterface._handle_implemented`) -/

/-- `if implementer not in iface.implementedby_directly: iface.implementedby_directly.append(implementer)` -/
def addNew (acc : List Nat) (x : Nat) : List Nat := if x ∈ acc then acc else acc ++ [x]

/-- `iface.implementedby_directly` after post-processing. `decls` lists, in processing order, every
declaration "implementer `x` names an interface": `(x, some i)` when the name leads (through
`find_object`) to the interface class `i`, `(x, none)` when it leads to nothing or to something that is
not an interface (reported, no back-reference) -/
def implementedBy (decls : List (Nat × Option Nat)) (i : Nat) : List Nat :=
  ((decls.filter (·.2 == some i)).map (·.1)).foldl addNew []

/-! ## kinds of inherited attributes -/

inductive Kind | classVar | instVar | other
  deriving DecidableEq, Repr, Inhabited

/-- the members of all classes: member `i < n` lives in class `cls i` under name `name i`; `mro c` is
the linearisation of class `c` (itself first); `orig` the kinds before the pass -/
structure World where
  n : Nat
  cls : Nat → Nat
  name : Nat → Nat
  mro : Nat → List Nat
  orig : Nat → Kind

/-- `docsources()` of member `i` without the member itself: for every class of the linearisation
after the first, its member of the same name if it has one -/
def inherited (w : World) (i : Nat) : List Nat :=
  (w.mro (w.cls i)).tail.filterMap fun b =>
    (List.range w.n).find? fun j => w.cls j == b && w.name j == w.name i

/-- `_inherits_instance_variable_kind(attr)` on the current kinds -/
def step (w : World) (k : Nat → Kind) (i : Nat) : Nat → Kind :=
  if k i = .classVar ∧ (inherited w i).any (fun j => k j == .instVar) = true then
    fun x => if x = i then .instVar else k x
  else k

/-- the pass over the attributes in the given order -/
def kindPass (w : World) (order : List Nat) : Nat → Kind := order.foldl (step w) w.orig

/-- what the pass is meant to compute, stated on the kinds BEFORE the pass: a class variable that has an
instance variable of the same name somewhere up its class's linearisation -/
def spec (w : World) (i : Nat) : Kind :=
  if w.orig i = .classVar ∧ (inherited w i).any (fun j => w.orig j == .instVar) = true then .instVar
  else w.orig i

/-- the variant of a seeded change (kept as a counterexample): stop at the first inherited class
variable, "which has been converted already" -/
def stepEarlyStop (w : World) (k : Nat → Kind) (i : Nat) : Nat → Kind :=
  if k i = .classVar then
    match (inherited w i).find? (fun j => k j == .instVar || k j == .classVar) with
    | some j => if k j = .instVar then fun x => if x = i then .instVar else k x else k
    | none => k
  else k

end PostProcess
