/-
Model of what a pydoctor run writes, as far as links, anchors and listing entries go
(the "output skeleton"):

* `Documentable.url`, `Documentable.page_object`, `Documentable.isVisible/isPrivate`,
  `Documentable.fullName` (pydoctor/model.py)
* `linker.taglink` (same-page shortening; it only *logs* when the target is not visible)
* `TemplateWriter._writeDocsFor / writeSummaryPages` (templatewriter/writer.py): which files exist
  after the run (object pages, summary pages, `index.html`, the `<root>.html` symlink)
* every place that emits a link or a listing entry — the PRODUCER TABLE — with the guard exactly
  as written in the code and whether the `private` marker is attached:
  `pages/__init__.py` (`CommonPage.children/methods/namespace`, `PackagePage`, `ClassPage.extras /
  baseTables / baseName`, `assembleList`, `get_override_info`, `format_class_signature`),
  `pages/table.py`, `pages/sidebar.py`, `templatewriter/util.py` (`css_class`, `nested_bases`,
  `unmasked_attrs`, `class_members`, `inherited_members`, `overriding_subclasses`),
  `templatewriter/summary.py` (`moduleSummary`, `findRootClasses`, `subclassesFrom`, `isPrivate`,
  `isClassNodePrivate`, `NameIndexPage`, `IndexPage`, `UndocumentedSummaryPage`, `summaryPages`),
  `templatewriter/search.py` (`get_all_documents_flattenable`, `LunrIndexWriter.get_corpus`),
  `sphinx.SphinxInventoryWriter._generateContent`, `epydoc2stan.format_docstring / format_summary /
  populate_constructors_extra_info` (which linker context renders a docstring).

Input = the object table of the finished System: per object its name, kind, parent, `contents`
(dict values in order), its `privacyClass` (decided by the `Privacy` layer), and the *resolved*
relations the producers read: `baseobjects`, `bases`, `mro()`, `subclasses`, the object whose docstring
is displayed (`get_docstring`), the targets its `L{…}` resolve to, the targets of its annotation /
signature / decorator links, the resolved targets of the class-signature expressions, the public
constructors.  Name resolution itself is the `Names` layer (C04/C07), C3 the `Mro` layer (C05).

The model follows the code as fixed by cb98646 (a superseded duplicate `'x 0'` is not visible:
`isVisible` requires the object to be its parent's `contents` entry), aaed9bd (`taglink` renders the plain
label when the target is not visible: `taglinkGuard`), 4b6324b (the index pages skip hidden roots), f972163 (`reparent` refreshes the linker's page), a09aa28 (`IndexPage`
also when no root is visible), 5201211 (no root alias over a summary page), a3977d7 (none for a hidden root), fb55ab8 (undoccedSummary marker), d869973 (class-private `__names` override and mask nothing), 2972983 (class-index row marker `classRowPrivate`), 1da744b (`format_docstring` renders under
`switch_context(obj)`), 0ff33e4 (also the late-formatted `@see`/`@note`/`@author`/`@since` fields: row `fieldXref`), 97be2c0 (`findRootClasses` appends a root class to the list already stored under
its name), 07382d3 (`reparent` updates `parentMod` of what is inside a moved class; `modul` is input).
`requests s` = every `taglink` call / listing entry the page code makes; `emits s` = what is left of them
after the guard. The pre-fix transcriptions live at the end of the file as `…Old` definitions, used only
by the labelled historical counterexamples of PdProps/C11.lean and C12.lean.

Objects are numbered parents first.  An id outside the table reads as `default` (a hidden package):
the protocol front end refuses such requests.  Loops that follow `parent`, `contents`, `subclasses`
have fuel (number of objects); `WF` (below) makes the fuel sufficient, a cyclic table would make
Python recurse for ever.

Not modelled (noted in notes/C11.md): the compact module list of `moduleSummary` (> 50 submodules),
letter anchors of nameIndex.html, docstring tables of contents, what docutils writes inside a docstring
(footnotes: c3f754a, 7e81765, internal references in summaries: fdcff94 are covered by the crawl oracle only), zope.interface rows, `extra_info` other
than the constructor note, `--html-subject`.
-/
import PdModel.Privacy

namespace Output

abbrev Name := List Char
abbrev Level := Privacy.Level

inductive Kind | package | module | cls | function | attribute
  deriving DecidableEq, Repr, Inhabited

/-- `isinstance(o, model.Module)` (packages included) -/
def Kind.isModule : Kind → Bool
  | .package | .module => true
  | _ => false

/-- `documentation_location is DocLocation.OWN_PAGE` -/
def Kind.ownPage : Kind → Bool
  | .package | .module | .cls => true
  | _ => false

structure Obj where
  name : Name
  kind : Kind
  parent : Option Nat
  /-- `ob.privacyClass` -/
  privacy : Level
  /-- `ob.contents.values()` -/
  contents : List Nat
  /-- `summary.hasdocstring(ob)` -/
  hasDoc : Bool
  /-- the object whose docstring is displayed for `ob` (`ensure_parsed_docstring`) -/
  docSource : Option Nat
  /-- `source.docstring_linker._page_object` when that docstring is rendered: the page its links are
  shortened for. The linker is created on first use (signature defaults create it while the AST is
  built) and `reparent` does not reset it: for a re-exported object this is the *old* page. -/
  docCtx : Option Nat
  /-- `ob.parentMod` (`ob.module`); `reparent` updates it for the moved object only, not for what is
  inside it -/
  modul : Option Nat
  /-- resolved targets of the `L{…}` of the displayed docstring -/
  xrefs : List Nat
  /-- resolved targets of the `L{…}` in the `@see` / `@note` / `@author` / `@since` fields of the displayed
  docstring: `FieldHandler` only stores these fields and formats their bodies in `FieldHandler.format()` -/
  laterefs : List Nat := []
  /-- resolved targets of annotation / signature / decorator / value links (`link_to`) -/
  annrefs : List Nat
  /-- resolved targets of the links made through the object's own `docstring_linker`: default values of
  parameters, decorators, constant values (`_ValueFormatter`, `format_decorators`, `format_constant_value`) -/
  valrefs : List Nat
  /-- `ob.docstring_linker._page_object` at render time (input; read by `valLinksOld` only: before f972163
  `reparent` did not refresh it and for a re-exported function it was the page of the defining module) -/
  ownCtx : Option Nat
  /-- `cls.baseobjects` -/
  bases : List (Option Nat)
  /-- `cls.bases` -/
  baseNames : List Name
  /-- `cls.mro()` (self first, externals dropped) -/
  mro : List Nat
  /-- `cls.subclasses` -/
  subclasses : List Nat
  /-- what each base expression of the class signature links to -/
  sigrefs : List (Option Nat)
  /-- `cls.public_constructors` -/
  ctors : List Nat
  deriving Repr, Inhabited

structure Sys where
  /-- an array: `ob i` is read in every loop -/
  objs : Array Obj
  /-- `system.allobjects.values()` -/
  all : List Nat
  /-- `system.rootobjects` -/
  roots : List Nat
  /-- `options.sidebarexpanddepth` -/
  depth : Nat
  /-- `options.nosidebar` -/
  nosidebar : Bool
  deriving Repr, Inhabited

def Sys.ob (s : Sys) (i : Nat) : Obj := s.objs.getD i default
def Sys.n (s : Sys) : Nat := s.objs.size

/-! ### `fullName`, `isVisible`, `isPrivate` -/

/-- `Documentable.fullName()` as the list of components -/
def pathAux (s : Sys) : Nat → Nat → List Name
  | 0, _ => []
  | f+1, i =>
    match (s.ob i).parent with
    | none => [(s.ob i).name]
    | some p => pathAux s f p ++ [(s.ob i).name]

/-- `'.'.join(...)` -/
def fullName (s : Sys) (i : Nat) : List Char := List.intercalate ['.'] (pathAux s (s.n + 1) i)

/-- `name in b.contents` (keys of `contents` are the members' names) -/
def hasMember (s : Sys) (b : Nat) (nm : Name) : Bool := (s.ob b).contents.any fun c => (s.ob c).name = nm

/-- `b.contents.get(name)` / `b.contents[name]` -/
def member (s : Sys) (b : Nat) (nm : Name) : Option Nat := (s.ob b).contents.find? fun c => (s.ob c).name = nm

/-- `Documentable.isVisible` (since "fix: an older definition superseded by a later one of the same name
is not visible"):
```
isVisible = self.privacyClass is not PrivacyClass.HIDDEN
if isVisible and self.parent:
    isVisible = self.parent.contents.get(self.name) is self and self.parent.isVisible
``` -/
def visibleAux (s : Sys) : Nat → Nat → Bool
  | 0, _ => false
  | f+1, i =>
    (s.ob i).privacy != .hidden &&
      match (s.ob i).parent with
      | none => true
      | some p => member s p (s.ob i).name == some i && visibleAux s f p

def visible (s : Sys) (i : Nat) : Bool := visibleAux s (s.n + 1) i

/-- `Documentable.isPrivate`: `privacyClass is not PUBLIC` -/
def isPrivate (s : Sys) (i : Nat) : Bool := (s.ob i).privacy != .pub

/-- `util.css_class`: `' private'` is appended iff `privacyClass is PRIVATE` -/
def cssPrivate (s : Sys) (i : Nat) : Bool := (s.ob i).privacy == .priv

/-- `summary.isPrivate`: the object or one of its containers is private -/
def ctxPrivateAux (s : Sys) : Nat → Nat → Bool
  | 0, _ => false
  | f+1, i =>
    isPrivate s i ||
      match (s.ob i).parent with
      | none => false
      | some p => ctxPrivateAux s f p

def ctxPrivate (s : Sys) (i : Nat) : Bool := ctxPrivateAux s (s.n + 1) i

/-- the object and its parents, innermost first -/
def chainAux (s : Sys) : Nat → Nat → List Nat
  | 0, _ => []
  | f+1, i =>
    i :: match (s.ob i).parent with
      | none => []
      | some p => chainAux s f p

def chain (s : Sys) (i : Nat) : List Nat := chainAux s (s.n + 1) i

/-! ### URLs -/

inductive SPage | moduleIndex | classIndex | nameIndex | undocced | allDocuments
  deriving DecidableEq, Repr, Inhabited

/-- a file of the output directory. `page full` is the file `full + '.html'`: hrefs spell it `quote(full) + '.html'`,
the writer names it `unquote(ob.url)` (b01e5ed), which is what a browser asks for -/
inductive File
  | index
  | summary (p : SPage)
  | page (full : List Char)
  deriving DecidableEq, Repr, Inhabited

structure Url where
  file : File
  frag : Option Name
  deriving DecidableEq, Repr

/-- `set(obj.name for obj in rootobjects)` as a duplicate-free list -/
def rootNames (s : Sys) : List Name := (s.roots.map fun r => (s.ob r).name).eraseDups

/-- `Documentable.page_object`; `none` = the `assert parent is not None` fails -/
def pageObject (s : Sys) (i : Nat) : Option Nat :=
  if (s.ob i).kind.ownPage then some i else (s.ob i).parent

/-- the page file of an own-page object:
```
if list(self.system.root_names) == [page_obj.fullName()]: page_url = 'index.html'
else: page_url = f'{quote(page_obj.fullName())}.html'
``` -/
def pageFile (s : Sys) (p : Nat) : File :=
  if rootNames s = [fullName s p] then .index else .page (fullName s p)

/-- `Documentable.url` -/
def url (s : Sys) (i : Nat) : Option Url :=
  match pageObject s i with
  | none => none
  | some p => some (if p = i then ⟨pageFile s p, none⟩ else ⟨pageFile s p, some (s.ob i).name⟩)

/-- what `taglink` puts into `href`: `file = none` is a same-page link (`#frag`) -/
structure Href where
  file : Option File
  frag : Option Name
  deriving DecidableEq, Repr

/-- `linker.taglink`'s shortening (`page_url = ''` is `none`):
```
if page_url and url.startswith(page_url + '#'): url = url[len(page_url):]
``` -/
def shorten (u : Url) (pageUrl : Option File) : Href :=
  match pageUrl, u.frag with
  | some pf, some fr => if u.file = pf then ⟨none, some fr⟩ else ⟨some u.file, some fr⟩
  | _, _ => ⟨some u.file, u.frag⟩

/-! ### which files are written -/

/-- `TemplateWriter._writeDocsFor`: the objects the recursion visits and finds visible -/
def docsFor (s : Sys) : Nat → Nat → List Nat
  | 0, _ => []
  | f+1, i => if visible s i then i :: (s.ob i).contents.flatMap (docsFor s f) else []

/-- `writeIndividualFiles(system.rootobjects)` -/
def reached (s : Sys) : List Nat := s.roots.flatMap (docsFor s s.n)

/-- the objects a page file is written for -/
def pages (s : Sys) : List Nat := (reached s).filter fun i => (s.ob i).kind.ownPage

/-- `summary.summaryPages`: `IndexPage` is written with several roots, and (since a09aa28) when no root is
visible — a single hidden root leaves no page at index.html, which every summary page links to -/
def hasIndexPage (s : Sys) : Bool := (rootNames s).length > 1 || !(s.roots.any (visible s))

/-- `summary.summaryPages(system)` + `search.searchpages` -/
def summaryFiles (s : Sys) : List File :=
  [.summary .moduleIndex, .summary .classIndex, .summary .nameIndex, .summary .undocced]
    ++ (if hasIndexPage s then [.index] else [])
    ++ [.summary .allDocuments]

/-- file names (without `.html`) of the summary and search pages -/
def summaryStems : List (List Char) :=
  ["moduleIndex".toList, "classIndex".toList, "nameIndex".toList, "undoccedSummary".toList, "index".toList,
   "all-documents".toList]

def pageFiles (s : Sys) : List File := (pages s).map (pageFile s)

/-- `<root>.html -> index.html` symlink of `writeSummaryPages`; it leads somewhere iff `index.html`
is (later) written -/
def aliasFiles (s : Sys) : List File :=
  match rootNames s with
  | [r] =>
    -- e061b2d / 5201211: no alias when `<root>.html` is the name of a summary page (it would replace it);
    -- a3977d7: none for a hidden root (no file may be named after it)
    if summaryStems.contains r || !(s.roots.any (visible s)) then []
    else if (summaryFiles s ++ pageFiles s).contains .index then [.page r] else []
  | _ => []

/-- files of the output directory that exist (and lead somewhere) after the run -/
def written (s : Sys) : List File := summaryFiles s ++ pageFiles s ++ aliasFiles s

/-! ### members shown on a page -/

/-- `CommonPage.methods()`: `contents` with PARENT_PAGE location that are visible -/
def methods (s : Sys) (p : Nat) : List Nat :=
  (s.ob p).contents.filter fun c => !(s.ob c).kind.ownPage && visible s c

/-- `Module.submodules()` -/
def submodules (s : Sys) (p : Nat) : List Nat :=
  (s.ob p).contents.filter fun c => (s.ob c).kind.isModule && visible s c

/-- `CommonPage.children()` / `PackagePage.children()` filtered again by `ChildTable.rows` -/
def tableChildren (s : Sys) (p : Nat) : List Nat :=
  if (s.ob p).kind = .package then submodules s p
  else (s.ob p).contents.filter (visible s)

/-- `PackagePage.packageInitTable()` -/
def initChildren (s : Sys) (p : Nat) : List Nat :=
  if (s.ob p).kind = .package then
    (s.ob p).contents.filter fun c => !(s.ob c).kind.isModule && visible s c
  else []

/-- `util.nested_bases`: `tuple(reversed(_mro[:i+1]))` for every `i` -/
def nestedBases (s : Sys) (c : Nat) : List (List Nat) :=
  (List.range (s.ob c).mro.length).map fun i => ((s.ob c).mro.take (i+1)).reverse

/-- `model.is_class_private` (d869973): `__name` without trailing `__` is mangled with the class name, such
members are unrelated across classes -/
def isClassPrivate (nm : Name) : Bool :=
  (nm.take 2 == ['_', '_']) && !((nm.reverse.take 2) == ['_', '_'])

/-- `util.unmasked_attrs` (since d869973 a class-private name masks nothing) -/
def unmaskedAttrs (s : Sys) : List Nat → List Nat
  | [] => []
  | b0 :: rest =>
    let masking := rest.flatMap fun b => ((s.ob b).contents.map fun o => (s.ob o).name).filter fun nm => !isClassPrivate nm
    (s.ob b0).contents.filter fun o => visible s o && !(masking.contains (s.ob o).name)

/-- `util.class_members` -/
def classMembers (s : Sys) (c : Nat) : List (List Nat × List Nat) :=
  (nestedBases s c).filterMap fun bl =>
    let a := unmaskedAttrs s bl
    if a.isEmpty then none else some (bl, a)

/-- `util.inherited_members` -/
def inheritedMembers (s : Sys) (c : Nat) : List Nat :=
  (classMembers s c).flatMap fun (bl, a) => if bl.length > 1 then a else []

/-- `ClassPage.baseTables`: `if baselists[0][0][0] == self.ob: del baselists[0]` -/
def baseLists (s : Sys) (c : Nat) : List (List Nat × List Nat) :=
  match classMembers s c with
  | [] => []
  | (bl, a) :: rest => if bl.head? = some c then rest else (bl, a) :: rest

/-- `util.overriding_subclasses` -/
def overridingSubs (s : Sys) : Nat → Bool → Nat → Name → List Nat
  | 0, _, _, _ => []
  | f+1, first, c, nm =>
    if !first && hasMember s c nm then [c]
    else (s.ob c).subclasses.flatMap fun sc => if visible s sc then overridingSubs s f false sc nm else []

/-- `assembleList`'s filter (`o is None or o.isVisible`) and `one` (`if item in system.allobjects`):
the names are `fullName()`s of registered objects, looked up again in `allobjects` -/
def assemble (s : Sys) (ids : List Nat) : List Nat :=
  ids.filter fun i => s.all.contains i && visible s i

/-- the module an object lives in (`ob.module`, i.e. the `parentMod` attribute) -/
def moduleOf (s : Sys) (i : Nat) : Option Nat := (s.ob i).modul

/-- what `parentMod` is meant to be: the innermost module among the object and its parents -/
def moduleByChain (s : Sys) (i : Nat) : Option Nat := (chain s i).find? fun a => (s.ob a).kind.isModule

/-! ### the producer table -/

inductive Row
  | table | initTable | baseTable | detail
  | sidebarTitle | sidebarItem | sidebarInherited
  | heading | classSig | knownSub | overrides | overriddenIn | baseName | baseVia
  | docXref | fieldXref | annXref | valXref | extraInfo | sumCopy
  | modIndexRoot | modIndex | modIndexSum
  | classIndex | classIndexSum | nameIndex | undoc | indexRoots | allDocs | allDocsSum
  deriving DecidableEq, Repr, Inhabited

/-- one mention of `target` written into `page` by producer `row`: a hyperlink built by
`taglink(target, ctx)` and/or a listing entry (`marked = some b`: `b` says whether the `private`
marker is attached). `detail` entries are anchors, not links. -/
structure Emit where
  row : Row
  page : File
  ctx : Option File
  target : Nat
  marked : Option Bool
  /-- `taglink` built a hyperlink (`false`: the target is not visible, the label is plain text) -/
  linked : Bool := true
  deriving DecidableEq, Repr

def link (row : Row) (page : File) (ctx : Option File) (t : Nat) : Emit := ⟨row, page, ctx, t, none, true⟩

/-- links of the summary of `o` copied elsewhere (`format_summary`: `switch_context(None)`, full urls) -/
def sumLinks (s : Sys) (row : Row) (page : File) (o : Nat) : List Emit :=
  match (s.ob o).docSource with
  | none => []
  | some _ => (s.ob o).xrefs.map (link row page none)

/-- links of the displayed docstring of `o`, rendered into `page` (since "fix: links in an inherited or
re-exported docstring are shortened for the page they are written on"): `format_docstring` renders under
`source.docstring_linker.switch_context(obj)`, so the shortening is relative to `obj.page_object`. -/
def docLinks (s : Sys) (page : File) (o : Nat) : List Emit :=
  match (s.ob o).docSource with
  | none => []
  | some _ =>
    match pageObject s o with
    | none => []
    | some op => (s.ob o).xrefs.map (link .docXref page (some (pageFile s op)))

/-- links of the `@see` / `@note` / `@author` / `@since` fields of the displayed docstring of `o`: the bodies of
these fields are only turned into HTML in `FieldHandler.format()` (`format_field_list` -> `Field.format()`);
since 0ff33e4 `format_docstring` makes that call under `source.docstring_linker.switch_context(obj)` too, so
the shortening is relative to `obj.page_object` like for the rest of the docstring. -/
def lateLinks (s : Sys) (page : File) (o : Nat) : List Emit :=
  match (s.ob o).docSource with
  | none => []
  | some _ =>
    match pageObject s o with
    | none => []
    | some op => (s.ob o).laterefs.map (link .fieldXref page (some (pageFile s op)))

/-- `_AnnotationLinker.link_to`: `switch_context(self._obj)` -/
def annLinks (s : Sys) (page : File) (o : Nat) : List Emit :=
  match pageObject s o with
  | none => []
  | some op => (s.ob o).annrefs.map (link .annXref page (some (pageFile s op)))

/-- links of default values, decorators and constant values: `link_to` of the object's own linker
(`_ValueFormatter.__repr__`, `format_decorators`, `format_constant_value`). That linker is created while the
module is visited; since f972163 `reparent` refreshes its page object, so it is the page the object is shown on. -/
def valLinks (s : Sys) (page : File) (o : Nat) : List Emit :=
  match pageObject s o with
  | none => []
  | some op => (s.ob o).valrefs.map (link .valXref page (some (pageFile s op)))

/-- `get_override_info(cls, member_name, page_url)` -/
def overrideInfo (s : Sys) (pf : File) (c : Nat) (nm : Name) : List Emit :=
  if isClassPrivate nm then [] else
  (match ((s.ob c).mro.drop 1).find? (fun b => hasMember s b nm) with
    | none => []
    | some b =>
      match member s b nm with
      | none => []
      | some t => [link .overrides pf (some pf) t])
  ++ (assemble s (overridingSubs s s.n true c nm)).map (link .overriddenIn pf (some pf))

/-- `CommonPage.namespace`: own-page objects of the parent chain -/
def headingLinks (s : Sys) (pf : File) (p : Nat) : List Emit :=
  ((chain s p).filter fun a => (s.ob a).kind.ownPage).map (link .heading pf (some pf))

def entry (row : Row) (page : File) (ctx : Option File) (t : Nat) (m : Bool) : Emit := ⟨row, page, ctx, t, some m, true⟩

/-- `ObjContent` / `ContentList` / `ContentItem` / `LinkOnlyItem` / `ExpandableItem`: `k` = how many
more levels expand (`_level < _depth`) -/
def sideContent (s : Sys) (pf : File) : Nat → Nat → List Emit
  | 0, ob =>
    ((s.ob ob).contents.filter (visible s)).map (fun c => entry .sidebarItem pf (some pf) c (isPrivate s c))
    ++ (if (s.ob ob).kind = .cls then
          ((inheritedMembers s ob).filter fun c => visible s c && !(s.ob c).kind.ownPage).map
            (fun c => entry .sidebarInherited pf (some pf) c (isPrivate s c))
        else [])
  | k+1, ob =>
    ((s.ob ob).contents.filter (visible s)).flatMap (fun c =>
        entry .sidebarItem pf (some pf) c (isPrivate s c) ::
          (if (s.ob c).kind.ownPage then sideContent s pf k c else []))
    ++ (if (s.ob ob).kind = .cls then
          ((inheritedMembers s ob).filter fun c => visible s c && !(s.ob c).kind.ownPage).map
            (fun c => entry .sidebarInherited pf (some pf) c (isPrivate s c))
        else [])

/-- `SideBar.sections`: the object, then its package (modules) or its module (classes) -/
def sideSections (s : Sys) (p : Nat) : List Nat :=
  p :: (if (s.ob p).kind.isModule then
          (match (s.ob p).parent with | none => [] | some q => [q])
        else
          (match moduleOf s p with | none => [] | some m => [m]))

def sidebarEmits (s : Sys) (pf : File) (p : Nat) : List Emit :=
  if s.nosidebar then [] else
    (sideSections s p).flatMap fun sec =>
      link .sidebarTitle pf (some (pageFile s sec)) sec :: sideContent s pf (s.depth - 1) sec

/-- everything `_writeDocsForOne(p)` puts into the page of `p` -/
def pageEmits (s : Sys) (p : Nat) : List Emit :=
  let pf := pageFile s p
  let isCls := (s.ob p).kind = .cls
  headingLinks s pf p
  -- ClassPage.extras: signature, known subclasses; then objectExtras(self.ob)
  ++ (if isCls then
        (s.ob p).sigrefs.filterMap (fun t => t.map (link .classSig pf (some pf)))
        ++ (assemble s (s.ob p).subclasses).map (link .knownSub pf (some pf))
        ++ overrideInfo s pf p (s.ob p).name
        ++ (s.ob p).ctors.map (link .extraInfo pf (some pf))
      else [])
  ++ docLinks s pf p ++ lateLinks s pf p
  -- main table (+ copied summaries), inherited-member tables, package __init__ table
  ++ (tableChildren s p).flatMap (fun c => entry .table pf (some pf) c (cssPrivate s c) :: sumLinks s .sumCopy pf c)
  ++ (if isCls then
        (baseLists s p).flatMap fun (bl, attrs) =>
          (match bl with
            | [] => []
            | b0 :: rest => link .baseName pf (some pf) b0 :: (rest.dropLast.reverse.map (link .baseVia pf (some pf))))
          ++ attrs.flatMap (fun c => entry .baseTable pf (some pf) c (cssPrivate s c) :: sumLinks s .sumCopy pf c)
      else [])
  ++ (initChildren s p).flatMap (fun c => entry .initTable pf (some pf) c (cssPrivate s c) :: sumLinks s .sumCopy pf c)
  -- member details
  ++ (methods s p).flatMap (fun c =>
        entry .detail pf none c (cssPrivate s c)
        :: ((if isCls then overrideInfo s pf p (s.ob c).name else [])
            ++ docLinks s pf c ++ lateLinks s pf c ++ annLinks s pf c ++ valLinks s pf c))
  ++ sidebarEmits s pf p

/-! ### summary pages -/

/-- `summary.moduleSummary` (tree form) -/
def moduleSummary (s : Sys) : Nat → Bool → Nat → List Emit
  | 0, _, _ => []
  | f+1, isRoot, m =>
    entry (if isRoot then .modIndexRoot else .modIndex) (.summary .moduleIndex) (some (.summary .moduleIndex)) m (isPrivate s m)
    :: sumLinks s .modIndexSum (.summary .moduleIndex) m
    ++ (if (s.ob m).kind = .package then (submodules s m).flatMap (moduleSummary s f false) else [])

def hasSpace (nm : List Char) : Bool := nm.contains ' '

/-- classes in `allobjects` order -/
def classes (s : Sys) : List Nat := s.all.filter fun i => (s.ob i).kind = .cls

/-- a value of the `roots` dict of `findRootClasses`: a class, or the list of classes that have the
(unresolved or not visible) base named by the key -/
inductive RootVal
  | one (c : Nat)
  | many (l : List Nat)
  deriving Repr, DecidableEq

abbrev Roots := List (List Char × RootVal)

/-- `roots.get(k)` -/
def rget : Roots → List Char → Option RootVal
  | [], _ => none
  | (k', v) :: r, k => if k' = k then some v else rget r k

/-- `roots[k] = v` -/
def rset : Roots → List Char → RootVal → Roots
  | [], k, v => [(k, v)]
  | (k', v') :: r, k, v => if k' = k then (k', v) :: r else (k', v') :: rset r k v

/-- ```
if isinstance(roots.get(name), model.Class): roots[name] = [roots[name]]
roots.setdefault(name, []).append(cls)
``` -/
def addBase (r : Roots) (nm : List Char) (c : Nat) : Roots :=
  match rget r nm with
  | some (.one k) => rset r nm (.many [k, c])
  | some (.many l) => rset r nm (.many (l ++ [c]))
  | none => rset r nm (.many [c])

/-- the body of the loop of `findRootClasses` for one class. Keys are strings: the qualified name of a
class without bases and the *name* of an unresolved or invisible base share one dict. -/
def rootStep (s : Sys) (r : Roots) (c : Nat) : Roots :=
  if hasSpace (s.ob c).name || !visible s c then r
  else if (s.ob c).baseNames.isEmpty then
    -- since "fix: the class index keeps a root class whose name is also used as an unresolved base"
    match rget r (fullName s c) with
    | some (.many l) => rset r (fullName s c) (.many (l ++ [c]))
    | _ => rset r (fullName s c) (.one c)
  else
    ((s.ob c).baseNames.zip (s.ob c).bases).foldl (fun r (nb : Name × Option Nat) =>
      match nb.2 with
      | none => addBase r nb.1 c
      | some b => if visible s b then r else addBase r nb.1 c) r

/-- `summary.findRootClasses` (before sorting) -/
def findRootClasses (s : Sys) : Roots := (classes s).foldl (rootStep s) []

def RootVal.classes : RootVal → List Nat
  | .one c => [c]
  | .many l => l

/-- `summary.isClassNodePrivate` -/
def classNodePrivate (s : Sys) : Nat → Nat → Bool
  | 0, _ => false
  | f+1, c => ctxPrivate s c && (s.ob c).subclasses.all (classNodePrivate s f)

/-- the private marker of a class-index entry (`summary.subclassesFrom`, since 2972983): the `<li>` of the node when
`isClassNodePrivate` (the class and all its subclasses are private), otherwise the row `<div>` of the class alone when
`summary.isPrivate(cls)`. Before 2972983 only the first: `classNodePrivate s s.n c`. -/
def classRowPrivate (s : Sys) (c : Nat) : Bool :=
  classNodePrivate s s.n c || (ctxPrivate s c && !classNodePrivate s s.n c)

/-- `summary.subclassesFrom`: classes listed below (and including) `c` -/
def subclassesFrom (s : Sys) : Nat → Nat → List Nat
  | 0, _ => []
  | f+1, c =>
    c :: ((s.ob c).subclasses.filter fun sc => !hasSpace (fullName s sc) && visible s sc).flatMap (subclassesFrom s f)

/-- the resolved bases of a class that are visible: below the first of them `subclassesFrom` lists it -/
def visBases (s : Sys) (c : Nat) : List Nat :=
  (s.ob c).bases.filterMap fun b =>
    match b with
    | some b => if visible s b then some b else none
    | none => none

/-- length of the chain class → first visible base → its first visible base → …; `none` = the chain does
not end (cyclic inheritance, which `compute_mro` reports and `findRootClasses` would not list) -/
def baseDepth (s : Sys) : Nat → Nat → Option Nat
  | 0, _ => none
  | f+1, c =>
    match visBases s c with
    | [] => some 0
    | b :: _ => (baseDepth s f b).map (· + 1)

/-- what post-processing establishes about the class hierarchy, as far as classIndex.html relies on it: every
visible class is registered and has no blank in its names (blanks come from `handleDuplicate` only, and those
objects are not visible), `bases` and `baseobjects` have the same length, a visible resolved base is a
registered class that lists the class among its `subclasses`, and the chain of first visible bases ends -/
def hierWf (s : Sys) : Bool :=
  (List.range s.n).all fun c =>
    !((s.ob c).kind == .cls && visible s c) ||
      (s.all.contains c && !hasSpace (s.ob c).name && !hasSpace (fullName s c)
        && (s.ob c).bases.length == (s.ob c).baseNames.length
        && (baseDepth s s.n c).isSome
        && (visBases s c).all fun b => (s.ob b).kind == .cls && (s.ob b).subclasses.contains c)

/-- every class that gets an entry (and the anchor `name=fullName`) in classIndex.html -/
def classIndexListed (s : Sys) : List Nat :=
  (findRootClasses s).flatMap fun kv => kv.2.classes.flatMap (subclassesFrom s s.n)

def classIndexEmits (s : Sys) : List Emit :=
  (classIndexListed s).flatMap fun c =>
    entry .classIndex (.summary .classIndex) (some (.summary .classIndex)) c (classRowPrivate s c)
    :: sumLinks s .classIndexSum (.summary .classIndex) c

/-- the unlinked root nodes of classIndex.html: the name of the unresolved / not visible base, and
whether the node is marked private (`all(isClassNodePrivate(sc) for sc in o)`) -/
def classIndexTexts (s : Sys) : List (Name × Bool) :=
  (findRootClasses s).filterMap fun kv =>
    match kv.2 with
    | .one _ => none
    | .many l => some (kv.1, l.all (classNodePrivate s s.n))

def visibleAll (s : Sys) : List Nat := s.all.filter (visible s)

/-- `str.upper()` of an ASCII letter (names of generated and real projects start with an ASCII letter or `_`) -/
def upperAscii (c : Char) : Char := if 'a' ≤ c ∧ c ≤ 'z' then Char.ofNat (c.toNat - 32) else c

/-- `NameIndexPage.__init__`: `self.initials.setdefault(ob.name[0].upper(), [])` for every visible object
(`none`: an empty name, `ob.name[0]` raises IndexError) -/
def initialOf (s : Sys) (o : Nat) : Option Char := (s.ob o).name.head?.map upperAscii

/-- the letters of nameIndex.html: each gets a heading with `<a name=letter>` -/
def letters (s : Sys) : List Char := ((visibleAll s).filterMap (initialOf s)).eraseDups

/-- `LetterElement.letterlinks`: under every letter, a link `#other` to every other letter -/
def letterLinks (s : Sys) : List (Char × Char) :=
  (letters s).flatMap fun l => ((letters s).filter (· != l)).map fun o => (l, o)

def summaryEmits (s : Sys) : List Emit :=
  -- since 4b6324b: `for o in self.system.rootobjects if o.isVisible`
  (s.roots.filter (visible s)).flatMap (moduleSummary s s.n true)
  ++ classIndexEmits s
  ++ (visibleAll s).map (fun o => entry .nameIndex (.summary .nameIndex) (some (.summary .nameIndex)) o (ctxPrivate s o))
  -- fb55ab8: `if isPrivate(o): item(class_='private')` (summary.isPrivate: the object or one of its containers)
  ++ ((visibleAll s).filter fun o => !(s.ob o).hasDoc).map
      (fun o => entry .undoc (.summary .undocced) (some (.summary .undocced)) o (ctxPrivate s o))
  ++ (if hasIndexPage s then (s.roots.filter (visible s)).map (link .indexRoots .index (some .index)) else [])
  ++ (visibleAll s).flatMap (fun o =>
        entry .allDocs (.summary .allDocuments) none o ((s.ob o).privacy == .priv)
        :: sumLinks s .allDocsSum (.summary .allDocuments) o)

/-- every `taglink` call and every listing entry the page code makes -/
def requests (s : Sys) : List Emit := (pages s).flatMap (pageEmits s) ++ summaryEmits s

/-- rows that write a listing element of their own (`<tr>`, `<li>`, member `<div>`, all-documents entry)
around the label `taglink` returns -/
def Row.isEntry : Row → Bool
  | .table | .initTable | .baseTable | .detail | .sidebarItem | .sidebarInherited | .modIndexRoot | .modIndex
  | .classIndex | .nameIndex | .undoc | .indexRoots | .allDocs => true
  | _ => false

/-- the visibility guard inside `linker.taglink` (since "fix: taglink renders plain text instead of a link
when the target is hidden"): `return tags.transparent(label)`. A listing element would be written all the
same, with the label as text (every entry row tests `isVisible` itself, so this never happens: `entry_visible`);
the plain label of an inline link is not a mention. -/
def taglinkGuard (s : Sys) (e : Emit) : Option Emit :=
  if visible s e.target then some e
  else if e.row.isEntry then some { e with linked := false }
  else none

/-- every hyperlink / listing entry of the run -/
def emits (s : Sys) : List Emit := (requests s).filterMap (taglinkGuard s)

/-- `LunrIndexWriter.get_corpus` / `get_all_documents_flattenable`: the search documents -/
def searchDocs (s : Sys) : List Nat := visibleAll s

/-- `SphinxInventoryWriter._generateContent(rootobjects)`: same recursion as `_writeDocsFor` -/
def inventory (s : Sys) : List Nat := reached s

/-- "View In Hierarchy": `classIndex.html#<fullName>` on every class page -/
def inHierarchy (s : Sys) : List (File × Name) :=
  ((pages s).filter fun p => (s.ob p).kind = .cls).map fun p => (pageFile s p, fullName s p)

/-! ### anchors and resolution -/

/-- anchors (`<a name=…>`) present in a written file: both spellings for every member shown in
`#childList`; the class anchors of classIndex.html; the letter anchors of nameIndex.html -/
def anchorsOf (s : Sys) (f : File) : List Name :=
  ((pages s).filter fun p => pageFile s p = f).flatMap (fun p =>
      (methods s p).flatMap fun c => [(s.ob c).name, fullName s c])
  ++ (if f = .summary .classIndex then (classIndexListed s).map (fullName s) else [])
  ++ (if f = .summary .nameIndex then (letters s).map (fun c => [c]) else [])

/-- does the reference `h`, found on `page`, lead to one of the files `w` and, if it has a fragment, to
one of the anchors `anch` gives for that file? -/
def resolvesHrefIn (w : List File) (anch : File → List Name) (page : File) (h : Href) : Bool :=
  let f := h.file.getD page
  w.contains f &&
    match h.frag with
    | none => true
    | some a => (anch f).contains a

/-- does the reference `h`, found on `page`, lead to a written file and, if it has a fragment, to an
anchor of that file? -/
def resolvesHref (s : Sys) (page : File) (h : Href) : Bool :=
  resolvesHrefIn (written s) (anchorsOf s) page h

/-- the `href` of an emitted link; `none` = `url` raises -/
def href (s : Sys) (e : Emit) : Option Href := (url s e.target).map fun u => shorten u e.ctx

def Row.isLink : Row → Bool
  | .detail => false
  | _ => true

/-- the emitted link resolves among the files `w` with anchors `anch` (entries that are not hyperlinks
resolve trivially) -/
def resolvesIn (s : Sys) (w : List File) (anch : File → List Name) (e : Emit) : Bool :=
  !e.row.isLink || !e.linked ||
    match href s e with
    | none => false
    | some h => resolvesHrefIn w anch e.page h

/-- the emitted link resolves -/
def resolves (s : Sys) (e : Emit) : Bool := resolvesIn s (written s) (anchorsOf s) e

/-- `url o` as a reference from anywhere (full form) -/
def urlResolves (s : Sys) (i : Nat) : Bool :=
  match url s i with
  | none => false
  | some u => resolvesHref s u.file ⟨some u.file, u.frag⟩

/-! ### guards (the third column of the producer table) -/

/-- listing rows on which the property demands the `private` marker (member tables, member details,
sidebar, module index, search documents) -/
def Row.listing : Row → Bool
  | .table | .initTable | .baseTable | .detail | .sidebarItem | .sidebarInherited
  | .modIndexRoot | .modIndex | .allDocs => true
  | _ => false

/-! ### well-formedness of the table (what C02 establishes about a real System) -/

/-- per object: a parentless object is a root module, a parent is numbered lower and has its own page
(functions and attributes contain nothing); `contents` is in range, agrees with `parent`, and has pairwise different names -/
def wfObj (s : Sys) (i : Nat) : Bool :=
  (match (s.ob i).parent with
    | none => (s.ob i).kind.isModule && s.roots.contains i
    | some p => decide (p < i) && (s.ob p).kind.ownPage)
  && (s.ob i).contents.all (fun c => decide (c < s.n) && (s.ob c).parent == some i)
  && (s.ob i).contents.all (fun c => (s.ob i).contents.all fun d => c == d || (s.ob c).name != (s.ob d).name)

/-- qualified names are pairwise different (`allobjects` is keyed by them) -/
def namesDistinct (s : Sys) : Bool :=
  (List.range s.n).all fun i => (List.range s.n).all fun j => i == j || fullName s i != fullName s j

/-- no member is *named* like the qualified name of another member (the two `<a name>` spellings of
`#childList` cannot be confused) -/
def spellingsApart (s : Sys) : Bool :=
  (List.range s.n).all fun i => (List.range s.n).all fun j =>
    (s.ob j).parent == none || (s.ob i).name != fullName s j

/-- `parentMod` is the module the object is in (false for what is inside a re-exported class) -/
def modulesCoherent (s : Sys) : Bool :=
  (List.range s.n).all fun i => (s.ob i).modul == moduleByChain s i

/-- what C02 establishes about the registry of a real System, as far as this layer relies on it -/
def wf (s : Sys) : Bool :=
  (List.range s.n).all (wfObj s)
  && modulesCoherent s
  && s.roots.all (fun r => decide (r < s.n) && (s.ob r).parent == none)
  && s.all.all (fun i => decide (i < s.n))
  && namesDistinct s
  && spellingsApart s

/-- the object is not in the `contents` of its parent (a duplicate leftover `'x 0'`), nor a root -/
def superseded (s : Sys) (i : Nat) : Bool :=
  match (s.ob i).parent with
  | none => !s.roots.contains i
  | some p => !(s.ob p).contents.contains i

/-! ### pre-fix transcriptions — only for the labelled historical counterexamples of PdProps/C11, C12 -/

/-- `Documentable.isVisible` before cb98646: own privacy, then the parent chain (a superseded `'x 0'` was
visible) -/
def visibleOldAux (s : Sys) : Nat → Nat → Bool
  | 0, _ => false
  | f+1, i =>
    (s.ob i).privacy != .hidden &&
      match (s.ob i).parent with
      | none => true
      | some p => visibleOldAux s f p

def visibleOld (s : Sys) (i : Nat) : Bool := visibleOldAux s (s.n + 1) i

/-- targets of nameIndex.html / all-documents.html / the search index before cb98646 -/
def visibleAllOld (s : Sys) : List Nat := s.all.filter (visibleOld s)

/-- `format_docstring` before 1da744b: no `switch_context`, the shortening context is the page object the
source's linker remembers (`docCtx`) -/
def docLinksOld (s : Sys) (page : File) (o : Nat) : List Emit :=
  match (s.ob o).docSource with
  | none => []
  | some _ =>
    match (s.ob o).docCtx with
    | none => (s.ob o).xrefs.map (link .docXref page none)
    | some sp => (s.ob o).xrefs.map (link .docXref page (some (pageFile s sp)))

/-- `findRootClasses` before 97be2c0 (a class without bases overwrote whatever was stored under its name)
and before cb98646 (`visibleOld`) -/
def rootStepOld (s : Sys) (r : Roots) (c : Nat) : Roots :=
  if hasSpace (s.ob c).name || !visibleOld s c then r
  else if (s.ob c).baseNames.isEmpty then rset r (fullName s c) (.one c)
  else
    ((s.ob c).baseNames.zip (s.ob c).bases).foldl (fun r (nb : Name × Option Nat) =>
      match nb.2 with
      | none => addBase r nb.1 c
      | some b => if visibleOld s b then r else addBase r nb.1 c) r

def subclassesFromOld (s : Sys) : Nat → Nat → List Nat
  | 0, _ => []
  | f+1, c =>
    c :: ((s.ob c).subclasses.filter fun sc => !hasSpace (fullName s sc) && visibleOld s sc).flatMap (subclassesFromOld s f)

/-- the root rows of moduleIndex.html and index.html before 4b6324b: `rootobjects` iterated without a
visibility test (after aaed9bd the row of a hidden root was written with its name as plain text) -/
def rootRowsOld (s : Sys) : List Emit :=
  (s.roots.flatMap (moduleSummary s s.n true)
    ++ (if (rootNames s).length > 1 then s.roots.map (link .indexRoots .index (some .index)) else [])).filterMap (taglinkGuard s)

/-- `lateLinks` before 0ff33e4: `fh.format()` was called after the `switch_context(obj)` blocks had exited, with
the page object the source's linker remembers (`docCtx`): for an inherited docstring the page of the base class -/
def lateLinksOld (s : Sys) (page : File) (o : Nat) : List Emit :=
  match (s.ob o).docSource with
  | none => []
  | some _ =>
    match (s.ob o).docCtx with
    | none => (s.ob o).laterefs.map (link .fieldXref page none)
    | some sp => (s.ob o).laterefs.map (link .fieldXref page (some (pageFile s sp)))

/-- `valLinks` before f972163: the linker kept the page object it was created with (`ownCtx`), for a
re-exported function the page of the module it was defined in -/
def valLinksOld (s : Sys) (page : File) (o : Nat) : List Emit :=
  match (s.ob o).ownCtx with
  | none => (s.ob o).valrefs.map (link .valXref page none)
  | some c => (s.ob o).valrefs.map (link .valXref page (some (pageFile s c)))

/-- the single-root alias before a3977d7: created whatever the visibility of the root -/
def aliasFilesOld (s : Sys) : List File :=
  match rootNames s with
  | [r] =>
    if summaryStems.contains r then []
    else if (summaryFiles s ++ pageFiles s).contains .index then [.page r] else []
  | _ => []

/-- undoccedSummary.html before fb55ab8: entries without any marker -/
def undocRowsOld (s : Sys) : List Emit :=
  ((visibleAll s).filter fun o => !(s.ob o).hasDoc).map (link .undoc (.summary .undocced) (some (.summary .undocced)))

/-- before a09aa28 `IndexPage` was written with several roots only -/
def hasIndexPageOld (s : Sys) : Bool := (rootNames s).length > 1

def classIndexListedOld (s : Sys) : List Nat :=
  ((classes s).foldl (rootStepOld s) []).flatMap fun kv => kv.2.classes.flatMap (subclassesFromOld s s.n)


end Output
