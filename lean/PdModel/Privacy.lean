/-
Model of the privacy decision of pydoctor:

* `System.privacyClass` (pydoctor/model.py): cache lookup by qualified name, `kind is None`,
  the default by leading underscore / dunder and for modules named `__main__`, exact rules newest first, then pattern rules newest
  first (`qnmatch` may raise), cache store.
* `Documentable.privacyClass`, the `__main__` default (inside `System.privacyClass` since c8d85b0; the former
  `Module.privacyClass` override is kept as `privacyClassBefore_c8d85b0`),
  `Documentable.isVisible` (own class, then "is my parent's contents entry", then the parent chain), `Documentable.isPrivate`.
* `utils.parse_privacy_tuple` on ASCII input (with the validation of the pattern added by
  "fix: reject a --privacy pattern that does not translate to a valid regular expression") and
  `options._convert_privacy`.

`options.privacy` is a `List Rule` in command-line order; the cache is Python's dict
(`List (key × value)`, insertion order, keys unique).
-/
import PdModel.Glob

namespace Privacy

inductive Level | hidden | priv | pub
  deriving DecidableEq, Repr, Inhabited

structure Rule where
  level : Level
  pat : List Char
  deriving DecidableEq, Repr

/-- what `System.privacyClass` reads from a `Documentable` -/
structure Obj where
  fullName : List Char
  /-- `ob.name`, the last component -/
  name : List Char
  /-- `isinstance(ob, Module)` (packages included) -/
  isModule : Bool
  /-- `ob.kind is None` -/
  kindNone : Bool
  /-- `ob.parent.contents.get(ob.name) is ob`: the object is the entry of its parent's `contents`
  (false for an older definition that `System.handleDuplicate` renamed to `name 0` when a later one
  took its place); not read for an object without parent -/
  inContents : Bool
  deriving DecidableEq, Repr

inductive Err | reError | indexError
  deriving DecidableEq, Repr

inductive Res where
  | ok (l : Level)
  | err (e : Err)
  deriving DecidableEq, Repr

abbrev Cache := List (List Char × Level)

/-- `dict.get` -/
def lookup (c : Cache) (k : List Char) : Option Level :=
  match c with
  | [] => none
  | (k', v) :: c' => if k' = k then some v else lookup c' k

/-- `s.startswith(pre)` -/
def startsWith : List Char → List Char → Bool
  | [], _ => true
  | _ :: _, [] => false
  | p :: ps, c :: cs => p = c && startsWith ps cs

/-- `s.endswith(suf)` -/
def endsWith (suf s : List Char) : Bool := startsWith suf.reverse s.reverse

/-- ```
privacy = PrivacyClass.PUBLIC
if ob.name.startswith('_') and \
       not (len(ob.name) >= 4 and ob.name.startswith('__') and ob.name.endswith('__')):
    privacy = PrivacyClass.PRIVATE
```
(since 2e9a6af a dunder needs four characters: `__` and `___` are private) -/
def defaultLevel (name : List Char) : Level :=
  if startsWith ['_'] name &&
      !(Decidable.decide (4 ≤ name.length) && startsWith ['_', '_'] name && endsWith ['_', '_'] name) then .priv
  else .pub

/-- historical: the default before 2e9a6af — the dunder test was
`startswith('__') and endswith('__')`, which the two underscores of `__` satisfy at both ends -/
def defaultLevelBefore_2e9a6af (name : List Char) : Level :=
  if startsWith ['_'] name && !(startsWith ['_', '_'] name && endsWith ['_', '_'] name) then .priv
  else .pub

def mainName : List Char := ['_', '_', 'm', 'a', 'i', 'n', '_', '_']

/-- the whole default (since c8d85b0 the `__main__` case is a default like the underscore rule):
```
privacy = PrivacyClass.PUBLIC
if ob.name.startswith('_') and not (ob.name.startswith('__') and ob.name.endswith('__')):
    privacy = PrivacyClass.PRIVATE
elif isinstance(ob, Module) and ob.name == '__main__':
    privacy = PrivacyClass.PRIVATE
``` -/
def defaultOf (ob : Obj) : Level :=
  if defaultLevel ob.name = .priv then .priv
  else if ob.isModule && ob.name = mainName then .priv
  else .pub

/-- first loop, over `reversed(self.options.privacy)`: `if ob_fullName == match` -/
def findExact (revRules : List Rule) (fullName : List Char) : Option Level :=
  match revRules with
  | [] => none
  | r :: rs => if fullName = r.pat then some r.level else findExact rs fullName

inductive Found where
  | found (l : Level)
  | notFound
  | raised (e : Err)
  deriving DecidableEq, Repr

/-- second loop, over `reversed(self.options.privacy)`: `if qnmatch.qnmatch(ob_fullName, match)`;
an exception of `qnmatch` leaves the loop and `privacyClass` -/
def findPattern (revRules : List Rule) (fullName : List Char) : Found :=
  match revRules with
  | [] => .notFound
  | r :: rs =>
    match Glob.qnmatch fullName r.pat with
    | .ok true => .found r.level
    | .ok false => findPattern rs fullName
    | .reError => .raised .reError
    | .indexError => .raised .indexError

/-- what `System.privacyClass` computes when the cache has no entry and `kind` is not `None` -/
def decide (rules : List Rule) (ob : Obj) : Res :=
  match findExact rules.reverse ob.fullName with
  | some l => .ok l
  | none =>
    match findPattern rules.reverse ob.fullName with
    | .found l => .ok l
    | .notFound => .ok (defaultOf ob)
    | .raised e => .err e

/-- `System.privacyClass(ob)`: result and the cache afterwards -/
def systemPrivacyClass (rules : List Rule) (cache : Cache) (ob : Obj) : Res × Cache :=
  match lookup cache ob.fullName with
  | some l => (.ok l, cache)
  | none =>
    if ob.kindNone then (.ok .hidden, cache)
    else
      match decide rules ob with
      | .ok l => (.ok l, cache ++ [(ob.fullName, l)])
      | .err e => (.err e, cache)

/-- `ob.privacyClass` (property): `return self.system.privacyClass(self)`; since c8d85b0 no subclass
overrides it -/
def privacyClass (rules : List Rule) (cache : Cache) (ob : Obj) : Res × Cache :=
  systemPrivacyClass rules cache ob

/-- historical: `Module.privacyClass` before c8d85b0 answered PRIVATE for a module named `__main__`
without asking the system (rules and cache never consulted); the default of `System.privacyClass`
was the underscore rule alone.  Kept for the counterexample theorems of PdProps.C13. -/
def privacyClassBefore_c8d85b0 (rules : List Rule) (ob : Obj) : Res :=
  if ob.isModule && ob.name = mainName then .ok .priv
  else if ob.kindNone then .ok .hidden
  else
    match findExact rules.reverse ob.fullName with
    | some l => .ok l
    | none =>
      match findPattern rules.reverse ob.fullName with
      | .found l => .ok l
      | .notFound => .ok (defaultLevelBefore_2e9a6af ob.name)
      | .raised e => .err e

inductive BoolRes where
  | ok (b : Bool)
  | err (e : Err)
  deriving DecidableEq, Repr

/-- `ob.isVisible` for the chain `[ob, ob.parent, ob.parent.parent, …]`:
```
isVisible = self.privacyClass is not PrivacyClass.HIDDEN
if isVisible and self.parent:
    isVisible = self.parent.contents.get(self.name) is self and self.parent.isVisible
```
(`and` does not evaluate `self.parent.isVisible` for a superseded definition: the cache is left alone) -/
def isVisible (rules : List Rule) (cache : Cache) : List Obj → BoolRes × Cache
  | [] => (.ok true, cache)
  | ob :: parents =>
    match privacyClass rules cache ob with
    | (.err e, c) => (.err e, c)
    | (.ok l, c) =>
      if l ≠ .hidden then
        match parents with
        | [] => (.ok true, c)
        | p :: ps => if ob.inContents then isVisible rules c (p :: ps) else (.ok false, c)
      else (.ok false, c)

/-- `ob.isPrivate`: `self.privacyClass is not PrivacyClass.PUBLIC` -/
def isPrivate (rules : List Rule) (cache : Cache) (ob : Obj) : BoolRes × Cache :=
  match privacyClass rules cache ob with
  | (.err e, c) => (.err e, c)
  | (.ok l, c) => (.ok (l ≠ .pub), c)

/-- a query history: `privacyClass` of each object in turn, threading the cache -/
def run (rules : List Rule) : Cache → List Obj → List Res × Cache
  | c, [] => ([], c)
  | c, ob :: obs =>
    let (r, c') := privacyClass rules c ob
    let (rs, c'') := run rules c' obs
    (r :: rs, c'')

/-! ### query histories with moves

`Documentable.reparent(new_parent, new_name)` (what an `__all__` re-export does) changes the
qualified name of the moved object and of everything below it; through `System.handleDuplicate` it
may also rename an object it supersedes.  It does not touch `System._privacyClassCache`: the cache is
keyed by qualified name, entries made for the old names simply stay under the old names.
Objects have an identity (index in the world); a move replaces the records of some of them. -/

abbrev World := List Obj

def setObj : World → Nat → Obj → World
  | [], _, _ => []
  | _ :: w, 0, o => o :: w
  | x :: w, i + 1, o => x :: setObj w i o

def applyMove (w : World) : List (Nat × Obj) → World
  | [] => w
  | (i, o) :: u => applyMove (setObj w i o) u

def getChain (w : World) (ids : List Nat) : List Obj := ids.filterMap (w[·]?)

inductive Event where
  /-- `world[i].privacyClass` -/
  | cls (i : Nat)
  /-- `isVisible` of the object whose chain object, parent, … has these identities -/
  | vis (ids : List Nat)
  /-- `world[i].isPrivate` -/
  | prv (i : Nat)
  /-- `reparent`: the new records of the objects whose qualified name (or contents bit) changed -/
  | move (upd : List (Nat × Obj))
  deriving Repr

inductive Ans where
  | lvl (r : Res)
  | bool (b : BoolRes)
  | badId
  deriving DecidableEq, Repr

def runEvents (rules : List Rule) : World → Cache → List Event → List Ans × Cache
  | _, c, [] => ([], c)
  | w, c, .cls i :: es =>
    match w[i]? with
    | none => let (as, c') := runEvents rules w c es; (.badId :: as, c')
    | some ob =>
      let (r, c1) := privacyClass rules c ob
      let (as, c') := runEvents rules w c1 es
      (.lvl r :: as, c')
  | w, c, .prv i :: es =>
    match w[i]? with
    | none => let (as, c') := runEvents rules w c es; (.badId :: as, c')
    | some ob =>
      let (r, c1) := isPrivate rules c ob
      let (as, c') := runEvents rules w c1 es
      (.bool r :: as, c')
  | w, c, .vis ids :: es =>
    let (r, c1) := isVisible rules c (getChain w ids)
    let (as, c') := runEvents rules w c1 es
    (.bool r :: as, c')
  | w, c, .move upd :: es => runEvents rules (applyMove w upd) c es

/-- `isVisible` computed from cache-less privacy classes -/
def visPure (rules : List Rule) : List Obj → BoolRes
  | [] => .ok true
  | ob :: parents =>
    match (privacyClass rules [] ob).1 with
    | .err e => .err e
    | .ok l =>
      if l ≠ .hidden then
        match parents with
        | [] => .ok true
        | p :: ps => if ob.inContents then visPure rules (p :: ps) else .ok false
      else .ok false

/-- every answer computed afresh (empty cache) for the record the object has at that moment -/
def pureEvents (rules : List Rule) : World → List Event → List Ans
  | _, [] => []
  | w, .cls i :: es =>
    (match w[i]? with | none => .badId | some ob => .lvl (privacyClass rules [] ob).1) :: pureEvents rules w es
  | w, .prv i :: es =>
    (match w[i]? with | none => .badId | some ob => .bool (isPrivate rules [] ob).1) :: pureEvents rules w es
  | w, .vis ids :: es => .bool (visPure rules (getChain w ids)) :: pureEvents rules w es
  | w, .move upd :: es => pureEvents rules (applyMove w upd) es

/-! ### `utils.parse_privacy_tuple` (ASCII input) -/

/-- `value.split(':')` -/
def splitColon : List Char → List (List Char)
  | [] => [[]]
  | c :: r =>
    match splitColon r with
    | [] => [[]]            -- not reached: the result is never empty
    | p :: ps => if c = ':' then [] :: p :: ps else (c :: p) :: ps

/-- `str.isspace` on ASCII: TAB LF VT FF CR, FS GS RS US, SPACE -/
def isSpace (c : Char) : Bool :=
  (9 ≤ c.toNat && c.toNat ≤ 13) || (28 ≤ c.toNat && c.toNat ≤ 32)

def lstrip : List Char → List Char
  | [] => []
  | c :: r => if isSpace c then lstrip r else c :: r

/-- `str.strip()` -/
def strip (s : List Char) : List Char := (lstrip (lstrip s).reverse).reverse

/-- `str.upper()` on ASCII -/
def upper (s : List Char) : List Char :=
  s.map fun c => if 97 ≤ c.toNat && c.toNat ≤ 122 then Char.ofNat (c.toNat - 32) else c

/-- `model.PrivacyClass[name]`; `VISIBLE` is an alias of `PUBLIC` -/
def levelOfName (s : List Char) : Option Level :=
  if s = ['H', 'I', 'D', 'D', 'E', 'N'] then some .hidden
  else if s = ['P', 'R', 'I', 'V', 'A', 'T', 'E'] then some .priv
  else if s = ['P', 'U', 'B', 'L', 'I', 'C'] then some .pub
  else if s = ['V', 'I', 'S', 'I', 'B', 'L', 'E'] then some .pub
  else none

inductive Parsed (α : Type) where
  | ok (a : α)
  /-- `utils.error(…)`: message on stderr, `sys.exit(1)` -/
  | systemExit
  /-- an `IndexError` of `qnmatch.translate` would pass the `except re.error` clause -/
  | indexError
  deriving DecidableEq, Repr

/-- `parse_privacy_tuple(value, opt)`:
```
parts = value.split(':')
if len(parts) != 2: error(…)
try: priv = model.PrivacyClass[parts[0].strip().upper()]
except: error(…)
else:
    pattern = parts[1].strip()
    try: re.compile(qnmatch.translate(pattern))
    except re.error as e: error(…)
    return (priv, pattern)
``` -/
def parseRule (value : List Char) : Parsed Rule :=
  match splitColon value with
  | [a, b] =>
    match levelOfName (upper (strip a)) with
    | none => .systemExit
    | some l =>
      let pattern := strip b
      match Glob.translate pattern with
      | none => .indexError
      | some as => if Regex.compiles as then .ok ⟨l, pattern⟩ else .systemExit
  | _ => .systemExit

/-- `options._convert_privacy`: `list(map(parse_privacy_tuple, l))`, in command-line order; the
first value that is refused ends the process -/
def parseRules : List (List Char) → Parsed (List Rule)
  | [] => .ok []
  | v :: vs =>
    match parseRule v with
    | .ok r =>
      match parseRules vs with
      | .ok rs => .ok (r :: rs)
      | .systemExit => .systemExit
      | .indexError => .indexError
    | .systemExit => .systemExit
    | .indexError => .indexError

/-- How the configuration file's `privacy` list and the command line's `--privacy` options combine
(configargparse, action='append'; property C20 decides it against the real parser): values given on
the command line REPLACE the file's list, they are not appended to it; the file's values are then
never converted (a malformed one goes unnoticed). -/
def effectiveValues (cli cfg : List (List Char)) : List (List Char) :=
  if cli.isEmpty then cfg else cli

/-- `Options.from_args(argv).privacy` for a config file holding `cfg` and a command line holding `cli` -/
def parseEffective (cli cfg : List (List Char)) : Parsed (List Rule) :=
  parseRules (effectiveValues cli cfg)

end Privacy
