import PdModel.Glob
import PdModel.Privacy
import PdModel.Proto
/-! Line protocol for the `Glob` and `Privacy` models (driver keywords `glob`, `privacy`).

```
glob translate <pat>                  -> ok <text> | IndexError
glob match <pat> <name>*              -> ok <text> <bits|-|ReError> | IndexError      bits: one 0/1 per name
glob enum <pat> <alphabet> <maxlen>   -> the same over all names of length ≤ maxlen over the alphabet
                                         (by length, then in alphabet order), bits packed as hex
glob spec <pat> <name>*               -> <wf|desc> <bits|->        the manual's meaning (Glob.spec)
glob specenum <pat> <alphabet> <maxlen>
glob lru <maxsize> (<name> <pat>)*    -> <answers 0/1/R/I> <hits> <misses> <currsize>   qnmatch through the lru_cache model
privacy run (R <H|P|U> <pat>)* (Q <c|v|p> <obj>(;<obj>)*)*   -> <answer>* | <cache>
     obj = <fullName>/<name>/<m|o><n|k><e|s>   (module or other; kind None or known; entry of its parent's
     contents or superseded duplicate); a chain is
     object;parent;grandparent…   answers: PUBLIC PRIVATE HIDDEN True False ReError IndexError
privacy cli (V <value>)* (Q …)*       -> the same, the rules being the command-line values parsed by the model
                                         of options._convert_privacy; SystemExit | IndexError when a value is refused
privacy world (V <value>)* W <obj>(;<obj>)* (A <c|v|p> <id>(,<id>)* | M <id>=<obj>(;<id>=<obj>)*)*
                                      -> the same with object identities (index in W) and moves (reparent): M gives
                                         the new records of the objects whose qualified name / contents bit changed
privacy parse <value>                 -> ok <LEVEL> <pat> | SystemExit | IndexError
privacy effective (F <value>)* (V <value>)*  -> ok <LEVEL>=<pat>,… | ok - | SystemExit | IndexError
                                         options.privacy for a config file holding the F values and a command line holding the V values
```
strings are `u:` tokens (Proto). -/

namespace GlobIO
open Glob Privacy

def bitsStr (bs : List Bool) : String :=
  if bs.isEmpty then "-" else String.ofList (bs.map fun b => if b then '1' else '0')

def hexDigit (n : Nat) : Char :=
  if n < 10 then Char.ofNat (48 + n) else Char.ofNat (87 + n)

def b2n (b : Bool) : Nat := if b then 1 else 0

def hexAux : List Bool → List Char
  | [] => []
  | [a] => [hexDigit (8 * b2n a)]
  | [a, b] => [hexDigit (8 * b2n a + 4 * b2n b)]
  | [a, b, c] => [hexDigit (8 * b2n a + 4 * b2n b + 2 * b2n c)]
  | a :: b :: c :: d :: r => hexDigit (8 * b2n a + 4 * b2n b + 2 * b2n c + b2n d) :: hexAux r

def hexStr (bs : List Bool) : String :=
  if bs.isEmpty then "-" else String.ofList (hexAux bs)

def level (alphabet : List Char) : Nat → List (List Char)
  | 0 => [[]]
  | k + 1 => alphabet.flatMap fun c => (level alphabet k).map (c :: ·)

def enumNames (alphabet : List Char) (maxlen : Nat) : List (List Char) :=
  (List.range (maxlen + 1)).flatMap (level alphabet)

def matchAnswer (pat : List Char) (names : List (List Char)) (fmt : List Bool → String) : String :=
  match translate pat with
  | none => "IndexError"
  | some as =>
    "ok " ++ Proto.encodeStr (Regex.source as) ++ " " ++
      (if Regex.compiles as then fmt (names.map (Regex.matchA as)) else "ReError")

def specAnswer (pat : List Char) (names : List (List Char)) (fmt : List Bool → String) : String :=
  let ts := patTokens pat
  (if ts.all tokOk then "wf " else "desc ") ++ fmt (names.map (specMatch ts))

def handleGlob (args : List String) : String :=
  match args with
  | ["translate", p] =>
    match Proto.decodeStr p with
    | some pat =>
      match translateText pat with
      | some t => "ok " ++ Proto.encodeStr t
      | none => "IndexError"
    | none => "bad-op"
  | "match" :: p :: ns =>
    match Proto.decodeStr p, ns.mapM Proto.decodeStr with
    | some pat, some names => matchAnswer pat names bitsStr
    | _, _ => "bad-op"
  | "spec" :: p :: ns =>
    match Proto.decodeStr p, ns.mapM Proto.decodeStr with
    | some pat, some names => specAnswer pat names bitsStr
    | _, _ => "bad-op"
  | "lru" :: m :: rest =>
    let rec pairs : List String → Option (List (List Char × List Char))
      | [] => some []
      | [_] => none
      | n :: p :: r => do
        let n' ← Proto.decodeStr n; let p' ← Proto.decodeStr p; let t ← pairs r; pure ((n', p') :: t)
    match m.toNat?, pairs rest with
    | some maxsize, some qs =>
      let (rs, c) := runLru maxsize Lru.empty qs
      let shown := String.ofList (rs.map fun r => match r with
        | .ok true => '1' | .ok false => '0' | .reError => 'R' | .indexError => 'I')
      (if rs.isEmpty then "-" else shown) ++ " " ++ toString c.hits ++ " " ++ toString c.misses ++ " " ++
        toString c.entries.length
    | _, _ => "bad-op"
  | [op, p, a, k] =>
    match Proto.decodeStr p, Proto.decodeStr a, k.toNat? with
    | some pat, some alphabet, some maxlen =>
      if op == "enum" then matchAnswer pat (enumNames alphabet maxlen) hexStr
      else if op == "specenum" then specAnswer pat (enumNames alphabet maxlen) hexStr
      else "bad-op"
    | _, _, _ => "bad-op"
  | _ => "bad-op"

/-! privacy -/

def parseLevel : String → Option Level
  | "H" => some .hidden | "P" => some .priv | "U" => some .pub | _ => none

def showLevel : Level → String
  | .hidden => "HIDDEN" | .priv => "PRIVATE" | .pub => "PUBLIC"

def showErr : Err → String
  | .reError => "ReError" | .indexError => "IndexError"

def parseObj (tok : String) : Option Obj :=
  match tok.splitOn "/" with
  | [f, n, fl] =>
    match Proto.decodeStr f, Proto.decodeStr n, fl.toList with
    | some full, some name, [m, k, e] =>
      if (m == 'm' || m == 'o') && (k == 'n' || k == 'k') && (e == 'e' || e == 's') then
        some ⟨full, name, m == 'm', k == 'n', e == 'e'⟩
      else none
    | _, _, _ => none
  | _ => none

inductive Query | cls (o : Obj) | vis (chain : List Obj) | prv (o : Obj)

/-- parse `(R l pat)* (Q op chain)*` -/
def parseRun : List String → List Rule → Option (List Rule × List Query)
  | [], rs => some (rs.reverse, [])
  | "R" :: l :: p :: rest, rs =>
    match parseLevel l, Proto.decodeStr p with
    | some lv, some pat => parseRun rest (⟨lv, pat⟩ :: rs)
    | _, _ => none
  | "Q" :: op :: ch :: rest, rs =>
    match (ch.splitOn ";").mapM parseObj, parseRun rest rs with
    | some chain, some (rules, qs) =>
      match op, chain with
      | "c", [o] => some (rules, .cls o :: qs)
      | "p", [o] => some (rules, .prv o :: qs)
      | "v", _ :: _ => some (rules, .vis chain :: qs)
      | _, _ => none
    | _, _ => none
  | _, _ => none

def showBoolRes : BoolRes → String
  | .ok true => "True" | .ok false => "False" | .err e => showErr e

def runQueries (rules : List Rule) : Cache → List Query → List String × Cache
  | c, [] => ([], c)
  | c, q :: qs =>
    let (a, c') := match q with
      | .cls o => match privacyClass rules c o with
        | (.ok l, c') => (showLevel l, c')
        | (.err e, c') => (showErr e, c')
      | .vis chain => let (r, c') := isVisible rules c chain; (showBoolRes r, c')
      | .prv o => let (r, c') := isPrivate rules c o; (showBoolRes r, c')
    let (as, c'') := runQueries rules c' qs
    (a :: as, c'')

def showCache (c : Cache) : String :=
  if c.isEmpty then "-" else ",".intercalate (c.map fun kv => Proto.encodeStr kv.1 ++ "=" ++ showLevel kv.2)

/-- split `(V value)*` off the front -/
def parseValues : List String → List (List Char) → Option (List (List Char) × List String)
  | "V" :: v :: rest, acc =>
    match Proto.decodeStr v with
    | some value => parseValues rest (value :: acc)
    | none => none
  | rest, acc => some (acc.reverse, rest)

def answerRun (rules : List Rule) (qs : List Query) : String :=
  let (as, c) := runQueries rules [] qs
  " ".intercalate as ++ " | " ++ showCache c

def parseUpd (tok : String) : Option (List (Nat × Obj)) :=
  (tok.splitOn ";").mapM fun p =>
    match p.splitOn "=" with
    | [i, o] => do let n ← i.toNat?; let ob ← parseObj o; pure (n, ob)
    | _ => none

def parseEvents : List String → Option (List Event)
  | [] => some []
  | "A" :: op :: ids :: rest =>
    match (ids.splitOn ",").mapM (·.toNat?), parseEvents rest with
    | some ns, some es =>
      match op, ns with
      | "c", [i] => some (.cls i :: es)
      | "p", [i] => some (.prv i :: es)
      | "v", _ :: _ => some (.vis ns :: es)
      | _, _ => none
    | _, _ => none
  | "M" :: u :: rest =>
    match parseUpd u, parseEvents rest with
    | some upd, some es => some (.move upd :: es)
    | _, _ => none
  | _ => none

def showAns : Ans → String
  | .lvl (.ok l) => showLevel l
  | .lvl (.err e) => showErr e
  | .bool b => showBoolRes b
  | .badId => "BadId"

def handlePrivacy (args : List String) : String :=
  match args with
  | ["parse", v] =>
    match Proto.decodeStr v with
    | some value =>
      match parseRule value with
      | .ok r => "ok " ++ showLevel r.level ++ " " ++ Proto.encodeStr r.pat
      | .systemExit => "SystemExit"
      | .indexError => "IndexError"
    | none => "bad-op"
  | "run" :: rest =>
    match parseRun rest [] with
    | some (rules, qs) => answerRun rules qs
    | none => "bad-op"
  | "cli" :: rest =>
    match parseValues rest [] with
    | some (values, rest') =>
      match parseRun rest' [] with
      | some ([], qs) =>
        match parseRules values with
        | .ok rules => answerRun rules qs
        | .systemExit => "SystemExit"
        | .indexError => "IndexError"
      | _ => "bad-op"
    | none => "bad-op"
  | "effective" :: rest =>
    let rec fvals : List String → List (List Char) → Option (List (List Char) × List String)
      | "F" :: v :: r, acc => match Proto.decodeStr v with | some x => fvals r (x :: acc) | none => none
      | r, acc => some (acc.reverse, r)
    match fvals rest [] with
    | some (cfg, rest') =>
      match parseValues rest' [] with
      | some (cli, []) =>
        match parseEffective cli cfg with
        | .ok rules =>
          "ok " ++ (if rules.isEmpty then "-" else
            ",".intercalate (rules.map fun r => showLevel r.level ++ "=" ++ Proto.encodeStr r.pat))
        | .systemExit => "SystemExit"
        | .indexError => "IndexError"
      | _ => "bad-op"
    | none => "bad-op"
  | "world" :: rest =>
    match parseValues rest [] with
    | some (values, "W" :: wtok :: rest') =>
      match (wtok.splitOn ";").mapM parseObj, parseEvents rest' with
      | some w, some es =>
        match parseRules values with
        | .ok rules =>
          let (as, c) := runEvents rules w [] es
          " ".intercalate (as.map showAns) ++ " | " ++ showCache c
        | .systemExit => "SystemExit"
        | .indexError => "IndexError"
      | _, _ => "bad-op"
    | _ => "bad-op"
  | _ => "bad-op"

end GlobIO

namespace Glob
def handle (args : List String) : String := GlobIO.handleGlob args
end Glob

namespace Privacy
def handle (args : List String) : String := GlobIO.handlePrivacy args
end Privacy
