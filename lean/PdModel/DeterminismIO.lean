import PdModel.Determinism
import PdModel.Proto
/-! Line protocol for the Determinism model (`determinism <op> …`).  Names are `u:` tokens.

* `sorted N*`                         → `ok N*`                     (`sorted(names)`)
* `projectname <E|-> N*`              → `ok <name>`                 (driver.get_system; E = --project-name)
* `projectnameold <E|-> N*`           → `ok <name>`                 (the same step before /repo f35e237)
* `pageurl FULL N*`                   → `ok <name>`                 (Documentable.url of a page object)
* `symlink <0|1> FILES N*`            → `none` | `link <name>` | `IndexError`   (writeSummaryPages tail; flag = some root object is visible; FILES = `,`-joined
                                         file names of the run's summary + search pages, or `-`)
* `indexpage <0|1> N*`                → `yes` | `no`                (summaryPages: IndexPage present; flag = some root object is visible)
* `unknownroot PFX N*`                → `yes` | `no`                (linker: prefix not in root_names)
* `popsingle N*`                      → `none` | `ok <name>`        (astutils._annotation_for_elements)
* `rootkinds N*`                      → `ok <name>`                 (IndexPage.rootkind, on the kind names)
  In all of these `N*` is ONE enumeration of the set, in the order the interpreter produced it.
* `traverse <0|1> ALL SRC EXT ROOT (@ PATH ENTRY*)*`
      ALL/SRC/EXT: suffix lists (`,`-joined names or `-`); ROOT: the package directory name;
      each `@` record gives the listing of directory PATH (`/`-joined names) in FILE-SYSTEM order,
      ENTRY = `f=<name>` | `p=<name>` (directory with __init__.py) | `d=<name>` (other directory)
                                        → `ok (P|M|C)=<path>*` the analyzeModule/introspectModule calls in order
* `run DIR* | OP*`                    → `ok wf=<yes|no|noshape> DIR*` | `FileExistsError` | `ELOOP`
      DIR = `F=<name>=<content>` | `L=<name>=<target>`; OP = `W=<name>=<content>` | `U=<name>` | `S=<name>=<target>`
      the answer lists the final directory sorted by name.
* `buildtime NOW ENV OPT`              → `time <seconds>` | `exit-error` | `crash`    (System.__init__ + driver.get_system)
      NOW: integer; ENV: `unset` | `notint` | `v=<int>` | `yearrange` | `platformrange`; OPT: `-` | `bad` | `t=<int>`
* `order <alpha|source|lc|full> OBJ*`  → `ok <position>*` | `TypeError-possible`   (sorted(objs, key=…): positions in the request)
      OBJ = `<privacy>;<kind|->;<line>;<m|o>;<fullName>;<fullName.lower()>`
* `strorder <names|lower|plain> STR*` → `ok <position>*`      STR = `<s>;<s.lower()>`
      names: key=(x.lower(), x); lower: key=x.lower(); plain: no key
* `unmasked CLASS (| CLASS)*`         → `ok <id>*` | `IndexError`   (util.unmasked_attrs of the chain; CLASS = MEMBER*,
      MEMBER = `<name>;<v|h>`; ids number the members of the request from 0)
* `inherited CLASS (| CLASS)*`        → `ok <id>*`                  (util.inherited_members, classes in mro order)
* `documents (<fullName>;<v|h>)*`      → `ok <fullName>*`            (search.get_all_documents_flattenable / get_corpus)
* `templates TPL* | TPL*`               → `ok (<key>=<outName>=<h|s>=<content>)*` sorted by key | `OverrideTemplateNotAllowed`
      TPL = `<name>;<name.lower()>;<h|s>;<content>`; before `|`: the templates already in the lookup (in the order they were
      added - itself a directory, walked sorted), after: the directory in the order `iterdir()` lists it (the model sorts it,
      as Template.fromdir does since /repo ea400d3)   (TemplateLookup.add_templatedir)
* `extensions (<name>;<f|d>)*`           → `ok <module name>*`          (extensions.get_extensions: load order for this listing)
* `kindafter INITIAL (<kind>|-)*`       → `ok <kind>`                  (kind of an assignment after the visitor extensions, in load order)
* `setrepr N*`                          → `ok <text>`                  (repr of a live set whose enumeration is N*, elements given as their reprs)
* `rstdate NOW ENV OPT`                 → `time <seconds>`             (what docutils' date directive shows)
* `exec DIR* | OP*`                   → the same without the `wf=` token (stream of the OS primitives)
-/
namespace Determinism

def decName (tok : String) : Option Name := (Proto.decodeStr tok).map (·.map Char.toNat)

def encName (n : Name) : String := "u:" ++ ".".intercalate (n.map toString)

def decNames (toks : List String) : Option (List Name) := toks.mapM decName

def decNameList (tok : String) : Option (List Name) :=
  if tok == "-" then some [] else (tok.splitOn ",").mapM decName

def decPath (tok : String) : Option (List Name) := (tok.splitOn "/").mapM decName

def encPath (p : List Name) : String := "/".intercalate (p.map encName)

def showNames (ns : List Name) : String := " ".intercalate ("ok" :: ns.map encName)

def decEntry (tok : String) : Option (Name × Kind) :=
  match tok.splitOn "=" with
  | ["f", n] => (decName n).map (·, Kind.file)
  | ["p", n] => (decName n).map (·, Kind.pkgdir)
  | ["d", n] => (decName n).map (·, Kind.plaindir)
  | _ => none

/-- `@ PATH ENTRY* @ PATH ENTRY* …` → association list path ↦ listing -/
def decFs : Nat → List String → Option (List (List Name × List (Name × Kind)))
  | 0, _ => none
  | _, [] => some []
  | fuel + 1, "@" :: p :: rest => do
    let path ← decPath p
    let ents := rest.takeWhile (· ≠ "@")
    let more := rest.dropWhile (· ≠ "@")
    let es ← ents.mapM decEntry
    let tl ← decFs fuel more
    some ((path, es) :: tl)
  | _, _ => none

def lsOf (fs : List (List Name × List (Name × Kind))) (p : List Name) : List (Name × Kind) :=
  match fs.find? (·.1 = p) with
  | some (_, l) => l
  | none => []

def showEv : Ev → String
  | .package p => "P=" ++ encPath p
  | .module p => "M=" ++ encPath p
  | .cmodule p => "C=" ++ encPath p
  | .fuel => "FUEL"

def decDirEntry (tok : String) : Option (Name × Entry) :=
  match tok.splitOn "=" with
  | ["F", n, c] => do some ((← decName n), Entry.file (← c.toNat?))
  | ["L", n, t] => do some ((← decName n), Entry.link (← decName t))
  | _ => none

def decOp (tok : String) : Option Op :=
  match tok.splitOn "=" with
  | ["W", n, c] => do some (Op.write (← decName n) (← c.toNat?))
  | ["U", n] => do some (Op.unlinkOk (← decName n))
  | ["S", n, t] => do some (Op.symlink (← decName n) (← decName t))
  | _ => none

def dedup : List Name → List Name
  | [] => []
  | x :: xs => x :: (dedup xs).filter (· ≠ x)

def showDir (d : Dir) : String :=
  let ns := sorted (dedup (d.map (·.1)))
  " ".intercalate (ns.filterMap fun n =>
    match d.get n with
    | some (.file c) => some ("F=" ++ encName n ++ "=" ++ toString c)
    | some (.link t) => some ("L=" ++ encName n ++ "=" ++ encName t)
    | none => none)

/-- `run` (answer carries the `wfRun` verdict on the log's shape) and `exec` (plain) -/
def runOp (withWf : Bool) (rest : List String) : String :=
  let dirToks := rest.takeWhile (· ≠ "|")
  let opToks := (rest.dropWhile (· ≠ "|")).drop 1
  match dirToks.mapM decDirEntry, opToks.mapM decOp with
  | some d, some ops =>
    let wf := if !withWf then "" else match shapeOf ops with
      | some (b, l, a) => if wfRun b l a then " wf=yes" else " wf=no"
      | none => " wf=noshape"
    (match run ops d with
     | .ok d' => "ok" ++ wf ++ (if d'.isEmpty then "" else " " ++ showDir d')
     | .error .fileExists => "FileExistsError"
     | .error .eloop => "ELOOP")
  | _, _ => "bad-op"

def decInt (s : String) : Option Int :=
  if s.startsWith "-" then (s.drop 1).toString.toNat?.map (fun n => - (Int.ofNat n)) else s.toNat?.map Int.ofNat

def decEnv (tok : String) : Option EnvEpoch :=
  match tok.splitOn "=" with
  | ["unset"] => some .unset
  | ["notint"] => some .notInt
  | ["yearrange"] => some .yearRange
  | ["platformrange"] => some .platformRange
  | ["v", n] => (decInt n).map EnvEpoch.value
  | _ => none

def decOpt (tok : String) : Option OptTime :=
  match tok.splitOn "=" with
  | ["-"] => some .notGiven
  | ["bad"] => some .bad
  | ["t", n] => (decInt n).map OptTime.time
  | _ => none

def decObj (tok : String) : Option Obj :=
  match tok.splitOn ";" with
  | [p, k, l, m, f, lo] => do
    let kind ← (if k == "-" then some none else k.toNat?.map some)
    some { privacy := (← p.toNat?), kind := kind, line := (← l.toNat?), isModule := m == "m",
           full := (← decName f), lowerFull := (← decName lo) }
  | _ => none

def decStr (tok : String) : Option Str :=
  match tok.splitOn ";" with
  | [a, b] => do some { s := (← decName a), lower := (← decName b) }
  | _ => none

def showPositions {α : Type} (l : List (α × Nat)) : String :=
  " ".intercalate ("ok" :: l.map (fun p => toString p.2))

/-- split a token list at `|` -/
def splitBar : List String → List (List String)
  | [] => [[]]
  | "|" :: rest => [] :: splitBar rest
  | t :: rest =>
    match splitBar rest with
    | [] => [[t]]
    | g :: gs => (t :: g) :: gs

/-- parse classes, numbering the members 0, 1, 2 … over the whole request -/
def decClasses (groups : List (List String)) : Option (List (List Member)) :=
  let rec go (gs : List (List String)) (next : Nat) : Option (List (List Member)) :=
    match gs with
    | [] => some []
    | g :: rest => do
      let ms ← (g.zipIdx).mapM (fun (tok, i) =>
        match tok.splitOn ";" with
        | [n, v] => (decName n).map (fun nm => ({ name := nm, visible := v == "v", id := next + i } : Member))
        | _ => none)
      let tl ← go rest (next + g.length)
      some (ms :: tl)
  go groups 0

def showMembers (ms : List Member) : String := " ".intercalate ("ok" :: ms.map (fun m => toString m.id))

def decTpl (tok : String) : Option Tpl :=
  match tok.splitOn ";" with
  | [n, l, k, c] => do some { name := (← decName n), lower := (← decName l), html := k == "h", content := (← c.toNat?) }
  | _ => none

def showLookup (d : Lookup) : String :=
  let ks := sorted (dedup (d.map (·.1)))
  " ".intercalate ("ok" :: ks.filterMap fun k =>
    (d.get k).map fun e => encName k ++ "=" ++ encName e.outName ++ "=" ++ (if e.html then "h" else "s") ++ "=" ++ toString e.content)

def handle (args : List String) : String :=
  match args with
  | "sorted" :: ns =>
    match decNames ns with
    | some l => showNames (sorted l)
    | none => "bad-op"
  | "projectname" :: e :: ns =>
    match (if e == "-" then some none else (decName e).map some), decNames ns with
    | some ex, some l => "ok " ++ encName (projectName ex l)
    | _, _ => "bad-op"
  | "projectnameold" :: e :: ns =>
    match (if e == "-" then some none else (decName e).map some), decNames ns with
    | some ex, some l => "ok " ++ encName (projectNameOld ex l)
    | _, _ => "bad-op"
  | "pageurl" :: f :: ns =>
    match decName f, decNames ns with
    | some full, some l => "ok " ++ encName (pageUrl l full)
    | _, _ => "bad-op"
  | "symlink" :: vis :: files :: ns =>
    match decNameList files, decNames ns with
    | some fs, some l => (match rootSymlink l (vis == "1") fs with
      | .noLink => "none" | .link n => "link " ++ encName n | .indexError => "IndexError")
    | _, _ => "bad-op"
  | "indexpage" :: vis :: ns =>
    match decNames ns with
    | some l => if hasIndexPage l (vis == "1") then "yes" else "no"
    | none => "bad-op"
  | "unknownroot" :: p :: ns =>
    match decName p, decNames ns with
    | some pfx, some l => if rootUnknown l pfx then "yes" else "no"
    | _, _ => "bad-op"
  | "popsingle" :: ns =>
    match decNames ns with
    | some l => (match popSingle l with | some n => "ok " ++ encName n | none => "none")
    | none => "bad-op"
  | "rootkinds" :: ns =>
    match decNames ns with
    | some l => "ok " ++ encName (rootKinds l)
    | none => "bad-op"
  | "traverse" :: ic :: all :: src :: ext :: root :: fsToks =>
    match decNameList all, decNameList src, decNameList ext, decName root, decFs (fsToks.length + 1) fsToks with
    | some a, some s, some e, some r, some fs =>
      let cfg : Cfg := { allSuffixes := a, sourceSuffixes := s, extSuffixes := e, introspectC := ic == "1" }
      " ".intercalate ("ok" :: (addPackage cfg (lsOf fs) (fs.length + 1) [r]).map showEv)
    | _, _, _, _, _ => "bad-op"
  | ["buildtime", now, env, opt] =>
    match decInt now, decEnv env, decOpt opt with
    | some n, some e, some o =>
      (match buildTime n e o with
       | .time t => "time " ++ toString t
       | .exitError => "exit-error"
       | .crash => "crash")
    | _, _, _ => "bad-op"
  | "order" :: which :: toks =>
    match toks.mapM decObj with
    | some objs =>
      let l := objs.zipIdx
      (match which with
       | "alpha" => showPositions (sortedWith alphaLe (fun p => alphaKey p.1) l)
       | "lc" => showPositions (sortedWith lcLe (fun p => lcKey p.1) l)
       | "full" => showPositions (sortedWith lexLe (fun p => fullKey p.1) l)
       | "source" =>
         (match sortedSource? objs with
          | some _ => showPositions (sortedWith sourceLe (fun p => sourceKey p.1) l)
          | none => "TypeError-possible")
       | _ => "bad-op")
    | none => "bad-op"
  | "strorder" :: which :: toks =>
    match toks.mapM decStr with
    | some xs =>
      let l := xs.zipIdx
      (match which with
       | "names" => showPositions (sortedWith lcLe (fun p => nameKey p.1) l)
       | "lower" => showPositions (sortedWith lexLe (fun p => lowerKey p.1) l)
       | "plain" => showPositions (sortedWith lexLe (fun p => p.1.s) l)
       | _ => "bad-op")
    | none => "bad-op"
  | "unmasked" :: toks =>
    match decClasses (splitBar toks) with
    | some chain => (match unmaskedAttrs chain with | .ok ms => showMembers ms | .indexError => "IndexError")
    | none => "bad-op"
  | "inherited" :: toks =>
    match decClasses (splitBar toks) with
    | some mro => showMembers (inheritedMembers mro)
    | none => "bad-op"
  | "documents" :: toks =>
    match toks.mapM (fun tok => match tok.splitOn ";" with
        | [n, v] => (decName n).map (fun nm => (nm, v == "v"))
        | _ => none) with
    | some l => showNames (documentOrder l)
    | none => "bad-op"
  | "templates" :: rest =>
    let baseToks := rest.takeWhile (· ≠ "|")
    let dirToks := (rest.dropWhile (· ≠ "|")).drop 1
    match baseToks.mapM decTpl, dirToks.mapM decTpl with
    | some b, some l =>
      (match (addTemplateDirSorted [] b).bind (fun d => addTemplateDirSorted d l) with
       | some d => showLookup d
       | none => "OverrideTemplateNotAllowed")
    | _, _ => "bad-op"
  | "extensions" :: toks =>
    match toks.mapM (fun tok => match tok.splitOn ";" with
        | [n, k] => (decName n).map (fun nm => (nm, k == "f"))
        | _ => none) with
    | some l => showNames (getExtensions l)
    | none => "bad-op"
  | "kindafter" :: ini :: toks =>
    match ini.toNat?, toks.mapM (fun t => if t == "-" then some none else t.toNat?.map some) with
    | some i, some cs => "ok " ++ toString (kindAfterVisitors i cs)
    | _, _ => "bad-op"
  | "setrepr" :: ns =>
    match decNames ns with
    | some l => "ok " ++ encName (setRepr l)
    | none => "bad-op"
  | ["rstdate", now, env, opt] =>
    match decInt now, decEnv env, decOpt opt with
    | some n, some e, some o => "time " ++ toString (rstDateTime n e o)
    | _, _, _ => "bad-op"
  | "run" :: rest => runOp true rest
  | "exec" :: rest => runOp false rest
  | _ => "bad-op"

end Determinism
