/-
Model of pydoctor/visitor.py: `Visitor.visit`, `Visitor.depart`, `Visitor.walkabout`,
`Visitor.walk`, `ExtList` timing, and the scope-stack discipline of
`astbuilder.ModuleVistor` / `ASTBuilder.push/pop`.

A tree node carries its identity and the pruning action the *main* visitor's
`visit_*` method raises for it.  Exceptions are explicit: the second component of
`walkabout`'s result says whether `SkipSiblings` propagates to the caller.
`walkaboutG` is the same code with two more inputs: the pruning exception the main visitor's
`depart_*` raises per node, and the nodes a `visit_*` method visits itself (`generic_visit`).

Import-free, executable.
-/
namespace Visitor

inductive Act | none | skipChildren | skipSiblings | skipNode | skipDeparture
  deriving DecidableEq, Repr, Inhabited

inductive When | before | after | inner | outter
  deriving DecidableEq, Repr, Inhabited

inductive Who | main | ext (i : Nat)
  deriving DecidableEq, Repr

inductive Kind | visit | depart
  deriving DecidableEq, Repr

structure Event where
  who : Who
  kind : Kind
  node : Nat
  deriving DecidableEq, Repr

inductive Tree | node (id : Nat) (act : Act) (children : List Tree)
  deriving Repr, Inhabited

/-- `ExtList._visitors[w]`: the extensions registered with timing `w`, in registration order.
Extension `i` is the `i`-th class handed to `ExtList.add`. -/
def extsAux (w : When) : List When → Nat → List Nat
  | [], _ => []
  | x :: xs, i => if x = w then i :: extsAux w xs (i+1) else extsAux w xs (i+1)

def extsOf (exts : List When) (w : When) : List Nat := extsAux w exts 0

def evs (k : Kind) (id : Nat) (l : List Nat) : List Event := l.map fun i => ⟨.ext i, k, id⟩

/-- `Visitor.visit`: before + outter, main, after + inner (the pruning exception is re-raised
afterwards; that is the node's `act`). -/
def visitEvents (exts : List When) (id : Nat) : List Event :=
  evs .visit id (extsOf exts .before ++ extsOf exts .outter)
    ++ [⟨.main, .visit, id⟩]
    ++ evs .visit id (extsOf exts .after ++ extsOf exts .inner)

/-- `Visitor.depart(ob, extensions_only)`: before + inner, main unless extensions_only, after + outter. -/
def departEvents (exts : List When) (id : Nat) (extOnly : Bool) : List Event :=
  evs .depart id (extsOf exts .before ++ extsOf exts .inner)
    ++ (if extOnly then [] else [⟨.main, .depart, id⟩])
    ++ evs .depart id (extsOf exts .after ++ extsOf exts .outter)

mutual
/-- `Visitor.walkabout` (after the fix that makes SkipSiblings behave as documented).
Result: event trace, and whether `SkipSiblings` is (re-)raised to the caller. -/
def walkabout (exts : List When) : Tree → List Event × Bool
  | .node id act cs =>
    let v := visitEvents exts id
    match act with
    | .skipNode      => (v ++ departEvents exts id true, false)
    | .skipChildren  => (v ++ departEvents exts id false, false)
    | .skipDeparture => (v ++ walkChildren exts cs ++ departEvents exts id true, false)
    | .none          => (v ++ walkChildren exts cs ++ departEvents exts id false, false)
    | .skipSiblings  => (v ++ walkChildren exts cs ++ departEvents exts id false, true)
/-- the `for child in get_children(ob): self.walkabout(child)` loop inside `try/except SkipSiblings`. -/
def walkChildren (exts : List When) : List Tree → List Event
  | [] => []
  | t :: ts =>
    let r := walkabout exts t
    if r.2 then r.1 else r.1 ++ walkChildren exts ts
end

mutual
/-- `Visitor.walkabout` as it was before the fix: a `SkipSiblings` raised by the main
`visit_*` leaves `walkabout` at once (no children, no depart for anybody). -/
def walkaboutOld (exts : List When) : Tree → List Event × Bool
  | .node id act cs =>
    let v := visitEvents exts id
    match act with
    | .skipNode      => (v ++ departEvents exts id true, false)
    | .skipChildren  => (v ++ departEvents exts id false, false)
    | .skipDeparture => (v ++ walkChildrenOld exts cs ++ departEvents exts id true, false)
    | .none          => (v ++ walkChildrenOld exts cs ++ departEvents exts id false, false)
    | .skipSiblings  => (v, true)
def walkChildrenOld (exts : List When) : List Tree → List Event
  | [] => []
  | t :: ts =>
    let r := walkaboutOld exts t
    if r.2 then r.1 else r.1 ++ walkChildrenOld exts ts
end

mutual
/-- `Visitor.walk` (no departures). SkipDeparture is ignored; SkipChildren/SkipNode stop descent. -/
def walk (exts : List When) : Tree → List Event × Bool
  | .node id act cs =>
    let v := visitEvents exts id
    match act with
    | .skipNode      => (v, false)
    | .skipChildren  => (v, false)
    | .skipDeparture => (v ++ walkKids exts cs, false)
    | .none          => (v ++ walkKids exts cs, false)
    | .skipSiblings  => (v ++ walkKids exts cs, true)
def walkKids (exts : List When) : List Tree → List Event
  | [] => []
  | t :: ts =>
    let r := walk exts t
    if r.2 then r.1 else r.1 ++ walkKids exts ts
end

/-! ### The general walk: pruning raised by the main visitor's `depart_*`, and nodes the main visitor
visits from inside its own `visit_*`

Two things the code does that the tree-with-one-action-per-node picture leaves out:

* `dact id` — the pruning exception the MAIN visitor's `depart_*` raises for node `id`
  (`.none`: it returns).  Since 97d973e `Visitor.depart` catches it around `super().depart(ob)`, lets the
  AFTER and OUTTER extensions leave the node and re-raises; `walkabout` wraps `self.depart(...)`:
  `SkipSiblings` becomes the pending `skip_siblings` (raised to the parent's loop once the node is left), the
  other three are ignored ("not applicable once the node is left").  Before 97d973e (`departEventsGOld`,
  `finishGOld`, `walkaboutGOld`) `super().depart(ob)` was unguarded: the exception skipped the AFTER and OUTTER
  extensions and left `walkabout(ob)`; in the parent `SkipSiblings` was caught by the loop's
  `except SkipSiblings`, `SkipChildren` by the outer `except SkipChildren`, `SkipNode` / `SkipDeparture`
  nowhere (they left every enclosing `walkabout` at once) — the parent's handlers are unchanged and still
  transcribed in `walkaboutF`.
* `inl id` — the nodes the main visitor's `visit_*` of node `id` visits itself through
  `Visitor.visit(child)` (`NodeVisitor.generic_visit`; `ModuleVistor.visit_Expr` did that for the value of
  every expression statement until 090633d, since then `get_children` yields the value): the complete enter
  block of each of them (extensions and main visitor) happens inside the main visitor's visit of `id`,
  that is before the AFTER and INNER extensions enter `id`; nobody departs them.

Second component of the result: the exception that leaves `walkabout` (`none`: it returns). -/

def visitEventsG (inl : Nat → List Nat) (exts : List When) (id : Nat) : List Event :=
  evs .visit id (extsOf exts .before ++ extsOf exts .outter)
    ++ [⟨.main, .visit, id⟩]
    ++ (inl id).flatMap (visitEvents exts)
    ++ evs .visit id (extsOf exts .after ++ extsOf exts .inner)

/-- `Visitor.depart(ob, extensions_only)` when the main `depart_*` may raise: the exception is kept until the
AFTER and OUTTER extensions have left, then re-raised (second component). -/
def departEventsG (dact : Nat → Act) (exts : List When) (id : Nat) (extOnly : Bool) : List Event × Option Act :=
  let pre := evs .depart id (extsOf exts .before ++ extsOf exts .inner)
  let post := evs .depart id (extsOf exts .after ++ extsOf exts .outter)
  if extOnly then (pre ++ post, none)
  else (pre ++ [⟨.main, .depart, id⟩] ++ post, if dact id = .none then none else some (dact id))

/-- the tail of `walkabout`: `try: self.depart(ob, extensions_only=not call_depart)` /
`except SkipSiblings as ex: skip_siblings = ex` / `except _TreePruningException: pass`, then
`raise skip_siblings` if the visit or the departure asked for it. -/
def finishG (dact : Nat → Act) (exts : List When) (id : Nat) (act : Act) (tr : List Event) (extOnly : Bool) :
    List Event × Option Act :=
  let d := departEventsG dact exts id extOnly
  match d.2 with
  | some .skipSiblings => (tr ++ d.1, some .skipSiblings)
  | _ => (tr ++ d.1, if act = .skipSiblings then some .skipSiblings else none)

/-- `Visitor.depart` before 97d973e: `super().depart(ob)` unguarded. -/
def departEventsGOld (dact : Nat → Act) (exts : List When) (id : Nat) (extOnly : Bool) : List Event × Option Act :=
  let pre := evs .depart id (extsOf exts .before ++ extsOf exts .inner)
  let post := evs .depart id (extsOf exts .after ++ extsOf exts .outter)
  if extOnly then (pre ++ post, none)
  else if dact id = .none then (pre ++ [⟨.main, .depart, id⟩] ++ post, none)
  else (pre ++ [⟨.main, .depart, id⟩], some (dact id))

/-- the tail of `walkabout` before 97d973e: `self.depart(...)` outside every `try`. -/
def finishGOld (dact : Nat → Act) (exts : List When) (id : Nat) (act : Act) (tr : List Event) (extOnly : Bool) :
    List Event × Option Act :=
  let d := departEventsGOld dact exts id extOnly
  match d.2 with
  | some e => (tr ++ d.1, some e)
  | none => (tr ++ d.1, if act = .skipSiblings then some .skipSiblings else none)

mutual
/-- `walkabout` up to its tail `fin id act trace extensions_only` (the part 97d973e changed). -/
def walkaboutF (fin : Nat → Act → List Event → Bool → List Event × Option Act) (inl : Nat → List Nat)
    (exts : List When) : Tree → List Event × Option Act
  | .node id act cs =>
    let v := visitEventsG inl exts id
    match act with
    | .skipNode      => fin id .skipNode v true
    | .skipChildren  => fin id .skipChildren v false
    | .skipDeparture =>
      let k := walkChildrenF fin inl exts cs
      match k.2 with
      | some .skipNode => (v ++ k.1, some .skipNode)
      | some .skipDeparture => (v ++ k.1, some .skipDeparture)
      | _ => fin id .skipDeparture (v ++ k.1) true
    | .none =>
      let k := walkChildrenF fin inl exts cs
      match k.2 with
      | some .skipNode => (v ++ k.1, some .skipNode)
      | some .skipDeparture => (v ++ k.1, some .skipDeparture)
      | _ => fin id .none (v ++ k.1) false
    | .skipSiblings =>
      let k := walkChildrenF fin inl exts cs
      match k.2 with
      | some .skipNode => (v ++ k.1, some .skipNode)
      | some .skipDeparture => (v ++ k.1, some .skipDeparture)
      | _ => fin id .skipSiblings (v ++ k.1) false
/-- the children loop; second component: the exception that ended it (whoever catches it). -/
def walkChildrenF (fin : Nat → Act → List Event → Bool → List Event × Option Act) (inl : Nat → List Nat)
    (exts : List When) : List Tree → List Event × Option Act
  | [] => ([], none)
  | t :: ts =>
    let r := walkaboutF fin inl exts t
    match r.2 with
    | some e => (r.1, some e)
    | none =>
      let k := walkChildrenF fin inl exts ts
      (r.1 ++ k.1, k.2)
end

/-- `Visitor.walkabout` as it is. -/
def walkaboutG (inl : Nat → List Nat) (dact : Nat → Act) (exts : List When) (t : Tree) : List Event × Option Act :=
  walkaboutF (finishG dact exts) inl exts t

def walkChildrenG (inl : Nat → List Nat) (dact : Nat → Act) (exts : List When) (ts : List Tree) :
    List Event × Option Act :=
  walkChildrenF (finishG dact exts) inl exts ts

/-- `Visitor.walkabout` before 97d973e (historical). -/
def walkaboutGOld (inl : Nat → List Nat) (dact : Nat → Act) (exts : List When) (t : Tree) : List Event × Option Act :=
  walkaboutF (finishGOld dact exts) inl exts t

/-! ### Specification side: what the pruning actions *mean* (from the class docstrings) -/

/-- A pruned tree: the nodes that are reached, with a flag saying whether the main visitor's
`depart_*` runs for the node. -/
inductive PTree | node (id : Nat) (mainDeparts : Bool) (children : List PTree)
  deriving Repr, Inhabited

mutual
/-- Meaning of the actions, read off the docstrings of SkipChildren / SkipSiblings / SkipNode /
SkipDeparture:  SkipChildren, SkipNode drop the children; SkipNode, SkipDeparture drop the main
departure; SkipSiblings drops the siblings to the right (handled in `pruneList`). -/
def prune : Tree → PTree
  | .node id act cs =>
    match act with
    | .skipNode      => .node id false []
    | .skipChildren  => .node id true []
    | .skipDeparture => .node id false (pruneList cs)
    | .none          => .node id true (pruneList cs)
    | .skipSiblings  => .node id true (pruneList cs)
def pruneList : List Tree → List PTree
  | [] => []
  | (.node id act cs) :: ts =>
    if act = .skipSiblings then [prune (.node id act cs)]
    else prune (.node id act cs) :: pruneList ts
end

/-- does the main visitor's `depart_*` run for a node whose `visit_*` raised `a` -/
def mainDeparts (a : Act) : Bool := a != .skipNode && a != .skipDeparture

/-- the siblings to the right of the node are skipped: its `visit_*` raised SkipSiblings, or its `depart_*`
ran and raised it -/
def stopsG (dact : Nat → Act) (id : Nat) (act : Act) : Bool :=
  act == .skipSiblings || (mainDeparts act && dact id == .skipSiblings)

mutual
/-- `prune` when departures raise as well: only SkipSiblings means something there (the other three are
"not applicable once the node is left"). -/
def pruneG (dact : Nat → Act) : Tree → PTree
  | .node id act cs =>
    match act with
    | .skipNode      => .node id false []
    | .skipChildren  => .node id true []
    | .skipDeparture => .node id false (pruneListG dact cs)
    | .none          => .node id true (pruneListG dact cs)
    | .skipSiblings  => .node id true (pruneListG dact cs)
def pruneListG (dact : Nat → Act) : List Tree → List PTree
  | [] => []
  | (.node id act cs) :: ts =>
    if stopsG dact id act then [pruneG dact (.node id act cs)]
    else pruneG dact (.node id act cs) :: pruneListG dact ts
end

mutual
/-- The documented walk over a pruned tree: enter block, children left to right, leave block. -/
def specTrace (exts : List When) : PTree → List Event
  | .node id md cs => visitEvents exts id ++ specList exts cs ++ departEvents exts id (!md)
def specList (exts : List When) : List PTree → List Event
  | [] => []
  | t :: ts => specTrace exts t ++ specList exts ts
end

-- Bracket word of a pruned tree as seen by one extension: (visit id) … (depart id).
mutual
def brackets : PTree → List (Kind × Nat)
  | .node id _ cs => (.visit, id) :: (bracketsList cs ++ [(.depart, id)])
def bracketsList : List PTree → List (Kind × Nat)
  | [] => []
  | t :: ts => brackets t ++ bracketsList ts
end

-- Bracket word as seen by the main visitor: the closing bracket is missing where the
-- departure was skipped.
mutual
def mainBrackets : PTree → List (Kind × Nat)
  | .node id md cs => (.visit, id) :: (mainBracketsList cs ++ (if md then [(.depart, id)] else []))
def mainBracketsList : List PTree → List (Kind × Nat)
  | [] => []
  | t :: ts => mainBrackets t ++ mainBracketsList ts
end

def restrict (w : Who) (tr : List Event) : List (Kind × Nat) :=
  (tr.filter (fun e => e.who = w)).map (fun e => (e.kind, e.node))

/-- Stack checker for properly nested visit/depart words. `some stack` on success. -/
def dyckRun : List (Kind × Nat) → List Nat → Option (List Nat)
  | [], st => some st
  | (.visit, n) :: rest, st => dyckRun rest (n :: st)
  | (.depart, n) :: rest, st =>
    match st with
    | m :: st' => if m = n then dyckRun rest st' else none
    | [] => none

def isDyck (w : List (Kind × Nat)) : Bool := dyckRun w [] == some []

mutual
def ids : Tree → List Nat
  | .node id _ cs => id :: idsList cs
def idsList : List Tree → List Nat
  | [] => []
  | t :: ts => ids t ++ idsList ts
end

mutual
def pids : PTree → List Nat
  | .node id _ cs => id :: pidsList cs
def pidsList : List PTree → List Nat
  | [] => []
  | t :: ts => pids t ++ pidsList ts
end

/-! ### ASTBuilder scope stack (`ModuleVistor.visit_Module/ClassDef/FunctionDef`, `depart_*`,
`ASTBuilder.push/pop`): a scope node pushes on entry unless it raises SkipNode *before* pushing
(the only pruning exception `ModuleVistor` raises), and pops in its `depart_*`. Non-scope nodes
leave the stack alone. -/

/-- run the main visitor's events of a trace against the builder stack; `scope id` says whether
node `id` is a Module/ClassDef/FunctionDef, `skips id` whether its visit raised SkipNode before
pushing. `none` = pop on empty stack / wrong object (the `assert` in `ASTBuilder.pop`). -/
def stackRun (scope skips : Nat → Bool) : List Event → List Nat → Option (List Nat)
  | [], st => some st
  | e :: rest, st =>
    match e.who, e.kind with
    | .main, .visit =>
      if scope e.node && !skips e.node then stackRun scope skips rest (e.node :: st)
      else stackRun scope skips rest st
    | .main, .depart =>
      if scope e.node then
        match st with
        | m :: st' => if m = e.node then stackRun scope skips rest st' else none
        | [] => none
      else stackRun scope skips rest st
    | _, _ => stackRun scope skips rest st

end Visitor

/-! ### handler dispatch: `_BaseVisitor.visit` / `_BaseVisitor.depart`

`getattr(self, 'visit_' + cls, getattr(self, ('visit_' + cls).lower(), self.unknown_visit))`.
A visitor is the list of method names it defines; class names are strings. -/
namespace Visitor

inductive Handler
  | exact (name : String)      -- `visit_<Class>` / `depart_<Class>` as written
  | lower (name : String)      -- the lower-cased method name
  | unknown                    -- `unknown_visit` / `unknown_departure`
  deriving DecidableEq, Repr

def lowerAscii (s : String) : String := String.ofList (s.toList.map Char.toLower)

/-- which method handles `cls`, for prefix `"visit_"` or `"depart_"` -/
def dispatch (defined : List String) (pre cls : String) : Handler :=
  let m := pre ++ cls
  if m ∈ defined then .exact m
  else if lowerAscii m ∈ defined then .lower (lowerAscii m)
  else .unknown

/-- the family a handler belongs to, forgetting the prefix: what "the same handler on the way in and
on the way out" means -/
inductive Family | exact | lower | unknown
  deriving DecidableEq, Repr

def Handler.family : Handler → Family
  | .exact _ => .exact
  | .lower _ => .lower
  | .unknown => .unknown

/-- handlers come in pairs: `visit_X` is defined exactly when `depart_X` is, for the two spellings
that can be looked up for `cls` -/
def Paired (defined : List String) (cls : String) : Prop :=
  (("visit_" ++ cls) ∈ defined ↔ ("depart_" ++ cls) ∈ defined) ∧
  (lowerAscii ("visit_" ++ cls) ∈ defined ↔ lowerAscii ("depart_" ++ cls) ∈ defined)

end Visitor
