/-
Model of the code that BUILDS pydoctor's alias maps (C04, C07):

* `astbuilder.ModuleVistor.visit_Import`, `visit_ImportFrom` (relative level arithmetic, package
  vs module), `_importNames`, `_importAll`, `_getCurrentModuleExports`, `_handleReExport`,
  `visit_ClassDef` (base expansion), `_handleFunctionDef` / `_handleModuleVar` / `_handleClassVar`
  as far as they create objects, `ASTBuilder.processModuleAST` (the `__all__` pre-pass = `parseAll`),
* `model.System.getProcessedModule` (with the `find_object` fall-back for moved modules),
  `processModule`, `process`, `SystemBuilder.addModuleString`,
* the second pass of base resolution (`compute_mro.init_finalbaseobjects`) and the final MRO.

on an ABSTRACT SYNTAX of a project (`Project`): modules / packages, each a list of statements
`import a.b.c [as x]`, `from M import n [as x]` (relative level), `from M import *`,
`class C(bases): body`, `def f`, `x = <const>`, `__all__ = [...]`; class bodies nest.
A statement with several aliases (`import a, b`, `from m import a, b`) is the sequence of its
single-alias statements (the code handles the aliases one after the other; `getProcessedModule`
is idempotent).

The registry is `Registry.State` (objects with `contents` and `_localNameToFullName_map`), changed
only through `Registry.addObject` / `Registry.reparent`; name resolution is `Names.expandName` /
`resolveName` / `findObject` on that state.  A module's object id is its index in the project (the
modules are created first, in project order: `addModuleString` for every unit, then
`buildModules`).

`bad` records that something outside the well-behaved runs happened: a registry exception, a
duplicate definition handled by `handleDuplicate`, a failed assertion, fuel exhaustion, a crash
of `expandName`.  Nothing is claimed about states with `bad = true` (the real run may have aborted).

Import-free apart from the sibling model layers; executable; structurally recursive (so that
`decide` can run it).
-/
import PdModel.Names
import PdModel.Mro

namespace Imports
open Registry

/-! ### abstract syntax -/

inductive Stmt : Type
  | importMod (target : Path) (asname : Option Name)                       -- import a.b.c [as x]
  | importFrom (level : Nat) (modname : Path) (name : Name) (asname : Option Name)  -- from [.]*M import n [as x]
  | importStar (level : Nat) (modname : Path)                              -- from [.]*M import *
  | classDef (name : Name) (bases : List Path) (body : List Stmt)          -- class C(b1, b2): body
  | funcDef (name : Name)                                                  -- def f(...): ...
  | assign (name : Name) (value : Nat)                                     -- x = <const>
  | allAssign (names : List Name)                                          -- __all__ = [...]
  deriving Repr, Inhabited

structure Module where
  path : Path          -- qualified name
  isPkg : Bool         -- `__init__.py` of a package
  body : List Stmt
  deriving Repr, Inhabited

/-- modules in creation order (a package before its children) -/
abbrev Project := List Module

/-- identity of a documented / runtime object: its qualified definition-site name -/
inductive Ident | mod (p : Path) | dfn (p : Path)
  deriving DecidableEq, Repr

/-! ### state -/

inductive PState | unprocessed | processing | processed
  deriving DecidableEq, Repr, Inhabited

/-- what `visit_ClassDef` leaves on the `Class`: `rawbases`, `_initialbases`, `_initialbaseobjects` -/
structure ClsInfo where
  scope : Nat                          -- `cls.parent` (where the bases are looked up again)
  raw : List Path
  expanded : List (Option Path)
  objs : List (Option Nat)
  deriving Repr, Inhabited

structure St where
  reg : State
  ps : List PState                     -- `Module.state`, by module id
  alls : List (Option (List Name))     -- `Module.all`, by module id
  cinfo : List (Nat × ClsInfo)
  bad : Bool
  pending : List Nat := []             -- the order `System.unprocessed_modules` was filled in (module ids; never shortened:
                                       -- "still in the list" is `getPs = .unprocessed`)
  deriving Repr, Inhabited

def getPs (s : St) (m : Nat) : PState := s.ps.getD m .processed
def getAll (s : St) (m : Nat) : Option (List Name) := (s.alls.getD m none)

def clsOf (st : State) (i : Nat) : Option Cls := (getObj st i).map (·.cls)
def isModuleObj (st : State) (i : Nat) : Bool :=
  match getObj st i with | some o => isModuleCls o.cls | none => false
def isPkgObj (st : State) (i : Nat) : Bool :=
  match getObj st i with | some o => o.cls == .package | none => false
def isClassObj (st : State) (i : Nat) : Bool :=
  match getObj st i with | some o => o.cls == .cls | none => false

/-- resolved `_initialbaseobjects` of a class (unresolved ones skipped) -/
def initialBases (s : St) (c : Nat) : List Nat :=
  match dget s.cinfo c with
  | some ci => ci.objs.filterMap id
  | none => []

/-- `Class.mro()` while `_mro` is not set yet (since fix 7c3f474): the C3 order over the bases resolved so far
(`mro.mro(self, lambda c: [b for b in c.baseobjects if b is not None])`), or `list(self.allbases(True))` when they
cannot be linearised (`ValueError`; a cycle: `RecursionError` — here the fuel) -/
def midMro (s : St) : List (Nat × List Nat) :=
  let fuel := s.reg.objs.length + 1
  s.cinfo.map fun e =>
    (e.1, match Mro.mroFuel (initialBases s) fuel e.1 with
      | some l => l
      | none => Mro.allbasesFuel (initialBases s) (fun _ => false) fuel e.1)

/-- `None in cls.baseobjects` while the modules are visited: a base of the class is not resolved (yet) -/
def hasUnresolvedBase (s : St) (c : Nat) : Bool :=
  match dget s.cinfo c with
  | some ci => ci.objs.any Option.isNone
  | none => false

/-- a list up to and including its first element that satisfies `q` -/
def cutAfter (q : Nat → Bool) : List Nat → List Nat
  | [] => []
  | b :: rest => if q b then [b] else b :: cutAfter q rest

/-- what `expandName`'s walk over `obj.mro()` sees while `_mro` is not set (since fix d15323d): after a class that has an
unresolved base the walk stops (`if base._mro is None and None in base.baseobjects: break`, after the class's own names) -/
def midWalk (s : St) : List (Nat × List Nat) :=
  (midMro s).map fun e => (e.1, cutAfter (hasUnresolvedBase s) e.2)

/-- the registry as the name-resolution functions see it during the AST pass -/
def envOf (s : St) : Names.Env := ⟨s.reg, midWalk s⟩

/-- the same for `Class.find` (`_maybeAttribute`), which walks the whole provisional `mro()` -/
def envFind (s : St) : Names.Env := ⟨s.reg, midMro s⟩

def setAlias (s : St) (ctx : Nat) (k : Name) (v : Path) : St :=
  { s with reg := modifyObj s.reg ctx (fun o => { o with aliases := dset o.aliases k v }) }

/-- object construction + `System.addObject`; the new object's id is `s.reg.objs.length` -/
def addObj (s : St) (c : Cls) (name : Name) (parent : Nat) : St :=
  match addObject s.reg c name (some parent) with
  | .error _ => { s with bad := true }
  | .ok r =>
    let dup := match path s.reg parent with
      | some pp => dhas s.reg.all (pp ++ [name])
      | none => true
    { s with reg := r, bad := s.bad || dup }

/-! ### `System.getProcessedModule` -/

/-- `allobjects.get(modname)`, else `find_object(modname)` (LookupError → None), kept only if it
is a `Module`; the Bool is "an exception other than LookupError escaped" -/
def lookupModule (s : St) (modname : Path) : Option Nat × Bool :=
  let e := envOf s
  let r : Option Nat × Bool :=
    match Names.objFor e modname with
    | some i => (some i, false)
    | none =>
      match Names.findObject e modname with
      | .obj i => (some i, false)
      | .external => (none, false)
      | .lookupError => (none, false)
      | .indexError => (none, true)
      | .crash => (none, true)
  match r.1 with
  | some i => if isModuleObj s.reg i then (some i, r.2) else (none, r.2)
  | none => (none, r.2)

/-- an exception (or a failed assertion) was observed: nothing is claimed from here on -/
def markBad (s : St) (b : Bool) : St := if b then { s with bad := true } else s

/-- `processModule` for every module of the list that is still unprocessed when its turn comes -/
def pmMany (pm : St → Nat → St) (l : List Nat) (s : St) : St :=
  l.foldl (fun st m => if getPs st m = .unprocessed then pm st m else st) s

/-- `parent = mod.parent; while isinstance(parent, Module): above.append(parent); parent = parent.parent` -/
def modulesAbove (st : State) : Nat → Nat → List Nat
  | 0, _ => []
  | f+1, i =>
    match (getObj st i).bind (·.parent) with
    | some par => if isModuleObj st par then par :: modulesAbove st f par else []
    | none => []

/-- since fix 0ba6723: the unprocessed packages above a module are processed before it, outermost first -/
def processAbove (pm : St → Nat → St) (s : St) (t : Nat) : St :=
  pmMany pm (modulesAbove s.reg (s.reg.objs.length + 1) t).reverse s

/-- `if mod.state is UNPROCESSED: for pack in reversed(above): if pack.state is UNPROCESSED: processModule(pack)` -/
def gpmAbove (pm : St → Nat → St) (s : St) (t : Nat) : St :=
  if getPs s t = .unprocessed then processAbove pm s t else s

/-- `if mod.state is UNPROCESSED: processModule(mod)` ; `assert mod.state in (PROCESSING, PROCESSED)` -/
def gpmOne (pm : St → Nat → St) (s : St) (t : Nat) : St :=
  let s1 := if getPs s t = .unprocessed then pm s t else s
  markBad s1 (getPs s1 t == .unprocessed)

/-- `getProcessedModule(modname)`; `pm` is `processModule` (one level of nesting down) -/
def getProcessedModule (pm : St → Nat → St) (s : St) (modname : Path) : St × Option Nat :=
  match lookupModule s modname with
  | (none, crash) => (markBad s crash, none)
  | (some t, crash) => (gpmOne pm (gpmAbove pm (markBad s crash) t) t, some t)

/-! ### `visit_ImportFrom`: the module a (possibly relative) import names -/

/-- `modname` after the level arithmetic; `none` = "relative import level too high" (reported,
the statement is skipped).  `mod` is `ctx.parentMod`. -/
def absName (s : St) (mod : Nat) (level : Nat) (modname : Path) : Option Path :=
  if level = 0 then some modname else
  match path s.reg mod with
  | none => none
  | some mp =>
    match Names.relativeBase mp (isPkgObj s.reg mod) level with
    | none => none
    | some b => some (b ++ modname)

/-- `_getCurrentModuleExports()` -/
def currentExports (s : St) (ctx : Nat) : List Name :=
  if isModuleObj s.reg ctx then (getAll s ctx).getD [] else []

/-- `origin_module.contents.get(origin_name) or origin_module.resolveName(origin_name)` -/
def reexportCandidate (s : St) (origin : Name) (t : Nat) : Option Nat :=
  match getObj s.reg t with
  | some tobj =>
    match dget tobj.contents origin with
    | some c => some c
    | none => Names.resolveName (envOf s) t [origin]
  | none => none

/-- a module is only moved into a package, never while it is being processed, never a root, and
never into itself or one of its own sub-packages
(`f'{current.fullName()}.'.startswith(f'{ob.fullName()}.')`) -/
def moveBlocked (s : St) (ctx ob : Nat) : Bool :=
  isModuleObj s.reg ob &&
    (!isPkgObj s.reg ctx || getPs s ob == .processing || ((getObj s.reg ob).bind (·.parent)).isNone ||
      (match path s.reg ob, path s.reg ctx with
        | some po, some pc => po.isPrefixOf pc
        | _, _ => false))

/-- `origin_module.all is not None and origin_name in origin_module.all` -/
def listedIn (s : St) (t : Nat) (origin : Name) : Bool :=
  match getAll s t with
  | none => false
  | some l => l.contains origin

/-- `ob.reparent(current, as_name)`; a destination name that is still taken once the moved subtree
has been unregistered makes `reparent` call `handleDuplicate` (flagged) -/
def doMove (s : St) (ctx ob : Nat) (asName : Name) : St × Bool :=
  let dup := match path s.reg ctx with
    | some pp => (match dget s.reg.all (pp ++ [asName]) with
      | some k => !isBelow s.reg ob k
      | none => false)
    | none => true
  match reparent s.reg ob ctx asName with
  | .ok r => ({ s with reg := r, bad := s.bad || dup }, true)
  | .error _ => ({ s with bad := true }, false)

/-- since fix 66cb133: `not isinstance(ob, Module) and not isinstance(ob.parent, Module)` — the name is an alias of a
member of a class (`meth = C.meth`): the member stays in its class, the import is recorded as an ordinary alias -/
def notModuleLevel (s : St) (ob : Nat) : Bool :=
  !isModuleObj s.reg ob &&
    !(match (getObj s.reg ob).bind (·.parent) with
      | some par => isModuleObj s.reg par
      | none => false)

/-- since fix ec6815d: a MODULE is processed before it is moved (`getProcessedModule(ob.fullName())`); since fix 2ad6fa5
so is every still-unprocessed module BELOW it: `for sub in [m for m in unprocessed_modules if (m.fullName() + '.').startswith(
ob.fullName() + '.')]: if sub.state is UNPROCESSED: processModule(sub)` — the list is taken once, in the order of
`unprocessed_modules` -/
def processBeforeMove (pm : St → Nat → St) (s : St) (ob : Nat) : St :=
  if isModuleObj s.reg ob then
    match path s.reg ob with
    | some p =>
      let s1 := (getProcessedModule pm s p).1
      let subs := s1.pending.filter fun m =>
        getPs s1 m == .unprocessed &&
          (match path s1.reg ob, path s1.reg m with
            | some po, some pm' => po.isPrefixOf pm'
            | _, _ => false)
      pmMany pm subs s1
    | none => { s with bad := true }
  else s

/-- `_handleReExport(exports, origin_name, as_name, origin_module)`; the Bool is its result -/
def handleReExport (pm : St → Nat → St) (s : St) (ctx : Nat) (exports : List Name) (origin asName : Name) (t : Nat) :
    St × Bool :=
  if !exports.contains asName then (s, false) else
  match reexportCandidate s origin t with
  | none => (s, false)                                   -- "cannot resolve re-exported name"
  | some ob =>
    if moveBlocked s ctx ob then (s, false)
    else if notModuleLevel s ob then (s, false)
    else if listedIn s t origin then (s, false)
    else doMove (processBeforeMove pm s ob) ctx ob asName

/-- HISTORICAL: `_handleReExport` before the fixes ec6815d (a module taken by a star import was moved unprocessed) and
66cb133 (an alias of a class member moved the member) -/
def handleReExportOld (s : St) (ctx : Nat) (exports : List Name) (origin asName : Name) (t : Nat) :
    St × Bool :=
  if !exports.contains asName then (s, false) else
  match reexportCandidate s origin t with
  | none => (s, false)
  | some ob =>
    if moveBlocked s ctx ob then (s, false)
    else if listedIn s t origin then (s, false)
    else doMove s ctx ob asName

/-- names a star import takes from `t`: `mod.all`, else the public keys of `contents` and of the
alias map, in that order -/
def starNames (s : St) (t : Nat) : List Name :=
  match getAll s t with
  | some l => l
  | none =>
    match getObj s.reg t with
    | some o => ((o.contents.map (·.1)) ++ (o.aliases.map (·.1))).filter (fun n => n.head? != some '_')
    | none => []

/-- one round of the `for name in names` loop of `_importAll` -/
def starOne (pm : St → Nat → St) (ctx t : Nat) (exports : List Name) (s : St) (x : Name) : St :=
  let h := handleReExport pm s ctx exports x x t
  if h.2 then h.1 else
  match Names.expandName (envOf h.1) t [x] with
  | none => { h.1 with bad := true }
  | some p => setAlias h.1 ctx x p

/-- `_maybeAttribute(cls, name)` -/
def maybeAttribute (s : St) (cls : Nat) (name : Name) : Bool :=
  match Names.classFind (envFind s) cls name with
  | none => true
  | some o => clsOf s.reg o == some .attribute

/-! ### the visitor -/

/-- `visit_Import` (one alias) -/
def visitImport (ctx : Nat) (target : Path) (asname : Option Name) (s : St) : St :=
  match asname with
  | some a => setAlias s ctx a target
  | none =>
    match target with
    | [] => s
    | h :: _ => setAlias s ctx h [h]

/-- the non-empty prefixes of a dotted name, shortest first -/
def prefixesOf : Path → List Path
  | [] => []
  | h :: t => [h] :: (prefixesOf t).map (h :: ·)

/-- since fix 824faae: `import a.b.c [as x]` first calls `getProcessedModule` for `a`, `a.b`, `a.b.c` -/
def importProcess (pm : St → Nat → St) (target : Path) (s : St) : St :=
  (prefixesOf target).foldl (fun st p => (getProcessedModule pm st p).1) s

/-- `visit_ImportFrom` / `_importNames` (one alias) -/
def visitImportFrom (pm : St → Nat → St) (mod ctx : Nat) (level : Nat) (modname : Path) (name : Name)
    (asname : Option Name) (s : St) : St :=
  match absName s mod level modname with
  | none => s
  | some T =>
    let r := getProcessedModule pm s T
    let asn := asname.getD name
    match r.2 with
    | none => setAlias r.1 ctx asn (T ++ [name])
    | some t =>
      -- "If we're importing from a package, make sure imported modules are processed"
      let s2 := if isPkgObj r.1.reg t then (getProcessedModule pm r.1 (T ++ [name])).1 else r.1
      let h := handleReExport pm s2 ctx (currentExports r.1 ctx) name asn t
      if h.2 then h.1 else setAlias h.1 ctx asn (T ++ [name])

/-- `visit_ImportFrom` / `_importAll` -/
def visitImportStar (pm : St → Nat → St) (mod ctx : Nat) (level : Nat) (modname : Path) (s : St) : St :=
  match absName s mod level modname with
  | none => s
  | some T =>
    let r := getProcessedModule pm s T
    match r.2 with
    | none => r.1
    | some t => (starNames r.1 t).foldl (starOne pm ctx t (currentExports r.1 ctx)) r.1

/-- `_handleModuleVar` / `_handleClassVar` for `name = <const>` -/
def visitAssign (ctx : Nat) (name : Name) (s : St) : St :=
  match getObj s.reg ctx with
  | none => { s with bad := true }
  | some o =>
    if isModuleCls o.cls then
      if dhas o.contents name then s else addObj s .attribute name ctx
    else
      -- `if not _maybeAttribute(cls, name) and not (name not in cls.contents and <expr is a literal>): return`
      if !maybeAttribute s ctx name && dhas o.contents name then s
      else if dhas o.contents name then s else addObj s .attribute name ctx

/-- `visit_ClassDef` up to `pushClass`: the bases are expanded in the enclosing scope, the class
object is created and entered; its id is `s.reg.objs.length` -/
def enterClass (ctx : Nat) (name : Name) (bases : List Path) (s : St) : St :=
  let e := envOf s
  let expanded := bases.map (fun b => Names.expandName e ctx b)
  let objs := expanded.map (fun x => match x with
    | some p => (match Names.objFor e p with
      | some o => if isClassObj s.reg o then some o else none
      | none => none)
    | none => none)
  let s1 := addObj s .cls name ctx
  markBad { s1 with cinfo := s1.cinfo ++ [(s.reg.objs.length, ⟨ctx, bases, expanded, objs⟩)] }
    (expanded.any Option.isNone)

mutual
/-- one statement, visited with `builder.current = ctx` inside module `mod` -/
def visitStmt (pm : St → Nat → St) (mod : Nat) : Nat → Stmt → St → St
  | ctx, .importMod target asname, s => visitImport ctx target asname (importProcess pm target s)
  | ctx, .importFrom level modname name asname, s => visitImportFrom pm mod ctx level modname name asname s
  | ctx, .importStar level modname, s => visitImportStar pm mod ctx level modname s
  -- visit_ClassDef … depart_ClassDef
  | ctx, .classDef name bases body, s => visitStmts pm mod s.reg.objs.length body (enterClass ctx name bases s)
  -- _handleFunctionDef (pushFunction … popFunction)
  | ctx, .funcDef name, s => addObj s .function name ctx
  | ctx, .assign name _, s => visitAssign ctx name s
  -- `__all__` is metadata: read by the pre-pass of processModuleAST, no object
  | _, .allAssign _, s => s
def visitStmts (pm : St → Nat → St) (mod : Nat) : Nat → List Stmt → St → St
  | _, [], s => s
  | ctx, st :: rest, s => visitStmts pm mod ctx rest (visitStmt pm mod ctx st s)
end

/-- `parseAll` over the module-level assignments: the last `__all__ = [...]` wins -/
def lastAll : List Stmt → Option (List Name)
  | [] => none
  | .allAssign l :: rest => (match lastAll rest with | some l' => some l' | none => some l)
  | _ :: rest => lastAll rest

/-- `System.processModule(mod)`; fuel bounds the nesting depth of on-demand processing -/
def processModule (proj : Project) : Nat → St → Nat → St
  | 0, s, _ => { s with bad := true }
  | f+1, s, m =>
    if getPs s m ≠ .unprocessed then { s with bad := true }     -- `assert mod.state is UNPROCESSED`
    else
      let s1 := { s with ps := s.ps.set m .processing }
      match proj[m]? with
      | none => { s1 with bad := true }
      | some md =>
        let s2 := { s1 with alls := s1.alls.set m (lastAll md.body) }
        let s3 := visitStmts (processModule proj f) m m md.body s2
        { s3 with ps := s3.ps.set m .processed }

/-! ### building the system -/

/-- `SystemBuilder.addModuleString(text, modname, parent_name, is_package)` for every unit -/
def addModules : List Module → St → St
  | [], s => s
  | md :: rest, s =>
    match md.path.getLast? with
    | none => addModules rest { s with bad := true }
    | some nm =>
      let c : Cls := if md.isPkg then .package else .module
      let parent : Option (Option Nat) :=
        if md.path.length ≤ 1 then some none
        else match dget s.reg.all md.path.dropLast with
          | some p => if isPkgObj s.reg p then some (some p) else none    -- `assert isinstance(parent, Package)`
          | none => none                                                   -- KeyError
      match parent with
      | none => addModules rest { s with bad := true }
      | some par =>
        let dup := dhas s.reg.all md.path                                  -- _handleDuplicateModule: not modelled
        match addObject s.reg c nm par with
        | .error _ => addModules rest { s with bad := true }
        | .ok r => addModules rest { s with reg := r, bad := s.bad || dup }

def initSt (proj : Project) : St :=
  addModules proj ⟨Registry.init, List.replicate proj.length .unprocessed, List.replicate proj.length none, [], false, []⟩

/-- `System.process()`: `while unprocessed_modules: processModule(next(iter(unprocessed_modules)))`
with `unprocessed_modules` initially in `order` — the first still-unprocessed module each time -/
def process (proj : Project) (order : List Nat) (s : St) : St :=
  order.foldl (fun s m => if getPs s m = .unprocessed then processModule proj (proj.length + 1) s m else s) s

def run (proj : Project) (order : List Nat) : St := process proj order { initSt proj with pending := order }

/-! ### post-processing: final bases and MRO -/

/-- `init_finalbaseobjects`: a base that was `None` is looked up again, first under the name it
expanded to where the class is defined — with `system.find_object` since 63417ae, which follows the
alias a re-export move left; `LookupError` (`IndexError` included) gives `None` — then by resolving
the written name in `cls.parent` -/
def finalBasesIn (e : Names.Env) (s : St) (c : Nat) : List Nat :=
  match dget s.cinfo c with
  | none => []
  | some ci =>
    let cls? (o : Option Nat) : Option Nat := match o with
      | some i => if isClassObj s.reg i then some i else none
      | none => none
    ((ci.raw.zip ci.expanded).zip ci.objs).filterMap fun x =>
      match x.2 with
      | some b => some b
      | none =>
        match cls? (match x.1.2 with
            | some p => (match Names.findObject e p with | .obj j => some j | _ => none)
            | none => none) with
        | some b => some b
        | none => cls? (Names.resolveName e ci.scope x.1.1)

/-- first round of post-processing: the linearisations over the bases as they can be resolved with the visit-time walk -/
def finalMro1 (s : St) : List (Nat × List Nat) :=
  let fuel := s.reg.objs.length + 1
  let e0 := envOf s
  s.cinfo.map fun e =>
    (e.1, match Mro.mroFuel (finalBasesIn e0 s) fuel e.1 with
      | some l => l
      | none => Mro.allbasesFuel (finalBasesIn e0 s) (fun _ => false) fuel e.1)

/-- the final bases.  `defaultPostProcess` runs `_init_mro` class by class in registration order: a base name that goes
THROUGH another class (`class E(D.X)`) is looked up when `D` — registered before `E` — has its final linearisation already,
while a class that comes later is still walked provisionally (since d15323d: up to its first unresolved base).  Modelled in
two rounds: the names that were unresolved at visit time are looked up with the linearisations of the first round. -/
def finalBases (s : St) (c : Nat) : List Nat := finalBasesIn ⟨s.reg, finalMro1 s⟩ s c

/-- `Class._init_mro`: C3 over the resolved bases, or `allbases(True)` when it fails -/
def finalMro (s : St) : List (Nat × List Nat) :=
  let fuel := s.reg.objs.length + 1
  let e1 : Names.Env := ⟨s.reg, finalMro1 s⟩          -- computed once (= `finalBases s`)
  s.cinfo.map fun e =>
    (e.1, match Mro.mroFuel (finalBasesIn e1 s) fuel e.1 with
      | some l => l
      | none => Mro.allbasesFuel (finalBasesIn e1 s) (fun _ => false) fuel e.1)

def finalEnv (s : St) : Names.Env := ⟨s.reg, finalMro s⟩

/-! ### queries on the finished system -/

/-- the object of the class `cp` (a chain of class names) inside object `i`, through `contents` -/
def walk (st : State) : Nat → List Name → Option Nat
  | i, [] => some i
  | i, c :: cs =>
    match getObj st i with
    | none => none
    | some o =>
      match dget o.contents c with
      | none => none
      | some j => walk st j cs

def identOf (st : State) (i : Nat) : Option Ident :=
  match getObj st i, path st i with
  | some o, some p => some (if isModuleCls o.cls then .mod p else .dfn p)
  | _, _ => none

/-- `scope.resolveName(name)` on a finished state, as an identity -/
def resolveIn (s : St) (m : Nat) (cp : List Name) (name : Path) : Option Ident :=
  match walk s.reg m cp with
  | none => none
  | some i =>
    match Names.resolveName (finalEnv s) i name with
    | none => none
    | some j => identOf s.reg j

/-- **what pydoctor resolves**: build the system from the project (modules processed in `order`),
then `scope.resolveName(name)` for the scope = module `m`, class chain `cp` -/
def pdResolve (proj : Project) (order : List Nat) (m : Nat) (cp : List Name) (name : Path) : Option Ident :=
  resolveIn (run proj order) m cp name


/-! ## static structure of a project; the decidable well-formedness predicate `WF` -/

def modIdx (proj : Project) (p : Path) : Option Nat := proj.findIdx? (fun md => md.path == p)
def isPkg (proj : Project) (t : Nat) : Bool := match proj[t]? with | some md => md.isPkg | none => false
def pathOf (proj : Project) (t : Nat) : Path := match proj[t]? with | some md => md.path | none => []

/-- the absolute name a relative `from` import refers to under CPython
(`importlib._bootstrap._resolve_name`) -/
def pyAbsName (proj : Project) (m : Nat) (level : Nat) (modname : Path) : Option Path :=
  if level = 0 then some modname else
  match Names.pythonRelativeBase (pathOf proj m) (isPkg proj m) level with
  | none => none
  | some b => some (b ++ modname)

/-! ## sites -/

/-- a scope or definition of the project: module index + chain of names inside the module -/
abbrev Site := Nat × List Name

def Stmt.defName : Stmt → Option Name
  | .classDef n _ _ => some n
  | .funcDef n => some n
  | .assign n _ => some n
  | _ => none

/-- the body of the first `class x` statement of a body -/
def findClass : List Stmt → Name → Option (List Stmt)
  | [], _ => none
  | .classDef n _ body :: rest, x => if n = x then some body else findClass rest x
  | _ :: rest, x => findClass rest x

/-- the body reached from `b` through the chain of class names -/
def bodyAt : List Stmt → List Name → Option (List Stmt)
  | b, [] => some b
  | b, c :: cs => match findClass b c with | some b' => bodyAt b' cs | none => none

def bodyOf (proj : Project) (m : Nat) : List Stmt := match proj[m]? with | some md => md.body | none => []

def siteBody (proj : Project) (S : Site) : Option (List Stmt) :=
  match proj[S.1]? with | some md => bodyAt md.body S.2 | none => none

def sitePath (proj : Project) (S : Site) : Path := pathOf proj S.1 ++ S.2

/-- static values: a module, or the object defined at a site -/
inductive SVal | mod (m : Nat) | dfn (m : Nat) (cp : List Name)
  deriving DecidableEq, Repr

def scopeOf : SVal → Site
  | .mod m => (m, [])
  | .dfn m cp => (m, cp)

def svalOf (S : Site) : SVal := if S.2 = [] then .mod S.1 else .dfn S.1 S.2

def identSV (proj : Project) : SVal → Ident
  | .mod m => .mod (pathOf proj m)
  | .dfn m cp => .dfn (pathOf proj m ++ cp)

/-- the site is a module of the project or a definition (class / def / assignment) in it -/
def StaticSite (proj : Project) (S : Site) : Prop :=
  S.1 < proj.length ∧
  (S.2 = [] ∨ ∃ cp n b st, S.2 = cp ++ [n] ∧ siteBody proj (S.1, cp) = some b ∧ st ∈ b ∧ st.defName = some n)

/-! ## names a statement can bind -/

def isPublic (n : Name) : Bool := n.head? != some '_'

def explicitNames : Stmt → List Name
  | .importMod (h :: _) none => [h]
  | .importMod [] none => []
  | .importMod _ (some x) => [x]
  | .importFrom _ _ n a => [a.getD n]
  | .importStar _ _ => []
  | .classDef n _ _ => [n]
  | .funcDef n => [n]
  | .assign n _ => [n]
  | .allAssign _ => []

/-- the names of every module-level `__all__ = [...]` of a body -/
def allNames : List Stmt → List Name
  | [] => []
  | .allAssign l :: rest => l ++ allNames rest
  | _ :: rest => allNames rest

def childNames (proj : Project) (m : Nat) : List Name :=
  proj.filterMap fun md =>
    if md.path.dropLast = pathOf proj m then md.path.getLast? else none

/-- the module a `from` / star import names, by CPython's rule -/
def target (proj : Project) (m : Nat) (level : Nat) (modname : Path) : Option Nat :=
  match pyAbsName proj m level modname with
  | some T => modIdx proj T
  | none => none

/-- what a star import may take from `t`, given the names `g t` bound in `t`: its public names and
whatever its `__all__` lists (over-approximation: both, whichever rule applies at run time) -/
def exported (proj : Project) (g : Nat → List Name) (t : Nat) : List Name :=
  let pub := (g t).filter isPublic
  pub ++ ((allNames (bodyOf proj t)).filter (fun x => !pub.contains x)).eraseDups

def stmtNames (proj : Project) (exp : Nat → List Name) (m : Nat) : Stmt → List Name
  | .importStar lvl M => (match target proj m lvl M with | some t => exp t | none => [])
  | st => explicitNames st

/-- every name module `m` may bind at run time (its submodules, its statements, star imports
expanded `f` levels deep) -/
def modNames (proj : Project) : Nat → Nat → List Name
  | 0, _ => []
  | f+1, m => childNames proj m ++ (bodyOf proj m).flatMap (stmtNames proj (exported proj (modNames proj f)) m)

/-! ## a property of every statement of every scope -/

mutual
def allStmt (P : List Name → Stmt → Bool) : List Name → Stmt → Bool
  | cp, .classDef n bs body => P cp (.classDef n bs body) && allStmts P (cp ++ [n]) body
  | cp, st => P cp st
def allStmts (P : List Name → Stmt → Bool) : List Name → List Stmt → Bool
  | _, [] => true
  | cp, st :: rest => allStmt P cp st && allStmts P cp rest
end

def allProj (proj : Project) (P : Nat → List Name → Stmt → Bool) : Bool :=
  (List.range proj.length).all fun m => allStmts (P m) [] (bodyOf proj m)

/-! ## well-formedness -/

def nodupB {α : Type} [DecidableEq α] : List α → Bool
  | [] => true
  | x :: xs => !xs.contains x && nodupB xs

/-- module table: paths non-empty and distinct, the parent of a nested module is an earlier package -/
def modulesOk (proj : Project) : Bool :=
  nodupB (proj.map (·.path)) &&
  (List.range proj.length).all fun m =>
    let p := pathOf proj m
    p != [] && (p.length ≤ 1 || match modIdx proj p.dropLast with
      | some q => decide (q < m) && isPkg proj q
      | none => false)

mutual
def defSitesStmt (m : Nat) : List Name → Stmt → List Site
  | cp, .classDef n _ body => (m, cp ++ [n]) :: defSites m (cp ++ [n]) body
  | cp, .funcDef n => [(m, cp ++ [n])]
  | cp, .assign n _ => [(m, cp ++ [n])]
  | _, _ => []
def defSites (m : Nat) : List Name → List Stmt → List Site
  | _, [] => []
  | cp, st :: rest => defSitesStmt m cp st ++ defSites m cp rest
end

/-- modules and definitions -/
def entities (proj : Project) : List Site :=
  (List.range proj.length).flatMap fun m => (m, []) :: defSites m [] (bodyOf proj m)

/-- no two documented things share a qualified name -/
def pathsUnique (proj : Project) : Bool := nodupB ((entities proj).map (sitePath proj))

def rankOf (rank : List Nat) (m : Nat) : Nat := rank.getD m 0

def stmtTargets (proj : Project) (m : Nat) : Stmt → List (Option Nat)
  | .importMod t _ => [modIdx proj t]
  | .importFrom lvl M _ _ => [target proj m lvl M]
  | .importStar lvl M => [target proj m lvl M]
  | _ => []

/-- every import names a module of the project, of smaller rank (acyclic) -/
def importsOk (proj : Project) (rank : List Nat) : Bool :=
  allProj proj fun m _ st => (stmtTargets proj m st).all fun t =>
    match t with | some t => decide (rankOf rank t < rankOf rank m) | none => false

def noBases (proj : Project) : Bool :=
  allProj proj fun _ _ st => match st with | .classDef _ bs _ => bs.isEmpty | _ => true

def noStarInClass (proj : Project) : Bool :=
  allProj proj fun _ cp st => match st with | .importStar _ _ => cp.isEmpty | _ => true

/-- a module that has an `__all__` lists only what it defines itself: no star import, and no name
bound by a `from` import is listed (`_handleReExport` never moves anything) -/
def noReexport (proj : Project) : Bool :=
  allProj proj fun m cp st =>
    !cp.isEmpty || (match st with
      | .importStar _ _ => (allNames (bodyOf proj m)).isEmpty
      | .importFrom _ _ n a => !(allNames (bodyOf proj m)).contains (a.getD n)
      | _ => true)

def isRootName (proj : Project) (x : Name) : Bool := (modIdx proj [x]).isSome

/-- the name of a root module is bound to nothing but that module -/
def rootsReserved (proj : Project) : Bool :=
  (allProj proj fun _ _ st =>
    (explicitNames st).all fun x => !isRootName proj x || (match st with
      | .importMod (h :: _) none => h == x
      | .importMod [h] (some a) => h == x && a == x
      | _ => false)) &&
  (List.range proj.length).all fun m => (childNames proj m).all fun x => !isRootName proj x

mutual
def classNodupStmt : Stmt → Bool
  | .classDef _ _ body => nodupB (body.flatMap explicitNames) && classNodupStmts body
  | _ => true
def classNodupStmts : List Stmt → Bool
  | [] => true
  | st :: rest => classNodupStmt st && classNodupStmts rest
end

/-- each name is bound once per scope -/
def boundOnce (proj : Project) (rank : List Nat) : Bool :=
  (List.range proj.length).all fun m =>
    nodupB (modNames proj (rankOf rank m + 1) m) && classNodupStmts (bodyOf proj m)

/-- globally unique names: no two modules / definitions end in the same name -/
def namesUnique (proj : Project) : Bool := nodupB ((entities proj).map (fun S => (sitePath proj S).getLast?))

/-- base-class expressions are names -/
def basesNonempty (proj : Project) : Bool :=
  allProj proj fun _ _ st => match st with | .classDef _ bs _ => bs.all (fun b => !b.isEmpty) | _ => true

/-- no definition is named like a superseded duplicate (`name 0`): names contain no space -/
def namesOk (proj : Project) : Bool :=
  allProj proj fun _ _ st => match st.defName with
    | some n => !isSupersededName n
    | none => true

/-- what an import statement (of module `m`) binds its name to, as far as the statement says -/
inductive ImpKey
  | top (h : Name)                      -- `import h.…`: the root module `h`
  | path (t : Path)                     -- `import t as x`: the module `t`
  | frm (t : Option Nat) (n : Name)     -- `from <module t> import n …`
  | other
  deriving DecidableEq, Repr

def impKey (proj : Project) (m : Nat) : Stmt → ImpKey
  | .importMod (h :: _) none => .top h
  | .importMod t (some _) => .path t
  | .importFrom lvl M n _ => .frm (target proj m lvl M) n
  | _ => .other

mutual
/-- the names bound by import statements inside class bodies, with the class they are bound in and
what the statement binds them to -/
def classImportsStmt (proj : Project) (m : Nat) : List Name → Stmt → List (Site × Name × ImpKey)
  | cp, .classDef n _ body => classImports proj m (cp ++ [n]) body
  | cp, st => if cp.isEmpty then [] else
      match st.defName with
      | some _ => []
      | none => (explicitNames st).map fun x => ((m, cp), x, impKey proj m st)
def classImports (proj : Project) (m : Nat) : List Name → List Stmt → List (Site × Name × ImpKey)
  | _, [] => []
  | cp, st :: rest => classImportsStmt proj m cp st ++ classImports proj m cp rest
end

def classImportList (proj : Project) : List (Site × Name × ImpKey) :=
  (List.range proj.length).flatMap fun m => classImports proj m [] (bodyOf proj m)

/-- the sub-class of `WF` for which soundness is proved for INHERITED members too: a name bound by an
import inside a class body is not the name of a definition made inside a class body, and the imports
that bind it inside OTHER class bodies bind it to the same thing (same root module / same module / same
name of the same module).  With globally unique definition names this makes the binding of every class
attribute name unique in the project, so the ORDER of the MRO does not matter. -/
def classImportsUnique (proj : Project) : Bool :=
  let L := classImportList proj
  let E := ((entities proj).filter (fun S => decide (2 ≤ S.2.length))).map (fun S => (sitePath proj S).getLast?)
  L.all fun a => !E.contains (some a.2.1) && L.all fun b => a.2.1 != b.2.1 || a.1 == b.1 || a.2.2 == b.2.2

/-- **WF**: the property's quantifier — an acyclic multi-package project (`rank` is a topological
index), names of definitions globally unique, each name bound once per scope — plus the
restrictions under which the theorems are proved: imports stay inside the project, no `__all__`
re-exports, root names reserved for the root modules.  (Base classes are allowed.) -/
def WF (proj : Project) (rank : List Nat) : Bool :=
  modulesOk proj && pathsUnique proj && importsOk proj rank && boundOnce proj rank &&
  namesUnique proj && basesNonempty proj && noStarInClass proj && noReexport proj && rootsReserved proj &&
  namesOk proj


/-! ## re-exports: the shape for which soundness with MOVED objects is stated (PdProps/C04.lean, item 3)

C07's property speaks of this shape: every object has at most one re-exporter, the re-exporter imports it
directly from the module that defines it, the re-exported objects are top-level classes / functions of
plain modules, and class bodies do not import. -/

/-- the module-level re-exports the project asks for: `(definer module, name, re-exporting module, new name)`:
a `from … import n [as a]` statement of a module whose `__all__` lists the bound name -/
def reexportReqs (proj : Project) : List (Nat × Name × Nat × Name) :=
  (List.range proj.length).flatMap fun x =>
    match lastAll (bodyOf proj x) with
    | none => []
    | some exports =>
      (bodyOf proj x).filterMap fun st =>
        match st with
        | .importFrom lvl M n a =>
          if exports.contains (a.getD n) then
            match target proj x lvl M with
            | some d => some (d, n, x, a.getD n)
            | none => none
          else none
        | _ => none

def isAllStmt : Stmt → Bool | .allAssign _ => true | _ => false
def isStarStmt : Stmt → Bool | .importStar _ _ => true | _ => false
def isImportStmt : Stmt → Bool
  | .importMod _ _ => true | .importFrom _ _ _ _ => true | .importStar _ _ => true | _ => false

/-- `n` is a top-level class or function of module `d` -/
def definesTop (proj : Project) (d : Nat) (n : Name) : Bool :=
  (bodyOf proj d).any fun st => match st with
    | .classDef n' _ _ => n' == n
    | .funcDef n' => n' == n
    | _ => false

def reexportShape (proj : Project) : Bool :=
  -- one `__all__` per module, and a module that has one does not star-import
  ((List.range proj.length).all fun m =>
    let b := bodyOf proj m
    (b.filter isAllStmt).length ≤ 1 && ((b.filter isAllStmt).isEmpty || !(b.any isStarStmt))) &&
  -- the re-exporter imports the object directly from the plain module that defines it (a class / function),
  -- and that module does not itself list it in an `__all__`; the new name is not of the form `name i` (a superseded duplicate)
  ((reexportReqs proj).all fun r =>
    r.1 != r.2.2.1 && !isPkg proj r.1 && definesTop proj r.1 r.2.1 &&
    !((lastAll (bodyOf proj r.1)).getD []).contains r.2.1 && !isSupersededName r.2.2.2) &&
  -- at most one re-exporter per object
  nodupB ((reexportReqs proj).map fun r => (r.1, r.2.1)) &&
  -- class bodies do not import
  (allProj proj fun _ cp st => cp.isEmpty || !isImportStmt st)

/-- `n` is defined (class / def / assignment) at the top level of module `t` -/
def definesAny (proj : Project) (t : Nat) (n : Name) : Bool :=
  (bodyOf proj t).any fun st => st.defName == some n

/-- `from <package> import n`: pydoctor also calls `getProcessedModule('<package>.n')`.  When `n` is a submodule,
that is an import edge (the submodule's rank is below the importer's).  When it is not, the lookup must not find
a module through the package's alias map: the package does not star-import, and if the package binds `n` by an
import it is `from t' import n' [as n]` of a top-level definition `n'` of `t'`.  (Before fix 996ac8b `n` also had
to be no root module's name: `find_object` fell back to the bare name.) -/
def pkgFromOk (proj : Project) (rank : List Nat) : Bool :=
  allProj proj fun m _ st =>
    match st with
    | .importFrom lvl M n _ =>
      (match target proj m lvl M with
       | some t =>
         !isPkg proj t ||
         (match modIdx proj (pathOf proj t ++ [n]) with
          | some c => decide (rankOf rank c < rankOf rank m)
          | none =>
            !(bodyOf proj t).any isStarStmt &&
            (bodyOf proj t).all fun st' =>
              !(isImportStmt st' && (explicitNames st').contains n) ||
              (match st' with
               | .importFrom l' M' n' _ =>
                 (match target proj t l' M' with
                  | some t' => definesAny proj t' n'
                  | none => false)
               | _ => false))
       | none => true)
    | _ => true

/-- no component of a module name is of the form `name i` (a superseded duplicate) -/
def modNamesOk (proj : Project) : Bool := proj.all fun md => md.path.all fun n => !isSupersededName n

/-- `WF` with the restriction `noReexport` replaced by `reexportShape`, and the implicit submodule lookups of
`from <package> import …` accounted for (`pkgFromOk`: no hidden import cycle through a package) -/
def isProperPrefix (p q : Path) : Bool := p.isPrefixOf q && decide (p.length < q.length)

/-- since /repo 0ba6723 `getProcessedModule` first processes the unprocessed packages ABOVE the module it was asked for (as
Python initialises them): every package above an import target — other than the importing module itself — has a rank below
the importer's -/
def aboveOk (proj : Project) (rank : List Nat) : Bool :=
  allProj proj fun m _ st => (stmtTargets proj m st).all fun t =>
    match t with
    | some t => (List.range proj.length).all fun P =>
        !(isProperPrefix (pathOf proj P) (pathOf proj t)) || P == m || decide (rankOf rank P < rankOf rank m)
    | none => true

def WFr (proj : Project) (rank : List Nat) : Bool :=
  modulesOk proj && pathsUnique proj && importsOk proj rank && boundOnce proj rank &&
  namesUnique proj && basesNonempty proj && noStarInClass proj && rootsReserved proj &&
  namesOk proj && reexportShape proj && pkgFromOk proj rank && modNamesOk proj && aboveOk proj rank

/-- the qualified name under which the object defined at site `S` is documented once the re-exports
`mv` says have happened have happened: below the re-exporter, if its top-level definition was moved -/
def relocSite (proj : Project) (mv : (Nat × Name × Nat × Name) → Bool) (S : Site) : Path :=
  match S.2 with
  | [] => sitePath proj S
  | n :: rest =>
    match (reexportReqs proj).find? (fun r => r.1 == S.1 && r.2.1 == n && mv r) with
    | some r => pathOf proj r.2.2.1 ++ [r.2.2.2] ++ rest
    | none => sitePath proj S

/-- where the documentation of the object defined at `p` ends up when every module has been processed:
below its re-exporter, if it has one -/
def finalLocPath (proj : Project) (p : Path) : Path :=
  match (entities proj).find? (fun S => sitePath proj S == p) with
  | some S => relocSite proj (fun _ => true) S
  | none => p

/-- identity by definition site ↦ identity by final documented location -/
def finalLoc (proj : Project) : Ident → Ident
  | .mod p => .mod p
  | .dfn p => .dfn (finalLocPath proj p)

mutual
def stmtIdents : Stmt → List Name
  | .importMod t a => t ++ a.toList
  | .importFrom _ M n a => M ++ [n] ++ a.toList
  | .importStar _ M => M
  | .classDef n bs body => n :: (bs.flatten ++ stmtsIdents body)
  | .funcDef n => [n]
  | .assign n _ => [n]
  | .allAssign l => l
def stmtsIdents : List Stmt → List Name
  | [] => []
  | st :: rest => stmtIdents st ++ stmtsIdents rest
end

/-- every identifier that occurs in the project -/
def identifiers (proj : Project) : List Name :=
  (proj.flatMap fun md => md.path ++ stmtsIdents md.body).eraseDups

/-- the dotted names of length ≤ depth + 1 over `ids` whose every proper prefix satisfies `ok`, that satisfy `ok` -/
def extendQ (ok : Path → Bool) (ids : List Name) : Nat → List Path → List Path
  | 0, cur => cur.filter ok
  | d+1, cur =>
    let good := cur.filter ok
    good ++ extendQ ok ids d (good.flatMap fun q => ids.map fun x => q ++ [x])

end Imports
