import PdModel.Docstring
import PdModel.Proto
/-! Line protocol for the Docstring model.

```
docstring run pt=<0|1> td=<n> sys=<f> <decl>* ops <op>*
docstring signal <errs>                       (epytext.parse tail: which error is raised)
docstring slug U <u:…>* C <u:…>*              (_slugify: used slugs, then the candidates slugify(text), slugify(text-1), …;
                                               answer `ok <u:slug>` or `loops` when every given candidate is used)

decl:  obj <id> <parent|-> <inherited csv|-> <module docformat f|-> <docstring u:…|N> <parsed N|plain:u:…|user:k>
       par <f> <obj> ret <plain|user:k> <errs>      parser outcome: returns that, errs appended
       par <f> <obj> raise <exc> <errs>             parser outcome: raises exc after appending errs
       pd <k> <S> <N> <W> <T> <F>                   behaviours of ParsedDocstring k
       ty <k> <M> <S>                               ParsedTypeDocstring built from field body k
       nt <k> <u:text>                              text of the node tree of field body k (default empty)
       plain <N> <W> <T>                            ParsedPlaintextDocstring.to_node / walk / toc (default)
       plainfor <u:text> <N> <W> <T>                same, for that text only
       xo <id> <isAttribute 0/1> <annotation k|-> <constant k|-> <signature -|S> <bases csv|-> <decorators csv|->
op:    e:<obj> ensure_parsed_docstring   d:<obj> format_docstring   s:<obj> format_summary
       t:<obj> format_toc                x:<obj> extract_fields     y:<obj> type2stan
       c:<obj> format_constant_value     g:<obj> format_signature   b:<obj> format_class_signature
       r:<obj> format_decorators         q:<obj> search.format_docstring

f   e r g n p u (epytext restructuredtext google numpy plaintext unknown)
exc p<n> ParseError | ni NotImplementedError | as AssertionError | o<n> other Exception
S   r<n> to_stan returns stan n | x<exc>          N   r | x<exc>
W   s<k> summary = PD k | n none | x<exc>          T   c<k> contents → PD k | e empty | x<exc>
M   r<warning ids csv|-> | x<exc>                 F   - | csv of <tag 0 plain,1 rtype,2 type,3 ivar>/<body k>/<lineno>[/<arg obj|->]
errs  - | `;`-joined <descr n>/<line|n>/<fatal 0/1>
```
Answer: `ok <out> ; <out> … | E <sec>.<obj>,… | R <obj>.<sec>.<descr>.<offset>,… | P <sec>.<obj>.<p|r>,… | M <0|1> | O <id>=<parsed>/<summary>/<parsed_type> …`
-/
namespace Docstring

def parseFmt : String → Option Docformat
  | "e" => some .epytext | "r" => some .restructuredtext | "g" => some .google
  | "n" => some .numpy | "p" => some .plaintext | "u" => some .unknown | _ => none

def parseExc (s : String) : Option Exc :=
  if s == "ni" then some .notImplemented
  else if s == "as" then some .assertion
  else if s.startsWith "p" then ((s.drop 1).toString.toNat?).map Exc.parseError
  else if s.startsWith "o" then ((s.drop 1).toString.toNat?).map Exc.other
  else none

def showExc : Exc → String
  | .parseError n => "p" ++ toString n
  | .notImplemented => "ni"
  | .assertion => "as"
  | .other n => "o" ++ toString n

def parseStanOut (s : String) : Option StanOut :=
  if s.startsWith "r" then ((s.drop 1).toString.toNat?).map fun n => .returns (.opaque n)
  else if s.startsWith "x" then (parseExc (s.drop 1).toString).map .raises
  else none

def parseNodeOut (s : String) : Option NodeOut :=
  if s == "r" then some .returns
  else if s.startsWith "x" then (parseExc (s.drop 1).toString).map .raises
  else none

def parseWalkOut (s : String) : Option WalkOut :=
  if s == "n" then some .nothing
  else if s.startsWith "s" then ((s.drop 1).toString.toNat?).map .summary
  else if s.startsWith "x" then (parseExc (s.drop 1).toString).map .raises
  else none

def parseTocOut (s : String) : Option TocOut :=
  if s == "e" then some .empty
  else if s.startsWith "c" then ((s.drop 1).toString.toNat?).map .contents
  else if s.startsWith "x" then (parseExc (s.drop 1).toString).map .raises
  else none

def parseTypedOut (s : String) : Option TypedOut :=
  if s.startsWith "r" then (Proto.natList (s.drop 1).toString).map .returns
  else if s.startsWith "x" then (parseExc (s.drop 1).toString).map .raises
  else none

def parseTag : String → Option FieldTag
  | "0" => some .plain | "1" => some .rtype | "2" => some .typ | "3" => some .ivar | _ => none

def showTag : FieldTag → String
  | .plain => "0" | .rtype => "1" | .typ => "2" | .ivar => "3"

def parseField (s : String) : Option Field :=
  match s.splitOn "/" with
  | [t, k, l] => do
    let t ← parseTag t
    let k ← k.toNat?
    let l ← l.toNat?
    some ⟨t, none, .user k, l⟩
  | [t, k, l, a] => do
    let t ← parseTag t
    let k ← k.toNat?
    let l ← l.toNat?
    let a ← if a == "-" then some none else a.toNat?.map some
    some ⟨t, a, .user k, l⟩
  | _ => none

def parseFields (s : String) : Option (List Field) :=
  if s == "-" then some [] else (s.splitOn ",").mapM parseField

def parseErr (s : String) : Option Err :=
  match s.splitOn "/" with
  | [d, l, f] => do
    let d ← d.toNat?
    let f ← f.toNat?
    let line ← if l == "n" then some none else l.toNat?.map some
    some ⟨.msg d, line, f != 0⟩
  | _ => none

def parseErrs (s : String) : Option (List Err) :=
  if s == "-" then some [] else (s.splitOn ";").mapM parseErr

def parseOptNat (s : String) : Option (Option Nat) :=
  if s == "-" then some none else s.toNat?.map some

structure PdSpec where
  stan : StanOut
  node : NodeOut
  walk : WalkOut
  toc : TocOut
  fields : List Field

structure TySpec where
  make : TypedOut
  stan : StanOut

inductive ParArg | plain | user (k : Nat)

structure ParSpec where
  fmt : Docformat
  obj : Obj
  ret : Option ParArg      -- none = raises
  exc : Exc
  errs : List Err

structure ObjDecl where
  id : Obj
  parent : Option Obj
  inherited : List Obj
  modfmt : Option Docformat
  st : ObjSt

/-- `xo <id> <isAttribute 0/1> <annotation k|-> <const k|-> <sig -|S> <bases csv|-> <decorators csv|->` -/
structure XDecl where
  id : Obj
  isAttr : Bool
  ann : Option Nat
  const : Nat
  sig : Option StanOut
  bases : List Nat
  decs : List Nat

structure Decls where
  objs : List ObjDecl := []
  pars : List ParSpec := []
  pds : List (Nat × PdSpec) := []
  tys : List (Nat × TySpec) := []
  plainNode : NodeOut := .returns
  plainWalk : WalkOut := .nothing
  plainToc : TocOut := .empty
  plainFor : List (Text × NodeOut × WalkOut × TocOut) := []
  xos : List XDecl := []
  nodeTexts : List (Nat × Text) := []

def lookupPd (d : Decls) (k : Nat) : PdSpec :=
  match d.pds.find? (·.1 == k) with
  | some p => p.2
  | none => ⟨.returns (.opaque k), .returns, .nothing, .empty, []⟩

def lookupTy (d : Decls) (k : Nat) : TySpec :=
  match d.tys.find? (·.1 == k) with
  | some p => p.2
  | none => ⟨.returns [], .returns (.opaque (1000 + k))⟩

def parsePdRef (d : Decls) (s : String) : Option (Option PD) :=
  if s == "N" then some none
  else if s.startsWith "plain:" then (Proto.decodeStr (s.drop 6).toString).map fun t => some (.plain t)
  else if s.startsWith "user:" then
    ((s.drop 5).toString.toNat?).map fun k => some (.user k (lookupPd d k).fields)
  else none

/-- declarations, up to the `ops` keyword; `obj … user:k` needs `pd k` declared before it -/
def parseDecls : Nat → List String → Decls → Option (Decls × List String)
  | 0, _, _ => none
  | _, "ops" :: rest, d => some (d, rest)
  | fuel+1, "obj" :: id :: par :: inh :: mf :: doc :: parsed :: rest, d => do
    let id ← id.toNat?
    let par ← parseOptNat par
    let inh ← Proto.natList inh
    let mf ← if mf == "-" then some none else (parseFmt mf).map some
    let doc ← if doc == "N" then some none else (Proto.decodeStr doc).map some
    let parsed ← parsePdRef d parsed
    parseDecls fuel rest { d with objs := d.objs ++ [⟨id, par, inh, mf, ⟨doc, parsed, none, none⟩⟩] }
  | fuel+1, "xo" :: id :: a :: ann :: c :: sg :: bs :: ds :: rest, d => do
    let id ← id.toNat?
    let ann ← parseOptNat ann
    let c ← parseOptNat c
    let sg ← if sg == "-" then some none else (parseStanOut sg).map some
    let bs ← Proto.natList bs
    let ds ← Proto.natList ds
    parseDecls fuel rest { d with xos := d.xos ++ [⟨id, a == "1", ann, c.getD 0, sg, bs, ds⟩] }
  | fuel+1, "par" :: f :: o :: "ret" :: arg :: errs :: rest, d => do
    let f ← parseFmt f
    let o ← o.toNat?
    let errs ← parseErrs errs
    let arg ← if arg == "plain" then some ParArg.plain
              else if arg.startsWith "user:" then ((arg.drop 5).toString.toNat?).map ParArg.user else none
    parseDecls fuel rest { d with pars := d.pars ++ [⟨f, o, some arg, .assertion, errs⟩] }
  | fuel+1, "par" :: f :: o :: "raise" :: e :: errs :: rest, d => do
    let f ← parseFmt f
    let o ← o.toNat?
    let errs ← parseErrs errs
    let e ← parseExc e
    parseDecls fuel rest { d with pars := d.pars ++ [⟨f, o, none, e, errs⟩] }
  | fuel+1, "pd" :: k :: s :: n :: w :: t :: f :: rest, d => do
    let k ← k.toNat?
    let s ← parseStanOut s
    let n ← parseNodeOut n
    let w ← parseWalkOut w
    let t ← parseTocOut t
    let f ← parseFields f
    parseDecls fuel rest { d with pds := d.pds ++ [(k, ⟨s, n, w, t, f⟩)] }
  | fuel+1, "ty" :: k :: m :: s :: rest, d => do
    let k ← k.toNat?
    let m ← parseTypedOut m
    let s ← parseStanOut s
    parseDecls fuel rest { d with tys := d.tys ++ [(k, ⟨m, s⟩)] }
  | fuel+1, "plain" :: n :: w :: t :: rest, d => do
    let n ← parseNodeOut n
    let w ← parseWalkOut w
    let t ← parseTocOut t
    parseDecls fuel rest { d with plainNode := n, plainWalk := w, plainToc := t }
  | fuel+1, "nt" :: k :: x :: rest, d => do
    let k ← k.toNat?
    let x ← Proto.decodeStr x
    parseDecls fuel rest { d with nodeTexts := d.nodeTexts ++ [(k, x)] }
  | fuel+1, "plainfor" :: x :: n :: w :: t :: rest, d => do
    let x ← Proto.decodeStr x
    let n ← parseNodeOut n
    let w ← parseWalkOut w
    let t ← parseTocOut t
    parseDecls fuel rest { d with plainFor := d.plainFor ++ [(x, n, w, t)] }
  | _, _, _ => none

def plainSpec (d : Decls) (t : Text) : NodeOut × WalkOut × TocOut :=
  match d.plainFor.find? (·.1 == t) with
  | some p => p.2
  | none => (d.plainNode, d.plainWalk, d.plainToc)

def parseOp (s : String) : Option (XOp × Obj) :=
  match s.splitOn ":" with
  | [o, n] => do
    let n ← n.toNat?
    let o ← match o with
      | "e" => some (XOp.core .ensure) | "d" => some (XOp.core .doc) | "s" => some (XOp.core .summary)
      | "t" => some (XOp.core .toc) | "x" => some (XOp.core .extract)
      | "y" => some XOp.typ | "c" => some XOp.const | "g" => some XOp.sig
      | "b" => some XOp.classSig | "r" => some XOp.decorators | "q" => some XOp.search
      | _ => none
    some (o, n)
  | _ => none

def mkEnv (pt : Bool) (td : Nat) (sys : Docformat) (d : Decls) : Env where
  processtypes := pt
  tocDepth := td
  systemDocformat := sys
  moduleDocformat := fun o => match d.objs.find? (·.id == o) with | some x => x.modfmt | none => none
  parent := fun o => match d.objs.find? (·.id == o) with | some x => x.parent | none => none
  inherited := fun o => match d.objs.find? (·.id == o) with | some x => x.inherited | none => []
  parser := fun f o doc =>
    match d.pars.find? (fun p => p.fmt == f && p.obj == o) with
    | none => .returns (.plain doc) []
    | some p =>
      match p.ret with
      | some .plain => .returns (.plain doc) p.errs
      | some (.user k) => .returns (.user k (lookupPd d k).fields) p.errs
      | none => .raises p.errs p.exc
  toStan := fun k => (lookupPd d k).stan
  typedToStan := fun k => (lookupTy d k).stan
  toNode := fun k => (lookupPd d k).node
  plainToNode := fun t => (plainSpec d t).1
  mkTyped := fun k _ => (lookupTy d k).make
  walk := fun pd => match pd with
    | .user k _ => (lookupPd d k).walk
    | .plain t => (plainSpec d t).2.1
    | .stanOnly _ => .nothing
  buildToc := fun pd _ => match pd with
    | .user k _ => (lookupPd d k).toc
    | .plain t => (plainSpec d t).2.2
    | .stanOnly _ => .empty
  nodeText := fun k => match d.nodeTexts.find? (·.1 == k) with | some p => p.2 | none => []
  isAttribute := fun o => match d.xos.find? (·.id == o) with | some x => x.isAttr | none => false
  annotation := fun o => match d.xos.find? (·.id == o) with | some x => x.ann | none => none
  constPd := fun o => match d.xos.find? (·.id == o) with | some x => x.const | none => 0
  sigOut := fun o => match d.xos.find? (·.id == o) with | some x => x.sig | none => none
  bases := fun o => match d.xos.find? (·.id == o) with | some x => x.bases | none => []
  decorators := fun o => match d.xos.find? (·.id == o) with | some x => x.decs | none => []

def mkSt (d : Decls) : St where
  objs := fun o => match d.objs.find? (·.id == o) with | some x => x.st | none => ⟨none, none, none, none⟩
  errors := []
  reports := []
  importMsg := false
  reported := []

def showStan : Stan → String
  | .pre t => "pre:" ++ Proto.encodeStr t
  | .broken => "broken"
  | .undocumented => "undoc"
  | .undocSummary => "undocsum"
  | .brokenSummary => "brokensum"
  | .noSummary => "nosum"
  | .opaque n => "o" ++ toString n
  | .code => "code"
  | .sigBroken => "sigbroken"

def showBody : Body → String
  | .user k => "u" ++ toString k
  | .typed k => "t" ++ toString k

def showField (f : Field) : String :=
  showTag f.tag ++ "/" ++ showBody f.body ++ "/" ++ toString f.lineno

def showPd : Option PD → String
  | none => "N"
  | some (.plain t) => "plain:" ++ Proto.encodeStr t
  | some (.stanOnly s) => "so:" ++ showStan s
  | some (.user k fs) =>
    "user" ++ toString k ++ "[" ++ (if fs.isEmpty then "-" else ";".intercalate (fs.map showField)) ++ "]"

def showOptNat : Option Nat → String
  | some n => toString n
  | none => "N"

def showOut : Out → String
  | .ensure s => "src=" ++ showOptNat s
  | .doc (.ok d) => "doc=" ++ showStan d.body ++ "[" ++ ",".intercalate (d.fields.map showStan) ++ "]"
  | .doc (.raises e) => "raise:" ++ showExc e
  | .summary (.ok s) => "sum=" ++ showStan s
  | .summary (.raises e) => "raise:" ++ showExc e
  | .toc (.ok none) => "toc=N"
  | .toc (.ok (some s)) => "toc=" ++ showStan s
  | .toc (.raises e) => "raise:" ++ showExc e
  | .extract (.ok _) => "ext=ok"
  | .extract (.raises e) => "raise:" ++ showExc e

def showRes {α : Type} (f : α → String) : Res α → String
  | .ok a => f a
  | .raises e => "raise:" ++ showExc e

def showXOut : XOut → String
  | .core o => showOut o
  | .typ r => showRes (fun o => match o with | none => "typ=N" | some s => "typ=" ++ showStan s) r
  | .stan r => showRes (fun s => "st=" ++ showStan s) r
  | .stans r => showRes (fun l => "sts=[" ++ ",".intercalate (l.map showStan) ++ "]") r
  | .search r => showRes (fun o => match o with
      | .none => "srch=N" | .nodeText => "srch=text"
      | .docstring none => "srch=N" | .docstring (some _) => "srch=text") r

def showPType : Option Body → String
  | none => "N"
  | some b => showBody b

def showDescr : Descr → String
  | .msg n => "m" ++ toString n
  | .exc e => "x" ++ showExc e

def showReport (r : Report) : String :=
  toString r.obj ++ "." ++ toString r.sec ++ "." ++ showDescr r.descr ++ "." ++ toString r.offset

def pairLe (a b : Sec × Obj) : Bool := a.1 < b.1 || (a.1 == b.1 && a.2 ≤ b.2)

def phaseNum : Phase → Nat | .parsing => 0 | .rendering => 1

def keyLe (a b : Sec × Obj × Phase) : Bool :=
  a.1 < b.1 || (a.1 == b.1 && (a.2.1 < b.2.1 || (a.2.1 == b.2.1 && phaseNum a.2.2 ≤ phaseNum b.2.2)))

def showList (l : List String) : String := if l.isEmpty then "-" else ",".intercalate l

def kv (key : String) (tok : String) : Option String :=
  if tok.startsWith (key ++ "=") then some (tok.drop (key.length + 1)).toString else none

def handle (args : List String) : String :=
  match args with
  | "slug" :: "U" :: rest =>
    let us := rest.takeWhile (· != "C")
    let cs := (rest.dropWhile (· != "C")).drop 1
    match us.mapM Proto.decodeStr, cs.mapM Proto.decodeStr with
    | some used, some cands =>
      (match slugLoop (fun i => cands.getD i []) used cands.length 0 with
       | some s => "ok " ++ Proto.encodeStr s
       | none => "loops")
    | _, _ => "bad-op"
  | ["signal", errs] =>
    match parseErrs errs with
    | some es =>
      (match epytextSignal es with
       | none => "ok return"
       | some e => "ok raise " ++ showDescr e.descr)
    | none => "bad-op"
  | "run" :: pt :: td :: sys :: rest =>
    match kv "pt" pt, (kv "td" td).bind (·.toNat?), (kv "sys" sys).bind parseFmt,
          parseDecls (rest.length + 2) rest {} with
    | some pt, some td, some sys, some (d, ops) =>
      match ops.mapM parseOp with
      | none => "bad-op"
      | some ops =>
        let env := mkEnv (pt == "1") td sys d
        let r := xrun env (mkSt d) ops
        let st := r.2
        "ok " ++ " ; ".intercalate (r.1.map showXOut)
          ++ " | E " ++ showList ((st.errors.mergeSort pairLe).map fun p => toString p.1 ++ "." ++ toString p.2)
          ++ " | R " ++ showList (st.reports.map showReport)
          ++ " | P " ++ showList ((st.reported.mergeSort keyLe).map fun k =>
                toString k.1 ++ "." ++ toString k.2.1 ++ "." ++ (if k.2.2 == .parsing then "p" else "r"))
          ++ " | M " ++ (if st.importMsg then "1" else "0")
          ++ " | O " ++ " ".intercalate (d.objs.map fun o =>
                toString o.id ++ "=" ++ showPd (st.objs o.id).parsed ++ "/" ++ showPd (st.objs o.id).parsedSummary
                  ++ "/" ++ showPType (st.objs o.id).ptype)
    | _, _, _, _ => "bad-op"
  | _ => "bad-op"

end Docstring
